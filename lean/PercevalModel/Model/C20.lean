/-
  C20 — catalog gates and converted gate circuits implement their logical operation.

  Logical layer (ring-polymorphic, executable at `GQ`):
    * dual-rail encoding `|0⟩ = |1,0⟩`, `|1⟩ = |0,1⟩` of a logical basis state on a processor
      `Layout` (first mode of every qubit's pair, heralds with their values);
    * `gateAmp` / `gateTable`: the `pamp` amplitude between two encoded logical basis states, heralds
      satisfied (by construction of `encode`) and post-selection true on the output;
    * `Implements G A := ∃ c, A = c • G` — `A` is the gate `G` up to one scalar (global phase times
      the square root of the success probability);
    * `leak`: probability of the selected (heralds + post-selection) but *non-logical* outputs;
    * `fitScalar`, `dev2`: the per-instance validation quantities evaluated exactly by the driver.
    * evaluation: `permSkip` (Laplace expansion skipping zeros, proved `= Matrix.permanent` in
      `Lemmas/C20.lean`) up to six photons; `permRyser` (Ryser's formula, executable only, NOT proved) beyond —
      the driver compares the two on every instance up to six photons.

  Converter layer (the bookkeeping of `perceval/converters/abstract_converter.py` and
  `converter_utils.py`, as the code is):
    * `createModeMap`   = `_create_mode_map`
    * `swapPerm`        = the `SWAP` branch of `_create_2_qubit_gates_from_catalog`
    * `combos`, `findMaxRalph`, `assign`, `labelCnots` = `_find_max_ralph_pairs`,
      `_gate_list_optimized_cnots`, `label_cnots_in_gate_sequence`.
      `_is_cyclic` (a DFS) is modelled *extensionally* by `forestB`: a multigraph is acyclic iff every
      non-empty sub-multiset of its edges has a vertex of degree exactly one (a leaf).  The DFS and
      this criterion are compared exhaustively by the correspondence; the theorems are about `Forest`.
    * `condAfterSwap fixed`: the post-selection conditions re-applied after a SWAP (`fixed = false` as pinned:
      unchanged; `fixed = true` repaired, `fixes/C20-swap-moves-postselection.diff`: they follow the photons).
    * `qubitList`, `operandIndex`, `qubitNames` = `CQASMConverter._collect_qubit_list`,
      `_operand_to_qubit_indices` (`list.index`), `_get_qubit_names`.
    * `labelCnots fixed`: `fixed = false` is the code as pinned (only CNOTs enter the interaction graph),
      `fixed = true` the repaired labelling (`fixes/C20-label-all-2q-gates.diff`): the qubit pairs of
      the other two-qubit gates (CZ, SWAP, …) are edges that are always present.
-/
import Mathlib.Data.List.Sublists
import Batteries.Data.List.Perm
import PercevalModel.Found.Fock
import PercevalModel.Found.SimSpec
import PercevalModel.Lemmas.Permanent

open Matrix

namespace PM.C20
open PM.Fock PM.SimSpec

/-! ## Logical layer -/

/-- where the qubits and the heralds of a processor live -/
structure Layout where
  m : ℕ
  qubits : List ℕ            -- first mode of each dual-rail pair, qubit 0 first
  heralds : List (ℕ × ℕ)     -- (mode, expected photon count)
deriving Repr

/-- one photon on `p` for `|0⟩`, on `p + 1` for `|1⟩` -/
def rail (p : ℕ) (b : Bool) : ℕ := if b then p + 1 else p

/-- Fock state of a logical basis state: qubit `k` in `|b⟩` puts one photon on its rail, every
herald mode carries its declared value, everything else is empty -/
def encode (L : Layout) (bits : List Bool) : List ℕ :=
  let s1 := (L.qubits.zip bits).foldl (fun s p => s.set (rail p.1 p.2) 1) (List.replicate L.m 0)
  L.heralds.foldl (fun s h => s.set h.1 h.2) s1

/-- logical basis of `q` qubits, qubit 0 most significant (`00, 01, 10, 11`) -/
def basis : ℕ → List (List Bool)
  | 0 => [[]]
  | q + 1 => (basis q).map (false :: ·) ++ (basis q).map (true :: ·)

/-- the layout is sane: pairs and heralds inside the circuit, pairwise disjoint, together all modes -/
def Layout.ok (L : Layout) : Bool :=
  let used := L.qubits.flatMap (fun p => [p, p + 1]) ++ L.heralds.map (·.1)
  used.all (· < L.m) && used.Nodup && used.length == L.m

variable {R : Type*}

/-- amplitude (un-normalised permanent) from logical input `bi` to logical output `bo`, zero when the
output is rejected by the post-selection.  For herald values `≤ 1` (all catalog gates) this *is* the
documented amplitude; in general the normalisation `∏ hᵢ!` is one constant for the whole table. -/
def gateAmp [CommRing R] {m : ℕ} (U : Matrix (Fin m) (Fin m) R) (L : Layout) (ps : PS)
    (bo bi : List Bool) : R :=
  if ps.eval (encode L bo) then pamp U (encode L bi) (encode L bo) else 0

/-- the logical table `A[out, in]` indexed by positions in `basis q` -/
def gateTable [CommRing R] {m : ℕ} (U : Matrix (Fin m) (Fin m) R) (L : Layout) (ps : PS) :
    Matrix (Fin (basis L.qubits.length).length) (Fin (basis L.qubits.length).length) R :=
  fun i j => gateAmp U L ps ((basis L.qubits.length).getD i.val []) ((basis L.qubits.length).getD j.val [])

/-- `A` is `G` up to one scalar: same relative phases, and (for unitary `G`) the same success
probability `|c|²` on every input -/
def Implements [CommRing R] {n : Type*} (G A : Matrix n n R) : Prop := ∃ c : R, A = c • G

/-! ### executable evaluation: Laplace expansion that skips zero entries -/

/-- `permRec` of `Lemmas/Permanent.lean` without descending below a zero entry -/
def permSkip [CommRing R] [DecidableEq R] (f : ℕ → ℕ → R) : List ℕ → List ℕ → R
  | _, [] => 1
  | rows, c :: cs =>
    ((List.range rows.length).map fun i =>
      let a := f (rows.getD i 0) c
      if a = 0 then 0 else a * permSkip f (rows.eraseIdx i) cs).sum

def fastAmp [CommRing R] [DecidableEq R] {m : ℕ} (U : Matrix (Fin m) (Fin m) R) (s t : List ℕ) : R :=
  if s.sum = t.sum then permSkip (entry U) (expand t) (expand s) else 0

def fastGateAmp [CommRing R] [DecidableEq R] {m : ℕ} (U : Matrix (Fin m) (Fin m) R) (L : Layout)
    (ps : PS) (bo bi : List Bool) : R :=
  if ps.eval (encode L bo) then fastAmp U (encode L bi) (encode L bo) else 0

/-! ### Ryser's formula (executable only, *not* proved equal to the permanent): used by the driver for
more than six photons, and compared by the driver with `permSkip` (proved) on every smaller instance -/

def ryserGo [CommRing R] : List (List R) → List R → R → R
  | [], sums, sign => sign * sums.prod
  | col :: cols, sums, sign =>
    ryserGo cols sums sign + ryserGo cols (List.zipWith (· + ·) sums col) (-sign)

/-- `(-1)ⁿ ∑_{S ⊆ cols} (-1)^{|S|} ∏_{r ∈ rows} ∑_{c ∈ S} f r c` -/
def permRyser [CommRing R] (f : ℕ → ℕ → R) (rows cols : List ℕ) : R :=
  (-1) ^ cols.length *
    ryserGo (cols.map fun c => rows.map fun r => f r c) (List.replicate rows.length 0) 1

def ryserAmp [CommRing R] {m : ℕ} (U : Matrix (Fin m) (Fin m) R) (s t : List ℕ) : R :=
  if s.sum = t.sum then permRyser (entry U) (expand t) (expand s) else 0

/-- `gateAmp` evaluated with Ryser's formula (validated, not proved) -/
def ryserGateAmp [CommRing R] {m : ℕ} (U : Matrix (Fin m) (Fin m) R) (L : Layout)
    (ps : PS) (bo bi : List Bool) : R :=
  if ps.eval (encode L bo) then ryserAmp U (encode L bi) (encode L bo) else 0

/-- amplitude evaluation chosen by the driver: the proved Laplace evaluation up to six photons,
Ryser's formula beyond -/
def evalAmp {m : ℕ} (U : Matrix (Fin m) (Fin m) GQ) (s t : List ℕ) : GQ :=
  if s.sum ≤ 6 then fastAmp U s t else ryserAmp U s t

/-! ### leakage: selected outputs that are not logical -/

/-- the photons found on the qubit pairs of `t` -/
def pairCounts (L : Layout) (t : List ℕ) : List ℕ := L.qubits.map fun p => t.getD p 0 + t.getD (p + 1) 0

def isLogical (L : Layout) (t : List ℕ) : Bool := (pairCounts L t).all (· == 1)

/-- all outputs with the heralds satisfied and `q` photons on the qubit modes -/
def heraldedOutputs (L : Layout) : List (List ℕ) :=
  let q := L.qubits.length
  let qm := L.qubits.flatMap (fun p => [p, p + 1])
  (allStates (2 * q) q).map fun qs =>
    let s1 := (qm.zip qs).foldl (fun s p => s.set p.1 p.2) (List.replicate L.m 0)
    L.heralds.foldl (fun s h => s.set h.1 h.2) s1

/-- total probability, from logical input `bi`, of outputs that pass heralds and post-selection but are
not logical basis states (normalised by the common herald factorial of the input) -/
def leak {m : ℕ} (U : Matrix (Fin m) (Fin m) GQ) (L : Layout) (ps : PS) (bi : List Bool) : ℚ :=
  let s := encode L bi
  (((heraldedOutputs L).filter fun t => !isLogical L t && ps.eval t).map fun t =>
    GQ.normSq (evalAmp U s t) / ((prodFact s : ℚ) * (prodFact t : ℚ))).sum

/-! ### per-instance validation at `GQ` -/

def gqInv (z : GQ) : GQ := let n := GQ.normSq z; ⟨z.re / n, -z.im / n⟩

/-- position of the entry of largest modulus of `G` (first one) -/
def argMax (G : List (List GQ)) : ℕ × ℕ :=
  let idx := (List.range G.length).flatMap fun i => (List.range (G.getD i []).length).map fun j => (i, j)
  idx.foldl (fun best p =>
    if GQ.normSq ((G.getD p.1 []).getD p.2 0) > GQ.normSq ((G.getD best.1 []).getD best.2 0) then p
    else best) (0, 0)

/-- the scalar `c = A[i,j] / G[i,j]` at the largest entry of `G` -/
def fitScalar (A G : List (List GQ)) : GQ :=
  let p := argMax G
  (A.getD p.1 []).getD p.2 0 * gqInv ((G.getD p.1 []).getD p.2 0)

/-- `max |A − c·G|²` over all entries -/
def dev2 (A G : List (List GQ)) (c : GQ) : ℚ :=
  ((A.zip G).flatMap fun r => (r.1.zip r.2).map fun e => GQ.normSq (e.1 - c * e.2)).foldl max 0

/-! ## Converter layer -/

/-- `_create_mode_map(c_idx, c_data)`: converted-processor mode ↦ gate mode -/
def createModeMap (cIdx cData : ℕ) : List (ℕ × ℕ) :=
  [(cIdx, 0), (cIdx + 1, 1), (cData, 2), (cData + 1, 3)]

/-- python `perm[i] = v` on a list: `IndexError` (here `none`) when out of range -/
def setIdx (l : List ℕ) (i v : ℕ) : Option (List ℕ) := if i < l.length then some (l.set i v) else none

/-- the `SWAP` branch: `(c_first, perm)` with
`perm = range(2n); perm[0] = c_last - c_first; perm[1] = perm[0] + 1; perm[perm[0]] = 0; perm[perm[1]] = 1` -/
def swapPerm (cIdx cData : ℕ) : Option (ℕ × List ℕ) := do
  let cFirst := min cIdx cData
  let cLast := max cIdx cData
  let n := (cLast - cFirst) / 2 + 1
  let p0 := List.range (n * 2)
  let p1 ← setIdx p0 0 (cLast - cFirst)
  let p2 ← setIdx p1 1 (p1.getD 0 0 + 1)
  let p3 ← setIdx p2 (p2.getD 0 0) 0
  let p4 ← setIdx p3 (p3.getD 1 0) 1
  return (cFirst, p4)

/-- where the light entering global mode `j` leaves, for a `PERM(perm)` placed at offset `off`
(`PERM`: input mode `i` goes to `perm[i]`) -/
def permTarget (off : ℕ) (perm : List ℕ) (j : ℕ) : ℕ :=
  if off ≤ j ∧ j < off + perm.length then off + perm.getD (j - off) 0 else j

/-- exchange of the dual-rail pairs of qubits `a` and `b` -/
def swapPairs (a b j : ℕ) : ℕ :=
  if j = 2 * a then 2 * b else if j = 2 * a + 1 then 2 * b + 1
  else if j = 2 * b then 2 * a else if j = 2 * b + 1 then 2 * a + 1 else j

/-! ### post-selection conditions carried across a SWAP
    (`_create_2_qubit_gates_from_catalog` saves the processor's post-selection, clears it, adds the gate and
    re-applies the saved conditions) -/

/-- a post-selection condition counts the photons on a list of modes -/
abbrev Cond := List ℕ

/-- photons a Fock state (mode ↦ count) has on the modes of a condition -/
def condCount (t : ℕ → ℕ) (c : Cond) : ℕ := (c.map t).sum

/-- the Fock state behind the SWAP of qubits `a` and `b`: mode `j` now holds what `swapPairs a b j` held -/
def moveState (a b : ℕ) (t : ℕ → ℕ) : ℕ → ℕ := fun j => t (swapPairs a b j)

/-- the condition that is re-applied after a SWAP.  `fixed = false`: the code as pinned (the saved condition,
unchanged); `fixed = true`: repaired (`fixes/C20-swap-moves-postselection.diff`,
`PostSelect.apply_permutation`): the condition moves with the photons. -/
def condAfterSwap (fixed : Bool) (a b : ℕ) (c : Cond) : Cond :=
  if fixed then c.map (swapPairs a b) else c

/-! ### CNOT labelling -/

abbrev Edge := ℕ × ℕ

/-- degree of vertex `v` in a multiset of edges (a self-loop counts twice) -/
def deg (v : ℕ) (S : List Edge) : ℕ :=
  (S.map fun e => (if e.1 = v then 1 else 0) + (if e.2 = v then 1 else 0)).sum

/-- a multigraph given by a list of edges is a forest: every non-empty sub-multiset of its edges has a
leaf (a cycle, a pair of parallel edges or a self-loop is a sub-multiset all of whose degrees are ≥ 2) -/
def Forest (E : List Edge) : Prop :=
  ∀ S : List Edge, S.Subperm E → S ≠ [] → ∃ v, deg v S = 1

def verts (S : List Edge) : List ℕ := S.flatMap fun e => [e.1, e.2]

/-- executable form (`= not _is_cyclic(adjacency of E)`), see `forestB_iff` -/
def forestB (E : List Edge) : Bool :=
  E.sublists'.all fun S => S.isEmpty || (verts S).any fun v => deg v S == 1

/-- `itertools.combinations(l, r)` in its order -/
def combos : ℕ → List Edge → List (List Edge)
  | 0, _ => [[]]
  | _ + 1, [] => []
  | r + 1, x :: xs => (combos r xs).map (x :: ·) ++ combos (r + 1) xs

/-- all candidate subsets in the order the code tries them: `r = 1 … len`, combinations order -/
def candidates (pairs : List Edge) : List (List Edge) :=
  (List.range pairs.length).flatMap fun r => combos (r + 1) pairs

/-- `_find_max_ralph_pairs(pairs)` with `extra` edges that are always part of the graph
(`extra = []` is the code as pinned): first strictly larger acyclic candidate wins -/
def findMaxRalph (pairs extra : List Edge) : List Edge :=
  (candidates pairs).foldl
    (fun best S => if forestB (S ++ extra) && decide (S.length > best.length) then S else best) []

/-- the labelling loop over the reversed CNOT list: `true` = post-processed; a chosen pair is consumed -/
def assign : List Edge → List Edge → List Bool
  | [], _ => []
  | x :: xs, R => if x ∈ R then true :: assign xs (R.erase x) else false :: assign xs R

/-- the pairs that `assign` labels post-processed, in order -/
def chosen : List Edge → List Edge → List Edge
  | [], _ => []
  | x :: xs, R => if x ∈ R then x :: chosen xs (R.erase x) else chosen xs R

/-- a gate of the sequence: name and qubit positions (two-qubit gates: `(ctrl, data)`) -/
structure Gate where
  name : String
  qubits : List ℕ
deriving Repr, DecidableEq

def isCnot (g : Gate) : Bool := g.name.toUpper == "CX" || g.name.toUpper == "CNOT"

def edgeOf (g : Gate) : Edge := (g.qubits.getD 0 0, g.qubits.getD 1 0)

def cnotPairs (gs : List Gate) : List Edge := (gs.filter isCnot).map edgeOf

/-- qubit pairs of the two-qubit gates that are not CNOTs (CZ, CSIGN, SWAP, …) -/
def otherPairs (gs : List Gate) : List Edge :=
  (gs.filter fun g => !isCnot g && g.qubits.length == 2).map edgeOf

/-- the always-present edges: none in the pinned code, the other two-qubit gates in the repaired one -/
def extraEdges (fixed : Bool) (gs : List Gate) : List Edge := if fixed then otherPairs gs else []

/-- `_gate_list_optimized_cnots`: post-processed flag of every CNOT, in circuit order -/
def cnotFlags (fixed : Bool) (gs : List Gate) : List Bool :=
  let rev := (cnotPairs gs).reverse
  (assign rev (findMaxRalph rev (extraEdges fixed gs))).reverse

/-- the post-processed CNOT pairs (in reversed circuit order) -/
def ppPairs (fixed : Bool) (gs : List Gate) : List Edge :=
  let rev := (cnotPairs gs).reverse
  chosen rev (findMaxRalph rev (extraEdges fixed gs))

/-- replace the names of the CNOTs by their labels, keep every other name -/
def relabel : List Gate → List Bool → List String
  | [], _ => []
  | g :: gs, flags =>
    if isCnot g then
      match flags with
      | f :: fs => (if f then "postprocessed cnot" else "heralded cnot") :: relabel gs fs
      | [] => g.name :: relabel gs []      -- unreachable: one flag per CNOT (`cnotFlags_length`)
    else g.name :: relabel gs flags

/-- `label_cnots_in_gate_sequence` -/
def labelCnots (fixed : Bool) (gs : List Gate) : List String := relabel gs (cnotFlags fixed gs)


/-- `itertools.product(pairs, repeat=k)` in its order -/
def allSeqs (pairs : List Edge) : ℕ → List (List Edge)
  | 0 => [[]]
  | k + 1 => pairs.flatMap fun e => (allSeqs pairs k).map (e :: ·)

/-- all ordered pairs of distinct qubits below `nq`, in `[(a, b) for a … for b … if a != b]` order -/
def orderedPairs (nq : ℕ) : List Edge :=
  (List.range nq).flatMap fun a => ((List.range nq).filter (· != a)).map fun b => (a, b)

/-- flags of a pure CNOT sequence as a `0/1` string -/
def flagString (fixed : Bool) (seq : List Edge) : String :=
  String.ofList ((cnotFlags fixed (seq.map fun e => ⟨"cx", [e.1, e.2]⟩)).map fun b => if b then '1' else '0')

/-! ### dispatch of `_generate_converted_processor` / `_create_2_qubit_gates_from_catalog` -/

/-- what a labelled two-qubit gate name becomes (`use_postselection = ups`) -/
def twoQubitKind (ups : Bool) (label : String) : String :=
  let g := label.toUpper
  if g == "POSTPROCESSED CNOT" || g == "HERALDED CNOT" then
    if ups && g == "POSTPROCESSED CNOT" then "PostProcessed CNOT" else "Heralded CNOT"
  else if g == "CSIGN" || g == "CZ" then "Heralded CZ"
  else if g == "SWAP" then "PERM"
  else "rejected:UnknownGateError"

/-- component kind of every gate, in order; conversion stops at the first rejected gate -/
def planKinds (ups : Bool) : List Gate → List String → List String
  | [], _ => []
  | _, [] => []
  | g :: gs, l :: ls =>
    if g.qubits.length == 1 then "1q" :: planKinds ups gs ls
    else if g.qubits.length > 2 then ["rejected:NotImplementedError"]
    else
      let k := twoQubitKind ups l
      if k.startsWith "rejected" then [k] else k :: planKinds ups gs ls

/-- herald values appended after the `2q` qubit modes, in order of the gates -/
def planHeralds (kinds : List String) : List ℕ :=
  kinds.flatMap fun k =>
    if k == "Heralded CNOT" || k == "Heralded CZ" then [1, 1]
    else if k == "PostProcessed CNOT" then [0, 0] else []

/-! ### cQASM front-end: declared qubit variables → qubit indices
    (`CQASMConverter._collect_qubit_list`, `_operand_to_qubit_indices`, `_get_qubit_names`) -/

/-- a declared variable: `qubit[k] name` is `⟨name, some k⟩`, `qubit name` is `⟨name, none⟩` -/
structure Decl where
  name : String
  size : Option ℕ
deriving Repr, DecidableEq

/-- the entries one declaration appends to `_qubit_list`: `(name, i)` for an array, `(name, -1)` for a
single qubit -/
def declQubits (d : Decl) : List (String × ℤ) :=
  match d.size with
  | some k => (List.range k).map fun i => (d.name, Int.ofNat i)
  | none => [(d.name, -1)]

/-- number of qubits a declaration contributes -/
def declWidth (d : Decl) : ℕ := d.size.getD 1

/-- `_collect_qubit_list`: qubit `k` of the processor is the `k`-th entry, declaration order -/
def qubitList (ds : List Decl) : List (String × ℤ) := ds.flatMap declQubits

/-- `_operand_to_qubit_indices` for one reference (`name[i]` is `(name, i)`, a bare `name` is `(name, -1)`):
`list.index`, a `ValueError` (`none`) when the reference names no declared qubit -/
def operandIndex (ds : List Decl) (ref : String × ℤ) : Option ℕ :=
  if ref ∈ qubitList ds then some ((qubitList ds).idxOf ref) else none

/-- `_get_qubit_names`: the port name of every qubit -/
def qubitNames (ds : List Decl) : List String :=
  (qubitList ds).map fun q => if q.2 ≥ 0 then q.1 ++ "[" ++ toString q.2 ++ "]" else q.1

end PM.C20
