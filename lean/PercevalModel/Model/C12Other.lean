/-
  C12 — two of the NON-universal blocks `Circuit.decomposition` accepts, as they are built, and the equation
  `decompose_triangle` hands to the solver for them (`cU_inv[0,0]·u[n,j] + cU_inv[0,1]·u[n+1,j]`, `Model/C12Block.lean`):

  * `BS(theta)` alone — a `BS.Rx` with its four phases at 0, ONE free parameter;
  * `catalog['mzi phase first']` (`core_catalog/mzi.py: MZIPhaseFirst.build_circuit`):
    `Circuit(2) // (0, PS(phi_a)) // BS(theta=pi/2) // (0, PS(phi_b)) // BS(theta=pi/2)`; free parameters
    `[phi_a, phi_b]` — the phase shifters sit on mode 0 BEFORE the beam splitters, so in `cU_inv` the outer phase
    multiplies the whole first row and cannot help to null anything.

  Same conventions as `Model/C12Block.lean`: any commutative ring, `i`, `c = cos θ/2`, `s = sin θ/2`, `r = cos π/4`,
  `h = 1/2`, `ea = e^{iφ_a}`, `fa = e^{-iφ_a}` …; executable at `GQ` (driver op `blockmat`).  Which pairs `(a, b)` these
  blocks can null is characterised in `Lemmas/C12Other.lean`.
-/
import PercevalModel.Model.C12Block

open Matrix

namespace PM.C12

variable {R : Type}

/-- `cU_inv` of `BS(theta)` alone -/
def bsRxInv [CommRing R] (i c s : R) : Matrix (Fin 2) (Fin 2) R := !![c, -(i * s); -(i * s), c]

/-- `catalog['mzi phase first']` as built: `PS(phi_a)` on mode 0, `BS`, `PS(phi_b)` on mode 0, `BS` (the first
component of the circuit is the rightmost factor) -/
def mziFirst [CommRing R] (i r ea eb : R) : Matrix (Fin 2) (Fin 2) R :=
  bsRx i r r * (psTop eb * (bsRx i r r * psTop ea))

/-- closed form of `mziFirst` (`h = r² = 1/2`) -/
def mziFirstMat [CommRing R] (i h ea eb : R) : Matrix (Fin 2) (Fin 2) R :=
  !![ea * (h * (eb - 1)), i * h * (eb + 1); ea * (i * h * (eb + 1)), h * (1 - eb)]

/-- `cU_inv` of `catalog['mzi phase first']` (`fa = e^{-iφ_a}`, `fb = e^{-iφ_b}`): `fa` multiplies the whole first row -/
def mziFirstInv [CommRing R] (i h fa fb : R) : Matrix (Fin 2) (Fin 2) R :=
  !![fa * (h * (fb - 1)), -(fa * (i * h * (fb + 1))); -(i * h * (fb + 1)), h * (1 - fb)]

end PM.C12
