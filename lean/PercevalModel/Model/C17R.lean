/-
  C17, second extension — two more layers of `perceval/runtime/remote_job.py` / `job.py` around the
  state machine of `Model/C17.lean`:

  PART R — result retrieval as the code does it (`Job.get_results` + `RemoteJob._get_results`) on the
  *content* of the server's answer to the results request: `response['results']` (KeyError when the
  key is missing), `json.loads` (TypeError on a non-string, JSONDecodeError — NOT caught by
  `get_results` — on malformed text), the assignment `self._results = …` that comes BEFORE any
  inspection of the value, `"job_context" in self._results` (TypeError on null / a number),
  `'result_mapping' in self._results["job_context"]` (TypeError on a null context), the import of the
  mapping function (ModuleNotFoundError / AttributeError, not caught), `mapping_delta_parameters`
  (default `{}`), the loop over `results_list` (arguments = the delta parameters, each overridden by
  the entry of the same name in the item's `iteration`; `res["iteration"]` is only evaluated when
  there is at least one delta parameter; items are replaced in place, one after the other) or the
  single `results` entry, and the truthiness / `completed` test in front of the cache.

  PART K — every operation of the base machine under the REAL throttle
  (`now - _previous_status_refresh > STATUS_REFRESH_DELAY`) with an explicit clock: each status read of
  an operation happens at its own time (`rerun` and `get_results` may read twice), a job born from
  `rerun` starts with `_previous_status_refresh = 0`.

  Core Lean only.
-/
import PercevalModel.Model.C17

namespace PM.C17

/-! # PART R: results -/

/-- one `results` value: as the server sent it, or what the mapping function made of it
(`mapped v args` = `result_mapping_function(v, **args)`; the function is opaque) -/
inductive RV
  | raw (tok : Nat)
  | mapped (v : RV) (args : List (String × Nat))
  deriving DecidableEq, Repr

/-- one element of `results_list` -/
structure Item where
  res : Option RV                          -- `res['results']` (`none`: no such key)
  iter : Option (List (String × Nat))      -- `res['iteration']` (`none`: no such key)
  deriving DecidableEq, Repr

/-- which function `job_context['result_mapping']` names -/
inductive Fn
  | good          -- an importable function
  | noAttr        -- importable module without that attribute (AttributeError)
  | noModule      -- no such module (ModuleNotFoundError)
  deriving DecidableEq, Repr

/-- the `job_context` entry of a result dictionary -/
inductive Ctx
  | absent                                                -- no `job_context` key
  | null                                                  -- `job_context: null`
  | noMapping                                             -- a dictionary without `result_mapping`
  | mapping (fn : Fn) (deltas : Option (List (String × Nat)))   -- … with it; `mapping_delta_parameters` or not
  deriving DecidableEq, Repr

structure RDict where
  results : Option RV            -- `'results'`
  rlist : Option (List Item)     -- `'results_list'`
  ctx : Ctx
  extra : Bool                   -- some other key is present
  deriving DecidableEq, Repr

/-- the decoded `results` text -/
inductive Payload
  | null
  | num (n : Nat)
  | str (nonempty : Bool)        -- a string without the substring "job_context"
  | list (n : Nat)               -- a list of `n` plain numbers
  | dict (d : RDict)
  deriving DecidableEq, Repr

/-- the server's answer to the results request -/
inductive RBody
  | http (c : Nat)
  | conn
  | noKey                        -- a JSON body without `results` (KeyError)
  | notStr                       -- `results: null` (TypeError of `json.loads`)
  | badJson                      -- `results` is not JSON text (JSONDecodeError)
  | payload (p : Payload)
  deriving DecidableEq, Repr

/-- Python truthiness of what `_results` holds -/
def Payload.truthy : Payload → Bool
  | .null => false
  | .num n => n != 0
  | .str b => b
  | .list n => n != 0
  | .dict d => d.results.isSome || d.rlist.isSome || d.ctx != .absent || d.extra

def truthyVal : Option Payload → Bool
  | some p => p.truthy
  | none => false

/-- exceptions of the results machine -/
inductive RExc
  | base (e : Exc)
  | jsonDecode           -- json.JSONDecodeError (a ValueError: passes through `get_results`)
  | attribute            -- AttributeError of `getattr(module, name)`
  | moduleNotFound       -- ModuleNotFoundError of `__import__`
  deriving DecidableEq, Repr

/-- how `_get_results` ends once `_results` has been assigned -/
inductive POut
  | ok
  | lookup               -- KeyError or TypeError (`get_results` turns both into a RuntimeError)
  | attribute
  | moduleNotFound
  deriving DecidableEq, Repr

/-- `{key: res["iteration"].get(key, val) for key, val in mapping_delta_parameters.items()}` -/
def argsFor (deltas iter : List (String × Nat)) : List (String × Nat) :=
  deltas.map fun kv => (kv.1, (iter.lookup kv.1).getD kv.2)

/-- the loop over `results_list`: items are replaced in place; the first item whose `iteration`
(needed only when there are delta parameters) or `results` is missing stops the loop with a KeyError,
the items before it stay mapped. -/
def mapItems (deltas : List (String × Nat)) : List Item → List Item × Bool
  | [] => ([], true)
  | it :: rest =>
    let args : Option (List (String × Nat)) :=
      if deltas.isEmpty then some []
      else match it.iter with
        | some i => some (argsFor deltas i)
        | none => none
    match args, it.res with
    | some a, some v =>
      let q := mapItems deltas rest
      ({ it with res := some (.mapped v a) } :: q.1, q.2)
    | _, _ => (it :: rest, false)

/-- everything `_get_results` does after `self._results = deserialize(json.loads(…))`: the value
`_results` holds afterwards and how the call ends -/
def process : Payload → Payload × POut
  | .null => (.null, .lookup)
  | .num n => (.num n, .lookup)
  | .str b => (.str b, .ok)
  | .list n => (.list n, .ok)
  | .dict d =>
    match d.ctx with
    | .absent => (.dict d, .ok)
    | .null => (.dict d, .lookup)
    | .noMapping => (.dict d, .ok)
    | .mapping .noModule _ => (.dict d, .moduleNotFound)
    | .mapping .noAttr _ => (.dict d, .attribute)
    | .mapping .good dl =>
      let deltas := dl.getD []
      match d.rlist with
      | some items =>
        let q := mapItems deltas items
        (.dict { d with rlist := some q.1 }, if q.2 then .ok else .lookup)
      | none =>
        match d.results with
        | some v => (.dict { d with results := some (.mapped v deltas) }, .ok)
        | none => (.dict d, .lookup)

/-- one `RemoteJob` with the content of `_results` (`job.cache` of the base model is kept in step:
`some 0` exactly when `_results` is truthy) -/
structure RJob where
  job : Job
  val : Option Payload
  deriving DecidableEq, Repr

def rinit : RJob := ⟨init, none⟩

inductive RRes
  | base (r : Res)
  | value (p : Payload)          -- `get_results` returned this
  | raised (e : RExc)
  deriving DecidableEq, Repr

structure ROut where
  res : RRes
  calls : List Call
  deriving DecidableEq, Repr

def Out.toR (o : Out) : ROut := ⟨.base o.res, o.calls⟩

/-- the RuntimeError `Job.get_results` makes of a KeyError / TypeError -/
def lookupExc (j : Job) : Exc := if j.status.failed then .jobFailed j.msg else .unavailable

/-- the request of `_get_results` and what follows it, on a job whose status in force is that of `j` -/
def fetch (j : Job) (val : Option Payload) (cs : List Call) (b : RBody) : RJob × ROut :=
  let cs' := cs ++ [.results j.id]
  match b with
  | .http code => (⟨j, val⟩, ⟨.raised (.base (.http (some code))), cs'⟩)
  | .conn => (⟨j, val⟩, ⟨.raised (.base .conn), cs'⟩)
  | .noKey => (⟨j, val⟩, ⟨.raised (.base (lookupExc j)), cs'⟩)
  | .notStr => (⟨j, val⟩, ⟨.raised (.base (lookupExc j)), cs'⟩)
  | .badJson => (⟨j, val⟩, ⟨.raised .jsonDecode, cs'⟩)
  | .payload p =>
    let q := process p
    let j' := { j with cache := if q.1.truthy then some 0 else none }
    (⟨j', some q.1⟩,
     ⟨match q.2 with
      | .ok => .value q.1
      | .lookup => .raised (.base (lookupExc j))
      | .attribute => .raised .attribute
      | .moduleNotFound => .raised .moduleNotFound, cs'⟩)

/-- `Job.get_results()` + `RemoteJob._get_results()` on the content of the answer.
`if self._results and self.status.completed: return self._results`: the second status read happens
only when `_results` is truthy. -/
def getResultsR (fixed : Bool) (s : RJob) (r1 r2 : Resp) (b : RBody) : RJob × ROut :=
  match readStatus fixed s.job r1 with
  | (j1, some e, c) => (⟨j1, s.val⟩, ⟨.raised (.base e), c⟩)
  | (j1, none, c) =>
    if !j1.status.maybeCompleted then (⟨j1, s.val⟩, ⟨.raised (.base .stillRunning), c⟩)
    else if truthyVal s.val then
      match readStatus fixed j1 r2 with
      | (j2, some e, c2) => (⟨j2, s.val⟩, ⟨.raised (.base e), c ++ c2⟩)
      | (j2, none, c2) =>
        if j2.status.completed then (⟨j2, s.val⟩, ⟨.value (s.val.getD .null), c ++ c2⟩)
        else fetch j2 s.val (c ++ c2) b
    else fetch j1 s.val c b

inductive ROp
  | base (op : Op)                                   -- an operation of the base machine other than `get_results`
  | getResults (r1 r2 : Resp) (b : RBody)
  deriving DecidableEq, Repr

/-- one step; a `rerun` the history follows into the new job starts with `_results = None` -/
def rstep (fixed : Bool) (s : RJob) : ROp → RJob × ROut
  | .base op =>
    let p := step fixed s.job op
    (⟨p.1, if op.switches && (match p.2.res with | .newJob _ => true | _ => false) then none else s.val⟩, p.2.toR)
  | .getResults r1 r2 b => getResultsR fixed s r1 r2 b

def isResultsCall : Call → Bool
  | .results _ => true
  | _ => false

/-- a list of items every one of which has what the loop needs -/
def itemsOK (deltas : List (String × Nat)) (items : List Item) : Prop :=
  ∀ it ∈ items, it.res.isSome = true ∧ (deltas.isEmpty = false → it.iter.isSome = true)

/-- what the property demands of a well-formed list: every item mapped exactly once, with the delta
parameters overridden by the item's own iteration values -/
def mapSpec (deltas : List (String × Nat)) (items : List Item) : List Item :=
  items.map fun it =>
    { it with res := it.res.map fun v => .mapped v (argsFor deltas (it.iter.getD [])) }

/-! # PART K: every operation under the real throttle -/

def pollAt (fixed : Bool) (delay : Int) (t : TJob) (now : Int) (v : View) (r : Resp) : TJob × Out :=
  match readStatusAt fixed delay t now r with
  | (t1, some e, c) => (t1, ⟨.raised e, c⟩)
  | (t1, none, c) => (t1, ⟨view v t1.job.status, c⟩)

def cancelAt (fixed : Bool) (delay : Int) (t : TJob) (now : Int) (r : Resp) (h : HResp) : TJob × Out :=
  match readStatusAt fixed delay t now r with
  | (t1, some e, c) => (t1, ⟨.raised e, c⟩)
  | (t1, none, c) =>
    if t1.job.status.cancellable then
      match h with
      | .ok _ =>
        ({ t1 with job := { t1.job with status := .cancelRequested, msg := .cancelRequested, lastRead := none } },
         ⟨.ok, c ++ [.cancel t1.job.id]⟩)
      | _ => (t1, ⟨.raised (hExc h), c ++ [.cancel t1.job.id]⟩)
    else (t1, ⟨.raised .notCancellable, c⟩)

/-- `rerun()`; the new object has `_previous_status_refresh = 0.` -/
def rerunAt (fixed : Bool) (delay : Int) (t : TJob) (now1 now2 : Int) (r1 r2 : Resp) (h : HResp)
    (switch : Bool) : TJob × Out :=
  match readStatusAt fixed delay t now1 r1 with
  | (t1, some e, c) => (t1, ⟨.raised e, c⟩)
  | (t1, none, c) =>
    if t1.job.status.failed then
      match h with
      | .ok n => (if switch then ⟨born n, 0⟩ else t1, ⟨.newJob n, c ++ [.rerun t1.job.id]⟩)
      | _ => (t1, ⟨.raised (hExc h), c ++ [.rerun t1.job.id]⟩)
    else
      match readStatusAt fixed delay t1 now2 r2 with
      | (t2, some e, c2) => (t2, ⟨.raised e, c ++ c2⟩)
      | (t2, none, c2) => (t2, ⟨.raised .notRerunnable, c ++ c2⟩)

def getResultsAt (fixed : Bool) (delay : Int) (t : TJob) (now1 now2 : Int) (r1 r2 : Resp) (h : RResp) :
    TJob × Out :=
  match readStatusAt fixed delay t now1 r1 with
  | (t1, some e, c) => (t1, ⟨.raised e, c⟩)
  | (t1, none, c) =>
    if !t1.job.status.maybeCompleted then (t1, ⟨.raised .stillRunning, c⟩)
    else
      match (if t1.job.cache.isSome then readStatusAt fixed delay t1 now2 r2 else (t1, none, [])) with
      | (t2, some e, c2) => (t2, ⟨.raised e, c ++ c2⟩)
      | (t2, none, c2) =>
        if t2.job.cache.isSome && t2.job.status.completed then (t2, ⟨.results t2.job.cache, c ++ c2⟩)
        else
          let cs := c ++ c2 ++ [.results t2.job.id]
          match h with
          | .ok k => ({ t2 with job := { t2.job with cache := some k } }, ⟨.results (some k), cs⟩)
          | .empty => ({ t2 with job := { t2.job with cache := none } }, ⟨.results none, cs⟩)
          | .missing =>
            (t2, ⟨.raised (if t2.job.status.failed then .jobFailed t2.job.msg else .unavailable), cs⟩)
          | .http code => (t2, ⟨.raised (.http (some code)), cs⟩)
          | .conn => (t2, ⟨.raised .conn, cs⟩)

/-- an operation with the times of its (up to two) status reads -/
structure KOp where
  now1 : Int
  now2 : Int
  op : Op
  deriving DecidableEq, Repr

def kstep (fixed : Bool) (delay : Int) (t : TJob) (k : KOp) : TJob × Out :=
  match k.op with
  | .execute h => let p := execute fixed t.job h; ({ t with job := p.1 }, p.2)
  | .poll v r => pollAt fixed delay t k.now1 v r
  | .cancel r h => cancelAt fixed delay t k.now1 r h
  | .rerun r1 r2 h sw => rerunAt fixed delay t k.now1 k.now2 r1 r2 h sw
  | .getResults r1 r2 h => getResultsAt fixed delay t k.now1 k.now2 r1 r2 h

/-- `RemoteJob(…)`: `_previous_status_refresh = 0.` -/
def kinit : TJob := ⟨init, 0⟩

/-- the clock never runs backwards along the history, and starts at or after `from` -/
def Monotone : Int → List KOp → Prop
  | _, [] => True
  | t0, k :: ks => t0 ≤ k.now1 ∧ k.now1 ≤ k.now2 ∧ Monotone k.now2 ks

/-- is the status read of an operation at time `now` held back by the throttle? -/
def throttled (delay : Int) (t : TJob) (now : Int) : Bool := !decide (now - t.prev > delay)

end PM.C17
