/-
  C15 — dict / list containers of serialisable objects.  Core Lean only.

  `perceval/serialization/serialize.py`
    * `serialize(dict, compress=…)` : `r = {}; for k, v in obj.items(): r[serialize(k, compress=compress)] =
                                       serialize(v, compress=compress)`  — keys are serialised too, `compress`
                                       (a bool or a list of tags) is handed down unchanged
    * `serialize(list, compress=…)` : element-wise, same `compress`
    * `serialize(object, …)`        : returned unchanged (None, bool, int, float, str, …)
    * every other overload          : a text `":PCVL:<tag>:<payload>"`, possibly `":PCVL:zip:…"` (the leaf codecs,
                                       `Model/C15.lean`) — always a `str` that starts with `PCVL_PREFIX`
    * `serialize_to_file`           : `json.dumps(serialize(obj, compress=compress))`
  `perceval/serialization/deserialize.py`
    * `deserialize(dict)`           : `r = {}; for k, v in obj.items(): r[deserialize(k)] = deserialize(v)`
    * `deserialize(list)`           : element-wise
    * `deserialize(str)` with `obj.startswith(":PCVL:")` : zip handling, tag dispatch (leaf codecs; an unknown tag or a
                                       malformed payload raises)
    * anything else                 : returned unchanged
    * `deserialize_file`            : `deserialize(json.loads(text))`

  The leaf codec is abstract here: `enc : C → α → Text` (`C` = whatever is passed as `compress`) and
  `dec : Text → Option α` (the string branch of `deserialize`; `none` = it raises).  The concrete leaf codecs are
  the other theorems of C15.  A Python `dict` is an insertion-ordered association list and `d[k] = v` is `assign`
  (an equal key is overwritten in place, a new key is appended) exactly as in `Model/C15FF.lean`.
-/
import PercevalModel.Model.C15

namespace PM.C15.Tree

open PM.C15 (Text pcvlPrefix)

/-- the values `serialize` and `deserialize` hand through untouched and that JSON transports faithfully
    (`float` = the rational it denotes, NaN / inf excluded) -/
inductive Raw where
  | null
  | bool (b : Bool)
  | int (i : Int)
  | num (q : Rat)
  | str (s : Text)
  deriving DecidableEq, Repr

/-- a dict key that survives JSON: a serialisable (hashable) object or a plain string -/
inductive Key (α : Type) where
  | obj (a : α)
  | str (s : Text)
  deriving DecidableEq, Repr

/-- what the user hands to `serialize`: leaves of type `α`, passthrough values, lists and dicts to any depth -/
inductive Tree (α : Type) where
  | obj (a : α)
  | raw (r : Raw)
  | list (l : List (Tree α))
  | dict (kvs : List (Key α × Tree α))

/-- what `serialize` returns / what JSON holds: every key is a string -/
inductive Wire where
  | raw (r : Raw)
  | list (l : List Wire)
  | dict (kvs : List (Text × Wire))

section dicts
variable {κ β : Type} [DecidableEq κ]

/-- `d[k] = v` on an insertion-ordered dict -/
def assign (k : κ) (v : β) : List (κ × β) → List (κ × β)
  | [] => [(k, v)]
  | (k', v') :: t => if k' = k then (k, v) :: t else (k', v') :: assign k v t

/-- `for k, v in items: d[k] = v` -/
def assignAll : List (κ × β) → List (κ × β) → List (κ × β)
  | d, [] => d
  | d, (k, v) :: rest => assignAll (assign k v d) rest

/-- `r = {}` followed by the loop -/
def build (items : List (κ × β)) : List (κ × β) := assignAll [] items

def keys (l : List (κ × β)) : List κ := l.map Prod.fst

end dicts

variable {α C : Type}

/-- `serialize(k, compress=c)` on a key: an object becomes its text, a `str` is returned unchanged -/
def encKey (enc : C → α → Text) (c : C) : Key α → Text
  | .obj a => enc c a
  | .str s => s

mutual
  /-- `serialize(x, compress=c)` -/
  def encode (enc : C → α → Text) (c : C) : Tree α → Wire
    | .obj a => .raw (.str (enc c a))
    | .raw r => .raw r
    | .list l => .list (encodeL enc c l)
    | .dict kvs => .dict (build (encodeD enc c kvs))
  /-- the loop of the `list` overload -/
  def encodeL (enc : C → α → Text) (c : C) : List (Tree α) → List Wire
    | [] => []
    | t :: rest => encode enc c t :: encodeL enc c rest
  /-- the `(serialize(k), serialize(v))` pairs the loop of the `dict` overload assigns, in order -/
  def encodeD (enc : C → α → Text) (c : C) : List (Key α × Tree α) → List (Text × Wire)
    | [] => []
    | (k, v) :: rest => (encKey enc c k, encode enc c v) :: encodeD enc c rest
end

/-- `obj.startswith(PCVL_PREFIX)` -/
def isPcvl (s : Text) : Bool := pcvlPrefix.isPrefixOf s

/-- `deserialize(k)` on a key of the wire dict -/
def decKey (dec : Text → Option α) (s : Text) : Option (Key α) :=
  if isPcvl s then (dec s).map .obj else some (.str s)

variable [DecidableEq α]

mutual
  /-- `deserialize(x)`; `none` = an exception leaves the call (the first one met; which one is not modelled) -/
  def decode (dec : Text → Option α) : Wire → Option (Tree α)
    | .raw (.str s) => if isPcvl s then (dec s).map .obj else some (.raw (.str s))
    | .raw r => some (.raw r)
    | .list l => (decodeL dec l).map .list
    | .dict kvs => (decodeD dec kvs).map fun ps => .dict (build ps)
  def decodeL (dec : Text → Option α) : List Wire → Option (List (Tree α))
    | [] => some []
    | w :: rest =>
      match decode dec w, decodeL dec rest with
      | some t, some ts => some (t :: ts)
      | _, _ => none
  /-- the `(deserialize(k), deserialize(v))` pairs the loop assigns, in order -/
  def decodeD (dec : Text → Option α) : List (Text × Wire) → Option (List (Key α × Tree α))
    | [] => some []
    | (k, w) :: rest =>
      match decKey dec k, decode dec w, decodeD dec rest with
      | some k', some t, some ps => some ((k', t) :: ps)
      | _, _, _ => none
end

/-! ## The JSON layer of `serialize_to_file` / `deserialize_file`

  `json.dumps` / `json.loads` are TRUSTED and modelled as the identity on `Wire`: JSON transports `null`, booleans,
  integers, finite floats, strings, arrays and objects WITH STRING KEYS faithfully and keeps the order of object
  members.  This is the reason why `Key` is restricted to strings and serialisable objects (which `serialize` turns
  into strings): `json.dumps` turns an `int`/`float`/`bool`/`None` key into its text (`1 ↦ "1"`), refuses a tuple
  key, and turns a tuple value into a list — such inputs are outside the model (see the harness' boundary probes). -/

def jsonDumps (w : Wire) : Wire := w
def jsonLoads (w : Wire) : Option Wire := some w

/-- `serialize_to_file` followed by `deserialize_file` -/
def fileRoundtrip (enc : C → α → Text) (dec : Text → Option α) (c : C) (t : Tree α) : Option (Tree α) :=
  (jsonLoads (jsonDumps (encode enc c t))).bind (decode dec)

/-! ## Well-formedness -/

/-- a passthrough string must not look like a serialised object -/
def Raw.ok : Raw → Prop
  | .str s => isPcvl s = false
  | _ => True

def Key.ok : Key α → Prop
  | .str s => isPcvl s = false
  | .obj _ => True

mutual
  /-- no raw string (value or key) starts with `":PCVL:"`, and the keys of every dict are pairwise distinct, at
      every nesting level.  Equality on `α` is equality of MEANING: a Python dict guarantees distinct keys for
      strings and for objects hashed by value (`BasicState`); for objects hashed by identity (`Circuit`,
      `Detector`) two keys with the same content can coexist — that dict is outside `WF` and the real writer
      collapses it to one item (`repeated_source_key_collapses`). -/
  def Tree.WF : Tree α → Prop
    | .obj _ => True
    | .raw r => r.ok
    | .list l => WFL l
    | .dict kvs => WFD kvs ∧ (keys kvs).Nodup
  def WFL : List (Tree α) → Prop
    | [] => True
    | t :: rest => t.WF ∧ WFL rest
  def WFD : List (Key α × Tree α) → Prop
    | [] => True
    | (k, v) :: rest => k.ok ∧ v.WF ∧ WFD rest
end

/-! executable versions (for the driver) -/

def Raw.okb : Raw → Bool
  | .str s => !isPcvl s
  | _ => true

def Key.okb : Key α → Bool
  | .str s => !isPcvl s
  | .obj _ => true

/-- `l.Nodup` as a boolean -/
def nodupb {κ : Type} [DecidableEq κ] : List κ → Bool
  | [] => true
  | a :: l => !l.contains a && nodupb l

mutual
  def Tree.wfb : Tree α → Bool
    | .obj _ => true
    | .raw r => r.okb
    | .list l => wfbL l
    | .dict kvs => wfbD kvs && nodupb (keys kvs)
  def wfbL : List (Tree α) → Bool
    | [] => true
    | t :: rest => t.wfb && wfbL rest
  def wfbD : List (Key α × Tree α) → Bool
    | [] => true
    | (k, v) :: rest => k.okb && v.wfb && wfbD rest
end

/-- what the theorems assume of the leaf codec -/
structure LeafCodec (enc : C → α → Text) (dec : Text → Option α) : Prop where
  /-- `deserialize(serialize(a, compress=c))` gives `a` back (the leaf theorems of C15) -/
  inv : ∀ c a, dec (enc c a) = some a
  /-- every overload of `serialize` for a supported object returns a text starting with `":PCVL:"`
      (`":PCVL:zip:"` when compressed) -/
  pre : ∀ c a, isPcvl (enc c a) = true

end PM.C15.Tree
