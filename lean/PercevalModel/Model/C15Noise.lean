/-
  C15 — the validation layer of `NoiseModel` (perceval/utils/noise_model.py, _validated_params.py) under the
  noise codec of `Model/C15.lean`.  Core Lean only.

  `Model/C15.lean` has `json.dumps(nm.__dict__())` / `NoiseModel(**json.loads(s))` as maps between the given
  fields and the key/value list, with the comment "range validation re-accepts what was accepted at construction
  and is not modelled".  Here it is modelled:

  * `ValidatedFloat(name, value, min, max, default)._validate`: `min <= value <= max` (a missing bound is not
    tested) else `ValueError`; the six float fields have the ranges [0,1] (brightness, indistinguishability, g2,
    transmittance), [0, +inf) (phase_imprecision), [0, math.pi] (phase_error; `math.pi` is the double below);
  * `ValidatedBool._validate`: `isinstance(value, bool)` else `TypeError`;
  * `NoiseModel.__init__(**kwargs)`: every given value validated (`None` = not given);
  * `NoiseModel.set_value(name, value)`: `self[name].set(value)`: `KeyError` on an unknown name, otherwise
    `self._value = self._validate(value)` - a raising call leaves the object unchanged;
  * the reader = `decNoise` followed by that same constructor.

  Alphabet of calls: a number (int or float, as the rational it denotes) into any name, a bool into
  `g2_distinguishable`.  A bool into a float field is outside (Python's `bool` is a `Number`: it is accepted and
  stored as a bool), so is `None` (`TypeError`).
-/
import PercevalModel.Model.C15

namespace PM.C15.NoiseC

inductive FKey where
  | brightness | indistinguishability | g2 | transmittance | phaseImprecision | phaseError
  deriving DecidableEq, Repr

def FKey.ofName (s : String) : Option FKey :=
  if s = "brightness" then some .brightness
  else if s = "indistinguishability" then some .indistinguishability
  else if s = "g2" then some .g2
  else if s = "transmittance" then some .transmittance
  else if s = "phase_imprecision" then some .phaseImprecision
  else if s = "phase_error" then some .phaseError
  else none

/-- `float(math.pi)` exactly -/
def piDbl : Dbl := (884279719003555 : Int) / (281474976710656 : Int)

/-- (`min_value`, `max_value`) of the field -/
def FKey.range : FKey → Dbl × Option Dbl
  | .phaseImprecision => (0, none)
  | .phaseError => (0, some piDbl)
  | _ => (0, some 1)

/-- `(min is None or min <= v) and (max is None or v <= max)` -/
def inRange (r : Dbl × Option Dbl) (v : Dbl) : Bool :=
  decide (r.1 ≤ v) && (match r.2 with | none => true | some hi => decide (v ≤ hi))

def get (n : Noise) : FKey → Option Dbl
  | .brightness => n.brightness
  | .indistinguishability => n.indistinguishability
  | .g2 => n.g2
  | .transmittance => n.transmittance
  | .phaseImprecision => n.phaseImprecision
  | .phaseError => n.phaseError

def put (n : Noise) (k : FKey) (v : Dbl) : Noise :=
  match k with
  | .brightness => { n with brightness := some v }
  | .indistinguishability => { n with indistinguishability := some v }
  | .g2 => { n with g2 := some v }
  | .transmittance => { n with transmittance := some v }
  | .phaseImprecision => { n with phaseImprecision := some v }
  | .phaseError => { n with phaseError := some v }

def okField (n : Noise) (k : FKey) : Bool :=
  match get n k with
  | none => true
  | some v => inRange k.range v

/-- every given float is inside its range (what `_validate` establishes) -/
def valid (n : Noise) : Bool :=
  okField n .brightness && okField n .indistinguishability && okField n .g2 && okField n .transmittance &&
  okField n .phaseImprecision && okField n .phaseError

inductive Err where
  | type | value | key
  deriving DecidableEq, Repr

/-- `NoiseModel(**kwargs)` with numbers in the float fields and a bool in the bool field -/
def ctor (a : Noise) : Except Err Noise := if valid a then .ok a else .error .value

inductive Op where
  | num (name : String) (v : Dbl)
  | bool (b : Bool)
  deriving Repr

/-- `set_value` -/
def step (n : Noise) : Op → Except Err Noise
  | .bool b => .ok { n with g2Distinguishable := some b }
  | .num name v =>
    match FKey.ofName name with
    | some k => if inRange k.range v then .ok (put n k v) else .error .value
    | none => if name = "g2_distinguishable" then .error .type else .error .key

/-- a raising call leaves the object as it was -/
def apply (n : Noise) (o : Op) : Noise :=
  match step n o with
  | .ok n' => n'
  | .error _ => n

def runOps (n : Noise) (ops : List Op) : Noise := ops.foldl apply n

/-- `deserialize_noise_model`: `NoiseModel(**json.loads(s))` -/
def decV (j : List (String × JVal)) : Except Err Noise :=
  match decNoise j with
  | none => .error .type
  | some a => ctor a

end PM.C15.NoiseC
