/-
  C15 — the 32-bit float a configuration value of an `FFConfigurator` travels as.

  `perceval/serialization/_circuit_serialization.py` (`_serialize(FFConfigurator)`) stores every value of
  `_default_config` / `_configs[state]` with `pb_vars.mapping[name] = value`; the field is
  `map<string, float>` (`VariableValues.mapping`, protobuf type 2 = 32-bit float): the Python double is
  converted to IEEE-754 binary32 with round-to-nearest, ties-to-even; a double beyond the largest binary32
  by half a unit or more becomes `inf`.  The reader (`dict(config.mapping)`) converts back exactly.

  `f32 v` is that conversion on an exact rational (a double is one): `none` = overflow to ±inf (NaN is not
  a rational).  Everything is `Nat` / `Int` arithmetic on numerator and denominator — core Lean, executable.

  binary32: values `± k · 2^t` with `k < 2^24`, `-149 ≤ t ≤ 104`; the quantum exponent of `v` is
  `t = max (⌊log₂ |v|⌋ - 23) (-149)` (the second argument is the subnormal range).
-/
namespace PM.C15.F32

/-- `N / D` rounded to the nearest natural number, ties to the even one (`D > 0`) -/
def rhe (N D : Nat) : Nat :=
  let q := N / D
  let r := N % D
  if 2 * r < D then q else if D < 2 * r then q + 1 else if q % 2 = 0 then q else q + 1

/-- `⌊log₂ (n / d)⌋` for `n, d > 0`: `log2 n - log2 d` or one less -/
def ilog2 (n d : Nat) : Int :=
  let e : Int := (n.log2 : Int) - (d.log2 : Int)
  if 0 ≤ e then (if d * 2 ^ e.toNat ≤ n then e else e - 1)
  else (if d ≤ n * 2 ^ (-e).toNat then e else e - 1)

/-- exponent of the spacing of binary32 around `n / d` (normal: 24 significant bits; subnormal: `2^-149`) -/
def qexp (n d : Nat) : Int := max (ilog2 n d - 23) (-149)

/-- `(n / d) / 2^t` rounded to a natural number, ties to even -/
def mant (n d : Nat) (t : Int) : Nat :=
  if 0 ≤ t then rhe n (d * 2 ^ t.toNat) else rhe (n * 2 ^ (-t).toNat) d

/-- `k · 2^t` -/
def scale (k : Nat) (t : Int) : Rat :=
  if 0 ≤ t then ((k * 2 ^ t.toNat : Nat) : Rat) else mkRat (k : Int) (2 ^ (-t).toNat)

/-- a positive rational `n / d`; `none` when the rounded value is `2^128` or more -/
def f32pos (n d : Nat) : Option Rat :=
  let t := qexp n d
  let k := mant n d t
  if 104 < t ∨ (t = 104 ∧ 2 ^ 24 ≤ k) then none else some (scale k t)

/-- IEEE-754 binary32 round-to-nearest-even of an exact rational, as a rational; `none` = ±inf.
(The sign of a zero result is not represented: `-0.0 = 0`.) -/
def f32 (v : Rat) : Option Rat :=
  if v.num = 0 then some 0
  else if 0 < v.num then f32pos v.num.toNat v.den
  else (f32pos (-v.num).toNat v.den).map (fun w => -w)

/-- the conversion as a total function where it is defined (used to instantiate `rnd` of `Model/C15FF.lean`) -/
def f32D (v : Rat) : Rat := (f32 v).getD 0

end PM.C15.F32
