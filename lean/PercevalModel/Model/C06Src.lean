/-
  C06 — the `Source` OBJECT across calls (wave 8): the three cache attributes `_prob_table`, `_prob_table_n`,
  `_prob_table_filter` and the tag counter `_context["discernability_tag"]` as a state machine over histories of
  public calls on ONE object.  The parameters are fixed at construction (private attributes, no setter).

      code                                                model
      `_prob_table, _prob_table_n, _prob_table_filter`    `Src.tab : Option (Table × ℕ × ℕ)` (`None` ↔ `none`)
      `_context["discernability_tag"]`                    `Src.tag`
      `cache_prob_table(n, f)`                            `SrcOp.cacheTable n f`
      `generate_samples(k, BasicState(ns), f)`            `SrcOp.samples ns f` (what happens before any draw)
      `generate_distribution(BasicState(ns))`             `SrcOp.dist ns`     (moves the tag counter only)
      `probability_distribution(n)`                       `SrcOp.probDist n`  (moves the tag counter only)

  `generate_samples`, as the code is:
      is_perfect()                     → `[expected_input] * k`, nothing touched
      min_detected_photons == 0        → `_generate_samples_no_filter` (tag counter advanced, cache not consulted)
      transmission == 0                → warning, empty `BSSamples`, nothing touched
      cache test `_prob_table is None or expected_input.n != _prob_table_n or min_detected_photons != _prob_table_filter`
                                       → `cache_prob_table(n, f)` (may raise ZeroDivisionError in
                                         `prob / phys_perf`: then NOTHING is stored, the three attributes are assigned
                                         after `_compute_prob_table` returns)
      `random.choices(list(keys), k, weights=values)` raises IndexError on an empty table — AFTER the cache was
                                         written; otherwise `_events_to_samples`, which puts the tag counter back to
                                         its value at entry after every event.
-/
import PercevalModel.Model.C06Samp
import PercevalModel.Model.C06Proc

namespace PM.C06

abbrev Table := List ((ℕ × ℕ × ℕ) × ℚ)

/-- the mutable part of a `Source` object -/
structure Src where
  tab : Option (Table × ℕ × ℕ)
  tag : ℕ

/-- a newly constructed `Source` whose `context` holds the tag counter `t` (`context=None`: `t = 0`; a caller may
hand in a context dictionary with its own `"discernability_tag"`) -/
def Src.initT (t : ℕ) : Src := ⟨none, t⟩

/-- a newly constructed `Source` (`context=None`) -/
def Src.init : Src := Src.initT 0

inductive SrcOp
  | cacheTable (n f : ℕ)
  | samples (ns : List ℕ) (f : ℕ)
  | dist (ns : List ℕ)
  | probDist (n : ℕ)

/-- what a call does, as far as it can be seen without looking at the draws -/
inductive SrcOut
  | cached (perf zpp : ℚ)     -- `cache_prob_table` returns `(phys_perf, zpp)`
  | zeroDiv                   -- ZeroDivisionError out of `_compute_prob_table`
  | perfect                   -- `[expected_input] * max_samples`
  | noFilter                  -- `_generate_samples_no_filter`
  | aborted                   -- empty `BSSamples`
  | noEvent                   -- IndexError out of `random.choices([], …)`
  | events (tb : Table)       -- the keys and weights handed to `random.choices`
  | moved                     -- a distribution was generated
deriving DecidableEq

/-- `_compute_prob_table(n, f)` divides by `phys_perf` for every key `if min_photons_filter`: it raises when the
filter is non-zero, some key passes it and the kept entries sum to zero -/
def computeFails (P : Params) (n f : ℕ) : Bool :=
  decide (f ≠ 0) && decide (physPerf P n f = 0) && !(tableRaw P n f).isEmpty

/-- `self._prob_table is None or expected_input.n != self._prob_table_n or
min_detected_photons != self._prob_table_filter` -/
def cacheMiss (s : Src) (n f : ℕ) : Bool :=
  match s.tab with
  | none => true
  | some (_, n', f') => decide (n ≠ n') || decide (f ≠ f')

/-- the table `random.choices` is called with: the cached one, whatever it is -/
def useTable (s : Src) : SrcOut :=
  match s.tab with
  | none => .noEvent  -- not reachable: the cache was just tested
  | some (tb, _, _) => if tb.isEmpty then .noEvent else .events tb

def srcStep (P : Params) (s : Src) : SrcOp → Src × SrcOut
  | .cacheTable n f =>
    if computeFails P n f then (s, .zeroDiv)
    else ({ s with tab := some (table P n f, n, f) }, .cached (physPerf P n f) (zeroPhotonProb P n))
  | .samples ns f =>
    if isPerfect P then (s, .perfect)
    else if f = 0 then ({ s with tag := nfTag P ns s.tag }, .noFilter)
    else if P.beta * P.eta = 0 then (s, .aborted)
    else if cacheMiss s ns.sum f then
      if computeFails P ns.sum f then (s, .zeroDiv)
      else
        let s' : Src := { s with tab := some (table P ns.sum f, ns.sum, f) }
        (s', useTable s')
    else (s, useTable s)
  | .dist ns => ({ s with tag := tagAfterGen P ns s.tag }, .moved)
  | .probDist n => ({ s with tag := probDistTag P n s.tag }, .moved)

/-- the object after a history of calls -/
def srcAfter (P : Params) (t : ℕ) (ops : List SrcOp) : Src :=
  ops.foldl (fun s o => (srcStep P s o).1) (Src.initT t)

/-- what `generate_samples` does for a request on a NEW object — no history -/
def samplesFresh (P : Params) (ns : List ℕ) (f : ℕ) : SrcOut :=
  if isPerfect P then .perfect
  else if f = 0 then .noFilter
  else if P.beta * P.eta = 0 then .aborted
  else if computeFails P ns.sum f then .zeroDiv
  else if (table P ns.sum f).isEmpty then .noEvent
  else .events (table P ns.sum f)

/-- the outcome that belongs to a route of `sampRoute` (`Model/C06Samp.lean`), for a request of `n` photons with
filter `f`: on the event-table route the table handed to `random.choices` is `table P n f` -/
def routeOut (P : Params) (n f : ℕ) : SampRoute → SrcOut
  | .perfect => .perfect
  | .noFilter => .noFilter
  | .aborted => .aborted
  | .noEvent => .noEvent
  | .events => .events (table P n f)

/-- the cache is coherent: what it holds is the table of the key it is filed under, and that table could be
computed -/
def Src.Coherent (P : Params) (s : Src) : Prop :=
  ∀ tb n f, s.tab = some (tb, n, f) → tb = table P n f ∧ computeFails P n f = false

/-! ### a defective variant, for the necessity witness: the filter is left out of the cache test -/

def cacheMissN (s : Src) (n : ℕ) : Bool :=
  match s.tab with
  | none => true
  | some (_, n', _) => decide (n ≠ n')

/-- `generate_samples` with that test (event-table part; the earlier exits are those of `srcStep`) -/
def samplesStepN (P : Params) (s : Src) (ns : List ℕ) (f : ℕ) : Src × SrcOut :=
  if cacheMissN s ns.sum then
    let s' : Src := { s with tab := some (table P ns.sum f, ns.sum, f) }
    (s', useTable s')
  else (s, useTable s)

end PM.C06
