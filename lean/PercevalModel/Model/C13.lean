/-
  C13 — model of the polarisation layer of Perceval.

  * `perceval/utils/matrix.py: matrix_double`                          → `double`
  * `linear_circuit.py: ACircuit.compute_unitary(use_polarization)`,
    `Circuit.compute_unitary`, `Circuit._compute_circuit_unitary` (the `multiplier` branch)
                                                                       → `dbl`, `unitaryOfPol`, `resolve`
  * `unitary_components.py: WP / HWP / QWP, PR, PBS`                   → `wp`, `pr`, `pbs`
  * `polarization.py: POLARIZATION_MAPPING, Polarization.project_eh_ev,
    convert_polarized_state`                                           → `labelTurns`, `jones`, `scanMode`,
                                                                         `modeBlock`, `prepMatrix`, `spatialInput`
  * `polarization_simulator.py: _prepare_input, _postprocess_bsd_impl` → `simMatrix`, `mergeState`, `polDist`
  * `polarization_simulator.py: _split_odd_even, _postprocess_sv_impl`, `simulator_interface.py:
    ASimulatorDecorator.evolve / _postprocess_sv` (+ `post_select_statevector`)
                                                                       → `annotState`, `polSV`, `selectSV`
  * `polarization.py: convert_polarized_state(inverse=True)` and the `use_symbolic` branch
                                                                       → `inv2`, `modeBlockX`, `orthExact`
  * `polarization_simulator.py: set_min_detected_photons_filter`, `simulator_interface.py:
    set_selection / _postprocess_bsd / probs_svd`, `postselect.py: post_select_distribution`,
    `statevector.py: filter_distribution_photon_count`               → `Sel`, `innerProbs`, `photonFilter`,
                                                                         `postSelect`, `polProbs`

  Index convention of the doubled space (as in the code): sub-mode `2k` is the horizontal and
  `2k+1` the vertical polarisation of spatial mode `k`.  An index `i : Fin (m*2)` is split as
  `i.divNat : Fin m` (spatial mode) and `i.modNat : Fin 2` (polarisation).

  Trigonometric functions and the square root are external: the model takes their *values*
  (`c = cos δ`, …) as ring elements, the theorems assume the algebraic identities they satisfy
  (`c² + s² = 1`, `ρ² ‖w‖² = 1`), and `Props/C13.lean` instantiates them at `ℂ` for all real angles.
-/
import PercevalModel.Model.C01
import PercevalModel.Found.Fock
import PercevalModel.Found.Dist
import PercevalModel.Found.SM
import PercevalModel.Found.SimSpec
import Mathlib.LinearAlgebra.Matrix.Notation

open Matrix

namespace PM.C13

variable {R : Type}

/-! ### `matrix_double` -/

/-- `pu[2a, 2b] = pu[2a+1, 2b+1] = u[a, b]`, zero elsewhere. -/
def double [Zero R] {m : ℕ} (U : Matrix (Fin m) (Fin m) R) :
    Matrix (Fin (m * 2)) (Fin (m * 2)) R :=
  fun i j => if i.modNat = j.modNat then U i.divNat j.divNat else 0

/-! ### circuits with polarising components

A leaf is either an ordinary component on `k` spatial modes, known by its own `k × k` matrix
(`_supports_polarization = False`), or a polarising component on `k` spatial modes, known by its
`2k × 2k` matrix (`WP`, `PR`: `k = 1`; `PBS`: `k = 2`; `Unitary(…, use_polarization=True)`). -/
mutual
  inductive PComp (R : Type) where
    | plain (k : ℕ) (U : Matrix (Fin k) (Fin k) R)
    | pol (k : ℕ) (U : Matrix (Fin (k * 2)) (Fin (k * 2)) R)
    | circ (m : ℕ) (items : PItems R)
  inductive PItems (R : Type) where
    | nil
    | cons (off : ℕ) (c : PComp R) (rest : PItems R)
end

/-- `component.m` (spatial modes) -/
def PComp.size : PComp R → ℕ
  | .plain k _ => k
  | .pol k _ => k
  | .circ m _ => m

mutual
  /-- `requires_polarization` -/
  def PComp.requires : PComp R → Bool
    | .plain _ _ => false
    | .pol _ _ => true
    | .circ _ items => items.requires
  def PItems.requires : PItems R → Bool
    | .nil => false
    | .cons _ c rest => c.requires || rest.requires
end

mutual
  /-- What `compute_unitary(use_polarization=True)` multiplies, as a C01 tree on the doubled
  modes: an ordinary leaf contributes `matrix_double(u)`, a polarising leaf its own matrix, and
  a (sub-)circuit of `m` modes is a circuit of `2m` modes whose items sit at
  `multiplier * r[0]`. -/
  def dbl [Zero R] : PComp R → C01.Comp R
    | .plain k U => .leaf (k * 2) (double U)
    | .pol k U => .leaf (k * 2) U
    | .circ m items => .circ (m * 2) (dblItems items)
  def dblItems [Zero R] : PItems R → C01.Items R
    | .nil => .nil
    | .cons off c rest => .cons (off * 2) (dbl c) (dblItems rest)
end

mutual
  /-- the same tree read without polarisation (only meaningful when `requires = false`;
  a polarising leaf is mapped to an identity placeholder) -/
  def spatial [Zero R] [One R] : PComp R → C01.Comp R
    | .plain k U => .leaf k U
    | .pol k _ => .leaf k 1
    | .circ m items => .circ m (spatialItems items)
  def spatialItems [Zero R] [One R] : PItems R → C01.Items R
    | .nil => .nil
    | .cons off c rest => .cons off (spatial c) (spatialItems rest)
end

/-- the matrix `compute_unitary(use_polarization=True)` reports (`2m × 2m`) -/
def unitaryOfPol [CommRing R] (c : PComp R) : Matrix (Fin (dbl c).size) (Fin (dbl c).size) R :=
  C01.unitaryOf (dbl c)

/-- How the `use_polarization` argument (`None`, `True`, `False`) is resolved, both in
`ACircuit.compute_unitary` (with `requires = _supports_polarization`) and in
`Circuit.compute_unitary`: the result says whether the doubled matrix is produced. -/
def resolve (requires : Bool) : Option Bool → Except String Bool
  | none => .ok requires
  | some true => .ok true
  | some false => if requires then .error "AssertionError" else .ok false

mutual
  /-- the ranges the code accepted (`Circuit.add` assertions), in spatial modes -/
  def PComp.WF : PComp R → Prop
    | .plain _ _ => True
    | .pol _ _ => True
    | .circ m items => items.WF m
  def PItems.WF : PItems R → ℕ → Prop
    | .nil, _ => True
    | .cons off c rest, m => off + c.size ≤ m ∧ c.WF ∧ rest.WF m
end

mutual
  def PComp.AllUnitary [CommRing R] [StarRing R] : PComp R → Prop
    | .plain _ U => IsUnitary U
    | .pol _ U => IsUnitary U
    | .circ _ items => items.AllUnitary
  def PItems.AllUnitary [CommRing R] [StarRing R] : PItems R → Prop
    | .nil => True
    | .cons _ c rest => c.AllUnitary ∧ rest.AllUnitary
end

mutual
  /-- executable check of the ranges (for the driver) -/
  def PComp.wfb : PComp R → Bool
    | .plain k _ => 0 < k
    | .pol k _ => 0 < k
    | .circ m items => 0 < m && items.wfb m
  def PItems.wfb : PItems R → ℕ → Bool
    | .nil, _ => true
    | .cons off c rest, m => decide (off + c.size ≤ m) && c.wfb && rest.wfb m
end

/-! ### polarising components (`unitary_components.py`)

`i` is the imaginary unit of the ring; `c, s = cos δ, sin δ`, `c2, s2 = cos 2ξ, sin 2ξ`. -/

/-- `WP(δ, ξ)`; `HWP(ξ) = WP(π/2, ξ)`, `QWP(ξ) = WP(π/4, ξ)` -/
def wp [CommRing R] (i c s c2 s2 : R) : Matrix (Fin 2) (Fin 2) R :=
  !![c + i * s * c2, i * s * s2; i * s * s2, c - i * s * c2]

/-- `PR(δ)` -/
def pr [CommRing R] (c s : R) : Matrix (Fin 2) (Fin 2) R :=
  !![c, s; -s, c]

/-- `PBS()` on sub-modes `(H₀, V₀, H₁, V₁)`: `H` crosses, `V` stays -/
def pbs [Zero R] [One R] : Matrix (Fin 4) (Fin 4) R :=
  !![0, 0, 1, 0; 0, 1, 0, 0; 1, 0, 0, 0; 0, 0, 0, 1]

/-! ### Jones vectors (`polarization.py`) -/

inductive Label | H | V | D | A | R | L
  deriving DecidableEq, Repr

/-- `POLARIZATION_MAPPING` in quarter turns: `(θ, φ) = (a·π/2, b·π/2)` -/
def labelTurns : Label → ℕ × ℕ
  | .H => (0, 0)
  | .V => (2, 0)
  | .D => (1, 0)
  | .A => (1, 2)
  | .R => (1, 3)
  | .L => (1, 1)

/-- `project_eh_ev`: `(cos(θ/2), (cos φ + i sin φ)·sin(θ/2))` with `c, s = cos(θ/2), sin(θ/2)`,
`p, q = cos φ, sin φ`. -/
def jones [CommRing R] (i c s p q : R) : R × R := (c, (p + i * q) * s)

/-- `conj(v1[0])·v2[0] + conj(v1[1])·v2[1]` -/
def inner [CommRing R] [StarRing R] (v w : R × R) : R := star v.1 * w.1 + star v.2 * w.2

/-- orthogonal complement used for a single polarisation: `(−conj(ev), conj(eh))` -/
def compl [CommRing R] [StarRing R] (v : R × R) : R × R := (-star v.2, star v.1)

/-- `Matrix([[eh1, eh2], [ev1, ev2]])` -/
def blockOf (v1 v2 : R × R) : Matrix (Fin 2) (Fin 2) R :=
  !![v1.1, v2.1; v1.2, v2.2]

/-- Gram–Schmidt step of the repaired code: `ρ · (v2 − ⟨v1, v2⟩ v1)`, `ρ = 1/‖…‖`. -/
def gs [CommRing R] [StarRing R] (ρ : R) (v1 v2 : R × R) : R × R :=
  (ρ * (v2.1 - inner v1 v2 * v1.1), ρ * (v2.2 - inner v1 v2 * v1.2))

/-- squared norm of the vector Gram–Schmidt normalises -/
def gsNorm2 [CommRing R] [StarRing R] (v1 v2 : R × R) : R :=
  inner (gs 1 v1 v2) (gs 1 v1 v2)

/-- State of the scan of one mode's photons in `convert_polarized_state`:
the distinct vectors met so far and the occupation of the two sub-modes. -/
structure Scan (R : Type) where
  vectors : List (R × R)
  n0 : ℕ
  n1 : ℕ

/-- One photon: reuse the index of an *equal* vector; otherwise a third vector or a second one
that is not orthogonal to the first raises `ValueError`. -/
def scanStep [DecidableEq R] (orth : R × R → R × R → Bool) (st : Scan R) (v : R × R) :
    Except String (Scan R) :=
  match st.vectors with
  | [] => .ok ⟨[v], st.n0 + 1, st.n1⟩
  | [v1] =>
    if v1 = v then .ok ⟨[v1], st.n0 + 1, st.n1⟩
    else if orth v1 v then .ok ⟨[v1, v], st.n0, st.n1 + 1⟩
    else .error "ValueError"
  | v1 :: v2 :: _ =>
    if v1 = v then .ok { st with n0 := st.n0 + 1 }
    else if v2 = v then .ok { st with n1 := st.n1 + 1 }
    else .error "ValueError"

def scanMode [DecidableEq R] (orth : R × R → R × R → Bool) :
    List (R × R) → Scan R → Except String (Scan R)
  | [], st => .ok st
  | v :: rest, st => match scanStep orth st v with
    | .ok st' => scanMode orth rest st'
    | .error e => .error e

/-- The 2×2 preparation block of one mode.  `fixed = false` is the code as it stood (the second
*given* vector becomes the second column); `fixed = true` re-orthonormalises it against the
first (`ρ` is the value of `1/‖v2 − ⟨v1,v2⟩v1‖`). -/
def modeBlock [CommRing R] [StarRing R] (fixed : Bool) (ρ : R) : List (R × R) →
    Matrix (Fin 2) (Fin 2) R
  | [] => 1
  | [v1] => blockOf v1 (compl v1)
  | v1 :: v2 :: _ => if fixed then blockOf v1 (gs ρ v1 v2) else blockOf v1 v2

/-- `prep_matrix = eye(2m); prep_matrix[2k:2k+2, 2k:2k+2] = block_k` -/
def prepMatrix [Zero R] {m : ℕ} (blocks : Fin m → Matrix (Fin 2) (Fin 2) R) :
    Matrix (Fin (m * 2)) (Fin (m * 2)) R :=
  fun i j => if i.divNat = j.divNat then blocks i.divNat i.modNat j.modNat else 0

/-- `input_state += [0, 0]; input_state[-2 + v_idx] += 1` -/
def spatialInput (scans : List (Scan R)) : List ℕ :=
  scans.flatMap fun s => [s.n0, s.n1]

/-! ### `Unitary.__init__`'s acceptance test, `np.allclose(U U†, 1)` (used only for the witness of
the behaviour before the repair): `|x − e| ≤ 1e-8 + 1e-5·|e|` entry-wise. -/
def allcloseId {n : ℕ} (M : Matrix (Fin n) (Fin n) GQ) : Bool :=
  (List.finRange n).all fun i => (List.finRange n).all fun j =>
    let e : ℚ := if i = j then 1 else 0
    let d := M i j - GQ.ofRat e
    let tol : ℚ := 1 / 100000000 + e / 100000
    decide (GQ.normSq d ≤ tol * tol)

def acceptsUnitary {n : ℕ} (U : Matrix (Fin n) (Fin n) GQ) : Bool := allcloseId (U * Uᴴ)

/-! ### the simulator layer -/

/-- `Unitary(self._upol @ preprocess_matrix)` -/
def simMatrix [CommRing R] {N : ℕ} (upol prep : Matrix (Fin N) (Fin N) R) : Matrix (Fin N) (Fin N) R :=
  upol * prep

/-- `s_odd.merge(s_even)`: the two sub-modes of every spatial mode are summed -/
def mergeState : List ℕ → List ℕ
  | a :: b :: rest => (a + b) :: mergeState rest
  | _ => []

/-- the distribution of the inner (spatial) simulation on the doubled modes: the Fock-space
specification F2 -/
def spatialDist {N : ℕ} (U : Matrix (Fin N) (Fin N) GQ) (s : List ℕ) : Dist.D :=
  (Fock.allStates N s.sum).map fun t => (t, Fock.prob U s t)

/-- `_postprocess_bsd_impl`: `output[merge(out_state)] += prob` -/
def polDist {N : ℕ} (U : Matrix (Fin N) (Fin N) GQ) (s : List ℕ) : Dist.D :=
  Dist.mapKeys mergeState (spatialDist U s)

/-! ### the long-lived simulator object (`PolarizationSimulator` around an inner `Simulator`)

One object serves a whole *history* of requests.  It has two mutable fields: `_upol` (written by
`set_circuit` / `_prepare_circuit`) and the circuit held by the wrapped spatial simulator (written
by `_prepare_input` on **every** query: `self._simulator.set_circuit(Unitary(self._upol @ prep))`).
The ingredients are abstract (`Env`): circuits `C`, polarised inputs `I`, matrices `M`, prepared
spatial inputs `S`, answers `O`; the driver instantiates them with the definitions above. -/

structure Layer (M : Type) where
  /-- `PolarizationSimulator._upol` -/
  upol : Option M
  /-- the circuit currently held by the wrapped simulator -/
  inner : Option M

inductive Cmd (C I : Type) where
  /-- `sim.set_circuit(c)` (also what `Processor.probs` does before every computation) -/
  | setCircuit (c : C)
  /-- `sim.probs(bs)` / `probs_svd(SVDistribution(bs))` -/
  | probs (i : I)

structure Env (C I M S O : Type) where
  /-- `circuit.compute_unitary(use_polarization=True)` -/
  compile : C → Except String M
  /-- `convert_polarized_state`: spatial input on the doubled modes and preparation matrix -/
  prepare : I → Except String (S × M)
  /-- `Unitary(upol @ prep)`: the product and `Unitary.__init__`'s checks -/
  mkUnitary : M → M → Except String M
  /-- the wrapped simulation on the matrix it holds, then `_postprocess_bsd_impl` -/
  simulate : M → S → O

variable {C I M S O : Type}

/-- One request.  A request that raises leaves the object as it was.  The answer of a query is
computed by the wrapped simulator from the circuit *it holds* after `_prepare_input`. -/
def sessionStep (env : Env C I M S O) (st : Layer M) : Cmd C I → Layer M × Except String (Option O)
  | .setCircuit c =>
    match env.compile c with
    | .ok u => ({ st with upol := some u }, .ok none)
    | .error e => (st, .error e)
  | .probs i =>
    match env.prepare i with
    | .error e => (st, .error e)
    | .ok (s, p) =>
      match st.upol with
      | none => (st, .error "TypeError")
      | some u =>
        match env.mkUnitary u p with
        | .error e => (st, .error e)
        | .ok w =>
          let st' : Layer M := { st with inner := some w }
          (st', .ok (st'.inner.map fun x => env.simulate x s))

/-- the property statement for one (circuit, input) pair, without any object: what a query must
answer when `c` is the circuit in force -/
def answer (env : Env C I M S O) (c : Option C) (i : I) : Except String (Option O) :=
  match env.prepare i with
  | .error e => .error e
  | .ok (s, p) =>
    match c with
    | none => .error "TypeError"
    | some c =>
      match env.compile c with
      | .error e => .error e
      | .ok u =>
        match env.mkUnitary u p with
        | .error e => .error e
        | .ok w => .ok (some (env.simulate w s))

/-- the stateless specification machine: its only memory is the circuit in force (the last one
`set_circuit` accepted) -/
def specStep (env : Env C I M S O) (cur : Option C) : Cmd C I → Option C × Except String (Option O)
  | .setCircuit c =>
    match env.compile c with
    | .ok _ => (some c, .ok none)
    | .error e => (cur, .error e)
  | .probs i => (cur, answer env cur i)

/-- the circuit in force after a history -/
def inForce (env : Env C I M S O) (cur : Option C) (h : List (Cmd C I)) : Option C :=
  SM.exec (specStep env) cur h

/-- A *different* object design, for contrast (not the code): the inner circuit is re-written only
when the preparation is not `idPrep` or nothing has been written yet ("an identity preparation
needs no new product").  `Props/C13.lean: stale_design_is_history_dependent` shows that this
design does not satisfy the history-independence theorem. -/
def staleStep (env : Env C I M S O) (isId : M → Bool) (st : Layer M) :
    Cmd C I → Layer M × Except String (Option O)
  | .setCircuit c => sessionStep env st (.setCircuit c)
  | .probs i =>
    match env.prepare i with
    | .error e => (st, .error e)
    | .ok (s, p) =>
      match st.upol with
      | none => (st, .error "TypeError")
      | some u =>
        if isId p && st.inner.isSome then (st, .ok (st.inner.map fun x => env.simulate x s))
        else match env.mkUnitary u p with
          | .error e => (st, .error e)
          | .ok w =>
            let st' : Layer M := { st with inner := some w }
            (st', .ok (st'.inner.map fun x => env.simulate x s))

/-! ### the state-vector path: `evolve` (`_postprocess_sv_impl`)

`ASimulatorDecorator.evolve(bs)` = `_postprocess_sv(self._simulator.evolve(self._prepare_input(bs)))`.
The wrapped simulator returns the state vector on the `2m` sub-modes: the amplitude of `t` is
`perm(W[t|s]) / √(∏ s! ∏ t!)`.  The square root is external to the model: an entry carries the exact
un-normalised amplitude `pamp` and the exact squared normalisation `norm2 = ∏ s! ∏ t!`.

`_postprocess_sv_impl` turns every `2m`-mode state `t` into an *annotated* `m`-mode state:
`s_even = t[0::2]` gets `P:H` on every photon, `s_odd = t[1::2]` gets `P:V`, and the two are
merged mode by mode.  An annotated state is modelled by the pair (number of `P:H` photons, number
of `P:V` photons) of every spatial mode — what the native annotated `BasicState` is up to the order
of the photons inside a mode. -/

/-- annotated `m`-mode state: per spatial mode (photons `P:H`, photons `P:V`) -/
abbrev AFock := List (ℕ × ℕ)

/-- `s_odd.merge(s_even)` after `inject_annotation`: `(t[2k], t[2k+1])` for every mode `k` -/
def annotState : List ℕ → AFock
  | a :: b :: rest => (a, b) :: annotState rest
  | _ => []

/-- the photon counts of an annotated state (`list(state)`) -/
def spatialOf (k : AFock) : List ℕ := k.map fun p => p.1 + p.2

/-- one entry of a state vector: key, un-normalised amplitude `perm(W[t|s])`, `∏ s! ∏ t!` -/
structure SVEntry (K R : Type) where
  key : K
  pamp : R
  norm2 : ℕ

/-- the state vector of the wrapped (spatial) simulation on `N` modes, in the native enumeration
order (zero amplitudes included) -/
def spatialSV [CommRing R] {N : ℕ} (U : Matrix (Fin N) (Fin N) R) (s : List ℕ) :
    List (SVEntry (List ℕ) R) :=
  (Fock.allStates N s.sum).map fun t => ⟨t, Fock.pamp U s t, Fock.prodFact s * Fock.prodFact t⟩

/-- `_postprocess_sv_impl`: `output += amplitude * annotated(out_state)` for every entry -/
def polSV [CommRing R] {N : ℕ} (U : Matrix (Fin N) (Fin N) R) (s : List ℕ) :
    List (SVEntry AFock R) :=
  (spatialSV U s).map fun e => ⟨annotState e.key, e.pamp, e.norm2⟩

/-- `|amplitude|²` of an entry (exact) -/
def SVEntry.amp2 {K : Type} (e : SVEntry K GQ) : ℚ := GQ.normSq e.pamp / (e.norm2 : ℚ)

/-- total amplitude stored under a key (`StateVector.__getitem__`; `+=` adds up equal keys) -/
def svGet [CommRing R] {K : Type} [DecidableEq K] (sv : List (SVEntry K R)) (k : K) : R :=
  ((sv.filter fun e => e.key = k).map (·.pamp)).sum

/-- `post_select_statevector(sv, postselect, heralds, keep_heralds=True)` as called by
`_postprocess_sv` of the polarisation layer: keep the entries whose photon counts satisfy heralds
and post-selection and re-normalise (the common factor `1/√(retained mass)` is external: the
retained mass is returned with the entries).  No photon-number filter on this path.
Only `keep_heralds = True` (the default of a simulator) is modelled: with `False` the code calls the
native `BasicState.remove_modes` on annotated states (which does not keep the annotations in place
unless the last mode is removed) and *adds* the amplitudes of states that differ only in the
polarisation of a dropped photon — neither is described here. -/
def selectSV (c : SimSpec.Cond) (sv : List (SVEntry AFock GQ)) : List (SVEntry AFock GQ) × ℚ :=
  let kept := sv.filter fun e => SimSpec.logicOk c (spatialOf e.key)
  (kept, (kept.map SVEntry.amp2).sum)

/-! ### `convert_polarized_state(inverse=True)` and `use_symbolic=True`

`inverse=True` replaces every non-trivial 2×2 block by `Matrix.inv()` of it (`np.linalg.inv`,
sympy's exact inverse in the symbolic branch): adjugate over determinant.  The value of `1/det` is
an argument (a ring has no division); the driver computes it exactly over `ℚ[i]` (`gqInv`).

`use_symbolic=True`: the Jones vectors are sympy expressions of the stored (floating) angles, the
orthogonality test is the *exact* `orth == 0`, and the second given vector is used as it is (no
re-orthonormalisation: that repair is in the numeric branch only). -/

def det2 [CommRing R] (M : Matrix (Fin 2) (Fin 2) R) : R := M 0 0 * M 1 1 - M 0 1 * M 1 0

/-- `Matrix.inv()` of a 2×2 matrix, `dinv` being the value of `1/det` -/
def inv2 [CommRing R] (dinv : R) (M : Matrix (Fin 2) (Fin 2) R) : Matrix (Fin 2) (Fin 2) R :=
  !![dinv * M 1 1, -(dinv * M 0 1); -(dinv * M 1 0), dinv * M 0 0]

/-- exact inverse in `ℚ[i]` (`0` for `0`) -/
def gqInv (a : GQ) : GQ := ⟨a.re / GQ.normSq a, -a.im / GQ.normSq a⟩

/-- the block `convert_polarized_state(state, use_symbolic, inverse)` writes for one mode: nothing
is written for a mode without photon (the identity stays, also with `inverse=True`) -/
def modeBlockX [CommRing R] [StarRing R] (fixed inverse : Bool) (ρ : R) (dinv : Matrix (Fin 2) (Fin 2) R → R)
    (vs : List (R × R)) : Matrix (Fin 2) (Fin 2) R :=
  match vs with
  | [] => 1
  | _ => if inverse then inv2 (dinv (modeBlock fixed ρ vs)) (modeBlock fixed ρ vs) else modeBlock fixed ρ vs

/-- `_is_orthogonal(v1, v2, use_symbolic=True)`: `orth == 0`, exactly -/
def orthExact [CommRing R] [StarRing R] [DecidableEq R] (v w : R × R) : Bool := decide (inner v w = 0)

/-! ### heralds, post-selection and photon filter on a polarised simulation

`SimulatorFactory.build(processor)` calls `set_selection(min_detected_photons_filter, postselect,
heralds)` on the *polarisation layer*.  Post-selection and heralds stay in that layer;
`PolarizationSimulator.set_min_detected_photons_filter(v)` hands `v` to the wrapped simulator and
(code as it stood) resets the layer's own value to 0 — "photon count is kept, no need to filter
results in this layer".  The wrapped simulator has no heralds, so its threshold is `v`; the layer's
threshold (`min_detected_photons_filter` property = own value + Σ heralds) is `Σ heralds` as it
stood, `v + Σ heralds` after the repair (`fixes/C13-herald-photon-filter.diff`: the layer keeps
`v`).  The documented threshold is `v + Σ heralds` on the full state. -/

structure Sel where
  /-- `(mode, expected count)` -/
  heralds : List (ℕ × ℕ)
  ps : SimSpec.PS
  /-- the value given to `min_detected_photons_filter` (non-heralded photons) -/
  minDet : ℕ
  keepHeralds : Bool

def Sel.hsum (sel : Sel) : ℕ := (sel.heralds.map (·.2)).sum

/-- the conditioning of the C04 specification this selection denotes -/
def Sel.cond (sel : Sel) : SimSpec.Cond :=
  ⟨sel.heralds, sel.ps, sel.minDet + sel.hsum, sel.keepHeralds⟩

/-- `PostSelect.has_condition` -/
def psHasCondition : SimSpec.PS → Bool
  | .tt => false
  | _ => true

/-- the wrapped simulator's `probs_svd` on one Fock input: inputs / outputs with fewer than `v`
photons are dropped (no herald in that layer), the rest is normalised.
→ (results, physical_perf, logical_perf) -/
def innerProbs (v : ℕ) (d0 : Dist.D) : Dist.D × ℚ × ℚ :=
  let r := Dist.restrict (fun t => decide (v ≤ t.sum)) d0
  (Dist.normalize r, Dist.mass r, if r.isEmpty then 0 else 1)

/-- `filter_distribution_photon_count(bsd, T)` → (normalised filtered distribution, probability kept) -/
def photonFilter (T : ℕ) (d : Dist.D) : Dist.D × ℚ :=
  if T = 0 then (d, 1)
  else
    let r := Dist.restrict (fun t => decide (T ≤ t.sum)) d
    (Dist.normalize r, Dist.mass r)

/-- `post_select_distribution(bsd, postselect, heralds, keep_heralds)` → (distribution, logical perf) -/
def postSelect (c : SimSpec.Cond) (d : Dist.D) : Dist.D × ℚ :=
  if !psHasCondition c.ps && c.heralds.isEmpty then (Dist.normalize d, 1)
  else
    (Dist.normalize (Dist.mapKeys (SimSpec.reported c) (Dist.restrict (SimSpec.logicOk c) d)),
      1 - Dist.mass (Dist.restrict (fun t => !SimSpec.logicOk c t) d))

/-- the threshold of the polarisation layer's own photon filter -/
def layerThreshold (fixed : Bool) (sel : Sel) : ℕ :=
  if fixed then sel.minDet + sel.hsum else sel.hsum

/-- `PolarizationSimulator.probs_svd` on one polarised Fock input, `d0` being the full distribution
of the wrapped simulation on the `2m` sub-modes: wrapped filter, merge of the sub-modes
(`_postprocess_bsd_impl`), the layer's photon filter, post-selection; the performances are
multiplied.  → (results, physical_perf, logical_perf) -/
def polProbs (fixed : Bool) (sel : Sel) (d0 : Dist.D) : Dist.D × ℚ × ℚ :=
  let i := innerProbs sel.minDet d0
  let d2 := Dist.mapKeys mergeState i.1
  let f := photonFilter (layerThreshold fixed sel) d2
  let p := postSelect sel.cond f.1
  (p.1, i.2.1 * f.2, i.2.2 * p.2)

end PM.C13
