/-
  C19 (extension) — torn writes: a crash *inside* one `PersistentData.write_file` call.

  `JobGroup._write_to_file` hands the whole group, as one JSON text (`json.dumps(self._to_json())`), to
  `PersistentData.write_file(path, text, FileFormat.TEXT)`, which is

      with open(file_path, "wt", encoding="UTF-8") as file:      -- event 1: the file is created / truncated
          file.write(data)                                       -- events 2 … len+1: the characters, in order
      except OSError: warnings.warn("Can't save …")              -- an I/O error is swallowed: the caller returns

  and `JobGroup(name)` reads it back with `has_file` → `read_file` → `json.loads` → `_from_json`.

  Modelled here (core Lean only):
  * the file as what one write has made of it after `c` of its events (`fileAt`): the previous content before the
    `open`, then the first `c-1` characters of the new text (any prefix: whatever the buffering, characters reach
    the file in order), then the whole text; and the same for a write that goes through a temporary file renamed
    onto the group file (`WriteImpl.viaTemp`, the usual repair — not what the code does);
  * `json.loads` succeeding with a dictionary as a character-level pushdown recogniser of JSON objects (`step`,
    `scan`, `accepts`): Python's grammar — strict strings (no control character, `\uXXXX`, the eight short escapes),
    numbers `-?(0|[1-9]\d*)(\.\d+)?([eE][+-]?\d+)?`, the literals `true false null NaN Infinity -Infinity`,
    white space ` \t\n\r`, nothing but white space after the value.  A top-level value that is not an object is
    refused: `_from_json` subscripts the result with `'created_date'` and raises on anything else;
  * re-opening (`reopen`): no file → a fresh group is created; a text `json.loads` refuses → the constructor raises
    (`JSONDecodeError`); otherwise the group that text describes.

  Characters are code points (`Nat`).
-/
namespace PM.C19.TW

abbrev Ch := Nat
abbrev Text := List Ch

/-- JSON white space: space, tab, line feed, carriage return -/
def isWs (c : Ch) : Bool := c = 32 || c = 9 || c = 10 || c = 13

def isDigit (c : Ch) : Bool := 48 ≤ c && c ≤ 57
def isDigit19 (c : Ch) : Bool := 49 ≤ c && c ≤ 57
def isHex (c : Ch) : Bool := isDigit c || (97 ≤ c && c ≤ 102) || (65 ≤ c && c ≤ 70)

inductive Ctx
  | arr | obj
  deriving DecidableEq, Repr

/-- where the scanner is inside a number; `final` = the digits read so far are a number -/
inductive NumSt
  | minus | zero | int | dot | frac | exp | expSign | expDigits
  deriving DecidableEq, Repr

def NumSt.final : NumSt → Bool
  | .zero | .int | .frac | .expDigits => true
  | _ => false

inductive Mode
  | start                      -- nothing but white space read so far
  | value                      -- a value must follow (after `:` or `,` in an array)
  | valueOrEnd                 -- after `[`
  | keyOrEnd                   -- after `{`
  | key                        -- after `,` in an object
  | colon                      -- after a key
  | afterValue                 -- after a value inside a container
  | str (isKey : Bool)         -- inside a string
  | esc (isKey : Bool)         -- after a backslash
  | hex (isKey : Bool) (left : Nat)   -- inside `\uXXXX`, `left` digits to go
  | lit (rest : List Ch)       -- inside a literal, `rest` still to come
  | num (st : NumSt)
  | done                       -- the top-level object is closed
  | fail
  deriving DecidableEq, Repr

structure St where
  mode : Mode
  stack : List Ctx
  deriving DecidableEq, Repr

def init : St := ⟨.start, []⟩

/-- a value has just ended -/
def closeValue (stk : List Ctx) : St :=
  match stk with
  | [] => ⟨.done, []⟩
  | _ => ⟨.afterValue, stk⟩

/-- the character `c` read where `,` or the closing bracket of the innermost container is expected -/
def afterValueStep (stk : List Ctx) (c : Ch) : St :=
  if isWs c then ⟨.afterValue, stk⟩
  else match stk with
    | .arr :: rest =>
      if c = 44 then ⟨.value, stk⟩                   -- ,
      else if c = 93 then closeValue rest             -- ]
      else ⟨.fail, stk⟩
    | .obj :: rest =>
      if c = 44 then ⟨.key, stk⟩
      else if c = 125 then closeValue rest            -- }
      else ⟨.fail, stk⟩
    | [] => ⟨.fail, stk⟩

/-- the character `c` read where a value starts -/
def valueStep (stk : List Ctx) (c : Ch) (orEnd : Bool) : St :=
  if isWs c then ⟨if orEnd then .valueOrEnd else .value, stk⟩
  else if c = 123 then ⟨.keyOrEnd, .obj :: stk⟩       -- {
  else if c = 91 then ⟨.valueOrEnd, .arr :: stk⟩      -- [
  else if c = 34 then ⟨.str false, stk⟩               -- "
  else if c = 45 then ⟨.num .minus, stk⟩              -- -
  else if c = 48 then ⟨.num .zero, stk⟩               -- 0
  else if isDigit19 c then ⟨.num .int, stk⟩
  else if c = 116 then ⟨.lit [114, 117, 101], stk⟩    -- true
  else if c = 102 then ⟨.lit [97, 108, 115, 101], stk⟩ -- false
  else if c = 110 then ⟨.lit [117, 108, 108], stk⟩    -- null
  else if c = 78 then ⟨.lit [97, 78], stk⟩            -- NaN
  else if c = 73 then ⟨.lit [110, 102, 105, 110, 105, 116, 121], stk⟩   -- Infinity
  else if orEnd && c = 93 then
    (match stk with
     | .arr :: rest => closeValue rest
     | _ => ⟨.fail, stk⟩)
  else ⟨.fail, stk⟩

/-- inside a number: the next state when `c` continues it, `none` when `c` does not belong to it -/
def numStep (n : NumSt) (c : Ch) : Option Mode :=
  match n with
  | .minus => if c = 48 then some (.num .zero) else if isDigit19 c then some (.num .int)
              else if c = 73 then some (.lit [110, 102, 105, 110, 105, 116, 121]) else some .fail
  | .zero => if c = 46 then some (.num .dot) else if c = 101 || c = 69 then some (.num .exp) else none
  | .int => if isDigit c then some (.num .int) else if c = 46 then some (.num .dot)
            else if c = 101 || c = 69 then some (.num .exp) else none
  | .dot => if isDigit c then some (.num .frac) else some .fail
  | .frac => if isDigit c then some (.num .frac) else if c = 101 || c = 69 then some (.num .exp) else none
  | .exp => if c = 43 || c = 45 then some (.num .expSign) else if isDigit c then some (.num .expDigits) else some .fail
  | .expSign => if isDigit c then some (.num .expDigits) else some .fail
  | .expDigits => if isDigit c then some (.num .expDigits) else none

def step (s : St) (c : Ch) : St :=
  match s.mode with
  | .fail => ⟨.fail, s.stack⟩
  | .done => if isWs c then ⟨.done, s.stack⟩ else ⟨.fail, s.stack⟩
  | .start => if isWs c then s else if c = 123 then ⟨.keyOrEnd, [.obj]⟩ else ⟨.fail, s.stack⟩
  | .value => valueStep s.stack c false
  | .valueOrEnd => valueStep s.stack c true
  | .keyOrEnd =>
    if isWs c then s
    else if c = 34 then ⟨.str true, s.stack⟩
    else if c = 125 then
      (match s.stack with
       | .obj :: rest => closeValue rest
       | _ => ⟨.fail, s.stack⟩)
    else ⟨.fail, s.stack⟩
  | .key => if isWs c then s else if c = 34 then ⟨.str true, s.stack⟩ else ⟨.fail, s.stack⟩
  | .colon => if isWs c then s else if c = 58 then ⟨.value, s.stack⟩ else ⟨.fail, s.stack⟩
  | .afterValue => afterValueStep s.stack c
  | .str k =>
    if c = 34 then (if k then ⟨.colon, s.stack⟩ else closeValue s.stack)
    else if c = 92 then ⟨.esc k, s.stack⟩
    else if c < 32 then ⟨.fail, s.stack⟩
    else s
  | .esc k =>
    if c = 34 || c = 92 || c = 47 || c = 98 || c = 102 || c = 110 || c = 114 || c = 116 then ⟨.str k, s.stack⟩
    else if c = 117 then ⟨.hex k 4, s.stack⟩
    else ⟨.fail, s.stack⟩
  | .hex k n =>
    if isHex c then (if n ≤ 1 then ⟨.str k, s.stack⟩ else ⟨.hex k (n - 1), s.stack⟩) else ⟨.fail, s.stack⟩
  | .lit rest =>
    (match rest with
     | [] => ⟨.fail, s.stack⟩
     | x :: r => if c = x then (if r = [] then closeValue s.stack else ⟨.lit r, s.stack⟩) else ⟨.fail, s.stack⟩)
  | .num n =>
    (match numStep n c with
     | some m => ⟨m, s.stack⟩
     | none => if n.final then afterValueStep s.stack c else ⟨.fail, s.stack⟩)

def scanFrom (s : St) (t : Text) : St := t.foldl step s

def scan (t : Text) : St := scanFrom init t

/-- `json.loads(t)` returns a dictionary -/
def accepts (t : Text) : Bool := (scan t).mode = .done

/-! ## the group file during one write -/

inductive WriteImpl
  | inPlace      -- `open(path, "wt")` then `write`: the code as it is
  | viaTemp      -- write a temporary file completely, then rename it onto the group file
  deriving DecidableEq, Repr

/-- the group file (`none` = no file) when the process stops after `c` events of one `write_file(new)` that found
the file as `old`.  In place: event 1 is the `open` (creates / truncates), events 2 … are the characters of `new` in
order; from `c = new.length + 1` on the text is complete.  Via a temporary file: the events before the rename
(the temporary file's creation, its `new.length` characters, its close) do not touch the group file. -/
def fileAt (w : WriteImpl) (old : Option Text) (new : Text) (c : Nat) : Option Text :=
  match w with
  | .inPlace =>
    (match c with
     | 0 => old
     | k + 1 => some (new.take k))
  | .viaTemp => if c < new.length + 3 then old else some new

/-- what `JobGroup(name)` does with the file it finds -/
inductive Opened
  | fresh                -- no file: an empty group is created (and written)
  | raises               -- `json.loads` / `_from_json` raise: the constructor raises
  | loaded (t : Text)    -- the group the text `t` describes
  deriving DecidableEq, Repr

def reopen : Option Text → Opened
  | none => .fresh
  | some t => if accepts t then .loaded t else .raises

/-- the last character of the text is not white space (`json.dumps` ends an object with `}`) -/
def endsBlack (t : Text) : Bool :=
  match t.getLast? with
  | some c => !isWs c
  | none => false

end PM.C19.TW
