/-
  C14 (extension 2) — the SYMBOLIC branch (`use_symbolic=True`) of every leaf component, as the code writes it:
  the entries are sympy expressions built from `component.param(slot).spv` (a number, a free symbol, or the tree of
  an `Expression` with its sub-parameters free).  `CExpr` is the complex-valued expression language those entries
  live in; `CExpr.eval` is "substitute the values and evaluate".

  `BS._compute_unitary(use_symbolic=True)`:
      cos_theta = sp.cos(theta/2); sin_theta = sp.sin(theta/2)
      u00_mul = sp.exp((phi_tl + phi_tr)*sp.I) …; umat = template; umat[0,0] *= u00_mul*cos_theta …
  `PS`: `[[sp.exp(phase*sp.I)]]`, `phase = phi.spv + max_error.spv*random.uniform(-1,1)` (here `max_error = 0`);
  `WP`: `cos(δ) ± I sin(δ) cos(2ξ)`, `I sin(δ) sin(2ξ)`;  `PR`: `[[cos δ, sin δ], [-sin δ, cos δ]]`;
  `PERM`, `PBS` (`Unitary._compute_unitary`): the stored numeric matrix whatever `use_symbolic` is.
-/
import PercevalModel.Model.C14Expr

open Matrix

namespace PM.C14

/-- complex-valued symbolic entries -/
inductive CExpr
  /-- a real expression -/
  | re (a : XExpr)
  /-- `sp.I` -/
  | I
  /-- `sp.exp(a * sp.I)` -/
  | expI (a : XExpr)
  | add (a b : CExpr)
  | sub (a b : CExpr)
  | mul (a b : CExpr)
  | neg (a : CExpr)
deriving Repr

section eval
variable {K C : Type*} [Field K] [DecidableEq K] [CommRing C]

/-- substitute the values `env` and evaluate; `ι` embeds the reals into the complex numbers, `i` is the
imaginary unit; `exp(i x)` is evaluated as `cos x + i sin x` -/
def CExpr.eval (I : Interp K) (ι : K → C) (i : C) (env : String → Option K) : CExpr → Option C
  | .re a => (a.eval I env).map ι
  | .I => some i
  | .expI a =>
      match a.eval I env with
      | none => none
      | some x =>
        match I.fn .cos x, I.fn .sin x with
        | some c, some s => some (ι c + i * ι s)
        | _, _ => none
  | .add a b => do let x ← a.eval I ι i env; let y ← b.eval I ι i env; pure (x + y)
  | .sub a b => do let x ← a.eval I ι i env; let y ← b.eval I ι i env; pure (x - y)
  | .mul a b => do let x ← a.eval I ι i env; let y ← b.eval I ι i env; pure (x * y)
  | .neg a => do let x ← a.eval I ι i env; pure (-x)

end eval

def CExpr.one : CExpr := .re (.const 1)

/-- `theta/2` -/
def XExpr.half (a : XExpr) : XExpr := .div a (.const 2)
/-- `2*xsi` -/
def XExpr.dbl (a : XExpr) : XExpr := .mul (.const 2) a

/-- `BS._matrix_template(use_symbolic=True)` -/
def templateS : Conv → Matrix (Fin 2) (Fin 2) CExpr
  | .Rx => !![.one, .I; .I, .one]
  | .Ry => !![.one, .neg .one; .one, .one]
  | .H => !![.one, .one; .one, .neg .one]

/-- `BS._compute_unitary(use_symbolic=True)`, the slots given by their `spv` -/
def symBS (conv : Conv) (θ tl bl tr br : XExpr) : Matrix (Fin 2) (Fin 2) CExpr :=
  !![.mul (templateS conv 0 0) (.mul (.expI (.add tl tr)) (.re (.app .cos θ.half))),
     .mul (templateS conv 0 1) (.mul (.expI (.add tr bl)) (.re (.app .sin θ.half)));
     .mul (templateS conv 1 0) (.mul (.expI (.add tl br)) (.re (.app .sin θ.half))),
     .mul (templateS conv 1 1) (.mul (.expI (.add br bl)) (.re (.app .cos θ.half)))]

/-- `PS._compute_unitary(use_symbolic=True)` with `max_error = 0` -/
def symPS (φ : XExpr) : Matrix (Fin 1) (Fin 1) CExpr := !![.expI φ]

/-- `PS._compute_unitary(use_symbolic=True)` with a phase error: `phase = phi.spv + max_error.spv * r`,
`r = random.uniform(-1, 1)` — the draw is external, the model takes it as an input -/
def symPSerr (φ m : XExpr) (r : ℚ) : Matrix (Fin 1) (Fin 1) CExpr := !![.expI (.add φ (.mul m (.const r)))]

/-- `WP._compute_unitary(use_symbolic=True)` -/
def symWP (d x : XExpr) : Matrix (Fin 2) (Fin 2) CExpr :=
  !![.add (.re (.app .cos d)) (.mul (.mul .I (.re (.app .sin d))) (.re (.app .cos x.dbl))),
     .mul (.mul .I (.re (.app .sin d))) (.re (.app .sin x.dbl));
     .mul (.mul .I (.re (.app .sin d))) (.re (.app .sin x.dbl)),
     .sub (.re (.app .cos d)) (.mul (.mul .I (.re (.app .sin d))) (.re (.app .cos x.dbl)))]

/-- `PR._compute_unitary(use_symbolic=True)` -/
def symPR (d : XExpr) : Matrix (Fin 2) (Fin 2) CExpr :=
  !![.re (.app .cos d), .re (.app .sin d); .neg (.re (.app .sin d)), .re (.app .cos d)]

/-- `HWP(xsi)` is `WP(sp.pi/2, xsi)`, `QWP(xsi)` is `WP(sp.pi/4, xsi)`: the first slot holds the exact sympy number -/
def symHWP (x : XExpr) : Matrix (Fin 2) (Fin 2) CExpr := symWP (.div .pi (.const 2)) x
def symQWP (x : XExpr) : Matrix (Fin 2) (Fin 2) CExpr := symWP (.div .pi (.const 4)) x

/-- `PBS()`: the fixed matrix `[[0,0,1,0],[0,1,0,0],[1,0,0,0],[0,0,0,1]]` = `PERM([2,1,0,3])` on the doubled modes -/
def pbsPerm : Fin 4 → Fin 4 := ![2, 1, 0, 3]

def pbs {R : Type*} [Zero R] [One R] : Matrix (Fin 4) (Fin 4) R := permMat pbsPerm

end PM.C14
