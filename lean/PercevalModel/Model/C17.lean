/-
  C17 — model of `perceval/runtime/remote_job.py` (`RemoteJob.status`, `_handle_status_error`,
  `execute_async`, `cancel`, `rerun`, `_get_results`, `_from_dict`), `job.py` (`Job.get_results`,
  `is_complete` …) and `job_status.py` (`RunningStatus.from_server_response`, the `JobStatus`
  predicates).  Core Lean only.

  One machine state is *one `RemoteJob` object* (the job the history is currently talking to).  Every
  operation carries the answers the server will give to the requests the operation may issue, so a
  history is a list of client actions interleaved with arbitrary server behaviour.

  `fixed : Bool` selects between the code as it stood on the pinned tree (`false`) and the code
  with the two repairs `fixes/C17-streak.diff`, `fixes/C17-sent-once.diff` (`true`):
    * `_handle_status_error`: `== _MAX_ERROR` (current) vs `>= _MAX_ERROR` (fixed);
    * `execute_async`: `assert status.waiting` (current) vs `assert not was_sent and status.waiting`.

  Throttle: `RemoteJob.status` only asks the server when `now - previous > STATUS_REFRESH_DELAY`.
  The main machine models "every status read is due" (the harness runs the real code with
  `STATUS_REFRESH_DELAY = -1`); `readStatusAt` below is the variant with the explicit clock.

  Assumed about what is *not* modelled (and is exactly what the correspondence exercises):
  `requests` (a request either returns a JSON body, or raises `HTTPError` carrying a status code in
  400..599, or raises `ConnectionError`), `RPCHandler` (forwards one request per call and raises
  what `raise_for_status` raises; `create_job` raises a response-less `HTTPError` on any non-200),
  server strings are ASCII, results carry no `job_context` (no result mapping).
  Time / progress fields, `Job.name`, `_to_dict` / `_from_dict` / `from_id` and `execute_sync` are
  modelled on top of this machine in `Model/C17X.lean` (with the theorems that project it back here).
-/
import PercevalModel.Found.SM

namespace PM.C17

/-- `RunningStatus` -/
inductive St
  | waiting | running | success | error | canceled | suspended | cancelRequested | unknown
  deriving DecidableEq, Repr, Inhabited

namespace St

/-- `RunningStatus.name` -/
def name : St → String
  | waiting => "WAITING" | running => "RUNNING" | success => "SUCCESS" | error => "ERROR"
  | canceled => "CANCELED" | suspended => "SUSPENDED" | cancelRequested => "CANCEL_REQUESTED"
  | unknown => "UNKNOWN"

/-- `JobStatus.completed` -/
def completed : St → Bool
  | success | error | canceled => true
  | _ => false

/-- `JobStatus.failed` -/
def failed : St → Bool
  | error | canceled => true
  | _ => false

/-- `JobStatus.success` -/
def isSuccess : St → Bool
  | success => true
  | _ => false

/-- `JobStatus.waiting` -/
def isWaiting : St → Bool
  | waiting => true
  | _ => false

/-- `JobStatus.running` (`RUNNING` or `CANCEL_REQUESTED`) -/
def isRunning : St → Bool
  | running | cancelRequested => true
  | _ => false

/-- `JobStatus.maybe_completed` -/
def maybeCompleted : St → Bool
  | success | error | canceled | unknown => true
  | _ => false

/-- the test of `RemoteJob.cancel`: `status in (RUNNING, WAITING, SUSPENDED)` -/
def cancellable : St → Bool
  | running | waiting | suspended => true
  | _ => false

end St

/-- `RunningStatus.from_server_response`: `'completed'` is SUCCESS, otherwise the upper-cased
string is looked up among the member names, anything else is UNKNOWN (so `'COMPLETED'` is UNKNOWN
and `'success'` is SUCCESS). -/
def fromServer (s : String) : St :=
  if s = "completed" then .success
  else match s.toUpper with
    | "WAITING" => .waiting
    | "RUNNING" => .running
    | "SUCCESS" => .success
    | "ERROR" => .error
    | "CANCELED" => .canceled
    | "SUSPENDED" => .suspended
    | "CANCEL_REQUESTED" => .cancelRequested
    | "UNKNOWN" => .unknown
    | _ => .unknown

/-- `RemoteJob._MAX_ERROR` -/
def maxError : Nat := 5

/-- the whitelist of `_handle_status_error` -/
def transient (c : Nat) : Bool :=
  c == 408 || c == 409 || c == 421 || c == 423 || c == 429

/-- answer of the server to one *status* request -/
inductive Resp
  | status (s : String) (m : Nat)   -- a body; `s` = its `status` string, `m` = token of `status_message`
  | http (c : Nat)                  -- `HTTPError` with status code `c`
  | conn                            -- `ConnectionError`
  deriving DecidableEq, Repr

/-- answer to a create / cancel / rerun request (`id` is ignored by cancel) -/
inductive HResp
  | ok (id : Nat)
  | http (c : Nat)
  | conn
  deriving DecidableEq, Repr

/-- answer to a results request -/
inductive RResp
  | ok (tok : Nat)   -- a non-empty (truthy) result dictionary, identified by `tok`
  | empty            -- the empty dictionary (falsy: `if self._results` treats it as "no cache")
  | missing          -- no usable `results` field (`KeyError` / `TypeError` in `_get_results`)
  | http (c : Nat)
  | conn
  deriving DecidableEq, Repr

/-- `JobStatus._stop_message` -/
inductive Msg
  | none
  | server (m : Nat)      -- `response['status_message']` of a status read that said ERROR/CANCELED
  | cancelRequested       -- 'Cancellation requested by user'
  | createFailed          -- `str(e)` of the failed `create_job`
  deriving DecidableEq, Repr

/-- through which public accessor the status is read -/
inductive View
  | status | isComplete | isFailed | isSuccess | isWaiting | isRunning
  deriving DecidableEq, Repr

inductive Op
  | execute (h : HResp)                                   -- `execute_async()`
  | poll (v : View) (r : Resp)                            -- `status()` / `is_complete` / …
  | cancel (r : Resp) (h : HResp)                         -- `cancel()`
  | rerun (r1 r2 : Resp) (h : HResp) (switch : Bool)      -- `rerun()`; `switch`: go on with the new job
  | getResults (r1 r2 : Resp) (h : RResp)                 -- `get_results()`
  deriving DecidableEq, Repr

/-- one call received by the rpc handler (with the job id it was given; `none` = Python `None`) -/
inductive Call
  | create
  | status (id : Option Nat)
  | cancel (id : Option Nat)
  | rerun (id : Option Nat)
  | results (id : Option Nat)
  deriving DecidableEq, Repr

inductive Exc
  | assertion                   -- `AssertionError` of `execute_async`
  | http (c : Option Nat)       -- `HTTPError` (`none`: the response-less one of `create_job`)
  | conn                        -- `ConnectionError`
  | stillRunning                -- RuntimeError 'The job is still running, results are not available yet.'
  | jobFailed (m : Msg)         -- RuntimeError 'The job failed: <stop message>'
  | unavailable                 -- RuntimeError 'Results are not available'
  | notCancellable              -- RuntimeError 'Job is not waiting or running, cannot cancel it'
  | notRerunnable               -- RuntimeError 'Cannot rerun current job …'
  deriving DecidableEq, Repr

inductive Res
  | ok                          -- `execute_async` / `cancel` returned
  | st (s : St)                 -- `status()` returned this status
  | flag (b : Bool)             -- `is_complete` / `is_failed` / … returned
  | newJob (id : Nat)           -- `rerun` returned a new job with this id
  | results (tok : Option Nat)  -- `get_results` returned (`none`: the empty dictionary)
  | raised (e : Exc)
  deriving DecidableEq, Repr

structure Out where
  res : Res
  calls : List Call
  deriving DecidableEq, Repr

/-- one `RemoteJob` object -/
structure Job where
  id : Option Nat          -- `_id`
  status : St              -- `_job_status.status`
  streak : Nat             -- `_status_refresh_error`
  msg : Msg                -- `_job_status._stop_message`
  cache : Option Nat       -- `_results` when truthy
  sentCount : Nat          -- ghost: submissions of this job (`create_job` calls; 1 at birth for a rerun child)
  lastRead : Option St     -- ghost: status of the last successful server read since the last local transition
  deriving DecidableEq, Repr

/-- `RemoteJob(request_data, rpc_handler, name)` -/
def init : Job :=
  { id := none, status := .waiting, streak := 0, msg := .none, cache := none, sentCount := 0, lastRead := none }

/-- `RemoteJob._from_dict` as `rerun` calls it: new id, WAITING -/
def born (n : Nat) : Job :=
  { id := some n, status := .waiting, streak := 0, msg := .none, cache := none, sentCount := 1, lastRead := none }

/-- does `RemoteJob.status` go to the server? (`was_sent and not completed`, throttle transparent) -/
def statusDue (j : Job) : Bool := j.id.isSome && !j.status.completed

/-- the test of `_handle_status_error` on the already incremented counter -/
def raisesAt (fixed : Bool) (n : Nat) : Bool :=
  if fixed then decide (maxError ≤ n) else n == maxError

def excOf : Option Nat → Exc
  | some c => .http (some c)
  | none => .conn

/-- `_handle_status_error(error)`; `code = none` for a `ConnectionError` -/
def handleErr (fixed : Bool) (j : Job) (code : Option Nat) : Job × Option Exc :=
  let j' := { j with streak := j.streak + 1 }
  if raisesAt fixed j'.streak then (j', some (excOf code))
  else match code with
    | some c => if transient c then (j', none) else (j', some (excOf code))
    | none => (j', none)

/-- the `status` property.  Returns the job afterwards, the exception if one propagates, and the
handler calls.  The `JobStatus` object handed to the caller is the job's own, i.e. the caller sees
the status of the returned job. -/
def readStatus (fixed : Bool) (j : Job) (r : Resp) : Job × Option Exc × List Call :=
  if !statusDue j then (j, none, [])
  else match r with
    | .status s m =>
      let st := fromServer s
      ({ j with status := st, streak := 0, msg := if st.failed then .server m else j.msg,
                lastRead := some st }, none, [.status j.id])
    | .http c =>
      let p := handleErr fixed j (some c)
      (p.1, p.2, [.status j.id])
    | .conn =>
      let p := handleErr fixed j none
      (p.1, p.2, [.status j.id])

/-- the assertion of `execute_async` -/
def canExecute (fixed : Bool) (j : Job) : Bool :=
  j.status.isWaiting && (!fixed || j.id.isNone)

def execute (fixed : Bool) (j : Job) (h : HResp) : Job × Out :=
  if !canExecute fixed j then (j, ⟨.raised .assertion, []⟩)
  else match h with
    | .ok n =>
      ({ j with id := some n, status := .waiting, sentCount := j.sentCount + 1, lastRead := none },
       ⟨.ok, [.create]⟩)
    | .http _ =>
      ({ j with status := .error, msg := .createFailed, sentCount := j.sentCount + 1, lastRead := none },
       ⟨.raised (.http none), [.create]⟩)
    | .conn =>
      ({ j with status := .error, msg := .createFailed, sentCount := j.sentCount + 1, lastRead := none },
       ⟨.raised .conn, [.create]⟩)

def view (v : View) (s : St) : Res :=
  match v with
  | .status => .st s
  | .isComplete => .flag s.completed
  | .isFailed => .flag s.failed
  | .isSuccess => .flag s.isSuccess
  | .isWaiting => .flag s.isWaiting
  | .isRunning => .flag s.isRunning

def poll (fixed : Bool) (j : Job) (v : View) (r : Resp) : Job × Out :=
  match readStatus fixed j r with
  | (j1, some e, c) => (j1, ⟨.raised e, c⟩)
  | (j1, none, c) => (j1, ⟨view v j1.status, c⟩)

def hExc : HResp → Exc
  | .http c => .http (some c)
  | _ => .conn

def cancel (fixed : Bool) (j : Job) (r : Resp) (h : HResp) : Job × Out :=
  match readStatus fixed j r with
  | (j1, some e, c) => (j1, ⟨.raised e, c⟩)
  | (j1, none, c) =>
    if j1.status.cancellable then
      match h with
      | .ok _ =>
        ({ j1 with status := .cancelRequested, msg := .cancelRequested, lastRead := none },
         ⟨.ok, c ++ [.cancel j1.id]⟩)
      | _ => (j1, ⟨.raised (hExc h), c ++ [.cancel j1.id]⟩)
    else (j1, ⟨.raised .notCancellable, c⟩)

/-- `rerun()`.  When the job has not failed the error message is built with a *second*
`self.status` (f-string), which is a second status read. -/
def rerun (fixed : Bool) (j : Job) (r1 r2 : Resp) (h : HResp) (switch : Bool) : Job × Out :=
  match readStatus fixed j r1 with
  | (j1, some e, c) => (j1, ⟨.raised e, c⟩)
  | (j1, none, c) =>
    if j1.status.failed then
      match h with
      | .ok n => (if switch then born n else j1, ⟨.newJob n, c ++ [.rerun j1.id]⟩)
      | _ => (j1, ⟨.raised (hExc h), c ++ [.rerun j1.id]⟩)
    else
      match readStatus fixed j1 r2 with
      | (j2, some e, c2) => (j2, ⟨.raised e, c ++ c2⟩)
      | (j2, none, c2) => (j2, ⟨.raised .notRerunnable, c ++ c2⟩)

/-- `Job.get_results()` + `RemoteJob._get_results()`.
`if self._results and self.status.completed: return self._results` is a second status read when a
truthy result is cached. -/
def getResults (fixed : Bool) (j : Job) (r1 r2 : Resp) (h : RResp) : Job × Out :=
  match readStatus fixed j r1 with
  | (j1, some e, c) => (j1, ⟨.raised e, c⟩)
  | (j1, none, c) =>
    if !j1.status.maybeCompleted then (j1, ⟨.raised .stillRunning, c⟩)
    else
      match (if j1.cache.isSome then readStatus fixed j1 r2 else (j1, none, [])) with
      | (j2, some e, c2) => (j2, ⟨.raised e, c ++ c2⟩)
      | (j2, none, c2) =>
        if j2.cache.isSome && j2.status.completed then (j2, ⟨.results j2.cache, c ++ c2⟩)
        else
          let cs := c ++ c2 ++ [.results j2.id]
          match h with
          | .ok t => ({ j2 with cache := some t }, ⟨.results (some t), cs⟩)
          | .empty => ({ j2 with cache := none }, ⟨.results none, cs⟩)
          | .missing =>
            (j2, ⟨.raised (if j2.status.failed then .jobFailed j2.msg else .unavailable), cs⟩)
          | .http code => (j2, ⟨.raised (.http (some code)), cs⟩)
          | .conn => (j2, ⟨.raised .conn, cs⟩)

def step (fixed : Bool) (j : Job) : Op → Job × Out
  | .execute h => execute fixed j h
  | .poll v r => poll fixed j v r
  | .cancel r h => cancel fixed j r h
  | .rerun r1 r2 h sw => rerun fixed j r1 r2 h sw
  | .getResults r1 r2 h => getResults fixed j r1 r2 h

/-- a rerun that the history follows into the new job -/
def Op.switches : Op → Bool
  | .rerun _ _ _ sw => sw
  | _ => false

def countCreate : List Call → Nat
  | [] => 0
  | .create :: cs => countCreate cs + 1
  | _ :: cs => countCreate cs

def isStatusCall : Call → Bool
  | .status _ => true
  | _ => false

/-- number of `create_job` calls along a whole list of step outputs -/
def totalCreates : List Out → Nat
  | [] => 0
  | o :: os => countCreate o.calls + totalCreates os

/-- a status request that fails in the recoverable way: connection error or whitelisted HTTP code -/
def Resp.isTransient : Resp → Bool
  | .conn => true
  | .http c => transient c
  | .status _ _ => false

/-- the exception a failed status request carries -/
def respExc : Resp → Exc
  | .http c => .http (some c)
  | _ => .conn

/-- what the property demands of a run of consecutive transient status failures `rs` that follows
`k` earlier consecutive failures, on a job whose last known status is `j.status`: failure number
`n = k + 1, k + 2, …` of the streak is absorbed (last known status returned) while `n < _MAX_ERROR`
and raised from `n = _MAX_ERROR` on; every one of them is one status request. -/
def streakSpec (j : Job) : Nat → List Resp → List Out
  | _, [] => []
  | k, r :: rs =>
    (if k + 1 < maxError then (⟨.st j.status, [.status j.id]⟩ : Out)
     else ⟨.raised (respExc r), [.status j.id]⟩) :: streakSpec j (k + 1) rs

/-! ### the throttle, with an explicit clock

`now - self._previous_status_refresh > STATUS_REFRESH_DELAY`; times are integers (any unit). -/
structure TJob where
  job : Job
  prev : Int
  deriving DecidableEq, Repr

def readStatusAt (fixed : Bool) (delay : Int) (t : TJob) (now : Int) (r : Resp) :
    TJob × Option Exc × List Call :=
  if !statusDue t.job then (t, none, [])
  else if now - t.prev > delay then
    let p := readStatus fixed t.job r
    (⟨p.1, now⟩, p.2.1, p.2.2)
  else (t, none, [])

end PM.C17
