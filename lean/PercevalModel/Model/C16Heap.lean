/-
  C16 (extension) — the objects a job's request SHARES with the processor and the sampler.

  `RemoteProcessor.prepare_job_payload` : `payload['parameters'] = self._parameters`      (the dict object itself)
  `Sampler._create_job`                 : `payload['payload']['iterator'] = self._iterator` (the list object itself,
                                           and only `if self._iterator:` — an empty list gives no key at all)
  `RemoteJob.execute_async`             : `serialize(self._create_payload_data(...))` — the request is turned into
                                           text at SEND time.
  Every other field is text or a fresh object when the job is created (`serialize(circuit)`, `serialize(input_state)`,
  `serialize(post_select_fn)`, `serialize(noise)`, `self.heralds` — a property building a new dict —, the command,
  `max_shots`).

  Mutations IN PLACE of a shared object are seen by every request that points to it and is sent later:
  `set_parameter`, `_set_min_photons_parameter()` (run by every later `prepare_job_payload` / job creation),
  `add_iteration(_list)` (`self._iterator.append`).  REBINDING gives the processor / sampler a new object and leaves
  the old one to the requests that hold it: `clear_parameters()` (`self._parameters = {}`), `clear_iterations()`
  (`self._iterator = []`), a new `RemoteProcessor`, a new `Sampler`.

  The heap machine `hstep aliased` is the symbol machine `Model/C16.step` plus the two families of objects and, per job,
  the objects its request points to.  `aliased = true`: the code as it is — at `execute` the request is read through its
  references.  `aliased = false`: the repaired code (`fixes/C16-job-snapshot.diff`: `dict(self._parameters)`,
  `list(self._iterator)`) — the request is what it was when the job was created, i.e. `step` itself.
-/
import PercevalModel.Model.C16

namespace PM.C16

structure HWorld where
  w : World
  pobjs : List (Dict PV)             -- every `_parameters` dictionary created so far; the last is the processor's
  iobjs : List (List (Dict IV))      -- every iterator list created so far; the last is the sampler's
  jrefs : List (Nat × Option Nat)    -- per created job: its `parameters` dictionary, its `iterator` list (if the key exists)
deriving DecidableEq, Repr

/-- `objs[-1] = x` (the current object is mutated in place; created if there is none yet) -/
def setLast {α : Type} (objs : List α) (x : α) : List α :=
  if objs = [] then [x] else objs.dropLast ++ [x]

/-- which calls give the processor a NEW `_parameters` dictionary when they succeed -/
def Op.rebindsParams : Op → Bool
  | .newRemote .. => true
  | .convert .. => true
  | .clearParams => true
  | _ => false

/-- which calls give the sampler a NEW iterator list when they succeed -/
def Op.rebindsIterator : Op → Bool
  | .newSampler .. => true
  | .clearIterations => true
  | _ => false

def Out.isErr : Out → Bool
  | .err _ => true
  | _ => false

/-- a request read through its references: `parameters` shows the dictionary's content NOW, `iterator` (when the
key exists) the list's content NOW -/
def derefPayload (pl : Dict V) (params : Dict PV) (iter : Option (List (Dict IV))) : Dict V :=
  let pl := if (dget pl "parameters").isSome then dset pl "parameters" (.params params) else pl
  match iter with
  | some its => dset pl "iterator" (.iter its.length)
  | none => pl

/-- the request of job `idx` as it reads at this moment through the objects it points to -/
def derefJob (hw : HWorld) (idx : Nat) : World :=
  match hw.w.jobs[idx]?, hw.jrefs[idx]? with
  | some (j, its), some (pr, ir) =>
    let iter := ir.map fun i => hw.iobjs.getD i []
    let j' : Job := { j with payload := derefPayload j.payload (hw.pobjs.getD pr []) iter }
    { hw.w with jobs := hw.w.jobs.set idx (j', iter.getD its) }
  | _, _ => hw.w

/-- objects after a call: a successful rebinding call appends a new object, then the current objects hold
what the processor / the sampler hold now -/
def heapAfter (hw : HWorld) (op : Op) (w' : World) (o : Out) : HWorld :=
  let pobjs := if op.rebindsParams && !o.isErr then hw.pobjs ++ [[]] else hw.pobjs
  let iobjs := if op.rebindsIterator && !o.isErr then hw.iobjs ++ [[]] else hw.iobjs
  let pobjs := match w'.exp with
    | some e => setLast pobjs e.params
    | none => pobjs
  let iobjs := match w'.sampler with
    | some s => setLast iobjs s.iterator
    | none => iobjs
  let jrefs :=
    if w'.jobs.length = hw.w.jobs.length + 1 then
      hw.jrefs ++ [(pobjs.length - 1,
        match w'.sampler with
        | some s => if s.iterator ≠ [] then some (iobjs.length - 1) else none
        | none => none)]
    else hw.jrefs
  ⟨w', pobjs, iobjs, jrefs⟩

def hstep (aliased : Bool) (hw : HWorld) (op : Op) : HWorld × Out :=
  let w0 := match op with
    | .execute idx _ _ _ => if aliased then derefJob hw idx else hw.w
    | _ => hw.w
  let r := step w0 op
  (heapAfter hw op r.1 r.2, r.2)

def HWorld.init (pf : Platform) : HWorld := ⟨World.init pf, [], [], []⟩

end PM.C16
