/-
  C07 (extension 3) — (1) a loss channel in the presence of photons in the other modes, (2) the selection glue
  of the loss layer: heralds, post-selection, photon filter, `keep_heralds` on top of the marginalised
  distribution.

  * the property's second reading, "each photon crossing the channel is removed independently with probability
    `loss`", for ANY Fock state of the enlarged circuit: `spectAgree`, `thinSpect` (closed form the theorems of
    `Props/C07.lean` prove for the channel block `twoMode N a b (bsH c s)`).
  * `perceval/simulators/simulator_interface.py` `ASimulatorDecorator._postprocess_bsd` as inherited by
    `LossSimulator` (the outermost layer of `SimulatorFactory.build`, the only one that holds the heralds and the
    post-selection: "Only at last layer since postselect and heralds are not transmitted"):
        results = _postprocess_bsd_impl(results)                       → `postprocess M`
        if self.min_detected_photons_filter: filter_distribution_photon_count(...)   → `filterCount`
        post_select_distribution(results, postselect, heralds, keep_heralds)         → `postSelect`
    with `min_detected_photons_filter = _min_detected_photons_filter + sum(heralds.values())` → `Sel.filter`
  * `perceval/utils/statevector.py` `filter_distribution_photon_count`, `BSDistribution.normalize`
    (no-op on total 0), `perceval/utils/postselect.py` `post_select_distribution` (shortcut when there is neither a
    condition nor a herald; `logical_perf = 1 - Σ rejected`; herald modes removed unless `keep_heralds`)
  * `ASimulatorDecorator.set_min_detected_photons_filter` forwards the filter to the inner `Simulator`, which
    applies it (without the heralds, which it never receives) to the photon number of the *input* state
    (`Simulator._preprocess_svd`) — on the enlarged circuit that number includes the photons that will be lost
        → `lossSvdSel` (inner test on `s.sum`), `lossProbsSel` (`probs`: no inner test)
  The specification is `SimSpec.conditioned` / `physPerf` / `logicalPerf` of the marginal distribution for the
  condition `Sel.cond` (heralds and post-selection on the original modes, photon count of the original modes).
-/
import PercevalModel.Model.C07
import PercevalModel.Found.SimSpec

open Matrix

namespace PM.C07
open PM.SimSpec

/-! ### a channel block with photons in the other modes -/

/-- every mode other than `a` and `b` holds the same number of photons in `s` and in `t` -/
def spectAgree (a b : ℕ) (s t : List ℕ) : Bool :=
  (List.range s.length).all fun j => j == a || j == b || t.getD j 0 == s.getD j 0

/-- independent loss with spectators: the channel on mode `a` with fresh mode `b` (vacuum at its input) keeps
`t_a` of the `s_a` photons with the binomial probability, every other mode untouched -/
def thinSpect (τ ρ : ℚ) (a b : ℕ) (s t : List ℕ) : ℚ :=
  if spectAgree a b s t && (t.getD a 0 + t.getD b 0 == s.getD a 0) then
    ((s.getD a 0).choose (t.getD a 0) : ℚ) * τ ^ t.getD a 0 * ρ ^ t.getD b 0
  else 0

/-! ### selection on top of the loss layer -/

/-- what `set_selection` / `keep_heralds` left in the outermost simulator -/
structure Sel where
  /-- `_heralds` (a dict: one entry per mode) -/
  heralds : List (ℕ × ℕ)
  /-- `_postselect` -/
  ps : PS
  /-- `_min_detected_photons_filter` (the value given by the caller, heralds not included) -/
  minDet : ℕ
  /-- `_keep_heralds` -/
  keep : Bool

/-- the property `ISimulator.min_detected_photons_filter`: the caller's value plus the expected herald photons -/
def Sel.filter (σ : Sel) : ℕ := σ.minDet + (σ.heralds.map (·.2)).sum

/-- the specification's condition: everything is evaluated on the ORIGINAL modes -/
def Sel.cond (σ : Sel) : Cond := ⟨σ.heralds, σ.ps, σ.filter, σ.keep⟩

/-- `PostSelect.has_condition` -/
def hasCond : PS → Bool
  | .tt => false
  | _ => true

/-- `filter_distribution_photon_count(bsd, f)` → (distribution, perf) -/
def filterCount (f : ℕ) (d : Dist.D) : Dist.D × ℚ :=
  if f = 0 then (d, 1)
  else
    let res := Dist.restrict (fun t => decide (f ≤ t.sum)) d
    (Dist.normalize res, Dist.mass res)

/-- `post_select_distribution(bsd, postselect, heralds, keep_heralds)` → (distribution, logical_perf) -/
def postSelect (σ : Sel) (d : Dist.D) : Dist.D × ℚ :=
  if !(hasCond σ.ps || !σ.heralds.isEmpty) then (Dist.normalize d, 1)
  else
    (Dist.normalize (Dist.mapKeys (reported σ.cond) (Dist.restrict (logicOk σ.cond) d)),
      1 - Dist.mass (Dist.restrict (fun t => !logicOk σ.cond t) d))

/-- `ASimulatorDecorator._postprocess_bsd` of the loss layer → (results, logical_perf, physical_perf) -/
def lossPost (σ : Sel) (M : ℕ) (d : Dist.D) : Dist.D × ℚ × ℚ :=
  let d1 := postprocess M d
  let fc := if σ.filter = 0 then (d1, (1 : ℚ)) else filterCount σ.filter d1
  let pp := postSelect σ fc.1
  (pp.1, pp.2, fc.2)

/-- `LossSimulator.probs(input)` with a selection: the inner `Simulator.probs` has no heralds, no condition
(it only normalises), then `_postprocess_bsd(...)[0]` -/
def lossProbsSel {N : ℕ} (σ : Sel) (U : Matrix (Fin N) (Fin N) GQ) (M : ℕ) (s : List ℕ) : Dist.D :=
  (lossPost σ M (fullDist U (prepareInput M N s))).1

/-- `LossSimulator.probs_svd({input: 1})` with a selection → (results, logical_perf, physical_perf).
The inner `Simulator._preprocess_svd` drops an input with fewer photons than the forwarded filter
(`physical_perf -= p`, nothing left: `logical_perf = 0`); the outer layer multiplies its own factors in. -/
def lossSvdSel {N : ℕ} (σ : Sel) (U : Matrix (Fin N) (Fin N) GQ) (M : ℕ) (s : List ℕ) : Dist.D × ℚ × ℚ :=
  if s.sum < σ.minDet then
    let r := lossPost σ M []
    (r.1, 0 * r.2.1, 0 * r.2.2)
  else lossPost σ M (fullDist U (prepareInput M N s))

end PM.C07
