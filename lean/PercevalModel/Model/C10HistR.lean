/-
  C10 (extension 5) — a processor built by a history, used as the ADDED object of `Processor.add`.

  `Exp.side` (Model/C10Hist.lean) is what `compose` reads of a processor; here: the executable form of the
  well-formedness `compose` needs of the added processor (`RightWF`: herald positions distinct and inside the
  circuit, `m = circuit_size − #heralds`), the condition on a history under which it holds (no `remove_port` takes
  a herald off the OUTPUT side: `Experiment.heralds` is read from `_out_ports`, while `_n_heralds`, `_n_moi` and
  the mode type are left alone by `remove_port`), and the `add` of one history-built processor into another.
-/
import PercevalModel.Model.C10Hist

namespace PM.C10

/-- executable `RightWF` (Lemmas/C10More.lean): nothing is asked of a bare component -/
def rightWFb (r : Side) : Bool :=
  r.comp ||
    (decide (r.heralds.map (·.1)).Nodup && (r.heralds.map (·.1)).all (fun p => decide (p < r.cs)) &&
      decide (r.m + r.heralds.length = r.cs))

/-- one call that does not take a herald port off the output side -/
def HOp.keepsHeraldOut (e : Exp) : HOp → Bool
  | .rmport m loc => !(loc.hasOut && ((portAt e.outp m).map (·.herald)).getD false)
  | _ => true

/-- no call of the history takes a herald port off the output side (`remove_port(mode, INPUT)` on a heralded
mode is allowed: `heralds` does not read the input ports) -/
def keepsHeraldOut (fixM0 : Bool) : Exp → List HOp → Bool
  | _, [] => true
  | e, op :: rest =>
    op.keepsHeraldOut e &&
    match stepH fixM0 e op with
    | .error _ => true
    | .ok e' => keepsHeraldOut fixM0 e' rest

/-- the same, for a whole life -/
def historyKeeps (m : Option Nat) (ops : List HOp) : Bool :=
  match Exp.new m with
  | .error _ => true
  | .ok e0 => keepsHeraldOut true e0 ops

/-- `left.add(mapping, right, keep_port)` where `right` is itself the result of a life: the added processor is
read through `Exp.side` -/
def addHist (fixM0 : Bool) (e : Exp) (right : Exp) (raw : RawMap) (keep : Bool) : Except HErr Exp :=
  addObj fixM0 e right.side raw keep

end PM.C10
