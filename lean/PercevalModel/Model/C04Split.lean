/-
  C04 — `_preprocess_svd`'s photon-number split in front of `_probs_svd_generic`, with the photon filter.

  A member of the input mixture may superpose Fock states holding DIFFERENT photon numbers
  (`sqrt(.3)|1,0,1,0> + i sqrt(.7)|1,1,1,0>`).  `_probs_svd_generic` takes `next(iter(sv.n))` as THE photon number of
  a member — the total `n_ext` from which every group's mask budget `_best_n(n_ext, n_own)` is computed — so
  `_preprocess_svd` has to hand it members with one photon number only.  As coded (precision 0; the relative threshold
  is `C04Trim`'s / `C03Prec`'s subject):

    pass 1   for sv, p in svd:            max(sv.n) >= filter  ?  keep  :  phys_perf -= p, drop
    pass 2   for sv, p in kept:           len(sv) != 1 and len(sv.n) != 1  ?
                                             remove sv; for every sector (split_sv, ps) of _split_by_photon_count(sv):
                                                max(split_sv.n) >= filter ? to_add[split_sv] += p*ps : phys_perf -= p*ps
             kept = the members that were not split, then the sectors that passed (dict insertion order)

  `filter` = `min_detected_photons_filter` = user filter + expected herald photons (`minFilter`).  The sectors are
  C03's `splitByN` (one normalised part per photon number in first-occurrence order, weight `p·|part|²/|sv|²`).
  Equal keys of the dicts `to_add` / `trimmed_svd` add their weights; here they stay separate entries of a list (the
  accumulated `BSDistribution` is a list with repeated keys in this model anyway: `mix`).
-/
import PercevalModel.Model.C04Generic
import PercevalModel.Model.C03

namespace PM.C04
open PM.Fock PM.Dist PM.SimSpec

def GMember.mb (g : GMember) : PM.C03.Member := ⟨g.w, g.terms⟩
def ofMb (x : PM.C03.Member) : GMember := ⟨x.w, x.terms⟩

/-- `max(sv.n)` -/
def maxN (ts : List Term) : ℕ := (ts.map PM.C03.termN).foldl max 0

/-- `len(sv) != 1 and len(sv.n) != 1` -/
def multiN (g : GMember) : Bool := PM.C03.needsSplit g.mb

/-- `_split_by_photon_count(sv)` with the weights `p * ps` -/
def sectorsG (g : GMember) : List GMember := (PM.C03.splitByN g.mb).map ofMb

/-- `max(sv.n) >= self.min_detected_photons_filter` -/
def passF (c : Cfg) (g : GMember) : Bool := decide (minFilter c ≤ maxN g.terms)

/-- pass 1 -/
def pass1 (c : Cfg) (ms : List GMember) : List GMember := ms.filter (passF c)

/-- the members pass 2 splits -/
def toSplit (c : Cfg) (ms : List GMember) : List GMember := (pass1 c ms).filter multiN

/-- `phys_perf` returned by `_preprocess_svd` -/
def physS (c : Cfg) (ms : List GMember) : ℚ :=
  1 - ((ms.filter fun g => !passF c g).map (·.w)).sum
    - ((((toSplit c ms).flatMap sectorsG).filter fun s => !passF c s).map (·.w)).sum

/-- the mixture handed to `_probs_svd_generic` -/
def keptS (c : Cfg) (ms : List GMember) : List GMember :=
  ((pass1 c ms).filter fun g => !multiN g) ++ ((toSplit c ms).flatMap sectorsG).filter (passF c)

/-- `res` before normalisation: every kept member / sector under the mask budgeted from ITS photon number -/
def resS {m : ℕ} (U : Matrix (Fin m) (Fin m) GQ) (c : Cfg) (ms : List GMember) : D :=
  mix ((keptS c ms).map fun g => (g.w, memberGen U c g.terms))

/-- `Simulator.probs_svd` on a mixture of superpositions whose members may hold several photon numbers -/
def probsSvdGenS {m : ℕ} (U : Matrix (Fin m) (Fin m) GQ) (c : Cfg) (ms : List GMember) : Out :=
  finishSvd c (physS c ms) (resS U c ms)

/-- the mixture of the photon-number sectors: members with one photon number as they are, then the sectors of the
others, weights = the member's weight × the sector's share of the squared norm -/
def splitAll (ms : List GMember) : List GMember :=
  (ms.filter fun g => !multiN g) ++ (ms.filter multiN).flatMap sectorsG

/-- the detector stage of `probs_svd` behind ANY accumulated list (`simulate_detectors` on the normalised `res`, the
photon filter applied to the detected pattern, `physical_perf *= passing fraction`, `post_select_distribution` on the
detected patterns) — the `else` branch of `probsSvdDet`, here behind the generic path.  Compared by the
correspondence; no theorem is stated about it (superposed inputs combined with a non-PNR detector). -/
def finishDetS (c : Cfg) (ds : List Det) (phys : ℚ) (res : D) : Out :=
  let acc := mass res
  let l0 := if 0 < acc ∧ 0 < phys then acc / phys else acc
  if acc = 0 then ⟨[], phys, 0⟩
  else
    let det := detect (ds.map Det.kern) (normalize res)
    let pass := restrict (fun t => decide (minFilter c ≤ t.sum)) det
    let phys2 := 1 - mass (restrict (fun t => !decide (minFilter c ≤ t.sum)) det)
    let ps := postSelect c (normalize pass)
    ⟨ps.1, phys * phys2, l0 * ps.2⟩

/-- `Simulator.probs_svd(svd, detectors)` on superposed members: the mask is used iff every detector is PNR -/
def probsSvdGenSDet {m : ℕ} (U : Matrix (Fin m) (Fin m) GQ) (c : Cfg) (ds : List Det) (ms : List GMember) : Out :=
  let c := { c with pnr := allPnr ds }
  if allPnr ds then probsSvdGenS U c ms else finishDetS c ds (physS c ms) (resS U c ms)

end PM.C04
