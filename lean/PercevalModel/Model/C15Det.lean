/-
  C15 — the constructor layer of `Detector` (perceval/components/detector.py) under the detector codec of
  `Model/C15.lean`.  Core Lean only.

  `Model/C15.lean` describes a detector by its state (`_wires`, `_max` as natural numbers) and the round-trip
  theorem there carries the hypothesis `Det.WF`.  Here the code that PRODUCES that state is modelled, on every
  `int`-or-`None` argument pair (negative numbers, zero and values outside the 32-bit field included):

  * `Detector.__init__(n_wires, max_detections)`:
        assert n_wires is None or n_wires > 0
        assert max_detections is None or n_wires is None or max_detections <= n_wires
        self._wires = n_wires
        self._max = None
        if self._wires is not None:
            self._max = self._wires if max_detections is None else min(max_detections, self._wires)
    (no lower bound on `max_detections`; with `n_wires=None` the second argument is dropped);
  * the factories `threshold()` = `Detector(1)`, `pnr()` = `Detector()`, `ppnr(n, k)` = `Detector(n, k)`;
  * `Detector.type`: `_wires == 1` → Threshold, `_wires is None and _max is None` → PNR, else PPNR;
  * `serialize_detector`: `if x is not None: pb.field = x` into two proto3 `int32` fields (an unassigned field
    reads 0; a value outside [-2^31, 2^31) makes protobuf raise `ValueError`);
  * `deserialize_detector`: `Detector(pb.n_wires or None, pb.max_detections or None)`.

  Arguments of other Python types (bool, float) are outside this model (protobuf raises `TypeError` on them).
-/
import PercevalModel.Model.C15

namespace PM.C15.DetC

/-- (`_wires`, `_max`) of a `Detector` object -/
structure DState where
  wires : Option Int
  max : Option Int
  deriving DecidableEq, Repr

/-- `Detector.__init__` on `int`-or-`None` arguments; `none` = `AssertionError` -/
def ctor (nw md : Option Int) : Option DState :=
  match nw with
  | none => some ⟨none, none⟩
  | some w =>
    if 0 < w then
      match md with
      | none => some ⟨some w, some w⟩
      | some k => if k ≤ w then some ⟨some w, some (min k w)⟩ else none
    else none

/-- the three static factories -/
def threshold : Option DState := ctor (some 1) none
def pnr : Option DState := ctor none none
def ppnr (n : Int) (k : Option Int) : Option DState := ctor (some n) k

inductive DType where
  | threshold | pnr | ppnr
  deriving DecidableEq, Repr

/-- `Detector.type` -/
def dtype (s : DState) : DType :=
  if s.wires = some 1 then .threshold
  else if s.wires = none ∧ s.max = none then .pnr
  else .ppnr

/-- a proto3 `int32` field accepts the value -/
def int32 (v : Int) : Bool := decide (-2147483648 ≤ v) && decide (v < 2147483648)

/-- `if x is not None: pb.field = x` : `none` = `ValueError` (out of range) -/
def field (o : Option Int) : Option Int :=
  match o with
  | none => some 0
  | some v => if int32 v then some v else none

/-- `serialize_detector`: the pair (`n_wires`, `max_detections`) of the message -/
def enc (s : DState) : Option (Int × Int) :=
  match field s.wires, field s.max with
  | some a, some b => some (a, b)
  | _, _ => none

/-- `x or None` -/
def orNone (v : Int) : Option Int := if v = 0 then none else some v

/-- `deserialize_detector` -/
def dec (f : Int × Int) : Option DState := ctor (orNone f.1) (orNone f.2)

/-- what `deserialize(serialize(d))` holds for a detector in state `s`: a cap of 0 is read as "no cap" -/
def expected (s : DState) : DState := if s.max = some 0 then ⟨s.wires, s.wires⟩ else s

/-- the state as the natural-number model of `Model/C15.lean` sees it (`none` when a number is negative) -/
def toNat? (o : Option Int) : Option (Option Nat) :=
  match o with
  | none => some none
  | some v => if 0 ≤ v then some (some v.toNat) else none

def toDet (name : String) (s : DState) : Option Det :=
  match toNat? s.wires, toNat? s.max with
  | some w, some m => some (.det name w m)
  | _, _ => none

def ofNatState (w m : Option Nat) : DState := ⟨w.map Int.ofNat, m.map Int.ofNat⟩

end PM.C15.DetC
