/-
  C16 (extension) — the circuit of a request as a MATRIX, not a symbol.

  `perceval/components/experiment.py`: `Experiment._components` is a list of `(range, component)`;
  `unitary_circuit()` builds `Circuit(circuit_size)` and adds every entry, `compute_unitary()` multiplies the
  entries' matrices, later ones on the left.  The entries this model knows are the ones a `RemoteProcessor`
  can hold (`_circuit_change_observer` refuses everything that is not linear):

  * `add(k, circuit)` (int mapping: `ModeConnector.resolve` gives consecutive modes, `generate_permutation`
    answers "no PERM") appends ONE entry — the user's circuit as a nested sub-circuit on modes `k …`;
  * `set_circuit(circuit)` replaces the list by the circuit UNPACKED: `for r, c in circuit` yields the
    elementary components with their absolute ranges (`Circuit.__iter__` flattens);
  * `from_local_processor(p)` = `add(0, p)` on an empty processor: `_compose_experiment` appends
    `PERM(σ)`, the components of `p` (shifted by `min(mode_mapping) = 0`), then the inverted PERM
    (`perm_component.copy().inverse(h=True)`: the stored matrix is conjugate-transposed), where
    `σ = [mode_mapping[i] for i in sorted keys]` = modes of interest of `p` in increasing order, then the
    herald modes of `p` in the order of its `heralds` dictionary (`Model/C16.relabelOf`); no PERM at all when
    `σ` is the identity.  (`simplify` then rewrites the new entries; it is assumed not to change the matrix —
    the correspondence compares the matrix actually sent.)

  Elementary components are *leaves* `(id, k)`: what matrix a leaf denotes is given by an environment
  `ρ` OUTSIDE the processor state — exactly as in the code, where a component holds `Parameter` objects
  whose values the user changes in place (`P.set_value`) without the processor being told.  Every theorem
  is for all `ρ`, hence for every retuning at any moment.

  The session machine `cstep` is the symbol machine `Model/C16.step` (all bookkeeping, guards and outputs
  are literally its) plus the component list.
-/
import PercevalModel.Model.C16
import PercevalModel.Found.Perm
import PercevalModel.Found.Memo

namespace PM.C16
open Matrix

/-- an elementary component: identifier of the user's object and its number of modes -/
structure Leaf where
  id : Nat
  k : Nat
deriving DecidableEq, Repr

/-- a circuit the user hands over: `Circuit(m)` with elementary components added at offsets, in order.
`sym` / `cparams`: what the symbol machine records for it. -/
structure UC where
  m : Nat
  leaves : List (Nat × Leaf)
  sym : Nat
  cparams : List String
deriving DecidableEq, Repr

/-- every component fits (Perceval refuses to build the circuit otherwise) -/
def UC.WF (c : UC) : Prop := ∀ p ∈ c.leaves, p.1 + p.2.k ≤ c.m

instance (c : UC) : Decidable c.WF := by unfold UC.WF; infer_instance

/-- one entry of `Experiment._components` -/
inductive Comp where
  | leaf (pos : Nat) (l : Leaf)
  | sub (pos : Nat) (c : UC)
  | perm (pos : Nat) (σ : List Nat)
  | permInv (pos : Nat) (σ : List Nat)
deriving DecidableEq, Repr

/-- `for r, c in circuit: self._components.append((r, c))` -/
def unpack (c : UC) : List Comp := c.leaves.map fun p => .leaf p.1 p.2

/-- components of `p`, between `PERM(σ)` and its inverse unless `σ` is the identity -/
def wrapPerm (σ : List Nat) (pc : List Comp) : List Comp :=
  if isIdentity σ then pc else .perm 0 σ :: pc ++ [.permInv 0 σ]

/-! ### matrices -/

section Mat
variable {R : Type} [CommRing R] [StarRing R]

/-- what every elementary component denotes right now -/
abbrev Env (R : Type) := Nat → (k : Nat) → Matrix (Fin k) (Fin k) R

/-- `Circuit.compute_unitary()` of a user circuit, on its own `m` modes -/
def ucMatV (ρ : Env R) (c : UC) : MatV R c.m c.m :=
  c.leaves.foldl (fun acc p => MatV.ofMatrix (embed c.m p.1 (ρ p.2.id p.2.k) * acc.toMatrix))
    (MatV.ofMatrix 1)

def ucMat (ρ : Env R) (c : UC) : Matrix (Fin c.m) (Fin c.m) R := (ucMatV ρ c).toMatrix

/-- matrix of one entry inside a circuit of `N` modes -/
def Comp.matV (ρ : Env R) (N : Nat) : Comp → MatV R N N
  | .leaf pos l => MatV.ofMatrix (embed N pos (ρ l.id l.k))
  | .sub pos c => let u := ucMatV ρ c; MatV.ofMatrix (embed N pos u.toMatrix)
  | .perm pos σ => MatV.ofMatrix (embed N pos (permMatL (R := R) σ.length σ))
  | .permInv pos σ => MatV.ofMatrix (embed N pos (permMatL (R := R) σ.length σ)ᴴ)

def Comp.mat (ρ : Env R) (N : Nat) (c : Comp) : Matrix (Fin N) (Fin N) R := (c.matV ρ N).toMatrix

/-- `unitary_circuit().compute_unitary()` continued from `acc` -/
def circFoldV (ρ : Env R) (N : Nat) (acc : MatV R N N) (comps : List Comp) : MatV R N N :=
  comps.foldl (fun acc c => MatV.ofMatrix ((c.matV ρ N).toMatrix * acc.toMatrix)) acc

/-- the matrix of the circuit a processor with these components serialises -/
def circMatV (ρ : Env R) (N : Nat) (comps : List Comp) : MatV R N N :=
  circFoldV ρ N (MatV.ofMatrix 1) comps

def circMat (ρ : Env R) (N : Nat) (comps : List Comp) : Matrix (Fin N) (Fin N) R :=
  (circMatV ρ N comps).toMatrix

/-! ### what the user means, without component lists -/

/-- product of elementary components at absolute positions, later ones on the left -/
def flatMat (ρ : Env R) (N : Nat) (ls : List (Nat × Leaf)) : Matrix (Fin N) (Fin N) R :=
  ls.foldl (fun acc p => embed N p.1 (ρ p.2.id p.2.k) * acc) 1

end Mat

def shiftLeaves (k : Nat) (ls : List (Nat × Leaf)) : List (Nat × Leaf) := ls.map fun p => (p.1 + k, p.2)

/-- the processor the user built, mathematically: an optional converted local processor (relabelling
`σ`: mode `j` of the remote processor is mode `σ[j]` of the local one; the local processor's own
components), and the elementary components put behind it since, at absolute positions -/
structure Spec where
  base : Option (List Nat × List Comp)
  leaves : List (Nat × Leaf)
deriving DecidableEq, Repr

section Mat
variable {R : Type} [CommRing R] [StarRing R]

/-- the matrix the user means: the later components applied after the local processor's matrix read
through the relabelling (`U[σ i, σ j]`) -/
def Spec.mat (ρ : Env R) (N : Nat) (s : Spec) : Matrix (Fin N) (Fin N) R :=
  flatMat ρ N s.leaves *
    (match s.base with
     | none => 1
     | some (σ, pc) => (circMat ρ N pc).submatrix (permFn N σ) (permFn N σ))

end Mat

/-! ### the session machine with components -/

/-- calls that change the component list carry the structure of the user's object; every other call
is the symbol machine's -/
inductive COp where
  | newRemote (viaSetCircuit : Bool) (c : UC) (noise : Option Nat)
  | convert (p : Exp) (pcomps : List Comp)
  | add (k : Nat) (c : UC)
  | setCircuit (checked : Bool) (c : UC)
  | plain (op : Op)
deriving DecidableEq, Repr

/-- the calls of the symbol machine that replace or extend the circuit (they need their structure) -/
def Op.structural : Op → Bool
  | .newRemote .. => true
  | .convert .. => true
  | .setCircuit .. => true
  | .addComponent .. => true
  | _ => false

structure CWorld where
  w : World
  comps : List Comp
deriving DecidableEq, Repr

/-- `add(k, circuit)` is modelled on modes that exist and carry no herald -/
def addOk (e : Exp) (k : Nat) (c : UC) : Bool :=
  decide (k + c.m ≤ e.size) && (List.range c.m).all fun i => !(heraldModes e).contains (k + i)

def cstep (cw : CWorld) : COp → CWorld × Out
  | .newRemote via c noise =>
    if ¬ c.WF then (cw, .err .precondition)
    else match step cw.w (.newRemote via c.m c.sym c.cparams noise) with
      | (w', .done) => (⟨w', if via then unpack c else [.sub 0 c]⟩, .done)
      | (w', o) => (⟨w', cw.comps⟩, o)
  | .convert p pc =>
    -- `PERM.__init__` asserts that its vector is a permutation; `relabelOf_isPerm` shows it is one for
    -- every well-formed local processor, so this guard never fires on a processor `step` accepts
    if ¬ IsPermList p.size (relabelOf p) then (cw, .err .precondition)
    else match step cw.w (.convert true p) with
      | (w', .done) => (⟨w', wrapPerm (relabelOf p) pc⟩, .done)
      | (w', o) => (⟨w', cw.comps⟩, o)
  | .add k c =>
    match cw.w.exp with
    | none => (cw, .err .precondition)
    | some e =>
      if ¬ c.WF ∨ addOk e k c = false then (cw, .err .precondition)
      else match step cw.w (.addComponent c.sym c.cparams) with
        | (w', .done) => (⟨w', cw.comps ++ [.sub k c]⟩, .done)
        | (w', o) => (⟨w', cw.comps⟩, o)
  | .setCircuit checked c =>
    if ¬ c.WF then (cw, .err .precondition)
    else match step cw.w (.setCircuit checked c.m c.sym c.cparams) with
      | (w', .done) => (⟨w', unpack c⟩, .done)
      | (w', o) => (⟨w', cw.comps⟩, o)
  | .plain op =>
    if op.structural then (cw, .err .precondition)
    else let r := step cw.w op; (⟨r.1, cw.comps⟩, r.2)

def CWorld.init (pf : Platform) : CWorld := ⟨World.init pf, []⟩

/-- the call of the symbol machine a call stands for -/
def COp.toOp : COp → Op
  | .newRemote via c noise => .newRemote via c.m c.sym c.cparams noise
  | .convert p _ => .convert true p
  | .add _ c => .addComponent c.sym c.cparams
  | .setCircuit checked c => .setCircuit checked c.m c.sym c.cparams
  | .plain op => op

/-- the user-level reading of a call that succeeded -/
def specAfter (s : Spec) : COp → Spec
  | .newRemote _ c _ => ⟨none, c.leaves⟩
  | .convert p pc => ⟨some (relabelOf p, pc), []⟩
  | .add k c => { s with leaves := s.leaves ++ shiftLeaves k c.leaves }
  | .setCircuit _ c => ⟨none, c.leaves⟩
  | .plain _ => s

/-- implementation and user-level reading side by side: a call that raises changes neither -/
def sstep (st : CWorld × Spec) (op : COp) : (CWorld × Spec) × Out :=
  let r := cstep st.1 op
  ((r.1, if r.2 = .done then specAfter st.2 op else st.2), r.2)

def sinit (pf : Platform) : CWorld × Spec := (CWorld.init pf, ⟨none, []⟩)

end PM.C16
