/-
  C09 (extension) — `NoisySamplingSimulator.samples` end to end AS A FUNCTION OF ITS RANDOM DRAWS
  (core Lean only).

  Random sites of the general path and how the model is fed:
    * input emission      `sample_generator(nb_gen)` (`Source.generate_samples` / `trimmed_bsd.sample`):
                          `gens` = the successive batches the generator handed back, in call order;
                          an emitted input is the list of its Fock components
                          (`separate_state(keep_annotations=False)`, native, external);
    * the sampling backend `backend.samples(count)` after `set_input_state(f)`: one stream of output states per
                          Fock input `f` (`backend`), a request of `count` consumes the next `count` entries;
    * the detectors       `simulate_detectors_sample(state, …)` for PPNR / mixed detector lists: one stream of
                          detected states per incoming state (`detDraws`).
  Everything else runs in the model as the code is written: `check_heralds_detectors`, the perfect fast path
  (chunks of 1000), `compute_samples`, `_check_input_svd`, `_preprocess_input_state` (threshold `max_p / n`),
  `_compute_samples_with_perf`, `SamplesProvider` (`estimate_weights_from_source`,
  `estimate_weights_from_distribution`, `prepare`, `_compute_samples`, `sample_from` — weights, the caps 100 /
  2000, `ceil(0.1·w)`, `int(1.1·w)` floored at 16, pools popped FROM THE END), the `_noisy_sampling` loop
  (regeneration of inputs with `nb_gen`, separate sampling of the components of an annotated input and their
  merge, detectors, photon filter on the full state, heralds, post-selection, removal of heralded modes,
  the three counters), the performance estimate and the final product with the pre-performance.

  Float facts used (checked exhaustively by the harness on every run, op `provconst`):
  `math.ceil(0.1*w) = ⌈w/10⌉` and `int(w*1.1) = ⌊11w/10⌋` for `0 ≤ w ≤ 2000`.
-/
import PercevalModel.Model.C09

namespace PM.C09

abbrev Fock := List Nat
/-- association list keyed by Fock states (insertion ordered) -/
abbrev AL (V : Type) := List (Fock × V)

def aget {V : Type} (k : Fock) (l : AL V) : Option V := findKey k l
def agetD {V : Type} (k : Fock) (l : AL V) (d : V) : V := (findKey k l).getD d

def aset {V : Type} (k : Fock) (v : V) : AL V → AL V
  | [] => [(k, v)]
  | (k', v') :: t => if k' = k then (k, v) :: t else (k', v') :: aset k v t

/-- an emitted input: its Fock components, in the order `separate_state` lists them (one component for an
input without annotations) -/
abbrev InDraw := List Fock

/-! ## `SamplesProvider` -/

def maxS : Nat := 2000
def minS : Nat := 100
/-- `math.ceil(0.1 * w)` -/
def ceilTenth (w : Nat) : Nat := (w + 9) / 10
/-- `min(max(int(w * 1.1), 16), 2000)` -/
def grow (w : Nat) : Nat := min (max (11 * w / 10) 16) maxS

structure Prov where
  pools : AL (List Fock)       -- HEAD = the next state `pop()` hands out (the Python list reversed)
  weights : AL Nat
  streams : AL (List Fock)     -- what the backend will still draw, per input state
  reqs : List (Fock × Nat)     -- log of the backend requests (latest first)
  deriving Repr

/-- reading `self._weights[k]` creates the key with 0 -/
def touch (k : Fock) (w : AL Nat) : AL Nat :=
  match aget k w with
  | some _ => w
  | none => aset k 0 w

/-- `estimate_weights_from_source`, one component -/
def estSourceOne (w : AL Nat) (k : Fock) : AL Nat :=
  let w := touch k w
  if agetD k w 0 < maxS then aset k (agetD k w 0 + 1) w else w

def estSource (w : AL Nat) (batch : List InDraw) : AL Nat :=
  batch.foldl (fun w s => s.foldl estSourceOne w) w

def natCeil (q : Rat) : Nat := q.ceil.toNat

/-- `estimate_weights_from_distribution`, one component of an input of estimated count `ns` -/
def estDistOne (ns : Nat) (w : AL Nat) (k : Fock) : AL Nat :=
  let w := touch k w
  let cur := agetD k w 0
  if cur + ns < maxS then aset k (cur + ns) w else aset k (cur + (maxS - cur)) w

def estDist (items : List (InDraw × Rat)) (n : Nat) (w : AL Nat) : AL Nat :=
  if n = 0 then w
  else items.foldl (fun w it => it.1.foldl (estDistOne (min (natCeil (it.2 * (n : Rat))) maxS)) w) w

/-- `backend.set_input_state(k); backend.samples(n)`: the next `n` draws of the stream of `k` -/
def takeDraws (k : Fock) (n : Nat) (p : Prov) : Except String (List Fock × Prov) :=
  let s := agetD k p.streams []
  if s.length < n then .error "needDraws"
  else .ok (s.take n, { p with streams := aset k (s.drop n) p.streams, reqs := (k, n) :: p.reqs })

/-- `prepare`, one `(input_state, count)` item -/
def prepareOne (p : Prov) (kc : Fock × Nat) : Except String Prov :=
  let c := min kc.2 maxS
  if kc.1.sum = 0 then
    .ok { p with pools := aset kc.1 (List.replicate c kc.1) p.pools,
                 weights := aset kc.1 (ceilTenth kc.2) p.weights }
  else
    match takeDraws kc.1 c p with
    | .error e => .error e
    | .ok (b, p) =>
      .ok { p with pools := aset kc.1 b.reverse p.pools, weights := aset kc.1 (ceilTenth kc.2) p.weights }

def prepareAll : List (Fock × Nat) → Prov → Except String Prov
  | [], p => .ok p
  | kc :: rest, p =>
    match prepareOne p kc with
    | .error e => .error e
    | .ok p => prepareAll rest p

def prepare (p : Prov) : Except String Prov := prepareAll p.weights p

/-- `sample_from` (with `_compute_samples` when the pool is empty) -/
def sfPool (p : Prov) (k : Fock) : Except String (Fock × Prov) :=
  match agetD k p.pools [] with
  | x :: xs => .ok (x, { p with pools := aset k xs p.pools })
  | [] =>
    let w := (aget k p.weights).getD minS
    let n := min w maxS
    let s := agetD k p.streams []
    if s.length < n then .error "needDraws"
    else
      match (s.take n).reverse with
      | [] => .error "IndexError"          -- `pop` from an empty list
      | x :: xs =>
        .ok (x, { pools := aset k xs p.pools, weights := aset k (grow w) p.weights,
                  streams := aset k (s.drop n) p.streams, reqs := (k, n) :: p.reqs })

/-! ## one shot -/

/-- `BasicState.merge` of two states without annotations: mode-wise sum -/
def madd : Fock → Fock → Fock
  | a :: as, b :: bs => (a + b) :: madd as bs
  | [], bs => bs
  | as, [] => as

/-- `sampled_state = sampled_components.pop(); for c in sampled_components: sampled_state = sampled_state.merge(c)` -/
def mergeAll (l : List Fock) : Option Fock :=
  match l.reverse with
  | [] => none
  | last :: r => some (r.reverse.foldl madd last)

/-- sample every component in turn from provider `P` -/
def sampleAll {P : Type} (sf : P → Fock → Except String (Fock × P)) : P → List Fock → Except String (List Fock × P)
  | p, [] => .ok ([], p)
  | p, k :: ks =>
    match sf p k with
    | .error e => .error e
    | .ok (v, p) =>
      match sampleAll sf p ks with
      | .error e => .error e
      | .ok (vs, p) => .ok (v :: vs, p)

inductive DetMode where
  | none        -- no detector list, or detection type PNR: the state is returned as it is
  | threshold   -- every detector is a threshold detector
  | random      -- PPNR / mixed: one draw from the product of the per-mode detector distributions
  deriving DecidableEq, Repr

/-- what decides the fate of a sampled state -/
structure SelCfg where
  filter : Nat                    -- the bare `_min_detected_photons_filter`
  heralds : List (Nat × Nat)
  keep : Bool
  psf : Fock → Bool               -- verdict of the native `PostSelect`
  det : DetMode

def detect (c : SelCfg) (st : Fock) (d : AL (List Fock)) : Except String (Fock × AL (List Fock)) :=
  match c.det with
  | .none => .ok (st, d)
  | .threshold => .ok (st.map (min 1), d)
  | .random =>
    match agetD st d [] with
    | [] => .error "needDetDraws"
    | x :: xs => .ok (x, aset st xs d)

structure Core where
  out : List Fock              -- latest first
  seen : List Fock             -- ghost: the full detected state of every shot, latest first
  shots : Nat
  notSel : Nat
  notSelPhys : Nat
  batch : List InDraw          -- `selected_inputs[idx:]`
  gens : List (List InDraw)    -- what the generator will hand back
  asked : List Nat             -- `nb_gen` of every generator call, latest first
  det : AL (List Fock)
  deriving Repr

/-- the `while` condition -/
def condR (ms : Nat) (sh : Option Nat) (s : Core) : Bool :=
  decide (s.out.length < ms) &&
    (match sh with
     | none => true
     | some k => decide (s.shots < k))

/-- `nb_gen` -/
def nbGenR (ms : Nat) (sh : Option Nat) (s : Core) : Nat :=
  let bs := match sh with
    | some k => min ms k
    | none => ms
  let g := min bs (ms - s.out.length)
  match sh with
  | some k => min g (k - s.shots)
  | none => g

/-- the body of the loop from `selected_bs = selected_inputs[idx]` on -/
def shotG {P : Type} (sf : P → Fock → Except String (Fock × P)) (c : SelCfg)
    (p : P) (s : Core) (inp : InDraw) (rest : List InDraw) : Except String (P × Core) :=
  match sampleAll sf p inp with
  | .error e => .error e
  | .ok (vs, p) =>
    match mergeAll vs with
    | none => .error "IndexError"
    | some st0 =>
      match detect c st0 s.det with
      | .error e => .error e
      | .ok (st, d) =>
        let s := { s with batch := rest, det := d, shots := s.shots + 1, seen := st :: s.seen }
        match shotOutcome true c.filter c.heralds (c.psf st) st with
        | .phys => .ok (p, { s with notSelPhys := s.notSelPhys + 1 })
        | .logic => .ok (p, { s with notSel := s.notSel + 1 })
        | .sel => .ok (p, { s with out := emitted c.heralds c.keep st :: s.out })

/-- `_noisy_sampling` (no progress callback) on `fuel` iterations at most.  `genErr`: what the input generator
raises when it is called (`BSDistribution.sample` on an empty trimmed input: `RuntimeError`). -/
def loopG {P : Type} (sf : P → Fock → Except String (Fock × P)) (c : SelCfg) (ms : Nat) (sh : Option Nat)
    (genErr : Option String) : Nat → P → Core → Except String (P × Core)
  | 0, _, _ => .error "fuel"
  | fuel + 1, p, s =>
    if !condR ms sh s then .ok (p, s)
    else
      match s.batch with
      | inp :: rest =>
        match shotG sf c p s inp rest with
        | .error e => .error e
        | .ok (p, s) => loopG sf c ms sh genErr fuel p s
      | [] =>
        match genErr, s.gens with
        | some e, _ => .error e
        | none, [] => .error "needInputs"
        | none, b :: gs =>
          let s := { s with gens := gs, asked := nbGenR ms sh s :: s.asked }
          match b with
          | [] => .error "IndexError"
          | inp :: rest =>
            match shotG sf c p s inp rest with
            | .error e => .error e
            | .ok (p, s) => loopG sf c ms sh genErr fuel p s

/-- the performance estimate at the end of `_noisy_sampling` -/
def perfR (s : Core) : Rat × Rat :=
  let sel := s.out.length
  if 0 < sel then
    (((sel + s.notSel : Nat) : Rat) / ((sel + s.notSel + s.notSelPhys : Nat) : Rat),
     ((sel : Nat) : Rat) / ((sel + s.notSel : Nat) : Rat))
  else (0, 0)

/-! ## the mixed input (`_check_input_svd`, `_preprocess_input_state`) -/

structure InItem where
  comps : InDraw
  annotated : Bool
  n : Nat
  p : Rat
  deriving Repr

def sumR : List Rat → Rat
  | [] => 0
  | x :: xs => x + sumR xs

/-- `_check_input_svd` → `(zpp, max_p)` for the effective filter `f` -/
def checkSvd (f : Nat) (items : List InItem) : Rat × Rat :=
  items.foldl (fun a it => (if it.n = 0 then a.1 + it.p else a.1, if f ≤ it.n then max a.2 it.p else a.2)) (0, 0)

/-- `_preprocess_input_state` → the trimmed, renormalised input and the pre-performance -/
def preprocess (f : Nat) (items : List InItem) (maxP : Rat) (nThr : Nat) : List (InDraw × Rat) × Rat :=
  let thr := maxP / (nThr : Rat)
  let kept := items.filter fun it => decide (f ≤ it.n) && decide (thr ≤ it.p)
  let perf := 1 - sumR ((items.filter fun it => decide (it.n < f)).map (·.p))
  let tot := sumR (kept.map (·.p))
  (kept.map fun it => (it.comps, if tot = 0 then it.p else it.p / tot), perf)

/-! ## `samples` -/

inductive InSpec where
  /-- `(source, input)`: is the source perfect, is the input annotated, the input, and what
  `source.cache_prob_table(n, filter)` answers -/
  | source (perfect annotated : Bool) (input : Fock) (prePerf zpp : Rat)
  | svd (items : List InItem)
  deriving Repr

structure RunIn where
  sel : SelCfg
  maxSamples : Option Nat
  maxShots : Option Nat
  psHasCond : Bool
  detMax : Option (List (Option Nat))   -- `max_detections` per mode; `none` = no detector list
  spec : InSpec
  gens : List (List InDraw)
  backend : AL (List Fock)
  detDraws : AL (List Fock)
  fuel : Nat

structure RunOut where
  results : List Fock
  phys : Rat
  logical : Rat
  path : String                    -- "incompatible" | "fast" | "none" | "loop"
  shots : Nat
  notSel : Nat
  notSelPhys : Nat
  asked : List Nat                 -- generator requests, in call order
  reqs : List (Fock × Nat)         -- backend requests, in call order
  seen : List Fock                 -- full detected state of every shot, in order
  weights : AL Nat                 -- the provider's weights after the estimate
  prepared : Option Nat            -- `prepare_samples` after `_compute_samples_with_perf`
  deriving Repr

/-- `check_heralds_detectors` -/
def heraldsDetectorsOk (heralds : List (Nat × Nat)) (detMax : Option (List (Option Nat))) : Bool :=
  match detMax with
  | none => true
  | some [] => true
  | some l => heralds.all fun h =>
      match l.getD h.1 none with
      | none => true
      | some mx => !decide (mx < h.2)

/-- the chunk loop of `_perfect_sampling_no_selection` drawing from the stream of `k` -/
def fastLoop (k : Fock) (n : Nat) : Nat → Nat → Prov → List Fock → Except String (List Fock × Prov)
  | 0, _, p, acc => .ok (acc, p)
  | fuel + 1, acq, p, acc =>
    if acq < n then
      match takeDraws k (min 1000 (n - acq)) p with
      | .error e => .error e
      | .ok (b, p) => fastLoop k n fuel (acq + min 1000 (n - acq)) p (acc ++ b)
    else .ok (acc, p)

def emptyOut (phys logical : Rat) (path : String) : RunOut :=
  ⟨[], phys, logical, path, 0, 0, 0, [], [], [], [], none⟩

/-- is the "highway" taken, and with which input -/
def fastInput (i : RunIn) : Option Fock :=
  if !i.sel.heralds.isEmpty || i.psHasCond || i.sel.det != .none then none
  else
    match i.spec with
    | .source perfect annotated input _ _ => if perfect && !annotated then some input else none
    | .svd [it] => if it.annotated then none else it.comps.head?
    | .svd _ => none

def effF (c : SelCfg) : Nat := c.filter + heraldPhotons c.heralds

def runSamples (i : RunIn) : Except String RunOut :=
  if !heraldsDetectorsOk i.sel.heralds i.detMax then .ok (emptyOut 1 0 "incompatible")
  else
    match fastInput i with
    | some k =>
      match computeSamples i.maxSamples i.maxShots with
      | .error e => .error e
      | .ok none => .error "TypeError"             -- `samples_acquired < None`
      | .ok (some 0) => .ok (emptyOut 1 1 "fast")
      | .ok (some n) =>
        match fastLoop k n n 0 ⟨[], [], i.backend, []⟩ [] with
        | .error e => .error e
        | .ok (res, p) => .ok { emptyOut 1 1 "fast" with results := res, reqs := p.reqs.reverse }
    | none =>
      match computeSamples i.maxSamples i.maxShots with
      | .error e => .error e
      | .ok none => .ok (emptyOut 0 1 "none")
      | .ok (some 0) => .ok (emptyOut 0 1 "none")
      | .ok (some (q + 1)) =>
        -- `_prepare_provider`
        let p0 : Prov := ⟨[], [], i.backend, []⟩
        let prep : Except String (Rat × Nat × Option Nat × List InDraw × List (List InDraw) × List Nat × AL Nat ×
            Option String) :=
          match i.spec with
          | .source _ _ _ prePerf zpp =>
            match computeSamplesWithPerf (effF i.sel) (q + 1) prePerf zpp i.maxShots with
            | .error e => .error e
            | .ok (ps, sh) =>
              match i.gens with
              | [] => .error "needInputs"
              | first :: gs => .ok (prePerf, ps, sh, first, gs, [ps], estSource [] first, none)
          | .svd items =>
            let (zpp, maxP) := checkSvd (effF i.sel) items
            let (trimmed, prePerf) := preprocess (effF i.sel) items maxP (q + 1)
            match computeSamplesWithPerf (effF i.sel) (q + 1) prePerf zpp i.maxShots with
            | .error e => .error e
            | .ok (ps, sh) =>
              .ok (prePerf, ps, sh, [], i.gens, [], estDist trimmed ps [],
                   if trimmed.isEmpty then some "RuntimeError" else none)
        match prep with
        | .error e => .error e
        | .ok (prePerf, ps, sh, first, gs, asked, w, genErr) =>
          match prepare { p0 with weights := w } with
          | .error e => .error e
          | .ok p =>
            if ps = 0 then
              .ok { emptyOut 0 1 "none" with asked := asked, reqs := p.reqs.reverse, weights := w, prepared := some ps }
            else
              match i.maxSamples with
              | none => .error "unreachable"
              | some ms =>
                match loopG sfPool i.sel ms sh genErr i.fuel p ⟨[], [], 0, 0, 0, first, gs, asked.reverse, i.detDraws⟩ with
                | .error e => .error e
                | .ok (p, s) =>
                  .ok ⟨s.out.reverse, (perfR s).1 * prePerf, (perfR s).2, "loop", s.shots, s.notSel, s.notSelPhys,
                       s.asked.reverse, p.reqs.reverse, s.seen.reverse, w, some ps⟩

/-! ## the lazy provider: every component is drawn when it is needed, from the head of the stream of its
input state (no pool, no weight, no batch) — the reference the pooled provider is proved to refine -/

def sfLazy (q : Fock → List Fock) (k : Fock) : Except String (Fock × (Fock → List Fock)) :=
  match q k with
  | [] => .error "needDraws"
  | x :: xs => .ok (x, fun k' => if k' = k then xs else q k')

/-- the order in which the pooled provider hands out the draws of one input state whose weight is `w`
(`none` = no weight yet) once its pool is empty: batch after batch, each batch from its END.  Only complete
batches count (the backend always returns what it is asked). -/
def reorder (w : Option Nat) (s : List Fock) : List Fock :=
  let n := min (w.getD minS) maxS
  if _h : n = 0 ∨ s.length < n then []
  else (s.take n).reverse ++ reorder (some (grow (w.getD minS))) (s.drop n)
termination_by s.length
decreasing_by
  simp only [List.length_drop]
  omega

/-- the lazy streams equivalent to a pooled provider state -/
def lazyOf (p : Prov) : Fock → List Fock :=
  fun k => agetD k p.pools [] ++ reorder (aget k p.weights) (agetD k p.streams [])

end PM.C09
