/-
  C11 — `decompose_perms(circuit, merge)` WITH THE NESTING IT LEAVES (comp_utils.py + `Circuit.add`).

  `Model/C11Mixed.lean` (`MS.decomp`) describes the result in the flattened view, where `merge` is invisible.
  The object `decompose_perms` returns is a tree:

      for r, c in circuit:                       # the flattened view of the input
          if isinstance(c, PERM):
              new_c = c.break_in_2_mode_perms()  # the PERM itself when it has 2 modes, else a Circuit(n) of swaps
              decomp_c.add(r, new_c, merge=merge)
          else:
              decomp_c.add(r, c)

  and `Circuit.add(port_range, component, merge)` flattens only under
  `merge and isinstance(component, Circuit) and component._components` — the LAST conjunct is a truthiness test of
  the component list: an EMPTY sub-circuit (the bubble sort of an identity permutation, or of a one-mode `PERM`)
  is appended as a nested empty `Circuit(n)` whatever `merge` says.  With `merge=False` every `PERM` that is not
  a two-mode one becomes ONE nested `Circuit(n)` at the place of the `PERM`, holding the swaps at their ports
  relative to the `PERM`.
-/
import PercevalModel.Model.C11Chain
import PercevalModel.Model.C11Mixed

open Matrix

namespace PM.C11
variable {P R : Type}

/-- the `PERM([1, 0])` objects `break_in_2_mode_perms` emits, as a component of the tree model -/
def swapCmp [Zero R] [One R] : Cmp R := .leaf (.un 2 (permMatL 2 [1, 0]))

/-- what `decompose_perms` appends to `decomp_c._components` for one `(r, c)` of the flattened input -/
def decompItem [Zero R] [One R] (merge : Bool) (e : P → R) (p : ℕ × FK P R) : List (ℕ × Cmp R) :=
  match p.2 with
  | .perm n σ =>
      if n = 2 then [(p.1, p.2.toCmp e)]
      else if merge && !(bubble σ).isEmpty then (bubble σ).map fun k => (p.1 + k, swapCmp)
      else [(p.1, .circ n (Its.ofList ((bubble σ).map fun k => (k, swapCmp))))]
  | _ => [(p.1, p.2.toCmp e)]

/-- `decompose_perms(circuit, merge)._components` -/
def MS.decompTree [Zero R] [One R] (merge : Bool) (e : P → R) (st : MS P R) : List (ℕ × Cmp R) :=
  st.flatMap (decompItem merge e)

end PM.C11
