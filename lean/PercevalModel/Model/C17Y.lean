/-
  C17, third extension — the layers of `Model/C17R.lean` put together, as they are in the one real
  object, plus re-creation under the real clock:

  * `YJob` = one `RemoteJob` with the status part (`Job`), the CONTENT of `_results` (part R) AND
    `_previous_status_refresh` (part K).  `getResultsY` = `Job.get_results` + `_get_results` on the
    content of the server's answer, each of its (up to two) status reads being the throttled read
    `readStatusAt` at its own time.
  * `reopen` = `RemoteJob._from_dict(job._to_dict(), handler)`: the constructor runs again, so the new
    object has `_previous_status_refresh = 0.`, `_results = None`, no streak, no message
    (`reopenJ`, proved equal to `restoreJ` of `Lemmas/C17X.lean`, the job part of `dict_roundtrip`).
  * `resumeAt` = `RemoteJob.from_id(id, handler)` at a given time: a sent WAITING job with
    `_previous_status_refresh = 0.` and one throttled status read whose exception propagates.

  Core Lean only.
-/
import PercevalModel.Model.C17R

namespace PM.C17

structure YJob where
  job : Job
  val : Option Payload      -- `_results`
  prev : Int                -- `_previous_status_refresh`
  deriving DecidableEq, Repr

/-- `RemoteJob(…)` -/
def yinit : YJob := ⟨init, none, 0⟩

def YJob.t (s : YJob) : TJob := ⟨s.job, s.prev⟩
def YJob.r (s : YJob) : RJob := ⟨s.job, s.val⟩

/-- what `_from_dict(_to_dict(job))` makes of the job part -/
def reopenJ (j : Job) : Job :=
  { id := j.id, status := if j.id.isSome then j.status else .waiting, streak := 0, msg := .none,
    cache := none, sentCount := if j.id.isSome then 1 else 0, lastRead := none }

/-- `get_results()` on the content of the answer, under the real throttle -/
def getResultsY (fixed : Bool) (delay : Int) (s : YJob) (now1 now2 : Int) (r1 r2 : Resp) (b : RBody) :
    YJob × ROut :=
  match readStatusAt fixed delay s.t now1 r1 with
  | (t1, some e, c) => (⟨t1.job, s.val, t1.prev⟩, ⟨.raised (.base e), c⟩)
  | (t1, none, c) =>
    if !t1.job.status.maybeCompleted then (⟨t1.job, s.val, t1.prev⟩, ⟨.raised (.base .stillRunning), c⟩)
    else if truthyVal s.val then
      match readStatusAt fixed delay t1 now2 r2 with
      | (t2, some e, c2) => (⟨t2.job, s.val, t2.prev⟩, ⟨.raised (.base e), c ++ c2⟩)
      | (t2, none, c2) =>
        if t2.job.status.completed then (⟨t2.job, s.val, t2.prev⟩, ⟨.value (s.val.getD .null), c ++ c2⟩)
        else
          let q := fetch t2.job s.val (c ++ c2) b
          (⟨q.1.job, q.1.val, t2.prev⟩, q.2)
    else
      let q := fetch t1.job s.val c b
      (⟨q.1.job, q.1.val, t1.prev⟩, q.2)

inductive YOp
  | base (now1 now2 : Int) (op : Op)                            -- an operation other than `get_results`
  | getResults (now1 now2 : Int) (r1 r2 : Resp) (b : RBody)
  | reopen                                                      -- go on with `_from_dict(_to_dict())`
  deriving DecidableEq, Repr

def isNewJob : Res → Bool
  | .newJob _ => true
  | _ => false

/-- one step; a job born from `rerun` or re-created from the dictionary starts with
`_results = None` (and `_previous_status_refresh = 0.`) -/
def ystep (fixed : Bool) (delay : Int) (s : YJob) : YOp → YJob × ROut
  | .base n1 n2 op =>
    let p := kstep fixed delay s.t ⟨n1, n2, op⟩
    (⟨p.1.job, if op.switches && isNewJob p.2.res then none else s.val, p.1.prev⟩, p.2.toR)
  | .getResults n1 n2 r1 r2 b => getResultsY fixed delay s n1 n2 r1 r2 b
  | .reopen => (⟨reopenJ s.job, none, 0⟩, ⟨.base .ok, []⟩)

/-- the same operation without its times (`none` for `reopen`, which the results machine lacks) -/
def YOp.plain : YOp → Option ROp
  | .base _ _ op => some (.base op)
  | .getResults _ _ r1 r2 b => some (.getResults r1 r2 b)
  | .reopen => none

/-- the times of the two status reads of an operation -/
def YOp.times : YOp → Option (Int × Int)
  | .base n1 n2 _ => some (n1, n2)
  | .getResults n1 n2 _ _ _ => some (n1, n2)
  | .reopen => none

/-- `RemoteJob.from_id(n, handler)` at time `now`: no object when the status read raises -/
def resumeAt (fixed : Bool) (delay : Int) (n : Nat) (now : Int) (r : Resp) :
    Option YJob × Option Exc × List Call :=
  match readStatusAt fixed delay ⟨born n, 0⟩ now r with
  | (_, some e, c) => (none, some e, c)
  | (t, none, c) => (some ⟨t.job, none, t.prev⟩, none, c)

end PM.C17
