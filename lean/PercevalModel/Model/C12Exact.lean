/-
  C12 — `decompose_triangle` with a solver FUNCTION plugged in (the run-level reading of the existence clause).

  `Model/C12.lean: run` treats the solver as a list of answers consumed one per solved cell, which is what a replay
  of an observed circuit needs.  Here the solver is a function of what the code hands it: the cell's equation
  `cU_inv[0,0]·a + cU_inv[0,1]·b` is determined by the two entries `a = u[n, j]`, `b = u[n+1, j]`, so the answer of a
  deterministic exact solver (`res` turned into the block's matrix and `cU_inv.subs(res)`) is `solver a b`, `none` being
  `res is None` (`return None`).  Same three branches, same order, same `u[n, j] = 0` as `step`; `rest` is not used.

  The closed forms of `Lemmas/C12Exist.lean` give total solvers for `BS(theta)//PS(phi)` and `catalog['mzi phase last']`
  (`bsPsSolver`, `mziSolver` in `Lemmas/C12Exact.lean`).
-/
import PercevalModel.Model.C12Block

open Matrix

namespace PM.C12

variable {R : Type}

/-- one cell of the double loop, the solver being a function of the two entries the equation is built from -/
def stepF [CommRing R] (cfg : Cfg R) (solver : R → R → Option (Sol R)) {m : ℕ} (st : St R m) (cell : ℕ × ℕ) :
    Option (St R m) :=
  let j := cell.1
  let n := cell.2
  let M := st.u.toMatrix
  if cfg.small (getN M n j) && cfg.ignoreId then
    some (finish st M st.comps st.rest (st.nskip + 1) n j)
  else
    match (if cfg.usePerm then findK cfg M n j else none) with
    | some k =>
      some (finish st (swapMat m n k * M) (.perm n (k - n) :: st.comps) st.rest st.nskip n j)
    | none =>
      match solver (getN M n j) (getN M (n + 1) j) with
      | none => none
      | some (B, Binv) =>
        some (finish st (embed m n Binv * M) (.block n B :: st.comps) st.rest st.nskip n j)

def runF [CommRing R] (cfg : Cfg R) (solver : R → R → Option (Sol R)) {m : ℕ} :
    St R m → List (ℕ × ℕ) → Option (St R m)
  | st, [] => some st
  | st, c :: cs => (stepF cfg solver st c).bind fun st' => runF cfg solver st' cs

/-- `decompose_triangle` (up to the phase layer) with the solver plugged in -/
def decomposeExact [CommRing R] (cfg : Cfg R) (solver : R → R → Option (Sol R)) {m : ℕ}
    (U : Matrix (Fin m) (Fin m) R) : Option (St R m) :=
  runF cfg solver (initSt U []) (cells m)

/-- the state with another list of pending solver answers -/
def setRest {m : ℕ} (st : St R m) (sols : List (Sol R)) : St R m := { st with rest := sols }

end PM.C12
