/-
  C20 — executable description of the SHAPE of a converted processor (what `_configure_processor`,
  `_generate_converted_processor`, `_create_2_qubit_gates_from_catalog` and `Processor.add(mode_map, gate)` build):
  the layout, where the six modes of every two-qubit catalog gate land, which gates are leaky (post-processed),
  and the executable check of the cut condition `CutOk` of `Lemmas/C20Forest.lean` (every post-processed CNOT's
  two qubits are NOT connected by the two-qubit gates that follow it).  Core Lean + `Model/C20.lean` only: this is
  what the driver runs.
-/
import PercevalModel.Model.C20

namespace PM.C20

/-! ### the cut check -/

/-- `A` is closed under a gate on the qubits `Q` -/
def respectsB (A : ℕ → Bool) (Q : List ℕ) : Bool := Q.all A || Q.all fun p => !A p

/-- one sweep of the component computation: a gate that touches the component joins it -/
def growComp (later : List (List ℕ)) (C : List ℕ) : List ℕ :=
  later.foldl (fun C Q => if Q.any (fun p => C.contains p) then C ++ Q.filter (fun p => !C.contains p) else C) C

/-- the qubits connected to `a` by the gates `later` (as many sweeps as there are gates) -/
def compOf (a : ℕ) (later : List (List ℕ)) : List ℕ :=
  (List.range (later.length + 1)).foldl (fun C _ => growComp later C) [a]

/-- a leaky gate on the qubits `Q` followed by gates on the qubit lists `later`: it acts on exactly two qubits
`a, b`, and with `C` = the computed component of `a` under the later gates: `a ∈ C`, `b ∉ C`, and `C` is closed
under every later gate -/
def leakyOk (Q : List ℕ) (later : List (List ℕ)) : Bool :=
  match Q with
  | [a, b] =>
    let C := compOf a later
    C.contains a && !C.contains b && later.all fun Q' => respectsB (fun p => C.contains p) Q'
  | _ => false

/-- the shape of a circuit: for every gate its qubits and whether it is leaky -/
def cutCheck : List (List ℕ × Bool) → Bool
  | [] => true
  | g :: rest => (!g.2 || leakyOk g.1 (rest.map (·.1))) && cutCheck rest


/-! ### the shape of a converted circuit -/

/-- first modes of the qubit pairs a gate touches (qubit `k` lives on modes `2k, 2k+1`) and whether the component
the converter places for it is leaky: only the post-processed CNOT is (`ups` = `use_postselection`) -/
def convShape (ups : Bool) : List Gate → List String → List (List ℕ × Bool)
  | [], _ => []
  | _, [] => []
  | g :: gs, l :: ls =>
    (g.qubits.map (2 * ·), g.qubits.length == 2 && twoQubitKind ups l == "PostProcessed CNOT") :: convShape ups gs ls

/-- layout of a converted processor: `n` dual-rail qubits on the modes `0..2n-1`, then the herald modes of the
two-qubit catalog gates in the order the gates were added, `hv` = their values (`planHeralds`) -/
def convLayout (n : ℕ) (hv : List ℕ) : Layout :=
  ⟨2 * n + hv.length, (List.range n).map (2 * ·), (List.range hv.length).map fun i => (2 * n + i, hv.getD i 0)⟩

/-- where the six modes `ctrl0, ctrl1, data0, data1, herald, herald` of the `j`-th two-qubit catalog gate
(control qubit `a`, data qubit `b`) land: the first four are `_create_mode_map(2a, 2b)` read backwards, the
last two are the two modes `Processor.add` appended for the gate's heralds -/
def gateModes (n a b j : ℕ) : List ℕ := [2 * a, 2 * a + 1, 2 * b, 2 * b + 1, 2 * n + 2 * j, 2 * n + 2 * j + 1]

/-- the modes of every gate of a sequence: one-qubit gate `[2q, 2q+1]`; catalog two-qubit gate `gateModes` with
the running index of its herald pair; SWAP: the four rails (the `PERM` is the identity in between) -/
def planModes (n : ℕ) : List Gate → List String → ℕ → List (List ℕ)
  | [], _, _ => []
  | _, [], _ => []
  | g :: gs, k :: ks, j =>
    if g.qubits.length == 1 then [2 * g.qubits.getD 0 0, 2 * g.qubits.getD 0 0 + 1] :: planModes n gs ks j
    else if k == "PERM" then
      [2 * g.qubits.getD 0 0, 2 * g.qubits.getD 0 0 + 1, 2 * g.qubits.getD 1 0, 2 * g.qubits.getD 1 0 + 1] ::
        planModes n gs ks j
    else gateModes n (g.qubits.getD 0 0) (g.qubits.getD 1 0) j :: planModes n gs ks (j + 1)

end PM.C20
