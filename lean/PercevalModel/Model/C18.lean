/-
  C18 — executable model of `perceval/runtime/local_job.py` (`LocalJob`), the parts of
  `job.py` (`Job._handle_params`, `Job.get_results`) and `job_status.py` (`JobStatus`) it uses,
  and the cancel relay of `check_cancel.py`.  Core Lean only.

  A *history* is a word over the alphabet `Ev`:

    caller events   execSync c · execAsync c · statusQuery · cancel · getResults
    task events     tStart · tProgress p · tReturn r · tRaise cls msg · tPropagate

  The atomic steps are whole Python API calls of the caller and whole steps of the task function
  (entry, one `progress_callback(...)` call, normal return, exception).  Every interleaving of
  the two streams is a word; an event that cannot happen in a state (the caller is blocked inside
  `execute_sync` and not inside the user's progress callback; the task function is not active) is
  *disabled*: it leaves the state unchanged and answers `Out.disabled`.

  `tPropagate` is the environment's choice that the user's progress callback does not catch the
  exception raised by the last caller action performed inside it: the exception leaves the
  callback, travels through `LocalJob._progress_cb` into the task function, which does not catch it
  either.

  `step false` is the code as it stands (`LocalJob.status` dereferences `self._worker.is_alive()`
  although `_worker` is `None` during `execute_sync`); `step true` is the repaired behaviour
  (`fixes/C18-status-sync.diff`) and is the main model.

  Assumed, not modelled (exercised by the correspondence only): CPython threads, the logger,
  `time()`; exceptions of the task are subclasses of `Exception` (what `_call_fn_safe` catches);
  the result mapping function is total.  Keys, exception classes and messages are natural-number
  identifiers; the harness holds the tables.
-/
import PercevalModel.Found.SM

namespace PM.C18

/-! ### Python dictionaries with `None` values -/

abbrev Key := Nat
/-- a Python argument value; `none` is Python's `None` -/
abbrev PyVal := Option Nat
/-- insertion-ordered dictionary -/
abbrev Dict := List (Key × PyVal)

/-- the reserved key `max_samples` of `_handle_params` -/
def maxSamples : Key := 0

def dhas (d : Dict) (k : Key) : Bool := (d.lookup k).isSome

/-- `d[k] = v`: replace in place or append -/
def dset : Dict → Key → PyVal → Dict
  | [], k, v => [(k, v)]
  | (k', v') :: r, k, v => if k' = k then (k', v) :: r else (k', v') :: dset r k v

/-- `del d[k]` -/
def derase (d : Dict) (k : Key) : Dict := d.filter (fun e => e.1 != k)

def keys (d : Dict) : List Key := d.map (·.1)

/-! ### values -/

/-- a result payload; `mapped v kw` is `result_mapping_function(v, **kw)` (uninterpreted) -/
inductive Val
  | nat (n : Nat)
  | mapped (v : Val) (kw : Dict)
  deriving DecidableEq, Repr

/-- what the task function returns / what `_results` holds -/
inductive Ret
  | none                                   -- `None`
  | plain (n : Nat)                        -- a value with neither `results` nor `results_list`
  | dict (v : Val)                         -- `{'results': v, ...}`
  | dlist (l : List (Dict × Val))          -- `{'results_list': [{'iteration': d, 'results': v}, ...]}`
  deriving DecidableEq, Repr

inductive St | waiting | running | success | error | canceled
  deriving DecidableEq, Repr

/-- `JobStatus.completed` (= `maybe_completed` on the five values a local job can take) -/
def St.isFinal : St → Bool
  | .success | .error | .canceled => true
  | _ => false

/-- `JobStatus.failed` -/
def St.failed : St → Bool
  | .error | .canceled => true
  | _ => false

inductive Worker | none | alive | dead
  deriving DecidableEq, Repr

/-- life of the task function -/
inductive Phase | idle | ready | active | done
  deriving DecidableEq, Repr

inductive Mode | none | sync | async
  deriving DecidableEq, Repr

inductive Exc
  | assertion      -- AssertionError  "job has already been executed"
  | twice          -- RuntimeError    parameter passed twice (in *args and **kwargs)
  | unused         -- RuntimeError    unused parameters in user call
  | index          -- IndexError      more positional arguments than names (after the max_samples pop)
  | attribute      -- AttributeError  'NoneType' object has no attribute 'is_alive' (current code only)
  | stillRunning   -- RuntimeError    the job is still running
  | failed         -- RuntimeError    "The job failed: <stop_message>"
  | notAvailable   -- RuntimeError    "Results are not available"
  deriving DecidableEq, Repr

/-- `JobStatus.stop_message` -/
inductive Msg
  | none
  | canceled                       -- "User has canceled the job"
  | task (cls text : Nat)          -- type(e).__name__ + ": " + str(e) of the task's own exception
  | caller (e : Exc)               -- same, for a caller-action exception that left the callback
  deriving DecidableEq, Repr

/-- one `execute_sync(*args, **kwargs)` / `execute_async(...)` call -/
structure Call where
  args : List PyVal
  kwargs : Dict
  /-- `progress_callback=<callback 2>` among the keyword arguments -/
  cbKw : Bool
  deriving DecidableEq, Repr

inductive Ev
  | execSync (c : Call)
  | execAsync (c : Call)
  | statusQuery
  | cancel
  | getResults
  | tStart
  | tProgress (p : Nat)
  | tReturn (r : Ret)
  | tRaise (cls text : Nat)
  | tPropagate
  deriving DecidableEq, Repr

inductive Res
  | val (r : Ret)
  | err (e : Exc)
  deriving DecidableEq, Repr

inductive Out
  | disabled
  | accepted                                            -- the execute call passed its checks
  | exc (e : Exc)                                       -- the caller's call raised
  | status (s : St) (m : Msg) (p : Nat)                 -- `job.status`
  | done                                                -- `cancel()` returned
  | results (r : Ret)                                   -- `get_results()` returned
  | started (args : Dict)                               -- the task function was entered with these
  | progressed (cb : Option Nat) (p : Nat) (relayed : Bool)
      -- which user callback was invoked with `p`; whether `{'cancel_requested': True}` came back
  | finished (sync : Option Res)                        -- the task ended; outcome of `execute_sync`
  deriving DecidableEq, Repr

/-- constructor arguments of the job -/
structure Cfg where
  paramNames : List Key
  command0 : Dict
  mapping0 : Dict
  hasMap : Bool
  /-- callback installed with `set_progress_callback` before anything else (callback 1) -/
  cb0 : Bool
  deriving DecidableEq, Repr

structure State where
  status : St
  msg : Msg
  progress : Nat                  -- `_running_progress` in eighths
  worker : Worker
  cancelReq : Bool
  results : Ret
  mapPending : Bool               -- `_result_mapping_function is not None`
  command : Dict                  -- `_delta_parameters['command']` without `progress_callback`
  mapping : Dict
  userCb : Option Nat
  -- the environment's side
  phase : Phase
  mode : Mode
  cbOpen : Bool                   -- control is inside the user's progress callback
  pending : Option Exc            -- last exception raised by a caller action inside that callback
  fnCalls : Nat
  cbLog : List (Nat × Nat)        -- (callback id, progress value) the user callbacks have seen
  deriving DecidableEq, Repr

def init (cfg : Cfg) : State :=
  { status := .waiting, msg := .none, progress := 0, worker := .none, cancelReq := false,
    results := .none, mapPending := cfg.hasMap, command := cfg.command0, mapping := cfg.mapping0,
    userCb := if cfg.cb0 then some 1 else none,
    phase := .idle, mode := .none, cbOpen := false, pending := none, fnCalls := 0, cbLog := [] }

/-! ### `Job._handle_params` -/

/-- `for idx, a in enumerate(args): name = names[idx]; if name in kwargs: raise; command[name] = a`.
The dictionary is mutated in place, so what was assigned before an exception stays. -/
def posArgs (kw : Dict) : List Key → List PyVal → Dict → Dict × Option Exc
  | _, [], cmd => (cmd, none)
  | [], _ :: _, cmd => (cmd, some .index)
  | n :: ns, a :: as, cmd =>
    if dhas kw n then (cmd, some .twice) else posArgs kw ns as (dset cmd n a)

/-- `for k, v in d.items(): if v is None and k in kwargs: d[k] = kwargs[k]; del kwargs[k]` -/
def fill : Dict → Dict → Dict × Dict
  | [], kw => ([], kw)
  | (k, v) :: r, kw =>
    match v, kw.lookup k with
    | none, some x =>
      let (r', kw') := fill r (derase kw k)
      ((k, x) :: r', kw')
    | _, _ =>
      let (r', kw') := fill r kw
      ((k, v) :: r', kw')

/-- the `max_samples` pop -/
def popExtra (names : List Key) (map : Dict) (args : List PyVal) : Dict × List PyVal :=
  if args.length > names.length then
    (dset map maxSamples (args.getLast?.getD none), args.dropLast)
  else (map, args)

/-- returns the (possibly partially) updated dictionaries and the exception, if any.
`progress_callback` among the keyword arguments is never consumed (the command dictionary already
holds the job's own relay under that name), hence always "unused". -/
def handleParams (names : List Key) (cmd map : Dict) (c : Call) : Dict × Dict × Option Exc :=
  let (map1, args1) := popExtra names map c.args
  match posArgs c.kwargs names args1 cmd with
  | (cmd1, some e) => (cmd1, map1, some e)
  | (cmd1, none) =>
    let (cmd2, kw1) := fill cmd1 c.kwargs
    let (map2, kw2) := fill map1 kw1
    (cmd2, map2, if kw2.isEmpty && !c.cbKw then none else some .unused)

/-! ### `JobStatus`, `LocalJob.status`, `Job.get_results` -/

def stopRun (s : State) (cause : St) (m : Msg) : State :=
  { s with status := cause, msg := m, progress := if cause = .success then 8 else s.progress }

/-- the `status` property.  `fixed = false`: the code as it stands. -/
def statusProp (fixed : Bool) (s : State) : Except Exc State :=
  if s.status = .running then
    match s.worker with
    | .none => if fixed then .ok s else .error .attribute
    | .alive => .ok s
    | .dead => .ok (stopRun s .success .none)
  else .ok s

/-- `res["iteration"].get(key, val) for key, val in mapping.items()` -/
def overrideWith (mapping it : Dict) : Dict :=
  mapping.map fun e => (e.1, (it.lookup e.1).getD e.2)

/-- the one-shot conversion applied to a returned value -/
def convertRet (mapping : Dict) : Ret → Option Ret
  | .dict v => some (.dict (.mapped v mapping))
  | .dlist l => some (.dlist (l.map fun e => (e.1, .mapped e.2 (overrideWith mapping e.1))))
  | .plain _ => none        -- KeyError
  | .none => none           -- TypeError

/-- `LocalJob._get_results`; `none` = KeyError/TypeError -/
def convert (s : State) : Option State :=
  if s.mapPending then
    match convertRet s.mapping s.results with
    | some r => some { s with results := r, mapPending := false }
    | none => none
  else some s

def getRes (fixed : Bool) (s : State) : State × Res :=
  match statusProp fixed s with
  | .error e => (s, .err e)
  | .ok s1 =>
    if s1.status.isFinal then
      match convert s1 with
      | some s2 => (s2, .val s2.results)
      | none => (s1, .err (if s1.status.failed then .failed else .notAvailable))
    else (s1, .err .stillRunning)

/-! ### caller actions -/

/-- the caller can act unless it is blocked inside `execute_sync` and not inside the callback -/
def callerEnabled (s : State) : Bool :=
  !(s.mode == .sync && (s.phase == .ready || s.phase == .active) && !s.cbOpen)

/-- an exception raised by an action performed inside the callback is remembered there -/
def notePending (s0 : State) (r : State × Out) : State × Out :=
  match r.2 with
  | .exc e => if s0.cbOpen then ({ r.1 with pending := some e }, r.2) else r
  | _ => r

def execEntry (cfg : Cfg) (s : State) (c : Call) (async : Bool) : State × Out :=
  if s.status ≠ .waiting then (s, .exc .assertion)
  else
    let s := { s with userCb := if c.cbKw then some 2 else s.userCb }
    match handleParams cfg.paramNames s.command s.mapping c with
    | (cmd, map, some e) => ({ s with command := cmd, mapping := map }, .exc e)
    | (cmd, map, none) =>
      let s := { s with command := cmd, mapping := map, phase := .ready }
      if async then ({ s with status := .running, worker := .alive, mode := .async }, .accepted)
      else ({ s with mode := .sync }, .accepted)

def actStatus (fixed : Bool) (s : State) : State × Out :=
  match statusProp fixed s with
  | .ok s' => (s', .status s'.status s'.msg s'.progress)
  | .error e => (s, .exc e)

def actGet (fixed : Bool) (s : State) : State × Out :=
  match getRes fixed s with
  | (s', .val r) => (s', .results r)
  | (s', .err e) => (s', .exc e)

/-! ### task steps -/

def taskStart (s : State) : State × Out :=
  ({ s with phase := .active, fnCalls := s.fnCalls + 1, status := .running }, .started s.command)

/-- `_progress_cb`: `update_progress`, then the cancel relay, then the user's callback -/
def taskProgress (s : State) (p : Nat) : State × Out :=
  let s := { s with cbOpen := false, pending := none, progress := p,
                    status := if s.status = .waiting then .running else s.status }
  if s.cancelReq then (s, .progressed none p true)
  else match s.userCb with
    | some id => ({ s with cbOpen := true, cbLog := s.cbLog ++ [(id, p)] }, .progressed (some id) p false)
    | none => (s, .progressed none p false)

/-- the task function is left; in synchronous mode `execute_sync` goes on to `get_results()` -/
def finish (fixed : Bool) (s : State) : State × Out :=
  let s := { s with phase := .done, cbOpen := false, pending := none,
                    worker := if s.worker = Worker.alive then Worker.dead else s.worker }
  match s.mode with
  | .sync => let r := getRes fixed s; (r.1, .finished (some r.2))
  | _ => (s, .finished none)

def taskReturn (fixed : Bool) (s : State) (r : Ret) : State × Out :=
  let s := { s with results := r }
  finish fixed (if s.cancelReq then stopRun s .canceled .canceled else stopRun s .success .none)

def taskRaise (fixed : Bool) (s : State) (m : Msg) : State × Out :=
  finish fixed (stopRun s .error m)

/-! ### the machine -/

def step (fixed : Bool) (cfg : Cfg) (s : State) : Ev → State × Out
  | .execSync c => if callerEnabled s then notePending s (execEntry cfg s c false) else (s, .disabled)
  | .execAsync c => if callerEnabled s then notePending s (execEntry cfg s c true) else (s, .disabled)
  | .statusQuery => if callerEnabled s then notePending s (actStatus fixed s) else (s, .disabled)
  | .cancel => if callerEnabled s then ({ s with cancelReq := true }, .done) else (s, .disabled)
  | .getResults => if callerEnabled s then notePending s (actGet fixed s) else (s, .disabled)
  | .tStart => if s.phase = .ready then taskStart s else (s, .disabled)
  | .tProgress p => if s.phase = .active then taskProgress s p else (s, .disabled)
  | .tReturn r => if s.phase = .active then taskReturn fixed s r else (s, .disabled)
  | .tRaise c t => if s.phase = .active then taskRaise fixed s (.task c t) else (s, .disabled)
  | .tPropagate =>
    if s.phase = .active ∧ s.cbOpen = true then
      match s.pending with
      | some e => taskRaise fixed s (.caller e)
      | none => (s, .disabled)
    else (s, .disabled)

/-- state after a history, from a freshly constructed job -/
def after (fixed : Bool) (cfg : Cfg) (w : List Ev) : State := SM.exec (step fixed cfg) (init cfg) w

/-- outputs along a history -/
def outs (fixed : Bool) (cfg : Cfg) (w : List Ev) : List Out := (SM.run (step fixed cfg) (init cfg) w).2

/-! ### several jobs in one process

A Python process holds any number of `LocalJob`s, created at any time, possibly in flight at the same
time (one in a worker thread, another executed meanwhile).  The code gives every job its own
`JobStatus`, its own `_delta_parameters` dictionaries (`Job.__init__`: `delta_parameters or {...}`,
a fresh literal per call), its own cancel flag, worker and results: nothing is shared.  The process
model is therefore the product of the single-job machines: an event addressed to job `i` steps job `i`
and no other.  (That the REAL jobs of one process behave like this product — each job like its own
single-job model whatever other jobs were created or executed before or meanwhile — is what the
multi-job part of the correspondence checks.) -/

inductive PEv
  | create (cfg : Cfg)            -- `LocalJob(...)`: a further job, appended to the process
  | on (i : Nat) (e : Ev)         -- event `e` on the `i`-th job created
  deriving Repr

/-- the jobs of a process, in creation order, each with its constructor arguments -/
abbrev Proc := List (Cfg × State)

/-- answers are tagged with the job they come from; a creation answers nothing; an event addressed
to a job that does not exist (yet) is disabled -/
def pstep (fixed : Bool) (P : Proc) : PEv → Proc × Option (Nat × Out)
  | .create cfg => (P ++ [(cfg, init cfg)], none)
  | .on i e =>
    match P[i]? with
    | none => (P, some (i, .disabled))
    | some (cfg, s) => (P.set i (cfg, (step fixed cfg s e).1), some (i, (step fixed cfg s e).2))

/-- the events of a process history addressed to job `i` -/
def proj (i : Nat) : List PEv → List Ev
  | [] => []
  | .create _ :: W => proj i W
  | .on j e :: W => if j = i then e :: proj i W else proj i W

/-- the answers of a process history that come from job `i` -/
def answersTo (i : Nat) : List (Option (Nat × Out)) → List Out
  | [] => []
  | none :: l => answersTo i l
  | some (j, o) :: l => if j = i then o :: answersTo i l else answersTo i l

end PM.C18
