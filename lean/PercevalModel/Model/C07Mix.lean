/-
  C07 (extension 5) — a noisy source TOGETHER with heralds / post-selection / photon filter on top of the loss layer.

  * `perceval/simulators/simulator.py` `Simulator.probs_svd` of the INNER simulator on the enlarged circuit for a
    source distribution of un-annotated Fock inputs (`_preprocess_svd`: an input with fewer photons than the
    forwarded filter is dropped, `phys_perf -= p`; `_probs_svd_fast`: `res[bs] += p * prob0`,
    `_logical_perf += sum(probs) * prob0`; `if _logical_perf > 0 and physical_perf > 0: _logical_perf /= physical_perf`;
    nothing left → `logical_perf = 0`; `post_select_distribution` with nothing to select: normalises)
  * then `ASimulatorDecorator.probs_svd` / `_postprocess_bsd` of the loss layer (`lossPost`), the factors multiplied in.
  The inputs of the enlarged circuit carry the photons that will be lost, so the inner test is on the photon number
  of the INPUT.  Outside the model: the probability threshold `global_params['min_p']` below which an input of the
  source distribution is ignored.
-/
import PercevalModel.Model.C07Sel
import PercevalModel.Model.C07SV

namespace PM.C07
open PM.SimSpec

/-- `max(sv.n) >= self.min_detected_photons_filter` for a Fock input of the source distribution -/
def passes (σ : Sel) (ws : ℚ × List ℕ) : Bool := decide (σ.minDet ≤ ws.2.sum)

/-- `res[bs] += p * prob0` over the inputs: the un-normalised mixture of the enlarged distributions -/
def enlargedMix {N : ℕ} (U : Matrix (Fin N) (Fin N) GQ) (M : ℕ) (src : List (ℚ × List ℕ)) : Dist.D :=
  Dist.mix (src.map fun ws => (ws.1, fullDist U (prepareInput M N ws.2)))

/-- `LossSimulator.probs_svd(source distribution)` with a selection → (results, logical_perf, physical_perf) -/
def lossMixSvdSel {N : ℕ} (σ : Sel) (U : Matrix (Fin N) (Fin N) GQ) (M : ℕ) (src : List (ℚ × List ℕ)) :
    Dist.D × ℚ × ℚ :=
  let kept := src.filter (passes σ)
  let w := 1 - ((src.filter fun ws => !passes σ ws).map (·.1)).sum
  let lk := (kept.map (·.1)).sum
  let li := if 0 < lk ∧ 0 < w then lk / w else lk
  let y := enlargedMix U M kept
  if y.isEmpty then
    let r := lossPost σ M []
    (r.1, 0 * r.2.1, w * r.2.2)
  else
    let r := lossPost σ M (Dist.normalize y)
    (r.1, li * r.2.1, w * r.2.2)

end PM.C07
