/-
  C04 — probability trimming inside the conditioning path of `Simulator.probs_svd` at a non-zero precision
  (fast path: mixture of annotated Fock states; no detectors or photon-number-resolving detectors only).

  Two thresholds act between the engine and the conditioning:
  * `_preprocess_svd`: `p_threshold = max(min_p, max_p · precision)`, `max_p` = the largest weight among the members
    that pass the photon filter (initial value 0; the members below the filter do not take part); members that pass
    the filter and whose weight is *not above* the threshold are dropped — and, as the code is, they are NOT subtracted
    from `physical_perf` (only the members below the filter are);
  * `_probs_svd_fast`: the per-member product of the (masked, budgeted) group distributions is
    `BSDistribution.list_tensor_product(…, merge_modes=True, prob_threshold=p_threshold / (10 · prob0))`:
    a single distribution is returned untouched, an empty factor empties the product, entries not above the threshold
    are removed from every factor, and a partial product below the threshold prunes its subtree
    (`PM.C03.listTensor` / `PM.C03.innerTP`, shared read-only with C03 whose correspondence drives them too).
  Everything after the accumulation loop (`_logical_perf /= physical_perf`, `if not len(res)`,
  `post_select_distribution`) is the code of the untrimmed model, factored out as `finishSvd`.
-/
import PercevalModel.Model.C04
import PercevalModel.Model.C03

namespace PM.C04
open PM.Fock PM.Dist PM.SimSpec

/-- the numeric settings of the trimming: `Simulator._rel_precision` and `global_params['min_p']` -/
structure Prec where
  prec : ℚ
  minp : ℚ

/-- `max_p` of `_preprocess_svd` -/
def maxP (c : Cfg) (members : List Member) : ℚ := ((kept c members).map (·.w)).foldl max 0

/-- `p_threshold` of `_preprocess_svd` -/
def pThreshold (P : Prec) (c : Cfg) (members : List Member) : ℚ := max P.minp (maxP c members * P.prec)

/-- `trimmed_svd`: enough photons and a weight above the threshold -/
def keptθ (P : Prec) (c : Cfg) (members : List Member) : List Member :=
  (kept c members).filter fun mb => decide (pThreshold P c members < mb.w)

/-- `probs_in_s` of `_probs_svd_fast` at threshold `θ = p_threshold` -/
def memberDistθ (eng : Fock → D) (c : Cfg) (θ : ℚ) (mb : Member) : D :=
  PM.C03.listTensor c.m (θ / (10 * mb.w)) (mb.groups.map (groupDist eng c mb.n))

/-- `res` of `_probs_svd_fast` before normalisation, with trimming -/
def codeResθ (eng : Fock → D) (P : Prec) (c : Cfg) (members : List Member) : D :=
  mix ((keptθ P c members).map fun mb => (mb.w, memberDistθ eng c (pThreshold P c members) mb))

/-- `probs_svd` after the accumulation loop: `self._logical_perf` holds the accumulated mass, `res` is normalised,
`post_select_distribution` conditions it -/
def finishSvd (c : Cfg) (phys : ℚ) (res : D) : Out :=
  let acc := mass res
  let l0 := if 0 < acc ∧ 0 < phys then acc / phys else acc
  if acc = 0 then ⟨[], phys, 0⟩
  else
    let ps := postSelect c (normalize res)
    ⟨ps.1, phys, l0 * ps.2⟩

/-- `Simulator.probs_svd` at precision `P` (no detectors / PNR detectors, no superposed input state) -/
def probsSvdθ (eng : Fock → D) (P : Prec) (c : Cfg) (members : List Member) : Out :=
  finishSvd c (physInputs c members) (codeResθ eng P c members)

/-- the probability mass the two thresholds removed before the conditioning -/
def trimmedMass (eng : Fock → D) (P : Prec) (c : Cfg) (members : List Member) : ℚ :=
  mass (mix ((kept c members).map fun mb => (mb.w, memberDist eng c mb))) - mass (codeResθ eng P c members)

/-- the part of it that the heralds and the post-selection would have accepted -/
def trimmedRetained (eng : Fock → D) (P : Prec) (c : Cfg) (members : List Member) : ℚ :=
  mass (restrict (logicOk (cond c)) (mix ((kept c members).map fun mb => (mb.w, memberDist eng c mb)))) -
    mass (restrict (logicOk (cond c)) (codeResθ eng P c members))

end PM.C04
