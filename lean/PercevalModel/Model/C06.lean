/-
  C06 — model of `perceval/components/source.py` (`Source`), of the two `list_tensor_product`s of
  `perceval/utils/statevector.py` it is built on, and of `Source.from_noise_model`.

  Numbers are rationals.  The two square roots of the code are *parameters* of the model:
    `q` stands for `math.sqrt(1 - 2 * px * g2)`     (`Params.WF` demands `q ≥ 0 ∧ q² = 1 − 2·β·g2`)
    `r` stands for `math.sqrt(indistinguishability)` (`Params.WF` demands `r ≥ 0 ∧ r² = I`)
  so everything the code computes is a rational function of `(β, g2, q, η, I, r)`.

  Python objects as modelled here
    photon annotation            `Tag  := Option ℕ`  (`none` = no annotation, `some k` = `_:k`)
    one mode of a `BasicState`   `Mode := List Tag`  (a multiset; order is storage order only)
    `BasicState`/`StateVector`   `State := List Mode`
    `BSDistribution`/`SVDistribution`  `Dist α := List (α × ℚ)` — the insertion-ordered dict; a key
        that occurs twice stands for the *sum* of its entries (`res[state] += prob`).  Every
        observable used below (`E`, `mass`, `massP`) is invariant under that merging.
    the tag counter `self._context["discernability_tag"]`  an explicit `ℕ` threaded through.
-/
import Mathlib.Algebra.Order.Field.Rat
import Mathlib.Algebra.BigOperators.Group.List.Basic
import Mathlib.Data.Nat.Factorial.Basic

namespace PM.C06

abbrev Tag := Option ℕ
abbrev Mode := List Tag
abbrev State := List Mode
abbrev Dist (α : Type) := List (α × ℚ)

/-- Source parameters.  `eta = 1 - losses`; `dm = (multiphoton_model == "distinguishable")`. -/
structure Params where
  beta : ℚ
  g2 : ℚ
  q : ℚ
  eta : ℚ
  ind : ℚ
  r : ℚ
  dm : Bool
deriving Repr

/-- The asserts of `Source.__init__` (what the constructor accepts). -/
def Params.admissible (P : Params) : Bool :=
  decide (0 < P.beta) && decide (P.beta ≤ 1) && decide (0 ≤ 1 - P.eta) && decide (1 - P.eta ≤ 1) &&
  decide (0 ≤ P.g2) && decide (P.g2 ≤ 1) && decide (P.beta * P.g2 ≤ 1 / 2)

/-- `q`, `r` really are the square roots the code takes (needed because the model has no `sqrt`). -/
def Params.rootsOk (P : Params) : Bool :=
  decide (0 ≤ P.q) && decide (P.q * P.q = 1 - 2 * P.beta * P.g2) &&
  decide (0 ≤ P.r) && decide (P.r * P.r = P.ind)

/-- Well-formed parameters: admissible for the constructor, indistinguishability in `[0,1]`
(enforced by `NoiseModel`), and `q`, `r` the non-negative roots. -/
structure Params.WF (P : Params) : Prop where
  beta_pos : 0 < P.beta
  beta_le : P.beta ≤ 1
  eta_nonneg : 0 ≤ P.eta
  eta_le : P.eta ≤ 1
  g2_nonneg : 0 ≤ P.g2
  g2_le : P.g2 ≤ 1
  bg : P.beta * P.g2 ≤ 1 / 2
  q_nonneg : 0 ≤ P.q
  q_sq : P.q * P.q = 1 - 2 * P.beta * P.g2
  r_nonneg : 0 ≤ P.r
  r_le : P.r ≤ 1
  r_sq : P.r * P.r = P.ind

/-! ### `Source._get_probs` -/

/-- `p2 = (- px * g2 - math.sqrt(1 - 2 * px * g2) + 1) / g2 if g2 else 0` -/
def p2 (P : Params) : ℚ := if P.g2 = 0 then 0 else (-(P.beta * P.g2) - P.q + 1) / P.g2
/-- `p1 = px - p2` -/
def p1 (P : Params) : ℚ := P.beta - p2 P
/-- `p1to1 = eta * p1` -/
def p11 (P : Params) : ℚ := P.eta * p1 P
/-- `p2to2 = eta ** 2 * p2` -/
def p22 (P : Params) : ℚ := P.eta ^ 2 * p2 P
/-- `p2to1 = eta * (1 - eta) * p2` (one *given* photon of the pair survives) -/
def p21 (P : Params) : ℚ := P.eta * (1 - P.eta) * p2 P
/-- `p0 = 1 - (p1to1 + 2 * p2to1 + p2to2)` -/
def p0 (P : Params) : ℚ := 1 - (p11 P + 2 * p21 P + p22 P)

/-- probability that a requested photon yields exactly one photon -/
def pi1 (P : Params) : ℚ := p11 P + 2 * p21 P
/-- probability that a requested photon yields exactly two photons -/
def pi2 (P : Params) : ℚ := p22 P

/-- `Source.is_perfect` -/
def isPerfect (P : Params) : Bool :=
  decide (P.beta = 1) && decide (P.g2 = 0) && decide (P.ind = 1) && decide (1 - P.eta = 0)

/-- `Source.partially_distinguishable` (its truth value) -/
def partDist (P : Params) : Bool :=
  decide (P.ind ≠ 1) || (P.dm && decide (P.g2 ≠ 0))

/-- the tag counter after one `_generate_one_photon_distribution` -/
def nextTag (P : Params) (t : ℕ) : ℕ := if P.dm then t + 2 else t + 1

/-- `_generate_one_photon_distribution`, all candidate entries in insertion order, *before* the
`if probability > 0` test of `Source._add`.  `t` is the tag counter on entry. -/
def onePhotonRaw (P : Params) (t : ℕ) : Dist Mode :=
  let d := 1 - P.r                                   -- distinguishability
  let t1 : Tag := some (t + 1)                        -- distinguishable_photon
  let t2 : Tag := if P.dm then some (t + 2) else some 0   -- second_photon
  let s0 : Tag := some 0
  if partDist P then
    [([], p0 P),
     ([s0, t2], (1 - d) * p22 P),
     (if P.dm then [t1, t2] else [t2, t1], d * p22 P)] ++
    (if P.dm then
      [([t1], d * (p11 P + p21 P) + p21 P),
       ([s0], (1 - d) * (p11 P + p21 P))]
     else
      [([t1], d * (p11 P + p21 P)),
       ([s0], (1 - d) * (p11 P + p21 P) + p21 P)])
  else
    [([], p0 P), ([none, none], p22 P), ([none], p11 P + 2 * p21 P)]

/-- keep the entries with positive probability (`Source._add`) -/
def positive {α : Type} (d : Dist α) : Dist α := d.filter (fun e => decide (0 < e.2))

/-- `_generate_one_photon_distribution` -/
def onePhoton (P : Params) (t : ℕ) : Dist Mode := positive (onePhotonRaw P t)

/-! ### distributions -/

def mass {α : Type} (d : Dist α) : ℚ := (d.map (·.2)).sum
/-- expectation of a test function -/
def E {α : Type} (g : α → ℚ) (d : Dist α) : ℚ := (d.map (fun e => e.2 * g e.1)).sum
/-- probability of an event -/
def massP {α : Type} (p : α → Bool) (d : Dist α) : ℚ := E (fun a => if p a then 1 else 0) d

/-- `ProbabilityDistribution.normalize` -/
def normalize {α : Type} (d : Dist α) : Dist α :=
  let s := mass d
  d.map (fun e => (e.1, e.2 / s))

/-- the "easy trim" of `list_tensor_product`: `{state: prob … if prob > prob_threshold}` -/
def trim {α : Type} (θ : ℚ) (d : Dist α) : Dist α := d.filter (fun e => decide (θ < e.2))

/-- `_inner_tensor_product`: depth-first product, a branch is abandoned as soon as its partial
probability drops below the threshold (`if prob < prob_threshold: continue`). -/
def dfs {α : Type} (θ : ℚ) (comb : α → α → α) : List (Dist α) → α → ℚ → Dist α
  | [], s, p => [(s, p)]
  | d :: ds, s, p =>
    d.flatMap fun e => if p * e.2 < θ then [] else dfs θ comb ds (comb s e.1) (p * e.2)

/-- storage order of the photons of a mode: unannotated first, then by tag number.  `BasicState`
equality is equality of the multisets of annotated photons; the model keeps every mode sorted so that
it is list equality. -/
def tagCode : Tag → ℕ
  | none => 0
  | some k => k + 1

/-- `bs.merge(current_state)` on one mode: union of the photons -/
def mergeTags (e s : Mode) : Mode := (e ++ s).mergeSort (fun a b => decide (tagCode a ≤ tagCode b))

/-- `res[state] += prob` on a `defaultdict(float)`: add to the existing key or append a new one -/
def addKey {α : Type} [DecidableEq α] (k : α) (p : ℚ) : Dist α → Dist α
  | [] => [(k, p)]
  | e :: rest => if e.1 = k then (e.1, e.2 + p) :: rest else e :: addKey k p rest

/-- the dict obtained by accumulating a stream of `(key, prob)` updates -/
def accum {α : Type} [DecidableEq α] (d : Dist α) : Dist α :=
  d.foldl (fun acc e => addKey e.1 e.2 acc) []

/-- `BSDistribution.list_tensor_product(…, merge_modes=True, prob_threshold=θ)`;
`state = bs.merge(current_state)`, start state = the empty mode.  Equal keys are accumulated: the
next stage (`SVDistribution.list_tensor_product`) applies its threshold to the accumulated values. -/
def ltpMode (θ : ℚ) (ds : List (Dist Mode)) : Dist Mode :=
  match ds with
  | [] => []
  | [d] => d
  | ds => if ds.any List.isEmpty then []
          else accum (dfs θ (fun s e => mergeTags e s) (ds.map (trim θ)) [] 1)

/-- `SVDistribution.list_tensor_product(…, prob_threshold=θ)`; `current_state * sv`, start state
= the state on zero modes.  The result is the stream of `res[state] += prob` updates, NOT accumulated
(a key occurring twice stands for the sum of its entries; nothing downstream looks at single values:
`normalize` is linear, and when every factor has distinct keys — which `ltpMode` guarantees — the
updates have distinct keys anyway). -/
def ltpState (θ : ℚ) (ds : List (Dist State)) : Dist State :=
  match ds with
  | [] => []
  | [d] => d
  | ds => dfs θ (fun s e => s ++ e) (ds.map (trim θ)) [] 1

/-- the one-photon distributions of `n` requested photons (fresh tags for each) -/
def photonDists (P : Params) : ℕ → ℕ → List (Dist Mode)
  | 0, _ => []
  | n + 1, t => onePhoton P t :: photonDists P n (nextTag P t)

/-- the tag counter after `n` requested photons -/
def tagAfter (P : Params) : ℕ → ℕ → ℕ
  | 0, t => t
  | n + 1, t => tagAfter P n (nextTag P t)

/-- does `probability_distribution` take the shortcut `nphotons == 0 or self.is_perfect()` ? -/
def shortcut (P : Params) (n : ℕ) : Bool := decide (n = 0) || isPerfect P

/-- `Source.probability_distribution(nphotons, prob_threshold)` (the distribution on one mode) -/
def probDist (P : Params) (θ : ℚ) (n t : ℕ) : Dist Mode :=
  if shortcut P n then [(List.replicate n none, 1)] else ltpMode θ (photonDists P n t)

/-- the tag counter after `probability_distribution(nphotons)` -/
def probDistTag (P : Params) (n t : ℕ) : ℕ := if shortcut P n then t else tagAfter P n t

/-- `[self.probability_distribution(photon_count, θ) for photon_count in expected_input]` -/
def modeDists (P : Params) (θ : ℚ) : List ℕ → ℕ → List (Dist Mode)
  | [], _ => []
  | n :: ns, t => probDist P θ n t :: modeDists P θ ns (probDistTag P n t)

/-- a one-mode distribution as a distribution of one-mode states -/
def lift (d : Dist Mode) : Dist State := d.map fun e => ([e.1], e.2)

/-- `generate_distribution` before `dist.normalize()`, with the threshold already resolved -/
def generateRaw (P : Params) (θ : ℚ) (ns : List ℕ) (t : ℕ) : Dist State :=
  ltpState θ ((modeDists P θ ns t).map lift)

/-- `generate_distribution` with the threshold already resolved -/
def generateAt (P : Params) (θ : ℚ) (ns : List ℕ) (t : ℕ) : Dist State :=
  normalize (generateRaw P θ ns t)

/-- `global_params['min_p']` -/
def minP : ℚ := 1 / 10 ^ 16

/-- `Source.generate_distribution(expected_input, prob_threshold)`
(`simplify_distribution` is left at its default `False`). -/
def generate (P : Params) (thr : ℚ) (ns : List ℕ) (t : ℕ) : Dist State :=
  generateAt P (max thr minP) ns t

/-- number of photons of a state -/
def photons (s : State) : ℕ := (s.map List.length).sum

/-- conditioning on the minimum-photon filter: restriction + renormalisation
(`filter_distribution_photon_count`; the law `generate_samples(…, min_detected_photons=f)` is
required to follow). -/
def condMin (f : ℕ) (d : Dist State) : Dist State :=
  normalize (d.filter fun e => decide (f ≤ photons e.1))

/-! ### event table (`_compute_prob_table`) -/

def pSignal (P : Params) : ℚ := p11 P + p21 P
def pG2 (P : Params) : ℚ := p21 P
def pDuo (P : Params) : ℚ := p22 P
/-- `p0 = 1 - (p_signal + p_g2 + p_duo)` -/
def pNone (P : Params) : ℚ := 1 - (pSignal P + pG2 P + pDuo P)

/-- one table entry, exactly the expression of the code -/
def coef (a b c z : ℚ) (n i j k : ℕ) : ℚ :=
  (n.factorial : ℚ) * a ^ i * b ^ j * c ^ k * z ^ (n - i - j - k) /
    ((i.factorial : ℚ) * j.factorial * k.factorial * (n - i - j - k).factorial)

/-- the three nested `range` loops with their truthiness quirks
(`range(n + 1 - i if p_g2 else 1)`, `range(n + 1 - i - j if p_duo else 1)`) and the filter test -/
def tableRawOf (a b c z : ℚ) (n f : ℕ) : List ((ℕ × ℕ × ℕ) × ℚ) :=
  (List.range (n + 1)).flatMap fun i =>
    (List.range (if b = 0 then 1 else n + 1 - i)).flatMap fun j =>
      (List.range (if c = 0 then 1 else n + 1 - i - j)).flatMap fun k =>
        if f ≤ i + j + 2 * k then [((i, j, k), coef a b c z n i j k)] else []

def tableRaw (P : Params) (n f : ℕ) : List ((ℕ × ℕ × ℕ) × ℚ) :=
  tableRawOf (pSignal P) (pG2 P) (pDuo P) (pNone P) n f

/-- `phys_perf = sum(prob_table.values())` -/
def physPerf (P : Params) (n f : ℕ) : ℚ := mass (tableRaw P n f)

/-- the returned table: divided by `phys_perf` only `if min_photons_filter` -/
def table (P : Params) (n f : ℕ) : List ((ℕ × ℕ × ℕ) × ℚ) :=
  if f = 0 then tableRaw P n f else (tableRaw P n f).map fun e => (e.1, e.2 / physPerf P n f)

/-- third returned value, `p0 ** n` -/
def zeroPhotonProb (P : Params) (n : ℕ) : ℚ := pNone P ^ n

/-! ### `Source.from_noise_model` -/

/-- `losses = 1 - noise.transmittance`, hence `eta = 1 - (1 - transmittance)`;
`multiphoton_model = DISTINGUISHABLE if noise.g2_distinguishable else INDISTINGUISHABLE`. -/
def ofNoise (brightness g2 q ind r transmittance : ℚ) (g2dist : Bool) : Params :=
  { beta := brightness, g2 := g2, q := q, eta := 1 - (1 - transmittance), ind := ind, r := r,
    dm := g2dist }

/-! ### vocabulary of the property statements (test functions, generating functions) -/

/-- a multiplicative test function on a mode: `∏` over its photons of a weight of the tag -/
def tagProd (h : Tag → ℚ) (m : Mode) : ℚ := (m.map h).prod

/-- a product test function on a state: `∏ᵢ fs (k+i) (mode i)` -/
def W (fs : ℕ → Mode → ℚ) : ℕ → State → ℚ
  | _, [] => 1
  | k, m :: s => fs k m * W fs (k + 1) s

/-- the product of the per-mode expectations of the same test functions -/
def prodFrom (fs : ℕ → Mode → ℚ) : ℕ → List (Dist Mode) → ℚ
  | _, [] => 1
  | k, d :: ds => E (fs k) d * prodFrom fs (k + 1) ds

/-- generating polynomial of the number of photons one requested photon yields -/
def poly (P : Params) (y : ℚ) : ℚ := p0 P + pi1 P * y + pi2 P * y ^ 2

/-- generating function of the per-mode photon counts of independent requested photons:
`∏ᵢ poly(x (k+i)) ^ nᵢ` -/
def gfFrom (P : Params) (x : ℕ → ℚ) : ℕ → List ℕ → ℚ
  | _, [] => 1
  | k, n :: ns => poly P (x k) ^ n * gfFrom P x (k + 1) ns

/-- two photons of the mode carry the same tag -/
def hasDup (m : Mode) : Bool := !decide m.Nodup

/-- weight of a tag: `a` for the common signal tag (`_:0`, or no annotation at all — the mixture of a
source that is not partially distinguishable carries no annotations), `b` for every fresh tag -/
def tagW (a b : ℚ) : Tag → ℚ
  | none => a
  | some 0 => a
  | some (_ + 1) => b

/-- weight of the signal photon: it carries the common tag with probability `r = √I` -/
def sigS (P : Params) (a b : ℚ) : ℚ := P.r * a + (1 - P.r) * b

/-- the *physical description* of one requested photon as a generating function in (`a` = weight of a
photon with the common tag, `b` = weight of a photon with a fresh tag): nothing is emitted with
probability `1 − β`; one photon (the signal) with probability `p1`; two (signal + extra) with
probability `p2`; every emitted photon survives independently with probability `η`; the signal photon
carries the common tag with probability `r`; the extra photon is fresh in the "distinguishable"
model and carries the common tag in the "indistinguishable" model. -/
def tagGF (P : Params) (a b : ℚ) : ℚ :=
  (1 - P.beta) + p1 P * ((1 - P.eta) + P.eta * sigS P a b) +
    p2 P * ((1 - P.eta) + P.eta * sigS P a b) * ((1 - P.eta) + P.eta * (if P.dm then b else a))

/-- the photon carries the common tag (or the mixture is unannotated) -/
def commonTag : Tag → Bool
  | none => true
  | some 0 => true
  | some (_ + 1) => false

/-- the fresh (non-common) tags of a list of photons, with multiplicity -/
def freshTags (m : Mode) : List Tag := m.filter fun tg => !commonTag tg

/-- every photon of the state carries the common tag -/
def allCommon (s : State) : Bool := s.all fun m => m.all commonTag

/-- photon number of an event `(i, j, k)` of the table -/
def evPhotons (e : ℕ × ℕ × ℕ) : ℕ := e.1 + e.2.1 + 2 * e.2.2

end PM.C06
