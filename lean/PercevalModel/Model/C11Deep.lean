/-
  C11 — `Circuit.copy()` / `Experiment.copy()` on NESTED circuits with object identity
  (`perceval/components/linear_circuit.py: Circuit.copy`, `abstract_component.py:
  AParametrizedComponent.copy`, `experiment.py: Experiment.copy`).

  Every node of a circuit tree (leaf component or nested `Circuit`) carries the identity of the Python
  object it is (`id`); the same object held several times is the same `id` occurring several times.
  `Circuit.copy` is `copy.deepcopy(self)` (a new container object) followed by
  `nc.add(r, c.copy(subs=subs))` for every component in order, `merge=False`: nested circuits stay
  nested and EVERY OCCURRENCE of every component — leaf or sub-circuit — becomes a new object.
  `Experiment.copy` does the same with its component list.  New objects are numbered from a counter.
  For circuits whose parameters all have values `copy(subs=…)` builds the same objects (`subs` only
  replaces symbols).
-/
import PercevalModel.Model.C11

namespace PM.C11
variable {R : Type}

mutual
  inductive OCmp (R : Type) where
    | leaf (id : ℕ) (l : Leaf R)
    | circ (id : ℕ) (m : ℕ) (items : OIts R)
  inductive OIts (R : Type) where
    | nil
    | cons (off : ℕ) (c : OCmp R) (rest : OIts R)
end

mutual
  /-- the circuit the objects denote (identities forgotten) -/
  def OCmp.erase : OCmp R → Cmp R
    | .leaf _ l => .leaf l
    | .circ _ m items => .circ m items.erase
  def OIts.erase : OIts R → Its R
    | .nil => .nil
    | .cons off c rest => .cons off c.erase rest.erase
end

mutual
  /-- identities of all occurrences, in iteration order (container first) -/
  def OCmp.ids : OCmp R → List ℕ
    | .leaf i _ => [i]
    | .circ i _ items => i :: items.ids
  def OIts.ids : OIts R → List ℕ
    | .nil => []
    | .cons _ c rest => c.ids ++ rest.ids
end

mutual
  /-- number of occurrences of objects -/
  def OCmp.count : OCmp R → ℕ
    | .leaf _ _ => 1
    | .circ _ _ items => 1 + items.count
  def OIts.count : OIts R → ℕ
    | .nil => 0
    | .cons _ c rest => c.count + rest.count
end

mutual
  /-- `component.copy()`: `next` is the first unused identity; returns the copy and the next unused
  identity -/
  def OCmp.copy (next : ℕ) : OCmp R → OCmp R × ℕ
    | .leaf _ l => (.leaf next l, next + 1)
    | .circ _ m items =>
        let r := items.copy (next + 1)
        (.circ next m r.1, r.2)
  def OIts.copy (next : ℕ) : OIts R → OIts R × ℕ
    | .nil => (.nil, next)
    | .cons off c rest =>
        let r1 := c.copy next
        let r2 := rest.copy r1.2
        (.cons off r1.1 r2.1, r2.2)
end

mutual
  /-- an in-place change `f` of the leaf object `a` (e.g. `param.set_value`, `inverse`): every
  occurrence of that object changes -/
  def OCmp.mutate (a : ℕ) (f : Leaf R → Leaf R) : OCmp R → OCmp R
    | .leaf i l => if i = a then .leaf i (f l) else .leaf i l
    | .circ i m items => .circ i m (items.mutate a f)
  def OIts.mutate (a : ℕ) (f : Leaf R → Leaf R) : OIts R → OIts R
    | .nil => .nil
    | .cons off c rest => .cons off (c.mutate a f) (rest.mutate a f)
end

end PM.C11
