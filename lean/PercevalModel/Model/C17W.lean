/-
  C17, wave 9 — the SHAPE of the server's answer to a status request (`RemoteJob.status`, the lines after
  `response = self._rpc_handler.get_job_status(self._id)`), which the earlier models took for granted:

      self._status_refresh_error = 0                       # inside the `try`
      self._job_status.status = from_server_response(response['status'])        # KeyError
      if self._job_status.running:
          self._job_status.update_progress(float(response['progress']), response['progress_message'])   # KeyError
      elif self._job_status.failed:
          self._job_status._stop_message = response['status_message']           # KeyError
      … _extract_job_times(response): `.get` only, never raises on a missing key

  A KeyError is not an `HTTPError` / `ConnectionError`: it is NOT handled by `_handle_status_error`, it leaves the
  `status` property at once, whatever the streak counter; the counter has already been reset, and — when the
  `status` key was there — the new status has already been stored (a final one makes the job final).

  `RawBody` says which keys the answer carries; `readStatusW` is the status read on it, written in the order of
  the code; with all the keys its status needs it IS `readStatusF` (`Model/C17X.lean`).  Core Lean only.
-/
import PercevalModel.Model.C17X

namespace PM.C17

/-- the JSON object answering a status request: which keys it carries -/
structure RawBody where
  status : Option String     -- `response['status']`
  progress : Option Nat      -- `response['progress']`
  phase : Bool               -- `'progress_message' in response`
  message : Bool             -- `'status_message' in response` (its value is the position, as everywhere)
  creation : Option Int      -- `response.get('creation_datetime')`
  start : Option Int         -- `response.get('start_time')`
  duration : Option Int      -- `response.get('duration')`
  deriving DecidableEq, Repr

/-- answer to a status request, by shape -/
inductive RespW
  | status (rb : RawBody) (m : Nat)
  | http (c : Nat)
  | conn
  deriving DecidableEq, Repr

/-- the key whose lookup fails -/
inductive Key
  | status | progress | phase | message
  deriving DecidableEq, Repr

/-- the first subscript of `RemoteJob.status` that raises KeyError on this answer, in the order of the code:
`'status'`; then, if the status read is RUNNING / CANCEL_REQUESTED, `'progress'` and `'progress_message'`
(arguments evaluated left to right); else, if it is ERROR / CANCELED, `'status_message'`. -/
def RawBody.missing (rb : RawBody) : Option Key :=
  match rb.status with
  | none => some .status
  | some s =>
    if (fromServer s).isRunning then
      (if rb.progress.isNone then some .progress else if !rb.phase then some .phase else none)
    else if (fromServer s).failed then (if rb.message then none else some .message)
    else none

/-- the fields `readStatusF` looks at besides status and message -/
def RawBody.body (rb : RawBody) : Body := ⟨rb.progress.getD 0, rb.creation, rb.start, rb.duration⟩

/-- the answer as the full machine sees it (meaningful when no key is missing) -/
def RespW.toF : RespW → RespF
  | .status rb m => .status (rb.status.getD "") m rb.body
  | .http c => .http c
  | .conn => .conn

/-- an answer with every key the code will look up -/
def RespW.complete : RespW → Bool
  | .status rb _ => rb.missing.isNone
  | _ => true

/-- the `status` property on the full object at time `now`, on the shape of the answer (throttle transparent). -/
def readStatusW (fixed : Bool) (f : FJob) (now : Int) (r : RespW) : FJob × Option FExc × List Call :=
  if !statusDue f.job then (f, none, [])
  else match r with
    | .status rb m =>
      match rb.status with
      | none =>
        -- `_status_refresh_error = 0` has been executed; nothing else
        ({ f with job := { f.job with streak := 0 } }, some .keyError, [.status f.job.id])
      | some s =>
        match rb.missing with
        | some _ =>
          -- the status is stored (plain assignment, no `start_run`, no stop message, no times)
          ({ f with job := { f.job with status := fromServer s, streak := 0, lastRead := some (fromServer s) } },
           some .keyError, [.status f.job.id])
        | none => readStatusF fixed f now (.status s m rb.body)
    | .http c => readStatusF fixed f now (.http c)
    | .conn => readStatusF fixed f now .conn

/-- `status()` / `is_…` on an answer given by shape -/
def pollW (fixed : Bool) (f : FJob) (now : Int) (v : View) (r : RespW) : FJob × FOut :=
  match readStatusW fixed f now r with
  | (f1, some e, c) => (f1, ⟨e.toRes, c⟩)
  | (f1, none, c) => (f1, ⟨.base (view v f1.job.status), c⟩)

/-- the operations of the full machine, plus the status read on an answer given by shape -/
inductive WOp
  | full (op : FOp)
  | rawPoll (v : View) (r : RespW)
  deriving Repr

structure TWOp where
  now : Int
  op : WOp
  deriving Repr

def wstep (fixed : Bool) (f : FJob) (t : TWOp) : FJob × FOut :=
  match t.op with
  | .full op => fstep fixed f ⟨t.now, op⟩
  | .rawPoll v r => pollW fixed f t.now v r

/-- the operation of the full machine a W-operation is when its answer is complete -/
def TWOp.toF (t : TWOp) : TOp :=
  match t.op with
  | .full op => ⟨t.now, op⟩
  | .rawPoll v r => ⟨t.now, .poll v r.toF⟩

def TWOp.complete (t : TWOp) : Bool :=
  match t.op with
  | .full _ => true
  | .rawPoll _ r => r.complete

end PM.C17
