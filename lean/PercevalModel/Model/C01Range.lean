/-
  C01 — model of the `port_range` argument of `Circuit.add` and of the literal block assignment of
  `Circuit._compute_circuit_unitary` (`perceval/components/linear_circuit.py`).

  `Model/C01.lean` keeps an item as `(first port, component)`.  The real code keeps the *tuple of ports*
  that `add` received (an `int`, a `tuple` or a `list`), checks it with a chain of assertions, shifts it
  element-wise on `merge` and in `__iter__`, and `_compute_circuit_unitary` writes the component's matrix
  into `nU[r[0]:r[-1]+1, r[0]:r[-1]+1]` unless `len(r) == m`, starting from `u = None`.
  This file models those steps AS THEY ARE; `Props/C01.lean` proves that on every range `add` accepts they
  are the `(first port, width)` abstraction and `embed`.
-/
import PercevalModel.Model.C01
import PercevalModel.Found.Memo

open Matrix

namespace PM.C01

/-- outcome class of the argument checks of `Circuit.add` -/
inductive AddOut where
  | ok
  | assertion      -- one of the `assert`s
  | valueError     -- `min(())`: an empty tuple reaches `min` before the length test
  deriving DecidableEq, Repr

/-- `port_range` as the caller gives it: an `int`, or a `tuple` / `list` of ints -/
inductive PortArg where
  | int (p : ℤ)
  | seq (r : List ℤ)
  deriving DecidableEq, Repr

/-- `tuple(range(p, p + k))` -/
def rangeFrom (p : ℤ) : ℕ → List ℤ
  | 0 => []
  | k + 1 => p :: rangeFrom (p + 1) k

/-- `if isinstance(port_range, int): port_range = tuple(i for i in range(port_range, port_range+component.m))`;
a list becomes a tuple -/
def PortArg.norm (k : ℕ) : PortArg → List ℤ
  | .int p => rangeFrom p k
  | .seq r => r

/-- `for i, x in enumerate(port_range): assert isinstance(x, int) and i == 0 or x == port_range[i - 1] + 1`
(for ints the first disjunct is `i == 0`) -/
def consecutive : List ℤ → Bool
  | [] => true
  | [_] => true
  | a :: b :: r => (b == a + 1) && consecutive (b :: r)

/-- the assertion chain of `Circuit.add(port_range, component)` on a circuit of `m` modes, `k = component.m`,
in the order of the code: consecutive, `min >= 0 and max < m` (`min(())` raises ValueError), `len == k` -/
def checkRange (m k : ℕ) (a : PortArg) : AddOut :=
  let r := a.norm k
  if consecutive r then
    match r.min?, r.max? with
    | some lo, some hi =>
        if 0 ≤ lo ∧ hi < (m : ℤ) then (if r.length = k then .ok else .assertion) else .assertion
    | _, _ => .valueError
  else .assertion

/-- `__ifloordiv__` with `(pos, component)` (or `pos = 0` for a bare component):
`self.add(tuple(range(pos, component._m + pos)), component, merge=True)` -/
def floordivArg (pos : ℤ) (k : ℕ) : PortArg := .seq (rangeFrom pos k)

/-- merge branch of `add`: `nprange = tuple(r + port_range[0] for r in sprange)` -/
def mergeRange (portRange sprange : List ℤ) : List ℤ := sprange.map (· + portRange.headD 0)

/-- `Circuit.__iter__`: `tuple(pos + r[0] for pos in range_comp)` -/
def iterRange (r rangeComp : List ℤ) : List ℤ := rangeComp.map (· + r.headD 0)

/-! ### the literal block assignment of `_compute_circuit_unitary` -/

section lit
variable {R : Type}

/-- `nU = eye(m); nU[lo:hi, lo:hi] = cU` (entries outside the block of `cU` cannot occur for an accepted range:
numpy raises on a shape mismatch; they are given as `0` to keep the definition total) -/
def sliceEmbed [Zero R] [One R] (m lo hi : ℕ) {k : ℕ} (U : Matrix (Fin k) (Fin k) R) :
    Matrix (Fin m) (Fin m) R := fun i j =>
  if lo ≤ i.val ∧ i.val < hi ∧ lo ≤ j.val ∧ j.val < hi then
    (if h : i.val - lo < k ∧ j.val - lo < k then U ⟨i.val - lo, h.1⟩ ⟨j.val - lo, h.2⟩ else 0)
  else (1 : Matrix (Fin m) (Fin m) R) i j

/-- `cU` used as it is (the branch `len(r) == m`) -/
def asIs [Zero R] (m : ℕ) {k : ℕ} (U : Matrix (Fin k) (Fin k) R) : Matrix (Fin m) (Fin m) R := fun i j =>
  if h : i.val < k ∧ j.val < k then U ⟨i.val, h.1⟩ ⟨j.val, h.2⟩ else 0

/-- `if len(r) != m: nU = eye; nU[r[0]:r[-1]+1, r[0]:r[-1]+1] = cU; cU = nU` -/
def litCU [Zero R] [One R] (m : ℕ) (r : List ℤ) {k : ℕ} (U : Matrix (Fin k) (Fin k) R) :
    Matrix (Fin m) (Fin m) R :=
  if r.length ≠ m then sliceEmbed m (r.headD 0).toNat ((r.getLastD 0) + 1).toNat U else asIs m U

/-- the loop of `_compute_circuit_unitary` over items `(range, leaf matrix)`: `u = None` at the start,
`u = cU` for the first item, `u = cU @ u` afterwards (materialised matrices are passed: executable) -/
def litLoop [CommRing R] (m : ℕ) (u : Option (MatV R m m)) :
    List (List ℤ × (Σ k, Matrix (Fin k) (Fin k) R)) → Option (MatV R m m)
  | [] => u
  | (r, ⟨_, B⟩) :: rest =>
      litLoop m (some (match u with
        | none => MatV.ofMatrix (litCU m r B)
        | some u => MatV.ofMatrix (litCU m r B * u.toMatrix))) rest

/-- `compute_unitary()`: `u = _compute_circuit_unitary(); if u is None: u = eye(m)` -/
def litUnitaryV [CommRing R] (m : ℕ) (l : List (List ℤ × (Σ k, Matrix (Fin k) (Fin k) R))) : MatV R m m :=
  (litLoop m none l).getD (MatV.ofMatrix 1)

def litUnitary [CommRing R] (m : ℕ) (l : List (List ℤ × (Σ k, Matrix (Fin k) (Fin k) R))) :
    Matrix (Fin m) (Fin m) R :=
  (litUnitaryV m l).toMatrix

/-- the abstraction used by `Model/C01.lean`: an item is known by its first port -/
def firstPorts (l : List (List ℤ × (Σ k, Matrix (Fin k) (Fin k) R))) :
    List (ℕ × (Σ k, Matrix (Fin k) (Fin k) R)) :=
  l.map fun p => ((p.1.headD 0).toNat, p.2)

/-- every range is one `add` accepts for that leaf -/
def RangesOk (m : ℕ) (l : List (List ℤ × (Σ k, Matrix (Fin k) (Fin k) R))) : Prop :=
  ∀ p ∈ l, checkRange m p.2.1 (.seq p.1) = .ok

end lit

/-! ### trees that keep the port tuples: `add`, `__iter__` and `_compute_circuit_unitary` as they are written -/

mutual
  inductive RComp (R : Type) where
    | leaf (k : ℕ) (U : Matrix (Fin k) (Fin k) R)
    | circ (m : ℕ) (items : RItems R)
  inductive RItems (R : Type) where
    | nil
    | cons (r : List ℤ) (c : RComp R) (rest : RItems R)
end

section rtree
variable {R : Type}

def RComp.size : RComp R → ℕ
  | .leaf k _ => k
  | .circ m _ => m

def RItems.append : RItems R → RItems R → RItems R
  | .nil, ys => ys
  | .cons r c rest, ys => .cons r c (rest.append ys)

/-- merge branch of `add`: every `(sprange, sc)` of the component is stored under `nprange` -/
def RItems.shiftBy (pr : List ℤ) : RItems R → RItems R
  | .nil => .nil
  | .cons r c rest => .cons (mergeRange pr r) c (rest.shiftBy pr)

/-- registration step of `Circuit.add` (after the assertions) -/
def raddItem (items : RItems R) (pr : List ℤ) (c : RComp R) (merge : Bool) : RItems R :=
  match merge, c with
  | true, .circ _ (.cons r c' rest) => items.append ((RItems.cons r c' rest).shiftBy pr)
  | _, _ => items.append (.cons pr c .nil)

/-- `Circuit.add(port_range, component, merge)`: argument checks, then registration; a rejected add changes nothing -/
def radd (m : ℕ) (items : RItems R) (a : PortArg) (c : RComp R) (merge : Bool) : AddOut × RItems R :=
  match checkRange m c.size a with
  | .ok => (.ok, raddItem items (a.norm c.size) c merge)
  | e => (e, items)

/- the `(first port, component)` abstraction of `Model/C01.lean` -/
mutual
  def RComp.abs : RComp R → Comp R
    | .leaf k U => .leaf k U
    | .circ m items => .circ m items.abs
  def RItems.abs : RItems R → Items R
    | .nil => .nil
    | .cons r c rest => .cons (r.headD 0).toNat c.abs rest.abs
end

/- `ACircuit.__iter__` (a leaf yields `tuple(range(m))`) and `Circuit.__iter__` -/
mutual
  def riter : RComp R → List (List ℤ × (Σ k, Matrix (Fin k) (Fin k) R))
    | .leaf k U => [(rangeFrom 0 k, ⟨k, U⟩)]
    | .circ _ items => riterItems items
  def riterItems : RItems R → List (List ℤ × (Σ k, Matrix (Fin k) (Fin k) R))
    | .nil => []
    | .cons r c rest => (riter c).map (fun p => (iterRange r p.1, p.2)) ++ riterItems rest
end

/- `compute_unitary` / `_compute_circuit_unitary` recursing through sub-circuits, with the literal block assignment -/
mutual
  def rlitV [CommRing R] : (c : RComp R) → MatV R c.size c.size
    | .leaf _ U => MatV.ofMatrix U
    | .circ m items => (rlitLoop m none items).getD (MatV.ofMatrix 1)
  def rlitLoop [CommRing R] (m : ℕ) (u : Option (MatV R m m)) : RItems R → Option (MatV R m m)
    | .nil => u
    | .cons r c rest =>
        rlitLoop m (some (match u with
          | none => MatV.ofMatrix (litCU m r (rlitV c).toMatrix)
          | some u => MatV.ofMatrix (litCU m r (rlitV c).toMatrix * u.toMatrix))) rest
end

/- every stored range is one the assertions of `add` let through for that component -/
mutual
  def RComp.WF : RComp R → Prop
    | .leaf _ _ => True
    | .circ m items => items.WF m
  def RItems.WF : RItems R → ℕ → Prop
    | .nil, _ => True
    | .cons r c rest, m => checkRange m c.size (.seq r) = .ok ∧ c.WF ∧ rest.WF m
end

/-- `Flat` of iteration: first port ↦ the tuple of ports -/
def asRanges (l : List (ℕ × (Σ k, Matrix (Fin k) (Fin k) R))) :
    List (List ℤ × (Σ k, Matrix (Fin k) (Fin k) R)) :=
  l.map fun p => (rangeFrom p.1 p.2.1, p.2)

/-- a sequence of `add` calls (any argument forms, accepted or not) on one circuit -/
def raddAll (m : ℕ) (items : RItems R) : List (PortArg × RComp R × Bool) → RItems R
  | [] => items
  | (a, c, mg) :: rest => raddAll m (radd m items a c mg).2 rest

end rtree


section runitary
variable {R : Type}

/- every leaf matrix of a range tree is unitary -/
mutual
  def RComp.AllUnitary [CommRing R] [StarRing R] : RComp R → Prop
    | .leaf _ U => IsUnitary U
    | .circ _ items => items.AllUnitary
  def RItems.AllUnitary [CommRing R] [StarRing R] : RItems R → Prop
    | .nil => True
    | .cons _ c rest => c.AllUnitary ∧ rest.AllUnitary
end

end runitary

end PM.C01
