/-
  C15 (part "PSW") — the PostSelect writer AS WRITTEN in `perceval/serialization/serialize.py`:

      def _postselect_to_str(ps):
          pending = 0; enclosing = []
          def rewrite(match):
              token = match.group()
              if token == "! ": pending += 1; return "(! "
              if token == "(":  enclosing.append(pending); pending = 0; return token
              if token == ")":  pending = enclosing.pop()
              closing, pending = ")" * pending, 0
              return token + closing
          return re.sub(r"! |\(|\)|\[[^]]*\] \S+ \d+", rewrite, str(ps))

  i.e. one regular-expression pass over the text of the native printer (`print false`, Model/C15PS.lean) that
  wraps every negation together with its operand in parentheses.  `Model/C15PS.lean` states the *result* the
  repair wants (`print true`, a structural printer); this file models the *mechanism* character by character —
  the scanning order of `re.sub`, the four alternatives in their order, the greedy quantifiers (none of which
  can backtrack into a match: `[^]]*` stops at the first `]`, `\S+` must be followed by a space, `\d+` is last) —
  so that `Lemmas/C15PSW.lean` can prove `writeAsWritten (print false x) = print true x` for every expression.

  Scope: ASCII texts (`\s` / `\d` of a Python `str` pattern also match non-ASCII white space / digits; the native
  printer never writes any).  Core Lean only.
-/
import PercevalModel.Model.C15PS

namespace PM.C15.PS

/-- `\s` of Python's `re` on the ASCII range: `str.isspace` = C `isspace` plus the separators U+001C..U+001F -/
def isReSpace (c : Char) : Bool :=
  isWs c || (28 ≤ c.toNat && c.toNat ≤ 31)

/-- `[^]]*\]`: number of characters up to and including the first `]`, and what follows it -/
def spanBracket : Text → Option (Nat × Text)
  | [] => none
  | c :: cs =>
    if c = ']' then some (1, cs)
    else match spanBracket cs with
      | none => none
      | some (k, r) => some (k + 1, r)

/-- length of the longest prefix whose characters satisfy `p` (a greedy `p+` / `p*`) -/
def countWhile (p : Char → Bool) : Text → Nat
  | [] => 0
  | c :: cs => if p c then countWhile p cs + 1 else 0

/-- `cs` follows a `[`: the number of characters of `cs` the fourth alternative `\[[^]]*\] \S+ \d+` matches
    (`none`: no match here).  `oneDigit = true` is the variant `\d` (without `+`), kept to show in
    `Props/C15.lean` that the quantifier matters. -/
def condLen (oneDigit : Bool) (cs : Text) : Option Nat :=
  match spanBracket cs with
  | some (k1, ' ' :: r1) =>
    let k2 := countWhile (fun c => !isReSpace c) r1
    if k2 = 0 then none
    else match r1.drop k2 with
      | ' ' :: r3 =>
        let k3 := countWhile Char.isDigit r3
        if k3 = 0 then none else some (k1 + 1 + k2 + 1 + (if oneDigit then 1 else k3))
      | _ => none
  | _ => none

/-- prefix the characters already written -/
def preT (out : Text) : Option Text → Option Text
  | none => none
  | some t => some (out ++ t)

/-- `re.sub(pattern, rewrite, text)`, one character at a time.
    * first argument `k + 1`: inside a condition token, `k + 1` of its characters are still to be copied; after the
      last one the pending parentheses are closed (`closing = ")" * pending`);
    * `pending`: negations whose operand ends where the current operand ends; `enclosing`: the same count, saved
      for each parenthesis still open;
    * `none` = `IndexError` (`enclosing.pop()` on an empty list: a `)` without its `(`).
    Text that no alternative matches is copied (`re.sub` leaves it alone). -/
def scan (oneDigit : Bool) : Nat → Nat → List Nat → Text → Option Text
  | _, _, _, [] => some []
  | k + 1, pending, enclosing, c :: cs =>
    if k = 0 then preT (c :: List.replicate pending ')') (scan oneDigit 0 0 enclosing cs)
    else preT [c] (scan oneDigit k pending enclosing cs)
  | 0, pending, enclosing, c :: cs =>
    if c = '!' ∧ cs.head? = some ' ' then
      -- token "! " → "(! " (the blank is copied by the next step), one more negation to close
      preT ['(', '!'] (scan oneDigit 0 (pending + 1) enclosing cs)
    else if c = '(' then preT ['('] (scan oneDigit 0 0 (pending :: enclosing) cs)
    else if c = ')' then
      match enclosing with
      | [] => none
      | q :: rest => preT (')' :: List.replicate q ')') (scan oneDigit 0 0 rest cs)
    else if c = '[' then
      match condLen oneDigit cs with
      | some k => preT ['['] (scan oneDigit k pending enclosing cs)
      | none => preT ['['] (scan oneDigit 0 pending enclosing cs)
    else preT [c] (scan oneDigit 0 pending enclosing cs)

/-- `_postselect_to_str` on the text `str(ps)` -/
def writeAsWritten (t : Text) : Option Text := scan false 0 0 [] t

/-- the payload `serialize(ps)` writes: the regex pass over the native printer's text -/
def payloadAsWritten (x : Option Expr) : Option Text := writeAsWritten (printTop false x)

end PM.C15.PS
