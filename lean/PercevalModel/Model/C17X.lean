/-
  C17, extension — the parts of `perceval/runtime/remote_job.py`, `job.py`, `job_status.py` around the
  state machine of `Model/C17.lean`:

  * the time / progress fields of `JobStatus` (`_init_time_start`, `_running_time_start`, `_duration`,
    `_completed_time`, `_running_progress`) with `update_progress` (incl. its `WAITING -> start_run()`
    branch, which sets the status to RUNNING), `update_times` (truthiness tests; the `None + int`
    TypeError when a completed job carries a duration but never had a start time), `stop_run`,
    `running_time`; the *full* status read `readStatusF` is written in the order of the code
    (counter reset, status, `update_progress` when running / stop message when failed, `update_times`);
  * `Job.name` (setter: non-string -> TypeError, empty -> "unnamed"), `RemoteJob._to_dict`,
    `RemoteJob._from_dict`, `RemoteJob.from_id`, and `rerun` written literally through
    `_to_dict` / `_from_dict` (so that a job without request data — re-created with `from_id`, or from
    the dictionary of a SUCCESS job — raises TypeError in `rerun`, as the code does);
  * `execute_sync`: `execute_async`, then `is_complete` polls with a sleep of
    `refresh_progress_delay` between them, then `get_results`, as a fold over the server's answers
    (`syncLoop`), and its clocked variant (`syncLoopAt`, real throttle) .

  Times are integers (any unit), `progress` is a natural number (the harness uses quarters).
  Core Lean only.
-/
import PercevalModel.Model.C17

namespace PM.C17

/-! ## `Job.name` -/

/-- what is assigned to `job.name` -/
inductive NameArg
  | str (s : String)
  | other                    -- not a `str`
  deriving DecidableEq, Repr

/-- the value `Job.name`'s setter stores for a string -/
def setName (s : String) : String := if s.length > 0 then s else "unnamed"

/-! ## time / progress fields of `JobStatus` -/

/-- the fields of a status answer besides `status` and `status_message` -/
structure Body where
  progress : Nat             -- `response['progress']`
  creation : Option Int      -- `response.get('creation_datetime')`
  start : Option Int         -- `response.get('start_time')`
  duration : Option Int      -- `response.get('duration')`
  deriving DecidableEq, Repr

structure TS where
  init : Int                 -- `_init_time_start`
  runStart : Option Int      -- `_running_time_start`
  duration : Option Int      -- `_duration`
  completedAt : Option Int   -- `_completed_time`
  progress : Nat             -- `_running_progress`
  deriving DecidableEq, Repr

/-- `JobStatus()` created at time `now` -/
def TS.fresh (now : Int) : TS := ⟨now, none, none, none, 0⟩

/-- Python truthiness of an optional number: `None` and `0` are falsy -/
def nz : Option Int → Option Int
  | some x => if x = 0 then none else some x
  | none => none

/-- the time part of `JobStatus.stop_run(cause, …)` at time `now` -/
def stopRun (cause : St) (ts : TS) (now : Int) : TS :=
  { ts with completedAt := some now, duration := some (now - ts.init),
            progress := if cause = .success then 4 else ts.progress }

/-- `JobStatus.update_progress(progress, phase)` at time `now`: a WAITING status is first turned
into RUNNING by `start_run()`.  Returns the status as well: this function *can* change it. -/
def updateProgress (st : St) (ts : TS) (now : Int) (p : Nat) : St × TS :=
  let q : St × TS := if st = .waiting then (.running, { ts with runStart := some now }) else (st, ts)
  (q.1, { q.2 with progress := p })

/-- `JobStatus.update_times(creation, start, duration)`; the `Bool` is `false` when
`self._running_time_start + self._duration` is evaluated with `_running_time_start = None`
(TypeError; the fields assigned before it stay assigned). -/
def updateTimes (st : St) (ts : TS) (b : Body) : TS × Bool :=
  let ts1 := match nz b.creation with
    | some c => { ts with init := c }
    | none => ts
  let ts2 := match nz b.start with
    | some s => { ts1 with runStart := some s }
    | none => ts1
  match nz b.duration with
  | none => (ts2, true)
  | some d =>
    let ts3 := { ts2 with duration := some d }
    if st.completed then
      match ts3.runStart with
      | some s => ({ ts3 with completedAt := some (s + d) }, true)
      | none => (ts3, false)
    else (ts3, true)

/-- outcome of the property `JobStatus.running_time` -/
inductive RT
  | val (x : Int)
  | assertion          -- `assert self.completed`
  | typeError          -- `None - …`
  deriving DecidableEq, Repr

def runningTime (st : St) (ts : TS) : RT :=
  match nz ts.duration with
  | some d => .val d
  | none =>
    if st.completed then
      match ts.completedAt, ts.runStart with
      | some c, some s => .val (c - s)
      | _, _ => .typeError
    else .assertion

/-- a server that never reports a duration for a job it does not report a start time for -/
def Body.WF (b : Body) : Prop := nz b.duration ≠ none → nz b.start ≠ none

instance (b : Body) : Decidable b.WF := by unfold Body.WF; exact inferInstance

/-! ## the full job object -/

/-- answer to a status request, with the whole body -/
inductive RespF
  | status (s : String) (m : Nat) (b : Body)
  | http (c : Nat)
  | conn
  deriving DecidableEq, Repr

def RespF.base : RespF → Resp
  | .status s m _ => .status s m
  | .http c => .http c
  | .conn => .conn

def RespF.WF : RespF → Prop
  | .status _ _ b => b.WF
  | _ => True

instance (r : RespF) : Decidable r.WF := by cases r <;> (unfold RespF.WF; exact inferInstance)

/-- exceptions: those of the base machine, and the two classes the extension can meet -/
inductive FExc
  | base (e : Exc)
  | typeError
  | keyError
  deriving DecidableEq, Repr

structure FJob where
  job : Job
  ts : TS
  hasBody : Bool        -- `_request_data is not None`
  name : String         -- `_name`
  deriving DecidableEq, Repr

/-- `RemoteJob(request_data, rpc_handler, name)` created at time `now` -/
def finit (now : Int) (name : String) : FJob := ⟨init, TS.fresh now, true, setName name⟩

/-- the `status` property on the full object at time `now` (throttle transparent, as in
`readStatus`).  Order of the code: `_status_refresh_error = 0`; `_job_status.status = …`;
`update_progress` if the *new* status is running, else the stop message if it failed;
`update_times`. -/
def readStatusF (fixed : Bool) (f : FJob) (now : Int) (r : RespF) : FJob × Option FExc × List Call :=
  if !statusDue f.job then (f, none, [])
  else match r with
    | .status s m b =>
      let st := fromServer s
      let p : St × TS := if st.isRunning then updateProgress st f.ts now b.progress else (st, f.ts)
      let msg := if st.isRunning then f.job.msg else if p.1.failed then Msg.server m else f.job.msg
      let t := updateTimes p.1 p.2 b
      ({ f with job := { f.job with status := p.1, streak := 0, msg := msg, lastRead := some st },
                ts := t.1 },
       if t.2 then none else some .typeError, [.status f.job.id])
    | .http c =>
      let q := handleErr fixed f.job (some c)
      ({ f with job := q.1 }, q.2.map .base, [.status f.job.id])
    | .conn =>
      let q := handleErr fixed f.job none
      ({ f with job := q.1 }, q.2.map .base, [.status f.job.id])

/-! ## `_to_dict` / `_from_dict` / `from_id` -/

/-- `RunningStatus[name]` -/
def St.ofName : String → Option St
  | "WAITING" => some .waiting
  | "RUNNING" => some .running
  | "SUCCESS" => some .success
  | "ERROR" => some .error
  | "CANCELED" => some .canceled
  | "SUSPENDED" => some .suspended
  | "CANCEL_REQUESTED" => some .cancelRequested
  | "UNKNOWN" => some .unknown
  | _ => none

/-- the part of the dictionary written by `_to_dict` that `_from_dict` reads -/
structure Dict where
  id : Option Nat            -- `'id'`
  status : Option String     -- `'status'`: `str(self._job_status)` if sent, else `None`
  body : Option String       -- `'body'` present (then carrying `job_name`)
  deriving DecidableEq, Repr

/-- `_to_dict()`: reads the cached status (no request); the body is `_create_payload_data()`, which
raises TypeError when there is no request data, and is not written for a SUCCESS job. -/
def toDict (f : FJob) : Except FExc Dict :=
  let st := if f.job.id.isSome then some f.job.status.name else none
  if f.job.status.isSuccess then .ok ⟨f.job.id, st, none⟩
  else if f.hasBody then .ok ⟨f.job.id, st, some f.name⟩
  else .error .typeError

/-- the job object `_from_dict` builds at time `now` once name and status are known -/
def mkJob (d : Dict) (now : Int) (hb : Bool) (nm : String) (st : St) : FJob :=
  ⟨{ id := d.id, status := st, streak := 0, msg := .none, cache := none,
     sentCount := if d.id.isSome then 1 else 0, lastRead := none },
   TS.fresh now, hb, setName nm⟩

/-- `RemoteJob._from_dict(my_dict, rpc_handler)` at time `now` -/
def fromDict (d : Dict) (now : Int) : Except FExc FJob :=
  let bn : Except FExc (Bool × String) :=
    if d.status = some "SUCCESS" then .ok (false, "")
    else match d.body with
      | some nm => .ok (true, nm)
      | none => .error .keyError
  match bn with
  | .error e => .error e
  | .ok (hb, nm) =>
    match d.status with
    | none => .ok (mkJob d now hb nm .waiting)
    | some s =>
      match St.ofName s with
      | some st => .ok (mkJob d now hb nm st)
      | none => .error .keyError

/-- `RemoteJob.from_id(job_id, rpc_handler)` at time `now`: a job named "resumed" without request
data, then one status read (whose exception, if any, propagates: no object is returned). -/
def fromId (fixed : Bool) (n : Nat) (now : Int) (r : RespF) : Option FJob × Option FExc × List Call :=
  let f0 : FJob := ⟨born n, TS.fresh now, false, setName "resumed"⟩
  match readStatusF fixed f0 now r with
  | (_, some e, c) => (none, some e, c)
  | (f1, none, c) => (some f1, none, c)

/-! ## the operations on the full object -/

/-- how an `execute_sync` call ended -/
inductive FFin
  | pending                  -- answers used up, the loop would go on
  | res (r : Res)            -- returned / raised this
  | typeError
  | keyError
  deriving DecidableEq, Repr

inductive FRes
  | base (r : Res)
  | typeError
  | keyError
  | dict (d : Dict)
  | sync (polls sleeps : Nat) (fin : FFin)   -- `execute_sync`: polls made, sleeps made, how it ended
  deriving DecidableEq, Repr

def FRes.toFin : FRes → FFin
  | .base r => .res r
  | .typeError => .typeError
  | .keyError => .keyError
  | _ => .pending

def FExc.toRes : FExc → FRes
  | .base e => .base (.raised e)
  | .typeError => .typeError
  | .keyError => .keyError

structure FOut where
  res : FRes
  calls : List Call
  deriving DecidableEq, Repr

/-- `execute_async()` at time `now`.  A job without request data that passes the assertion fails in
`_create_payload_data` (TypeError, caught by `except Exception`: `stop_run(ERROR, …)`, re-raised)
before any request. -/
def executeF (fixed : Bool) (f : FJob) (now : Int) (h : HResp) : FJob × FOut :=
  if !canExecute fixed f.job then (f, ⟨.base (.raised .assertion), []⟩)
  else if !f.hasBody then
    ({ f with job := { f.job with status := .error, msg := .createFailed, lastRead := none },
              ts := stopRun .error f.ts now }, ⟨.typeError, []⟩)
  else
    let p := execute fixed f.job h
    match h with
    | .ok _ => ({ f with job := p.1 }, ⟨.base p.2.res, p.2.calls⟩)
    | _ => ({ f with job := p.1, ts := stopRun .error f.ts now }, ⟨.base p.2.res, p.2.calls⟩)

def pollF (fixed : Bool) (f : FJob) (now : Int) (v : View) (r : RespF) : FJob × FOut :=
  match readStatusF fixed f now r with
  | (f1, some e, c) => (f1, ⟨e.toRes, c⟩)
  | (f1, none, c) => (f1, ⟨.base (view v f1.job.status), c⟩)

def cancelF (fixed : Bool) (f : FJob) (now : Int) (r : RespF) (h : HResp) : FJob × FOut :=
  match readStatusF fixed f now r with
  | (f1, some e, c) => (f1, ⟨e.toRes, c⟩)
  | (f1, none, c) =>
    if f1.job.status.cancellable then
      match h with
      | .ok _ =>
        ({ f1 with job := { f1.job with status := .cancelRequested, msg := .cancelRequested, lastRead := none },
                   ts := stopRun .cancelRequested f1.ts now },
         ⟨.base .ok, c ++ [.cancel f1.job.id]⟩)
      | _ => (f1, ⟨.base (.raised (hExc h)), c ++ [.cancel f1.job.id]⟩)
    else (f1, ⟨.base (.raised .notCancellable), c⟩)

/-- `rerun()`: `job_dict = self._to_dict()` comes *before* the rerun request; the new job is
`_from_dict` of that dictionary with the new id and `'WAITING'`. -/
def rerunF (fixed : Bool) (f : FJob) (now : Int) (r1 r2 : RespF) (h : HResp) (switch : Bool) :
    FJob × FOut :=
  match readStatusF fixed f now r1 with
  | (f1, some e, c) => (f1, ⟨e.toRes, c⟩)
  | (f1, none, c) =>
    if f1.job.status.failed then
      match toDict f1 with
      | .error e => (f1, ⟨e.toRes, c⟩)
      | .ok d =>
        match h with
        | .ok n =>
          match fromDict { d with id := some n, status := some St.waiting.name } now with
          | .ok child => (if switch then child else f1, ⟨.base (.newJob n), c ++ [.rerun f1.job.id]⟩)
          | .error e => (f1, ⟨e.toRes, c ++ [.rerun f1.job.id]⟩)
        | _ => (f1, ⟨.base (.raised (hExc h)), c ++ [.rerun f1.job.id]⟩)
    else
      match readStatusF fixed f1 now r2 with
      | (f2, some e, c2) => (f2, ⟨e.toRes, c ++ c2⟩)
      | (f2, none, c2) => (f2, ⟨.base (.raised .notRerunnable), c ++ c2⟩)

def getResultsF (fixed : Bool) (f : FJob) (now : Int) (r1 r2 : RespF) (h : RResp) : FJob × FOut :=
  match readStatusF fixed f now r1 with
  | (f1, some e, c) => (f1, ⟨e.toRes, c⟩)
  | (f1, none, c) =>
    if !f1.job.status.maybeCompleted then (f1, ⟨.base (.raised .stillRunning), c⟩)
    else
      match (if f1.job.cache.isSome then readStatusF fixed f1 now r2 else (f1, none, [])) with
      | (f2, some e, c2) => (f2, ⟨e.toRes, c ++ c2⟩)
      | (f2, none, c2) =>
        if f2.job.cache.isSome && f2.job.status.completed then
          (f2, ⟨.base (.results f2.job.cache), c ++ c2⟩)
        else
          let cs := c ++ c2 ++ [.results f2.job.id]
          match h with
          | .ok t => ({ f2 with job := { f2.job with cache := some t } }, ⟨.base (.results (some t)), cs⟩)
          | .empty => ({ f2 with job := { f2.job with cache := none } }, ⟨.base (.results none), cs⟩)
          | .missing =>
            (f2, ⟨.base (.raised (if f2.job.status.failed then .jobFailed f2.job.msg else .unavailable)), cs⟩)
          | .http code => (f2, ⟨.base (.raised (.http (some code))), cs⟩)
          | .conn => (f2, ⟨.base (.raised .conn), cs⟩)

/-! ## `execute_sync` -/

/-- how the polling loop of `execute_sync` ended on a finite list of server answers -/
inductive LoopEnd
  | complete            -- `is_complete` returned True
  | raised              -- the last poll raised (its output says what)
  | pending             -- the answers are used up and the job is still unfinished (the loop goes on)
  deriving DecidableEq, Repr

/-- `while not job.is_complete: time.sleep(delay)` over the answers `rs` (one per loop iteration):
the outputs of the polls made, and how the loop ended.  Generic in the machine. -/
def loopUntil {S R O : Type} (poll : S → R → S × O) (isRaise isDone : O → Bool) :
    S → List R → S × List O × LoopEnd
  | s, [] => (s, [], .pending)
  | s, r :: rs =>
    let p := poll s r
    if isRaise p.2 then (p.1, [p.2], .raised)
    else if isDone p.2 then (p.1, [p.2], .complete)
    else
      let q := loopUntil poll isRaise isDone p.1 rs
      (q.1, p.2 :: q.2.1, q.2.2)

def Out.isRaise (o : Out) : Bool := match o.res with | .raised _ => true | _ => false
def Out.isDone (o : Out) : Bool := match o.res with | .flag true => true | _ => false

/-- the loop on the base machine -/
def syncLoop (fixed : Bool) : Job → List Resp → Job × List Out × LoopEnd :=
  loopUntil (fun j r => step fixed j (.poll .isComplete r)) Out.isRaise Out.isDone

structure SyncOut where
  exec : Out                   -- of `execute_async`
  polls : List Out             -- of the `is_complete` calls
  sleeps : Nat                 -- number of `time.sleep(refresh_progress_delay)` calls
  fin : Option Out             -- of `get_results` (when the loop completed)
  pending : Bool               -- the answers ran out before the loop ended
  deriving DecidableEq, Repr

/-- every request of an `execute_sync` call, in order -/
def SyncOut.calls (o : SyncOut) : List Call :=
  o.exec.calls ++ (o.polls.map (·.calls)).flatten ++ (match o.fin with | some w => w.calls | none => [])

/-- number of sleeps: one after every poll that neither raised nor completed -/
def sleepsOf (polls : List Out) (e : LoopEnd) : Nat :=
  match e with
  | .pending => polls.length
  | _ => polls.length - 1

/-- `execute_sync()` on the base machine: `execute_async`, the loop, `get_results` (whose own status
reads cannot reach the server any more: the job is complete). -/
def executeSync (fixed : Bool) (j : Job) (h : HResp) (rs : List Resp) (g : RResp) : Job × SyncOut :=
  let p := execute fixed j h
  match p.2.res with
  | .ok =>
    let q := syncLoop fixed p.1 rs
    match q.2.2 with
    | .complete =>
      let w := getResults fixed q.1 .conn .conn g
      (w.1, ⟨p.2, q.2.1, sleepsOf q.2.1 .complete, some w.2, false⟩)
    | e => (q.1, ⟨p.2, q.2.1, sleepsOf q.2.1 e, none, e == .pending⟩)
  | _ => (p.1, ⟨p.2, [], 0, none, false⟩)

/-- the loop with the real throttle and the clock: poll at `now`, sleep `d`, poll at `now + d`, …
A throttled poll asks nothing and uses up no answer; `fuel` bounds the number of iterations. -/
def syncLoopAt (fixed : Bool) (delay d : Int) : Nat → TJob → Int → List Resp → TJob × List Out × LoopEnd
  | 0, t, _, _ => (t, [], .pending)
  | fuel + 1, t, now, rs =>
    let due := statusDue t.job && decide (now - t.prev > delay)
    match due, rs with
    | true, [] => (t, [], .pending)
    | _, _ =>
      let r := rs.headD .conn
      let p := readStatusAt fixed delay t now r
      let o : Out := ⟨match p.2.1 with | some e => .raised e | none => .flag p.1.job.status.completed, p.2.2⟩
      if o.isRaise then (p.1, [o], .raised)
      else if o.isDone then (p.1, [o], .complete)
      else
        let q := syncLoopAt fixed delay d fuel p.1 (now + d) (if due then rs.tail else rs)
        (q.1, o :: q.2.1, q.2.2)

/-! ## the machine on the full object -/

def FOut.isRaise (o : FOut) : Bool :=
  match o.res with
  | .base (.raised _) => true
  | .typeError => true
  | .keyError => true
  | _ => false

def FOut.isDone (o : FOut) : Bool := match o.res with | .base (.flag true) => true | _ => false

/-- the loop on the full object; the state carries the number of polls made so far, the k-th poll
(0-based) happens at `now + k * d` (the clock only moves by the sleeps) -/
def syncLoopF (fixed : Bool) (now d : Int) : FJob × Nat → List RespF → (FJob × Nat) × List FOut × LoopEnd :=
  loopUntil (fun (s : FJob × Nat) r =>
      let p := pollF fixed s.1 (now + s.2 * d) .isComplete r
      ((p.1, s.2 + 1), p.2))
    FOut.isRaise FOut.isDone

inductive FOp
  | execute (h : HResp)
  | poll (v : View) (r : RespF)
  | cancel (r : RespF) (h : HResp)
  | rerun (r1 r2 : RespF) (h : HResp) (switch : Bool)
  | getResults (r1 r2 : RespF) (h : RResp)
  | toDict                                   -- look at `_to_dict()`
  | reopen                                   -- go on with `_from_dict(job._to_dict())`
  | resume (r : RespF)                       -- go on with `from_id(job.id)` (no-op on an unsent job)
  | setName (a : NameArg)                    -- `job.name = …`
  | sync (h : HResp) (rs : List RespF) (g : RResp) (d : Int)   -- `execute_sync()` with sleep `d`
  deriving Repr

/-- an operation together with the time at which it is carried out -/
structure TOp where
  now : Int
  op : FOp
  deriving Repr

/-- `execute_sync()` on the full object; the k-th poll happens at `now + k * d` -/
def executeSyncF (fixed : Bool) (f : FJob) (now : Int) (h : HResp) (rs : List RespF) (g : RResp) (d : Int) :
    FJob × FOut :=
  let p := executeF fixed f now h
  match p.2.res with
  | .base .ok =>
    let q := syncLoopF fixed now d (p.1, 0) rs
    let calls := p.2.calls ++ (q.2.1.map (·.calls)).flatten
    match q.2.2 with
    | .complete =>
      let w := getResultsF fixed q.1.1 (now + (q.1.2 - 1 : Nat) * d) .conn .conn g
      (w.1, ⟨.sync q.2.1.length (q.2.1.length - 1) w.2.res.toFin, calls ++ w.2.calls⟩)
    | .raised =>
      (q.1.1, ⟨.sync q.2.1.length (q.2.1.length - 1) ((q.2.1.getLast?.map (·.res.toFin)).getD p.2.res.toFin), calls⟩)
    | .pending => (q.1.1, ⟨.sync q.2.1.length q.2.1.length .pending, calls⟩)
  | _ => (p.1, ⟨.sync 0 0 p.2.res.toFin, p.2.calls⟩)

def fstep (fixed : Bool) (f : FJob) (t : TOp) : FJob × FOut :=
  match t.op with
  | .execute h => executeF fixed f t.now h
  | .poll v r => pollF fixed f t.now v r
  | .cancel r h => cancelF fixed f t.now r h
  | .rerun r1 r2 h sw => rerunF fixed f t.now r1 r2 h sw
  | .getResults r1 r2 h => getResultsF fixed f t.now r1 r2 h
  | .toDict =>
    match toDict f with
    | .ok d => (f, ⟨.dict d, []⟩)
    | .error e => (f, ⟨e.toRes, []⟩)
  | .reopen =>
    match toDict f with
    | .error e => (f, ⟨e.toRes, []⟩)
    | .ok d =>
      match fromDict d t.now with
      | .ok f' => (f', ⟨.dict d, []⟩)
      | .error e => (f, ⟨e.toRes, []⟩)
  | .resume r =>
    match f.job.id with
    | none => (f, ⟨.base .ok, []⟩)
    | some n =>
      match fromId fixed n t.now r with
      | (some f', _, c) => (f', ⟨.base (.st f'.job.status), c⟩)
      | (none, some e, c) => (f, ⟨e.toRes, c⟩)
      | (none, none, c) => (f, ⟨.base .ok, c⟩)
  | .setName a =>
    match a with
    | .str s => ({ f with name := setName s }, ⟨.base .ok, []⟩)
    | .other => (f, ⟨.typeError, []⟩)
  | .sync h rs g d => executeSyncF fixed f t.now h rs g d

/-- the base operation a full operation refines (none for the operations the base machine lacks) -/
def FOp.base? : FOp → Option Op
  | .execute h => some (.execute h)
  | .poll v r => some (.poll v r.base)
  | .cancel r h => some (.cancel r.base h)
  | .rerun r1 r2 h sw => some (.rerun r1.base r2.base h sw)
  | .getResults r1 r2 h => some (.getResults r1.base r2.base h)
  | _ => none

def FOp.WF : FOp → Prop
  | .poll _ r => r.WF
  | .cancel r _ => r.WF
  | .rerun r1 r2 _ _ => r1.WF ∧ r2.WF
  | .getResults r1 r2 _ => r1.WF ∧ r2.WF
  | .resume r => r.WF
  | .sync _ rs _ _ => ∀ r ∈ rs, r.WF
  | _ => True

end PM.C17
