/-
  C11 — `Experiment.unitary_circuit()` and the `_has_td` early return of
  `Experiment.non_unitary_circuit()` (`perceval/components/experiment.py`), on top of the regrouping
  loop `regroup` of `Model/C11.lean`.
-/
import PercevalModel.Model.C11

namespace PM.C11
variable {R : Type}

/-- `Experiment.unitary_circuit()`: `none` is the `RuntimeError` raised when a non-unitary component
was added (`_is_unitary` false); otherwise the circuit holding all components in order -/
def unitaryCircuit : List (ℕ × Entry R) → Option (List (ℕ × Cmp R))
  | [] => some []
  | (r0, .uni c) :: rest => (unitaryCircuit rest).map ((r0, c) :: ·)
  | (_, .non _ _) :: _ => none

/-- `non_unitary_circuit()`: with the `_has_td` flag (a time delay was added) the component list is
returned as it is — no flattening, no regrouping; otherwise the regrouping loop runs on the
flattened list -/
def nonUnitaryCircuit [CommRing R] (I : R) (N : ℕ) (hasTd : Bool) (components flat : List (ℕ × Entry R)) :
    List (ℕ × Entry R) ⊕ List (Group R) :=
  if hasTd then .inl components else .inr (regroup I N flat [])

end PM.C11
