/-
  C06 — the direct sample generator of `perceval/components/source.py` as a FUNCTION OF ITS RANDOM DRAWS:
  `Source.generate_samples`, `_generate_samples_no_filter`, `_events_to_samples`,
  `_generate_distinguishability`, and `BSDistribution.sample` of `perceval/utils/statevector.py`.

  Randomness enters the code through three standard-library primitives only:
    `random.choices(population, k=…, weights=…)`   (event table, distinguishability booleans,
                                                     `BSDistribution.sample`)
    `random.shuffle(photons)`
  One DRAW of `random.choices` is the index of the cell of the cumulative-weight table the uniform variate
  falls into (the call returns `population[index]`); one draw of `random.shuffle` is the permutation it
  effects (`photons'[p] = photons[perm[p]]`).  The model below is a deterministic, total function of these
  draws; the *ideal law* of the draws (index `i` with probability `wᵢ / Σw`, independently; for the
  shuffle see `Lemmas/C06Samp.lean`) is a separate definition, and the theorems are about the push-forward
  of the ideal law through the model.  That CPython's generator realises the ideal law is outside the model.

  The `k` draws of one call serve the `k` samples of the request, one each; the model is written for ONE
  sample (a "row" of draws: the draws this sample consumes, in the order the code consumes them) and
  mapped over the rows (`nfSamples`, `fSamples`).
-/
import PercevalModel.Model.C06

namespace PM.C06

/-! ### `random.choices` -/

/-- `population[index]` for `population = list(d.keys())` (total: an index out of range gives the default;
the driver rejects such draws) -/
def pickKey {α : Type} [Inhabited α] (d : Dist α) (i : ℕ) : α := (d.map Prod.fst).getD i default

/-- ideal law of the index drawn by `random.choices(…, weights=ws)`: cell `i` with probability `wᵢ / Σ w` -/
def idxLaw (ws : List ℚ) : Dist ℕ := (List.range ws.length).map fun i => (i, ws.getD i 0 / ws.sum)

/-- `BSDistribution.sample(count, non_null=False)`: `self.normalize()`, then
`random.choices(list(d.keys()), k=count, weights=list(d.values()))` — the ideal law of one index -/
def sampleIdxLaw {α : Type} (d : Dist α) : Dist ℕ := idxLaw ((normalize d).map Prod.snd)

/-- the law of a list of independent draws, one from each of the given laws -/
def prodLaw {α : Type} : List (Dist α) → Dist (List α)
  | [] => [([], 1)]
  | d :: ds => d.flatMap fun e => (prodLaw ds).map fun r => (e.1 :: r.1, e.2 * r.2)

/-- push a law forward through a function of the outcome -/
def pushF {α β : Type} (f : α → β) (d : Dist α) : Dist β := d.map fun e => (f e.1, e.2)

/-! ### `_generate_samples_no_filter` -/

/-- the one-photon distributions `bsd.sample` is called on, per mode, in the order of the calls.
Partially distinguishable source: a new `_generate_one_photon_distribution()` (new tags) for every
requested photon; otherwise ONE distribution generated before the loops and used for every photon. -/
def nfDistsPd (P : Params) : List ℕ → ℕ → List (List (Dist Mode))
  | [], _ => []
  | n :: ns, t => photonDists P n t :: nfDistsPd P ns (tagAfter P n t)

def nfDists (P : Params) (ns : List ℕ) (t : ℕ) : List (List (Dist Mode)) :=
  if partDist P then nfDistsPd P ns t else ns.map fun n => List.replicate n (onePhoton P t)

/-- the tag counter after `_generate_samples_no_filter` -/
def nfTag (P : Params) (ns : List ℕ) (t : ℕ) : ℕ :=
  if partDist P then genTagPd P ns t else nextTag P t
where
  genTagPd (P : Params) : List ℕ → ℕ → ℕ
    | [], t => t
    | n :: ns, t => genTagPd P ns (tagAfter P n t)

/-- the state of one mode from the states drawn for its requested photons:
`photon_count == 0` → `BasicState([0])`; the first drawn state as it is; every further one `.merge`d
(union of the photons; the list representative is the one `ltpMode` produces). -/
def modeOf : List Mode → Mode
  | [] => []
  | [m] => m
  | ms => ms.foldl (fun s e => mergeTags e s) []

/-- ONE sample of `_generate_samples_no_filter`: `draws[mode][photon]` is the index drawn by the
`bsd.sample` call of that requested photon for this sample; the modes are concatenated (`samples[i] *= …`). -/
def nfSample (dss : List (List (Dist Mode))) (draws : List (List ℕ)) : State :=
  List.zipWith (fun ds idx => modeOf (List.zipWith pickKey ds idx)) dss draws

/-- row `i` of the draws: the `i`-th of the `k` indices every `bsd.sample(k)` call returns (sample `i` uses
`states[i]` of every call) -/
def rowOf (calls : List (List ℕ)) (i : ℕ) : List ℕ := calls.map fun c => c.getD i 0

/-- cut the flat list of calls (in the order the code makes them: mode after mode, photon after photon) into the
calls of each mode -/
def cutBy {α : Type} : List ℕ → List α → List (List α)
  | [], _ => []
  | n :: ns, l => l.take n :: cutBy ns (l.drop n)

/-- ALL `k` samples of `_generate_samples_no_filter` from the draws of its `bsd.sample(k)` calls: `calls[c]` are the
`k` indices call `c` draws (one `random.choices(…, k=k)`), sample `i` is built from the `i`-th index of every call -/
def nfSamples (dss : List (List (Dist Mode))) (k : ℕ) (calls : List (List ℕ)) : List State :=
  (List.range k).map fun i => nfSample dss (cutBy (dss.map List.length) (rowOf calls i))

/-- ideal law of the draws of one sample: independent, call by call -/
def nfDrawLaw (dss : List (List (Dist Mode))) : Dist (List (List ℕ)) :=
  prodLaw (dss.map fun ds => prodLaw (ds.map sampleIdxLaw))

/-- the law of one sample of `_generate_samples_no_filter` under ideal draws -/
def nfLaw (P : Params) (ns : List ℕ) (t : ℕ) : Dist State :=
  pushF (nfSample (nfDists P ns t)) (nfDrawLaw (nfDists P ns t))

/-! ### `_events_to_samples` -/

/-- the photons of the "signal alone" events: `dist_list[dist_index]` true → the shared `|{_:0}>`,
false → a new tag (`get_tag(add=True)`).  Arguments: how many, the booleans still unread, the tag
counter; returns the photons, the booleans left, the tag counter. -/
def sigPart : ℕ → List Bool → ℕ → List Mode × List Bool × ℕ
  | 0, bs, c => ([], bs, c)
  | n + 1, bs, c =>
    let b := bs.headD true
    let r := sigPart n bs.tail (if b then c else c + 1)
    ((if b then [some 0] else [some (c + 1)]) :: r.1, r.2.1, r.2.2)

/-- the photons of the "g2 alone" events: a new tag in the "distinguishable" model, `_:0` otherwise -/
def g2Part (dm : Bool) : ℕ → ℕ → List Mode × ℕ
  | 0, c => ([], c)
  | n + 1, c =>
    let r := g2Part dm n (if dm then c + 1 else c)
    ((if dm then [some (c + 1)] else [some 0]) :: r.1, r.2)

/-- the two-photon states of the "signal + g2" events: first photon `_:0` or a new tag according to the
boolean, second photon a new tag ("distinguishable") or `_:0` -/
def duoPart (dm : Bool) : ℕ → List Bool → ℕ → List Mode × List Bool × ℕ
  | 0, bs, c => ([], bs, c)
  | n + 1, bs, c =>
    let b := bs.headD true
    let c1 := if b then c else c + 1
    let first : Tag := if b then some 0 else some (c + 1)
    let c2 := if dm then c1 + 1 else c1
    let second : Tag := if dm then some (c1 + 1) else some 0
    let r := duoPart dm n bs.tail c2
    ([first, second] :: r.1, r.2.1, r.2.2)

/-- the list `photons` of one event before the shuffle: `i` signal-alone, `j` g2-alone, `k` pairs, then
`[empty_bs] * (expected_input.n - len(photons))`; `t` = `first_tag` (the counter is reset to it after
every event).  Returns the list and the booleans left for the next event. -/
def evItems (dm : Bool) (n : ℕ) (e : ℕ × ℕ × ℕ) (bs : List Bool) (t : ℕ) : List Mode × List Bool :=
  let s := sigPart e.1 bs t
  let g := g2Part dm e.2.1 s.2.2
  let d := duoPart dm e.2.2 s.2.1 g.2
  let ph := s.1 ++ g.1 ++ d.1
  (ph ++ List.replicate (n - ph.length) [], d.2.1)

/-- `random.shuffle(photons)` as a function of the permutation it effects -/
def applyPerm (l : List Mode) (perm : List ℕ) : List Mode := perm.map fun p => l.getD p []

/-- union of the photons of the slots of one mode (`single_mode_state.merge(photons[index])`) -/
def mergeAll (ms : List Mode) : Mode := ms.foldl (fun s e => mergeTags s e) []

/-- mode `m` takes the next `ns[m]` entries of the shuffled list -/
def distribute : List ℕ → List Mode → State
  | [], _ => []
  | n :: ns, l => mergeAll (l.take n) :: distribute ns (l.drop n)

/-- ONE sample of `_events_to_samples` from its draws: the event, the booleans it reads, the permutation -/
def fSample (dm : Bool) (ns : List ℕ) (t : ℕ) (e : ℕ × ℕ × ℕ) (bs : List Bool) (perm : List ℕ) : State :=
  distribute ns (applyPerm (evItems dm ns.sum e bs t).1 perm)

/-- all samples: the booleans of ONE `random.choices([True, False], k=Σ(i+k))` call are consumed event
after event; one permutation per event -/
def fSamples (dm : Bool) (ns : List ℕ) (t : ℕ) : List (ℕ × ℕ × ℕ) → List Bool → List (List ℕ) → List State
  | [], _, _ => []
  | e :: es, bs, perms =>
    fSample dm ns t e bs (perms.headD []) :: fSamples dm ns t es (evItems dm ns.sum e bs t).2 perms.tail

/-! ### `generate_samples` -/

/-- what `generate_samples` does with the request, before any draw -/
inductive SampRoute
  | perfect          -- `is_perfect()`: `[expected_input] * max_samples`
  | noFilter         -- `min_detected_photons == 0`
  | aborted          -- `transmission == 0 and min_detected_photons >= 1`: empty `BSSamples`
  | noEvent          -- the filtered table is empty: `random.choices([], …)` raises IndexError
  | events           -- the event table route
deriving DecidableEq, Repr

def sampRoute (P : Params) (n f : ℕ) : SampRoute :=
  if isPerfect P then .perfect
  else if f = 0 then .noFilter
  else if P.beta * P.eta = 0 then .aborted
  else if (table P n f).isEmpty then .noEvent
  else .events

/-- the event drawn by `random.choices(list(prob_table.keys()), weights=prob_table.values())` -/
def eventOf (P : Params) (n f : ℕ) (i : ℕ) : ℕ × ℕ × ℕ := ((table P n f).map Prod.fst).getD i (0, 0, 0)

/-- ideal law of the event index -/
def eventIdxLaw (P : Params) (n f : ℕ) : Dist ℕ := idxLaw ((table P n f).map Prod.snd)

/-- ideal law of one boolean of `_generate_distinguishability` (`weights=[√I, 1 − √I]`, total one):
`True` with probability `√I` -/
def boolLaw (P : Params) : Dist Bool := [(true, P.r), (false, 1 - P.r)]

/-- the law of one sample of the event-table route under ideal draws of the event and of the booleans and
a given law `σ` of the permutation -/
def fLaw (P : Params) (ns : List ℕ) (f t : ℕ) (σ : Dist (List ℕ)) : Dist State :=
  (eventIdxLaw P ns.sum f).flatMap fun ei =>
    let e := eventOf P ns.sum f ei.1
    (prodLaw (List.replicate (e.1 + e.2.2) (boolLaw P))).flatMap fun b =>
      σ.map fun p => (fSample P.dm ns t e b.1 p.1, ei.2 * b.2 * p.2)

end PM.C06
