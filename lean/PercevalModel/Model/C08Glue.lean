/-
  C08 — model of the consumer of the detector kernels in `Simulator.probs_svd`
  (`perceval/simulators/simulator.py`), i.e. what `Processor.probs()` does with heralds when
  detectors are set:

      is_pnr = get_detection_type(detectors) == DetectionType.PNR
      self.init_use_mask(is_pnr)          # can_use_mask = bool(self._heralds) and is_pnr
      res = <backend distribution>        # with the mask: only the states having exactly the
                                          # heralded photon count in every heralded mode
      res, phys = simulate_detectors(res, detectors, min_photons)
      res, logical = post_select_distribution(res, postselect, heralds, keep_heralds)

  `base` is the theoretical (mask-free) output distribution of the backend.  The heralds mask of the
  backend is modelled by `selectHeralds` applied BEFORE the detectors; `post_select_distribution`
  (heralds part) by `selectHeralds` applied AFTER them, on the readings.  The final `normalize()`
  (a positive scale), the removal of the heralded modes (`keep_heralds=False`) and the PostSelect
  expression are applied by the harness on the driver's output.
-/
import PercevalModel.Model.C08

namespace PM.C08

variable {K : Type} [Field K] [LinearOrder K]

/-- `all(state[m] == v for m, v in heralds.items())` -/
def heraldsOk (h : List (ℕ × ℕ)) (s : List ℕ) : Bool :=
  h.all fun e => s[e.1]? == some e.2

/-- the states of a distribution that satisfy the heralds (mask on theoretical states, or
`post_select_distribution` on readings) -/
def selectHeralds (h : List (ℕ × ℕ)) (d : Dist (List ℕ) K) : Dist (List ℕ) K :=
  d.filter fun e => heraldsOk h e.1

/-- `Simulator.init_use_mask(is_pnr)`: `bool(self._heralds) and is_pnr` -/
def useMask (h : List (ℕ × ℕ)) (ds : List (AnyDet K)) : Bool :=
  !h.isEmpty && decide (detectionType ds = .PNR)

/-- tail of `probs_svd` with the mask switched on or off: `(herald-selected result before the final
normalize(), phys_perf of simulate_detectors)` -/
def probsTail (mask : Bool) (minP : K) (base : Dist (List ℕ) K) (ds : List (AnyDet K))
    (minPhotons : Option ℕ) (h : List (ℕ × ℕ)) : Acc K :=
  let a := simulate minP (if mask then selectHeralds h base else base) ds minPhotons
  (selectHeralds h a.1, a.2)

/-- `probs_svd` as coded: the mask is used iff `useMask` -/
def probsTailCoded (minP : K) (base : Dist (List ℕ) K) (ds : List (AnyDet K))
    (minPhotons : Option ℕ) (h : List (ℕ × ℕ)) : Acc K :=
  probsTail (useMask h ds) minP base ds minPhotons h

end PM.C08
