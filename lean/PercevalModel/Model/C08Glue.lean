/-
  C08 — model of the consumer of the detector kernels in `Simulator.probs_svd`
  (`perceval/simulators/simulator.py`), i.e. what `Processor.probs()` does with heralds when
  detectors are set:

      is_pnr = get_detection_type(detectors) == DetectionType.PNR
      self.init_use_mask(is_pnr)          # can_use_mask = bool(self._heralds) and is_pnr
      res = <backend distribution>        # with the mask: only the states having exactly the
                                          # heralded photon count in every heralded mode
      res, phys = simulate_detectors(res, detectors, min_photons)
      res, logical = post_select_distribution(res, postselect, heralds, keep_heralds)

  `base` is the theoretical (mask-free) output distribution of the backend.  The heralds mask of the
  backend is modelled by `selectHeralds` applied BEFORE the detectors; `post_select_distribution`
  (heralds part) by `selectHeralds` applied AFTER them, on the readings.  The final `normalize()`
  (a positive scale), the removal of the heralded modes (`keep_heralds=False`) and the PostSelect
  expression are applied by the harness on the driver's output (op `tail`).

  Second part (op `probs`): the WHOLE tail inside the model — `probsSvd` = `probs_svd` for one Fock input of a
  perfect source, from the theoretical distribution to `{'results', 'physical_perf', 'logical_perf'}`:
  early return on incompatible heralds, `_logical_perf` accumulated by `_probs_svd_fast` (the mass the mask
  keeps), `res.normalize()`, `simulate_detectors`, `post_select_distribution` (`postSelect`: heralds and the
  PostSelect expression read on the READINGS, `result[state] = prob` as an assignment, removal of the
  heralded modes, `logical_perf -= prob`, final `normalize()`).
-/
import PercevalModel.Model.C08
import PercevalModel.Found.SimSpec

namespace PM.C08

variable {K : Type} [Field K] [LinearOrder K]

/-- `all(state[m] == v for m, v in heralds.items())` -/
def heraldsOk (h : List (ℕ × ℕ)) (s : List ℕ) : Bool :=
  h.all fun e => s[e.1]? == some e.2

/-- the states of a distribution that satisfy the heralds (mask on theoretical states, or
`post_select_distribution` on readings) -/
def selectHeralds (h : List (ℕ × ℕ)) (d : Dist (List ℕ) K) : Dist (List ℕ) K :=
  d.filter fun e => heraldsOk h e.1

/-- `Simulator.init_use_mask(is_pnr)`: `bool(self._heralds) and is_pnr` -/
def useMask (h : List (ℕ × ℕ)) (ds : List (AnyDet K)) : Bool :=
  !h.isEmpty && decide (detectionType ds = .PNR)

/-- tail of `probs_svd` with the mask switched on or off: `(herald-selected result before the final
normalize(), phys_perf of simulate_detectors)` -/
def probsTail (mask : Bool) (minP : K) (base : Dist (List ℕ) K) (ds : List (AnyDet K))
    (minPhotons : Option ℕ) (h : List (ℕ × ℕ)) : Acc K :=
  let a := simulate minP (if mask then selectHeralds h base else base) ds minPhotons
  (selectHeralds h a.1, a.2)

/-- `probs_svd` as coded: the mask is used iff `useMask` -/
def probsTailCoded (minP : K) (base : Dist (List ℕ) K) (ds : List (AnyDet K))
    (minPhotons : Option ℕ) (h : List (ℕ × ℕ)) : Acc K :=
  probsTail (useMask h ds) minP base ds minPhotons h

/-! ### `post_select_distribution` and the whole tail -/

open PM.SimSpec (PS)

/-- `postselect.has_condition` (`PS.tt` = `PostSelect()` without condition) -/
def psHasCond : PS → Bool
  | .tt => false
  | _ => true

/-- `state.remove_modes(modes)`: the state without the listed modes (`i` = number of the head mode) -/
def dropFrom (modes : List ℕ) : ℕ → List ℕ → List ℕ
  | _, [] => []
  | i, x :: r => if modes.contains i then dropFrom modes (i + 1) r else x :: dropFrom modes (i + 1) r

/-- the state `post_select_distribution` files an accepted state under -/
def reportState (h : List (ℕ × ℕ)) (keep : Bool) (t : List ℕ) : List ℕ :=
  if keep then t else dropFrom (h.map (·.1)) 0 t

/-- `d[key] = p` on a dict: an existing key is overwritten in place, a new one appended -/
def setKey {σ : Type} [DecidableEq σ] : Dist σ K → σ → K → Dist σ K
  | [], key, p => [(key, p)]
  | (k, v) :: rest, key, p => if k = key then (k, p) :: rest else (k, v) :: setKey rest key p

/-- `heralds_ok and postselect(state)` -/
def accepted (ps : PS) (h : List (ℕ × ℕ)) (t : List ℕ) : Bool := heraldsOk h t && ps.eval t

/-- the loop of `post_select_distribution`: `(result, logical_perf)` before the final `normalize()` -/
def postSelectLoop (ps : PS) (h : List (ℕ × ℕ)) (keep : Bool) (d : Dist (List ℕ) K)
    (a : Dist (List ℕ) K × K) : Dist (List ℕ) K × K :=
  d.foldl (fun a e =>
    if accepted ps h e.1 then (setKey a.1 (reportState h keep e.1) e.2, a.2) else (a.1, a.2 - e.2)) a

/-- `post_select_distribution(bsd, postselect, heralds, keep_heralds)`: `(result, logical_perf)` -/
def postSelect (ps : PS) (h : List (ℕ × ℕ)) (keep : Bool) (d : Dist (List ℕ) K) :
    Dist (List ℕ) K × K :=
  if !(psHasCond ps || !h.isEmpty) then (normalize d, 1)
  else
    let r := postSelectLoop ps h keep d ([], 1)
    (normalize r.1, r.2)

/-- `{'results', 'physical_perf', 'logical_perf'}` -/
structure ProbsOut (K : Type) where
  results : Dist (List ℕ) K
  phys : K
  logical : K

/-- `Simulator.probs_svd(SVDistribution(one Fock state), detectors)` with a perfect source, given the theoretical
(mask-free) distribution `base` of the backend for that input: `_preprocess_svd` yields `physical_perf = 1`;
`_probs_svd_fast` leaves `_logical_perf` = the mass the backend returned (all of it, or what the heralds mask
keeps) and normalises; `if detectors:` (an empty list skips `simulate_detectors`, which is the identity on it
anyway); then `post_select_distribution`. -/
def probsSvd (minP : K) (base : Dist (List ℕ) K) (ds : List (AnyDet K)) (minPhotons : Option ℕ)
    (h : List (ℕ × ℕ)) (ps : PS) (keep : Bool) : Except String (ProbsOut K) :=
  match checkHeralds h ds with
  | .error e => .error e
  | .ok false => .ok ⟨[], 1, 0⟩
  | .ok true =>
    let raw := if useMask h ds then selectHeralds h base else base
    let lp0 := mass raw
    let res := normalize raw
    if res.isEmpty then .ok ⟨res, 1, 0⟩
    else
      let a := simulate minP res ds minPhotons
      let b := postSelect ps h keep a.1
      .ok ⟨b.1, 1 * a.2, lp0 * b.2⟩

end PM.C08
