/-
  C04 — where the heralds come from: a model of the port bookkeeping of `Experiment` behind
  `add_herald` / `add_port` / the `heralds` property / `m` / `circuit_size` / `with_input(BasicState)`,
  written from `perceval/components/experiment.py` AS IT IS (new definitions, nothing of `Model/C04.lean`
  is touched).

  * `_in_ports` / `_out_ports` are insertion-ordered dictionaries port -> list of modes; every operation
    modelled here uses `PortLocation.IN_OUT`, which keeps the two identical: one list `ports`.
  * `add_herald(mode, expected)`: `assert expected == 0 or expected == 1` (AssertionError, nothing done);
    `_add_herald`: `are_modes_free([mode])` else `UnavailableModeException` (nothing done); THEN the port is
    stored in both dictionaries and only after that `self._mode_type[mode] = ModeType.HERALD` raises
    `IndexError` for a mode outside the circuit: the port stays behind while `_n_moi` / `_n_heralds` are not
    touched (quirk kept in the model; modes are natural numbers here — a negative mode indexes
    `_mode_type` from the end in Python and is outside the model).
  * `add_port(m, port)`: the range `[m, m + port.m)` must be free, NO test against the circuit size.
  * `heralds`: `{range[0]: expected}` over the Herald ports of `_out_ports`, in insertion order.
  * `m = _n_moi`, `circuit_size = _n_moi + _n_heralds`; `with_input(BasicState)`: `check_input` asserts
    `len(input) == m`, then interleaves over `range(circuit_size)` with `k in self.heralds`.
-/
import PercevalModel.Model.C04

namespace PM.C04
open PM.Fock PM.Dist PM.SimSpec

inductive DeclOp where
  | herald (mode expected : ℕ)
  | port (mode width : ℕ)
deriving Repr

inductive DeclRes where
  | ok | assertionError | unavailable | indexError
deriving DecidableEq, Repr

/-- the fields of `Experiment` the declaration of heralds reads and writes -/
structure Exp where
  size : ℕ                               -- `len(self._mode_type)`: fixed by `Experiment(m)`
  nMoi : ℕ                               -- `_n_moi`
  nHer : ℕ                               -- `_n_heralds`
  ports : List (Option ℕ × List ℕ)       -- (`some expected` for a Herald | `none`, modes), insertion order

def Exp.init (m : ℕ) : Exp := { size := m, nMoi := m, nHer := 0, ports := [] }

/-- `get_input_port(k) is not None` -/
def occupied (ports : List (Option ℕ × List ℕ)) (k : ℕ) : Bool := ports.any fun p => p.2.contains k

/-- the `heralds` property -/
def Exp.heralds (e : Exp) : List (ℕ × ℕ) :=
  e.ports.filterMap fun p => match p.1, p.2 with
    | some v, k :: _ => some (k, v)
    | _, _ => none

def declStep (e : Exp) : DeclOp → Exp × DeclRes
  | .herald k v =>
    if 2 ≤ v then (e, .assertionError)
    else if occupied e.ports k then (e, .unavailable)
    else
      let e' := { e with ports := e.ports ++ [(some v, [k])] }
      if e.size ≤ k then (e', .indexError)
      else ({ e' with nMoi := e.nMoi - 1, nHer := e.nHer + 1 }, .ok)
  | .port k w =>
    if (List.range' k w).any (occupied e.ports) then (e, .unavailable)
    else ({ e with ports := e.ports ++ [(none, List.range' k w)] }, .ok)

/-- a sequence of calls, every exception caught: final state and the outcomes -/
def declRun (e : Exp) : List DeclOp → Exp × List DeclRes
  | [] => (e, [])
  | op :: rest =>
    let r := declStep e op
    let q := declRun r.1 rest
    (q.1, r.2 :: q.2)

/-- `circuit_size` -/
def Exp.circuitSize (e : Exp) : ℕ := e.nMoi + e.nHer

/-- `with_input(BasicState)`: `none` = `check_input`'s AssertionError -/
def Exp.withInput (e : Exp) (user : Fock) : Option Fock :=
  if user.length ≠ e.nMoi then none else some (interleave e.circuitSize e.heralds user)

end PM.C04
