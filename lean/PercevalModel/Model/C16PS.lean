/-
  C16 (extension 6, part "post-selection as a predicate") — core Lean only.

  Until now a post-selection was a SYMBOL in the model (`Sym`: the identifier of the user's object and the mode
  relabelling the conversion applied).  This file gives the symbol a meaning:

  * `PSel.Expr` — the tree of a `PostSelect` (conditions `[modes] cmp n`, negation, n-ary `& | ^`; the same tree as
    C15's `Model/C15PS.lean`, copied so that this property does not depend on C15's files) and `PSel.eval`, the
    predicate it denotes on an output state (list of photon counts; a mode beyond the state counts 0);
  * `PSel.mapModes f` — every condition's modes sent through `f`, the mode list sorted again (what the native
    `apply_permutation` / `shift_modes` do to the conditions);
  * `PSel.applyPermFn pv first` / `PSel.shiftFn k` — the two mode maps `Experiment._compose_experiment` uses:
    `other_postselect.apply_permutation(perm_inv.perm_vector)` sends a mode `m` of `[first, first+len)` to
    `first + pv[m - first]`, `other_postselect.shift_modes(c_first)` adds `c_first`;
  * `invVec σ` — `PERM.inverse()` on the permutation vector;
  * `convertPost p x` — what `RemoteProcessor.from_local_processor(p)` leaves in `rp.post_select_fn` for a local
    processor whose post-selection is `x`: `rp.add(0, p)` resolves the mode mapping `relabelOf p` (remote mode `j`
    carries local mode `relabelOf p [j]`); when it is not the identity a `PERM(relabelOf p)` is generated and the
    conditions are permuted by its INVERSE vector; they are then shifted by the first mode of the PERM's range (0);
    the result is merged into an empty `PostSelect()`;
  * `Sym.denote env` — the predicate a post-selection symbol of the session machine stands for, given what the
    user's objects denote (`env id`): that is how the `perm` field of a `Sym` is read from now on.
-/
import PercevalModel.Model.C16

namespace PM.C16
namespace PSel

inductive Cmp | eq | ne | lt | le | gt | ge
  deriving DecidableEq, Repr, Inhabited

inductive BOp | and | or | xor
  deriving DecidableEq, Repr, Inhabited

mutual
  inductive Expr
    | cond (modes : List Nat) (c : Cmp) (n : Nat)
    | not (x : Expr)
    | nary (op : BOp) (args : Args)
    deriving DecidableEq, Repr
  inductive Args
    | nil
    | cons (x : Expr) (rest : Args)
    deriving DecidableEq, Repr
end

def Args.toList : Args → List Expr
  | .nil => []
  | .cons x r => x :: r.toList

def Args.ofList : List Expr → Args
  | [] => .nil
  | x :: r => .cons x (Args.ofList r)

/-! ### semantics -/

def Cmp.test : Cmp → Nat → Nat → Bool
  | .eq, a, b => a == b
  | .ne, a, b => a != b
  | .lt, a, b => decide (a < b)
  | .le, a, b => decide (a ≤ b)
  | .gt, a, b => decide (b < a)
  | .ge, a, b => decide (b ≤ a)

/-- photons counted in the listed modes (a mode beyond the state counts 0, as the native does) -/
def sumModes (st : List Nat) : List Nat → Nat
  | [] => 0
  | m :: ms => st.getD m 0 + sumModes st ms

def parity : List Bool → Bool
  | [] => false
  | b :: r => b != parity r

/-- `&` = all, `|` = any, `^` = odd number of true operands -/
def BOp.fold : BOp → List Bool → Bool
  | .and, l => l.all id
  | .or, l => l.any id
  | .xor, l => parity l

mutual
  /-- `ps(state)` -/
  def eval : Expr → List Nat → Bool
    | .cond ms c n, st => c.test (sumModes st ms) n
    | .not x, st => !(eval x st)
    | .nary o as, st => o.fold (evalArgs as st)
  def evalArgs : Args → List Nat → List Bool
    | .nil, _ => []
    | .cons x r, st => eval x st :: evalArgs r st
end

/-- the empty `PostSelect()` accepts every state -/
def evalTop : Option Expr → List Nat → Bool
  | none, _ => true
  | some x, st => eval x st

mutual
  /-- every mode a condition of the tree reads -/
  def Expr.modes : Expr → List Nat
    | .cond ms _ _ => ms
    | .not x => x.modes
    | .nary _ as => as.modes
  def Args.modes : Args → List Nat
    | .nil => []
    | .cons x r => x.modes ++ r.modes
end

mutual
  /-- the mode sets of the conditions, in the order of the printed form -/
  def Expr.conds : Expr → List (List Nat)
    | .cond ms _ _ => [ms]
    | .not x => x.conds
    | .nary _ as => as.conds
  def Args.conds : Args → List (List Nat)
    | .nil => []
    | .cons x r => x.conds ++ r.conds
end

/-! ### relabelling the modes of the conditions -/

def ins (a : Nat) : List Nat → List Nat
  | [] => [a]
  | b :: t => if a ≤ b then a :: b :: t else b :: ins a t

/-- the native keeps every mode list sorted -/
def sortNat : List Nat → List Nat
  | [] => []
  | a :: t => ins a (sortNat t)

mutual
  def mapModes (f : Nat → Nat) : Expr → Expr
    | .cond ms c n => .cond (sortNat (ms.map f)) c n
    | .not x => .not (mapModes f x)
    | .nary o as => .nary o (mapModesArgs f as)
  def mapModesArgs (f : Nat → Nat) : Args → Args
    | .nil => .nil
    | .cons x r => .cons (mapModes f x) (mapModesArgs f r)
end

/-- `apply_permutation(pv, first)` on one mode -/
def applyPermFn (pv : List Nat) (first : Nat) (m : Nat) : Nat :=
  if first ≤ m ∧ m < first + pv.length then first + pv.getD (m - first) 0 else m

/-- `shift_modes(k)` on one mode (`k ≥ 0`) -/
def shiftFn (k : Nat) (m : Nat) : Nat := m + k

/-- `PERM.inverse()`: `inv[σ[j]] = j` -/
def invVec (σ : List Nat) : List Nat := (List.range σ.length).map (fun o => σ.idxOf o)

/-- the post-selection of the added experiment as `_compose_experiment` merges it: permuted by the inverse of the
generated PERM (when one was generated), then shifted by the first mode of the PERM's range -/
def composePost (permVec : Option (List Nat)) (first : Nat) (x : Expr) : Expr :=
  let y := match permVec with
    | some pv => mapModes (applyPermFn (invVec pv) 0) x
    | none => x
  mapModes (shiftFn first) y

/-- `rp.post_select_fn` after `RemoteProcessor.from_local_processor(p)` (`none` = a `PostSelect()` without condition) -/
def convertPost (p : Exp) (x : Option Expr) : Option Expr :=
  x.map (composePost (if isIdentity (relabelOf p) then none else some (relabelOf p)) 0)

/-- the output state of the converted processor that corresponds to the local output state `s`: remote mode `j`
carries the local mode `σ[j]` -/
def relabelState (σ : List Nat) (s : List Nat) : List Nat := σ.map (fun o => s.getD o 0)

end PSel

/-- what a post-selection symbol of the session machine denotes, `env id` being the tree of the user's object `id`:
`perm = []` is the user's own object, otherwise its conditions read mode `j` where the user's read `perm[j]` -/
def Sym.denote (env : Nat → Option PSel.Expr) (y : Sym) : Option PSel.Expr :=
  if y.perm = [] then env y.id
  else (env y.id).map (PSel.mapModes (PSel.applyPermFn (PSel.invVec y.perm) 0))

end PM.C16
