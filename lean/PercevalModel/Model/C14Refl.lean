/-
  C14 (extension 3) — the reflectivity helpers of the beam splitter
  (`perceval/components/unitary_components.py`: `BS.r_to_theta`, `BS.theta_to_r`, `BS.reflectivity`) as the code is.

  ```
  def r_to_theta(r):      if isinstance(r, Parameter): return Expression(f"2*acos(sqrt({r.name}))", r._params)
                          return 2*math.acos(math.sqrt(r))
  def theta_to_r(theta):  if isinstance(theta, Parameter) and not theta.defined:
                              return Expression(f"cos({theta.name}/2)**2", theta._params)
                          return math.cos(float(theta)/2)**2
  reflectivity = property(lambda self: self.theta_to_r(self._theta))
  ```

  Quirks that are modelled because the code has them:
  * `r_to_theta` of ANY Parameter object (with or without a value) is an Expression over its tree — it follows later
    changes of the parameter; `theta_to_r` is an Expression only for an object that is not `defined` (a raw
    parameter: `_value is None`; an Expression: one of its sub-parameters has no value): for a defined object it is
    a NUMBER computed once from `float(theta)` (a snapshot that does not follow a later `set_value`; the property
    `reflectivity` recomputes it at every access);
  * the numeric forms go through `math.sqrt` / `math.acos` (a value outside `[0, 1]` raises `ValueError`); the
    Expression forms through sympy (`float()` raises `TypeError`): in the model both are "not a real number".

  The functions are not interpreted (`Interp K`, as in `Model/C14Expr.lean`).
-/
import PercevalModel.Model.C14Expr

namespace PM.C14

/-- the argument of `BS.r_to_theta` / `BS.theta_to_r`: a number, or a Parameter object seen through the tree of its
name (`var name` for a raw parameter, the expression tree for an `Expression`) and what `float()` reads when the
object is `defined` (`none`: not defined).  A defined Expression whose `float()` raises (not a real number) lets the
exception through; that case is not represented. -/
inductive ReflArg (K : Type*)
  | num (v : K)
  | par (tree : XExpr) (val : Option K)

/-- the result: a number (`none`: the `math` function raised) or a new `Expression` object holding a tree -/
inductive ReflOut (K : Type*)
  | num (v : Option K)
  | expr (e : XExpr)

/-- the text `cos({name}/2)**2` -/
def thetaToRTree (t : XExpr) : XExpr := .powi (.app .cos (.div t (.const 2))) 2

/-- the text `2*acos(sqrt({name}))` -/
def rToThetaTree (r : XExpr) : XExpr := .mul (.const 2) (.app .acos (.app .sqrt r))

section
variable {K : Type*} [Field K]

/-- `math.cos(float(theta)/2)**2` -/
def thetaToRNum (I : Interp K) (v : K) : Option K := (I.fn .cos (v / 2)).map fun c => c ^ 2

/-- `2*math.acos(math.sqrt(r))` -/
def rToThetaNum (I : Interp K) (r : K) : Option K := do
  let s ← I.fn .sqrt r
  let a ← I.fn .acos s
  pure (2 * a)

/-- `BS.theta_to_r` -/
def thetaToR (I : Interp K) : ReflArg K → ReflOut K
  | .num v => .num (thetaToRNum I v)
  | .par t none => .expr (thetaToRTree t)
  | .par _ (some v) => .num (thetaToRNum I v)

/-- `BS.r_to_theta` -/
def rToTheta (I : Interp K) : ReflArg K → ReflOut K
  | .num r => .num (rToThetaNum I r)
  | .par t _ => .expr (rToThetaTree t)

end

/-- the exact reflectivity seen through `(cos, sin)` of the half angle: `cos(θ/2)²` -/
def reflOfAng {R : Type*} [Mul R] (h : Ang R) : R := h.c * h.c

end PM.C14
