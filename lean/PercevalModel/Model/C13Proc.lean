/-
  C13 — the input bookkeeping of a `Processor` that is given a polarised input.

  * `experiment.py: Experiment.with_input(BasicState)`, `with_polarized_input`, `noise` (setter),
    `min_detected_photons_filter`, `clear_input_and_circuit`
  * `processor.py: Processor._has_custom_input`, `_noise_changed_observer`, `_input_changed_observer`,
    `_generate_noisy_input`, `source_distribution`, `clear_input_and_circuit`, `probs` (what is handed to
    `probs_svd` and the value handed to `set_min_detected_photons_filter`)
  * `abstract_processor.py: AProcessor.check_min_detected_photons_filter`
                                                                     → `Proc`, `POp`, `procStep`

  The object caches the input distribution (`_inputs_map`).  For an ordinary input it is the photon
  source's distribution (a function of the noise model in force) and must be dropped when the noise
  changes; for a polarised input it is `SVDistribution(bs)` — the source is by-passed — and must NOT be
  dropped (re-generating it would send the polarised state through the source).  The ingredients are
  abstract (`PEnv`): ordinary inputs `S`, polarised inputs `I`, noise models `Z`, distributions `D`.

  Not described: `with_input(SVDistribution / StateVector / LogicalState)`, remote processors.
-/
import PercevalModel.Found.SM

namespace PM.C13

/-- `Experiment._input_state` -/
inductive PIn (S I : Type) where
  /-- the `BasicState` built by `with_input` (heralded modes filled in) -/
  | plain (s : S)
  /-- the state given to `with_polarized_input`, as it is -/
  | pol (i : I)

structure Proc (S I Z D : Type) where
  /-- `experiment._input_state` -/
  input : Option (PIn S I)
  /-- `Processor._inputs_map` -/
  cache : Option D
  /-- `experiment._noise` (and `_source = Source.from_noise_model(noise)`) -/
  noise : Z
  /-- `experiment._min_detected_photons_filter` -/
  minDet : Option Int

structure PEnv (S I Z D : Type) where
  /-- `Source.from_noise_model(z).generate_distribution(bs)` -/
  gen : Z → S → D
  /-- the same call on a polarised state (what `_generate_noisy_input` would do with it) -/
  genPol : Z → I → D
  /-- `SVDistribution(bs)` -/
  single : I → D
  /-- `Source.is_perfect()` -/
  perfect : Z → Bool
  nS : S → Nat
  nI : I → Nat
  /-- `sum(self.heralds.values())` -/
  hsum : Nat

inductive POp (S I Z : Type) where
  | withInput (s : S)
  | withPol (i : I)
  | setNoise (z : Z)
  | setMin (v : Int)
  /-- `clear_input_and_circuit()` (the harness puts the circuit back afterwards) -/
  | clear
  /-- `probs()`: → the distribution handed to `probs_svd` and the photon filter given to the simulator -/
  | query

variable {S I Z D : Type}

def PIn.n (env : PEnv S I Z D) : PIn S I → Nat
  | .plain s => env.nS s
  | .pol i => env.nI i

/-- `_has_custom_input` (`SVDistribution` inputs are not described) -/
def isCustom : Option (PIn S I) → Bool
  | some (.pol _) => true
  | _ => false

/-- `_generate_noisy_input`: `self._source.generate_distribution(self.input_state)`, whatever the input -/
def regenerate (env : PEnv S I Z D) (z : Z) : PIn S I → D
  | .plain s => env.gen z s
  | .pol i => env.genPol z i

/-- `check_min_detected_photons_filter`: the value in force, set automatically (and *kept*) for a
perfect source and a `BasicState` input -/
def checkMin (env : PEnv S I Z D) (minDet : Option Int) (input : Option (PIn S I)) (z : Z) :
    Except String Int :=
  match minDet with
  | some v => .ok v
  | none =>
    match input with
    | some inp => if env.perfect z then .ok ((inp.n env : Int) - env.hsum) else .error "ValueError"
    | none => .error "ValueError"

/-- `source_distribution`: `if self._inputs_map is None and self.input_state is not None:
self._generate_noisy_input()`, then `self._inputs_map` -/
def served (env : PEnv S I Z D) (st : Proc S I Z D) : Option D :=
  match st.cache, st.input with
  | none, some inp => some (regenerate env st.noise inp)
  | c, _ => c

def procStep (env : PEnv S I Z D) (st : Proc S I Z D) :
    POp S I Z → Proc S I Z D × Except String (Option (Option D × Int))
  | .withInput s =>
    -- `_input_changed_observer`: not polarised → `_generate_noisy_input()`
    ({ st with input := some (.plain s), cache := some (env.gen st.noise s) }, .ok none)
  | .withPol i =>
    ({ st with input := some (.pol i), cache := some (env.single i) }, .ok none)
  | .setNoise z =>
    -- `_noise_changed_observer`: `if not self._has_custom_input: self._inputs_map = None`
    ({ st with noise := z, cache := if isCustom st.input then st.cache else none }, .ok none)
  | .setMin v => ({ st with minDet := some v }, .ok none)
  | .clear => ({ st with input := none, cache := none }, .ok none)
  | .query =>
    match checkMin env st.minDet st.input st.noise with
    | .error e => (st, .error e)
    | .ok v =>
      -- `source_distribution` (fills the cache), then `probs_svd`
      ({ st with minDet := some v, cache := served env st }, .ok (some (served env st, v)))

/-- what the input *means*: the source's distribution for the noise in force, or the polarised state
itself -/
def distOf (env : PEnv S I Z D) (z : Z) : PIn S I → D
  | .plain s => env.gen z s
  | .pol i => env.single i

/-- the specification: no cache -/
structure PSpec (S I Z : Type) where
  input : Option (PIn S I)
  noise : Z
  minDet : Option Int

def pspecStep (env : PEnv S I Z D) (st : PSpec S I Z) :
    POp S I Z → PSpec S I Z × Except String (Option (Option D × Int))
  | .withInput s => ({ st with input := some (.plain s) }, .ok none)
  | .withPol i => ({ st with input := some (.pol i) }, .ok none)
  | .setNoise z => ({ st with noise := z }, .ok none)
  | .setMin v => ({ st with minDet := some v }, .ok none)
  | .clear => ({ st with input := none }, .ok none)
  | .query =>
    match checkMin env st.minDet st.input st.noise with
    | .error e => (st, .error e)
    | .ok v => ({ st with minDet := some v }, .ok (some (st.input.map (distOf env st.noise), v)))

/-- A *different* design, for contrast (not the code): the noise observer drops the cache whatever the
input ("the source changed, recompute").  `Props/C13.lean: eager_design_sends_polarised_through_source`
shows it hands `genPol` to the simulator. -/
def eagerStep (env : PEnv S I Z D) (st : Proc S I Z D) :
    POp S I Z → Proc S I Z D × Except String (Option (Option D × Int))
  | .setNoise z => ({ st with noise := z, cache := none }, .ok none)
  | op => procStep env st op

/-- requests after which the input handed to the simulator must be unchanged -/
def POp.keepsInput : POp S I Z → Bool
  | .setNoise _ => true
  | .setMin _ => true
  | .query => true
  | _ => false

end PM.C13
