/-
  C14 — model of the elementary components of `perceval/components/unitary_components.py`
  (`BS._compute_unitary` + `_matrix_template` for the three conventions, `PS`, `WP`, `PR`, `PERM`),
  of `Parameter._check_value` (periodic wrapping into declared bounds, `perceval/utils/parameter.py`)
  and of `Expression` evaluation from live sub-parameters.

  Numeric definitions are polymorphic over a commutative ring `R` with a distinguished element `I`
  (theorems assume `I * I = -1`, `star I = -I`); they run at `R := GQ` and are instantiated at `ℂ`
  in `Lemmas/C14.lean`.  An angle never appears as such: a component sees an angle `x` only through
  `(cos x, sin x)` (numeric branch, `math.cos/math.sin`) or through the unit phase `e^{ix}`
  (symbolic branch, `sp.exp`), which is what the model takes as input.
-/
import PercevalModel.Found.LinAlg
import Mathlib.LinearAlgebra.Matrix.Notation
import Mathlib.Algebra.Order.Floor.Ring
import Mathlib.Data.Rat.Floor

open Matrix

namespace PM.C14

variable {R : Type*}

/-! ### beam splitter -/

/-- `BSConvention` -/
inductive Conv | Rx | Ry | H
deriving DecidableEq, Repr

/-- `BS._matrix_template` -/
def template [Ring R] (I : R) : Conv → Matrix (Fin 2) (Fin 2) R
  | .Rx => !![1, I; I, 1]
  | .Ry => !![1, -1; 1, 1]
  | .H => !![1, 1; 1, -1]

/-- `BS._compute_unitary(use_symbolic=True)`: `c = cos(θ/2)`, `s = sin(θ/2)`, `p_x = e^{i φ_x}`;
`exp((φ_a + φ_b) i)` is the product `p_a * p_b`.  Entry by entry:
`umat[0,0] *= u00_mul*cos`, `umat[0,1] *= u01_mul*sin`, `umat[1,1] *= u11_mul*cos`, `umat[1,0] *= u10_mul*sin`. -/
def bs [CommRing R] (I : R) (conv : Conv) (c s ptl pbl ptr pbr : R) : Matrix (Fin 2) (Fin 2) R :=
  !![template I conv 0 0 * (ptl * ptr * c), template I conv 0 1 * (ptr * pbl * s);
     template I conv 1 0 * (ptl * pbr * s), template I conv 1 1 * (pbr * pbl * c)]

/-- an angle as seen by the numeric branch: `(math.cos x, math.sin x)` -/
structure Ang (R : Type*) where
  c : R
  s : R

/-- `float(a) + float(b)` seen through `cos`/`sin` (angle addition) -/
def Ang.add [Ring R] (a b : Ang R) : Ang R := ⟨a.c * b.c - a.s * b.s, a.s * b.c + a.c * b.s⟩

/-- `math.cos(x) + 1j*math.sin(x)` -/
def Ang.cis [Ring R] (I : R) (a : Ang R) : R := a.c + I * a.s

/-- `BS._compute_unitary(use_symbolic=False)`: `h = θ/2`; `u00_mul = cos(φtl+φtr) + 1j*sin(φtl+φtr)`,
`u01_mul` of `φtr+φbl`, `u10_mul` of `φtl+φbr`, `u11_mul` of `φbl+φbr`. -/
def bsNum [CommRing R] (I : R) (conv : Conv) (h tl bl tr br : Ang R) : Matrix (Fin 2) (Fin 2) R :=
  !![template I conv 0 0 * ((tl.add tr).cis I * h.c), template I conv 0 1 * ((tr.add bl).cis I * h.s);
     template I conv 1 0 * ((tl.add br).cis I * h.s), template I conv 1 1 * ((bl.add br).cis I * h.c)]

/-- the phase-free beam splitter of a convention (documentation table) -/
def bsCore [CommRing R] (I : R) (conv : Conv) (c s : R) : Matrix (Fin 2) (Fin 2) R :=
  !![template I conv 0 0 * c, template I conv 0 1 * s;
     template I conv 1 0 * s, template I conv 1 1 * c]

/-- a phase on each of two modes -/
def diag2 [Zero R] (p q : R) : Matrix (Fin 2) (Fin 2) R := !![p, 0; 0, q]

/-! ### phase shifter, wave plate, polarisation rotator -/

/-- `PS._compute_unitary` with `max_error = 0`: `[[e^{iφ}]]` -/
def ps (p : R) : Matrix (Fin 1) (Fin 1) R := !![p]

/-- numeric branch: `cos(phase) + 1j*sin(phase)` -/
def psNum [Ring R] (I : R) (a : Ang R) : Matrix (Fin 1) (Fin 1) R := !![a.cis I]

/-- `WP._compute_unitary`: `d = δ`, `x = ξ`; `cos(2ξ)`, `sin(2ξ)` through angle doubling. -/
def wp [CommRing R] (I : R) (d x : Ang R) : Matrix (Fin 2) (Fin 2) R :=
  !![d.c + I * d.s * (x.add x).c, I * d.s * (x.add x).s;
     I * d.s * (x.add x).s, d.c - I * d.s * (x.add x).c]

/-- `PR._compute_unitary` -/
def pr [Neg R] (d : Ang R) : Matrix (Fin 2) (Fin 2) R := !![d.c, d.s; -d.s, d.c]

/-! ### PERM -/

/-- `PERM.__init__`: `for i, v in enumerate(perm): u[v, i] = 1` -/
def permMat [Zero R] [One R] {n : ℕ} (σ : Fin n → Fin n) : Matrix (Fin n) (Fin n) R :=
  fun r c => if σ c = r then 1 else 0

/-- `np.nonzero(u)`: the (row, column) pairs of the non-zero entries in row-major order -/
def nonzero [Zero R] [DecidableEq R] {n : ℕ} (M : Matrix (Fin n) (Fin n) R) : List (Fin n × Fin n) :=
  (List.finRange n).flatMap fun r => ((List.finRange n).filter fun c => M r c ≠ 0).map fun c => (r, c)

/-- `PERM.perm_vector`: `m_list = nz[1]; [m_list.index(i) for i in nz[0]]` -/
def permVector [Zero R] [DecidableEq R] {n : ℕ} (M : Matrix (Fin n) (Fin n) R) : List ℕ :=
  let nz := nonzero M
  let mList := nz.map fun p => p.2
  nz.map fun p => mList.idxOf p.1

/-- the assertion of `PERM.__init__` on a list of integers:
`min(perm) == 0 and max(perm)+1 == len(perm) == len(set(perm))` (an empty list is rejected by `min`). -/
def permOk (l : List ℤ) : Bool :=
  match l.min?, l.max? with
  | some mn, some mx => mn == 0 && mx + 1 == (l.length : ℤ) && l.dedup.length == l.length
  | _, _ => false

/-- the list as a map on `Fin n` (out-of-range entries, excluded by `permOk`, are sent to the index itself) -/
def permFun (l : List ℤ) : Fin l.length → Fin l.length := fun i =>
  let v := (l[i.val]'i.isLt).toNat
  if h : v < l.length then ⟨v, h⟩ else i

/-! ### `Parameter._check_value` -/

section wrap
variable {K : Type*} [Field K] [LinearOrder K] [FloorRing K]

/-- Python `int(x)` on a float: truncation toward zero -/
def trunc (x : K) : ℤ := if 0 ≤ x then ⌊x⌋ else ⌈x⌉

/-- the wrapped value before the bound test; every arithmetic operation of the code is followed by
the rounding `rnd` (`rnd = id`: exact arithmetic; `rnd = fl64`: IEEE double, round to nearest even).
`clamp = true` is the repaired code (`fixes/C14-wrap.diff`): the wrapped value is brought back
onto the interval when rounding pushed it past a bound. -/
def wrapCore (rnd : K → K) (clamp : Bool) (lo hi v : K) : K :=
  let span := rnd (hi - lo)
  let w :=
    if v > hi then
      let p := trunc (rnd (rnd (v - hi) / span))
      rnd (v - rnd (((p + 1 : ℤ) : K) * span))
    else if v < lo then
      let p := trunc (rnd (rnd (lo - v) / span))
      rnd (v + rnd (((p + 1 : ℤ) : K) * span))
    else v
  if clamp then min (max w lo) hi else w

/-- `Parameter._check_value(v, min_v, max_v, periodic)`; `none` is `raise ValueError`. -/
def checkValue (rnd : K → K) (clamp : Bool) (periodic : Bool) (lo hi : Option K) (v : K) : Option K :=
  let w := match periodic, lo, hi with
    | true, some l, some h => wrapCore rnd clamp l h v
    | _, _, _ => v
  if (lo.any fun l => decide (w < l)) || (hi.any fun h => decide (w > h)) then none else some w

/-- the code as it is on the pinned tree, with rounding `rnd` -/
abbrev wrapCurrent (rnd : K → K) := checkValue rnd false
/-- the repaired code, with rounding `rnd` -/
abbrev wrapFixed (rnd : K → K) := checkValue rnd true
/-- exact arithmetic (the repair does not change it, `wrapFixed_id_eq_wrapCurrent_id`) -/
abbrev wrap : Bool → Option K → Option K → K → Option K := checkValue id true

end wrap

/-! ### IEEE-754 binary64 rounding on ℚ (normal range, round to nearest, ties to even) -/

def pow2 (e : ℤ) : ℚ := if 0 ≤ e then ((2 ^ e.toNat : ℕ) : ℚ) else 1 / ((2 ^ (-e).toNat : ℕ) : ℚ)

def roundHalfEven (m : ℚ) : ℤ :=
  let f := ⌊m⌋
  let r := m - f
  if r < 1 / 2 then f else if 1 / 2 < r then f + 1 else if f % 2 = 0 then f else f + 1

/-- nearest double of a rational (no overflow / subnormal handling: |q| is assumed in the normal range) -/
def fl64 (q : ℚ) : ℚ :=
  if q = 0 then 0 else
    let a := |q|
    let e0 : ℤ := (a.num.natAbs.log2 : ℤ) - (a.den.log2 : ℤ)
    let e := if pow2 e0 ≤ a then (if pow2 (e0 + 1) ≤ a then e0 + 1 else e0) else e0 - 1
    let sc := pow2 (52 - e)
    let r := (roundHalfEven (a * sc) : ℚ) / sc
    if q < 0 then -r else r

/-! ### `Expression`: arithmetic of parameters, evaluated from the live values -/

inductive Expr
  | var (x : String)
  | const (q : ℚ)
  | add (a b : Expr)
  | sub (a b : Expr)
  | mul (a b : Expr)
  | div (a b : Expr)
  | pow (a : Expr) (n : ℕ)
  | neg (a : Expr)
deriving Repr

/-- `Expression.__float__`: substitute the current value of every sub-parameter; `none` when a
sub-parameter has no value (`ValueError`) or the value is not a finite number (division by zero). -/
def Expr.eval (env : String → Option ℚ) : Expr → Option ℚ
  | .var x => env x
  | .const q => some q
  | .add a b => do let x ← a.eval env; let y ← b.eval env; pure (x + y)
  | .sub a b => do let x ← a.eval env; let y ← b.eval env; pure (x - y)
  | .mul a b => do let x ← a.eval env; let y ← b.eval env; pure (x * y)
  | .div a b => do
      let x ← a.eval env
      let y ← b.eval env
      if y = 0 then none else pure (x / y)
  | .pow a n => do let x ← a.eval env; pure (x ^ n)
  | .neg a => do let x ← a.eval env; pure (-x)

def Expr.vars : Expr → List String
  | .var x => [x]
  | .const _ => []
  | .add a b | .sub a b | .mul a b | .div a b => a.vars ++ b.vars
  | .pow a _ | .neg a => a.vars

/-- a named parameter: bounds narrowed by the slots it is plugged in, periodic flag, current value -/
structure PInfo where
  lo : Option ℚ
  hi : Option ℚ
  periodic : Bool
  val : Option ℚ
deriving Repr

/-- the named parameters alive in a session -/
abbrev Store := String → Option PInfo

/-- current values, as `Expression.__float__` reads them (`param._value`) -/
def Store.env (st : Store) : String → Option ℚ := fun x => (st x).bind (·.val)

/-- what `Parameter.set_value(v)` stores in the parameter named `x` (exact arithmetic);
`none`: unknown name or `ValueError` -/
def Store.accepts (st : Store) (x : String) (v : ℚ) : Option ℚ :=
  (st x).bind fun info => wrap info.periodic info.lo info.hi v

/-- `Parameter.set_value(v)` on the parameter named `x`; a rejected call leaves the store untouched. -/
def Store.set (st : Store) (x : String) (v : ℚ) : Store :=
  match st x with
  | none => st
  | some info =>
    match wrap info.periodic info.lo info.hi v with
    | none => st
    | some w => Function.update st x (some { info with val := some w })

/-- a history of `set_value` calls -/
def Store.run (st : Store) : List (String × ℚ) → Store
  | [] => st
  | (x, v) :: rest => Store.run (st.set x v) rest

/-- specification of the live value of `y`: the last accepted `set_value` on `y` itself -/
def Store.step (st : Store) (y : String) (acc : Option ℚ) (op : String × ℚ) : Option ℚ :=
  if op.1 = y then (match st.accepts op.1 op.2 with | some w => some w | none => acc) else acc

/-- `float(component.param(slot))` for a slot bound to the expression `e` -/
def slotValue (e : Expr) (st : Store) : Option ℚ := e.eval st.env

end PM.C14
