/-
  C01 (extension) — the per-circuit parameter registry, undefined parameters, `copy(subs=…)`.

  Code modelled (as it is):
  * `AParametrizedComponent._set_parameter`: the `_vars` table of an elementary component
    (two different `Parameter` objects with one name in one component: `RuntimeError`);
  * the "merge the parameters" loop of `Circuit.add`: every non-fixed parameter of the added component
    (for a sub-circuit: its own registry) is entered into `self._params` under its name; a different
    object already registered under that name raises `RuntimeError` *in the middle of the loop*: what
    was entered before stays, the component is not appended;
  * `vars`, `params`, `get_parameters()`, `defined`, `assign(...)`, `compute_unitary(assign=…)`:
    all of them read the registry (not the leaves);
  * `ACircuit.compute_unitary` of a leaf asserts that its parameters are defined;
  * `Circuit.copy(subs)`: every component is copied recursively, every parameter slot gets a *new*
    `Parameter` (fixed at the current value when defined, fixed at the substituted value when the
    symbol is a key of `subs`, a fresh variable of the same name otherwise), registries are rebuilt by
    `add` (so two slots left variable under one name raise `RuntimeError`).

  A `Parameter` object is a `Var` (its `pid` and its name); parameter values live in a store
  `PEnv V = pid → Option V` (`none`: `_value is None`).  The matrices are the ones of the pool model
  (`World (PEnv V) S`: leaf entries are functions of the store); this file adds, next to it, the
  registries, the variable slots of the leaves and the `Parameter` allocation counter.
-/
import PercevalModel.Model.C01

open Matrix

namespace PM.C01

/-- a (variable) `Parameter` object -/
structure Var where
  pid : ℕ
  name : ℕ
deriving DecidableEq, Repr

/-- `Parameter._value` of every `Parameter` object -/
abbrev PEnv (V : Type) := ℕ → Option V

def PEnv.upd {V : Type} (e : PEnv V) (p : ℕ) (x : Option V) : PEnv V :=
  fun q => if q = p then x else e q

/-! ### the registry (`_params` of a `Circuit`, `_vars` of an elementary component) -/

/-- `self._params.get(name)` (an insertion-ordered dict as an association list) -/
def regLookup (reg : List Var) (n : ℕ) : Option Var := reg.find? (fun w => w.name == n)

/-- one pass of the loop body: `(new registry, no RuntimeError)` -/
def regOne (reg : List Var) (v : Var) : List Var × Bool :=
  match regLookup reg v.name with
  | some w => (reg, w.pid == v.pid)
  | none => (reg ++ [v], true)

/-- the loop: stops at the first conflict, keeping what was entered before -/
def regMany : List Var → List Var → List Var × Bool
  | reg, [] => (reg, true)
  | reg, v :: vs => if (regOne reg v).2 then regMany (regOne reg v).1 vs else ((regOne reg v).1, false)

/-- the constructor of an elementary component accepts its parameter slots (`_set_parameter`) -/
def leafOk (slots : List Var) : Bool := (regMany [] slots).2

/-! ### where the variables are: by-value components and references -/

inductive PItem where
  /-- an elementary component (its non-fixed parameter slots, in slot order) or a sub-tree held by value -/
  | vars (vs : List Var)
  /-- a sub-circuit held by reference -/
  | ref (j : ℕ)
deriving DecidableEq

/-- `v` drives a slot of a leaf reachable from pool entry `i` -/
inductive Occ (pit : ℕ → List PItem) : ℕ → Var → Prop where
  | here {i : ℕ} {vs : List Var} {v : Var} : PItem.vars vs ∈ pit i → v ∈ vs → Occ pit i v
  | there {i j : ℕ} {v : Var} : PItem.ref j ∈ pit i → Occ pit j v → Occ pit i v

def occItems (rec : ℕ → List Var) : List PItem → List Var
  | [] => []
  | .vars vs :: r => vs ++ occItems rec r
  | .ref j :: r => rec j ++ occItems rec r

/-- the variable slots met by the recursive iteration of pool entry `j`, in order, with repetition -/
def occAt (pit : ℕ → List PItem) : ℕ → ℕ → List Var
  | 0, _ => []
  | f + 1, j => occItems (occAt pit f) (pit j)

/-! ### `Circuit.copy(subs)`: which registry the nested `add` calls build, or `RuntimeError`

Every slot left variable gets a new `Parameter` (new `pid`): two of them never are the same object, so
the conflict test of `add` is "this name is already registered". -/

def addNames : List ℕ → List ℕ → Option (List ℕ)
  | reg, [] => some reg
  | reg, n :: ns => if n ∈ reg then none else addNames (reg ++ [n]) ns

def keptNames (keep : Var → Bool) (vs : List Var) : List ℕ := (vs.filter keep).map (·.name)

def copyItemsNames (keep : Var → Bool) (rec : ℕ → Option (List ℕ)) :
    List ℕ → List PItem → Option (List ℕ)
  | reg, [] => some reg
  | reg, .vars vs :: r =>
      match addNames reg (keptNames keep vs) with
      | some reg' => copyItemsNames keep rec reg' r
      | none => none
  | reg, .ref j :: r =>
      match rec j with
      | some sub =>
        match addNames reg sub with
        | some reg' => copyItemsNames keep rec reg' r
        | none => none
      | none => none

/-- the names registered by `pool[j].copy(subs)`, literally: sub-circuits first, then `add` one by one -/
def copyNames (keep : Var → Bool) (pit : ℕ → List PItem) : ℕ → ℕ → Option (List ℕ)
  | 0, _ => some []
  | f + 1, j => copyItemsNames keep (copyNames keep pit f) [] (pit j)

/-- the new `Parameter` objects of a copy, in the order they are registered -/
def freshVars (next : ℕ) : List ℕ → List Var
  | [] => []
  | n :: ns => ⟨next, n⟩ :: freshVars (next + 1) ns

/-- how a store `ρ` seen by the copy reads for the original: values of copy time are frozen,
substituted symbols have the substituted value, a slot left variable reads its new `Parameter` -/
def rebind {V : Type} (e : PEnv V) (σ : ℕ → Option V) (occ : List Var) (remNames : List ℕ)
    (next : ℕ) (ρ : PEnv V) : PEnv V := fun p =>
  match e p with
  | some x => some x
  | none =>
    match occ.find? (fun v => v.pid == p) with
    | none => none
    | some v =>
      match σ v.name with
      | some x => some x
      | none => ρ (next + remNames.idxOf v.name)

/-! ### `assign` -/

/-- `vs = self.vars; for k, v in assign.items(): vs[k].set_value(v)`: `false` = `KeyError`, the
assignments made before it persist -/
def assignMany {V : Type} (reg : List Var) : PEnv V → List (ℕ × V) → PEnv V × Bool
  | e, [] => (e, true)
  | e, (n, x) :: r =>
    match regLookup reg n with
    | some v => assignMany reg (e.upd v.pid (some x)) r
    | none => (e, false)

/-! ### the state machine -/

structure RState (V S : Type) where
  /-- the pool of circuits and the store of parameter values -/
  w : World (PEnv V) S
  /-- `pool[i]._params` -/
  reg : ℕ → List Var
  /-- the variable slots under `pool[i]` -/
  pit : ℕ → List PItem
  /-- `Parameter._id` -/
  next : ℕ

inductive Outcome where
  | ok
  | assertion
  | runtime
  | key
deriving DecidableEq, Repr

inductive ROp (V S : Type) where
  | new (m rank : ℕ)
  /-- `pool[i].add(off, X(...))`, `X` an elementary component built with the `Parameter` objects `slots` -/
  | leaf (i off k : ℕ) (slots : List Var) (U : Matrix (Fin k) (Fin k) (PEnv V → S))
  | nest (i j off : ℕ)
  | merge (i j off : ℕ)
  | barrier (i : ℕ)
  /-- `pool.append(pool[i].copy(subs=σ))` (`σ` by symbol, i.e. by name; `fun _ => none` is `copy()`) -/
  | copy (i : ℕ) (σ : ℕ → Option V)
  /-- `p.set_value(x)` / `p.reset()` on the `Parameter` object `pid` -/
  | setv (pid : ℕ) (x : Option V)
  /-- `pool[i].assign({name: value, …})` (what `compute_unitary(assign=…)` does first) -/
  | assign (i : ℕ) (a : List (ℕ × V))

variable {V S : Type}

def RState.size (s : RState V S) : ℕ := s.w.heap.size

def RState.empty (env : PEnv V) (next : ℕ) : RState V S :=
  ⟨⟨Heap.empty, env⟩, fun _ => [], fun _ => [], next⟩

/-- variable slots met by the iteration of `pool[i]` -/
def RState.occ (s : RState V S) (i : ℕ) : List Var := occAt s.pit (s.w.heap.rank i + 1) i

def updAt {α : Type} (f : ℕ → α) (i : ℕ) (x : α) : ℕ → α := fun k => if k = i then x else f k

/-- `Circuit.add`: the assertions, then the parameter loop, then the registration of the component -/
def RState.addTo [Zero S] [One S] (s : RState V S) (i : ℕ) (offered : List Var)
    (hop : Op (PEnv V → S)) (pnew : List PItem) : RState V S × Outcome :=
  if hop.ok s.w.heap then
    if (regMany (s.reg i) offered).2 then
      ({ s with w := wstep s.w (.struct hop),
                reg := updAt s.reg i (regMany (s.reg i) offered).1,
                pit := updAt s.pit i (s.pit i ++ pnew) }, .ok)
    else ({ s with reg := updAt s.reg i (regMany (s.reg i) offered).1 }, .runtime)
  else (s, .assertion)

/-- which slots stay variable in a copy -/
def keepVar (e : PEnv V) (σ : ℕ → Option V) (v : Var) : Bool := (e v.pid).isNone && (σ v.name).isNone

def rstep [Zero S] [One S] (s : RState V S) : ROp V S → RState V S × Outcome
  | .new m r =>
    if 0 < m then
      ({ s with w := wstep s.w (.struct (.new m r)),
                reg := updAt s.reg s.size [], pit := updAt s.pit s.size [] }, .ok)
    else (s, .assertion)
  | .leaf i off k slots U =>
    if leafOk slots then s.addTo i slots (.leaf i off k U) [.vars slots] else (s, .runtime)
  | .nest i j off => s.addTo i (s.reg j) (.nest i j off) [.ref j]
  | .merge i j off =>
    s.addTo i (s.reg j) (.merge i j off)
      (match s.w.heap.items j with
       | [] => [.ref j]
       | _ :: _ => s.pit j)
  | .barrier i => s.addTo i [] (.barrier i) []
  | .copy i σ =>
    if i < s.size then
      match copyNames (keepVar s.w.env σ) s.pit (s.w.heap.rank i + 1) i with
      | none => (s, .runtime)
      | some names =>
        ({ w := wstep s.w (.struct (.copy i fun x ρ =>
                  x (rebind s.w.env σ (s.occ i) names s.next ρ))),
           reg := updAt s.reg s.size (freshVars s.next names),
           pit := updAt s.pit s.size [.vars (freshVars s.next names)],
           next := s.next + names.length }, .ok)
    else (s, .assertion)
  | .setv p x => ({ s with w := { s.w with env := s.w.env.upd p x } }, .ok)
  | .assign i a =>
    ({ s with w := { s.w with env := (assignMany (s.reg i) s.w.env a).1 } },
     if (assignMany (s.reg i) s.w.env a).2 then .ok else .key)

def rexec [Zero S] [One S] (s : RState V S) (ops : List (ROp V S)) : RState V S :=
  ops.foldl (fun s op => (rstep s op).1) s

/-- the pool entry an operation adds to -/
def ROp.target : ROp V S → Option ℕ
  | .leaf i _ _ _ _ => some i
  | .nest i _ _ => some i
  | .merge i _ _ => some i
  | .barrier i => some i
  | _ => none

/-- no `add` of the history raised the duplicate-name `RuntimeError` -/
def CleanRun [Zero S] [One S] : RState V S → List (ROp V S) → Prop
  | _, [] => True
  | s, op :: r => (rstep s op).2 ≠ .runtime ∧ CleanRun (rstep s op).1 r

/-- no circuit receives a component while another circuit holds it by reference -/
def ROp.safe (s : RState V S) : ROp V S → Prop
  | .leaf i _ _ _ _ => ∀ k, k < s.size → PItem.ref i ∉ s.pit k
  | .nest i _ _ => ∀ k, k < s.size → PItem.ref i ∉ s.pit k
  | .merge i _ _ => ∀ k, k < s.size → PItem.ref i ∉ s.pit k
  | _ => True

def SafeRun [Zero S] [One S] : RState V S → List (ROp V S) → Prop
  | _, [] => True
  | s, op :: r => op.safe s ∧ SafeRun (rstep s op).1 r

instance CleanRun.dec [Zero S] [One S] : (s : RState V S) → (ops : List (ROp V S)) →
    Decidable (CleanRun s ops)
  | _, [] => isTrue trivial
  | s, op :: r => by
    unfold CleanRun
    exact @instDecidableAnd _ _ _ (CleanRun.dec _ r)

instance ROp.safe.dec (s : RState V S) : (op : ROp V S) → Decidable (op.safe s)
  | .leaf i _ _ _ _ => by unfold ROp.safe; exact Nat.decidableBallLT _ _
  | .nest i _ _ => by unfold ROp.safe; exact Nat.decidableBallLT _ _
  | .merge i _ _ => by unfold ROp.safe; exact Nat.decidableBallLT _ _
  | .new _ _ => isTrue trivial
  | .barrier _ => isTrue trivial
  | .copy _ _ => isTrue trivial
  | .setv _ _ => isTrue trivial
  | .assign _ _ => isTrue trivial

instance SafeRun.dec [Zero S] [One S] : (s : RState V S) → (ops : List (ROp V S)) →
    Decidable (SafeRun s ops)
  | _, [] => isTrue trivial
  | s, op :: r => by
    unfold SafeRun
    exact @instDecidableAnd _ _ _ (SafeRun.dec _ r)

/-- `pool[i].defined`: reads the registry -/
def RState.definedReg (s : RState V S) (i : ℕ) : Bool := (s.reg i).all fun v => (s.w.env v.pid).isSome

/-- every leaf under `pool[i]` passes its own `assert self.defined` -/
def RState.evalOk (s : RState V S) (i : ℕ) : Bool := (s.occ i).all fun v => (s.w.env v.pid).isSome

/-- `pool[i].compute_unitary()`: `none` = `AssertionError` of a leaf with an undefined parameter -/
def RState.reval [CommRing S] (s : RState V S) (i : ℕ) :
    Option (Matrix (Fin (s.w.heap.msize i)) (Fin (s.w.heap.msize i)) S) :=
  if s.evalOk i then some (observe s.w i) else none

end PM.C01
