/-
  C03, section 12 — Fock states mixing annotated and un-annotated photons.

  `BasicState.separate_state` (native, exqalibur) treats an un-annotated photon as compatible with any
  annotation.  Probed on the pinned binary (and compared on every run, harness kind "bs"/"sv"/"svd" with
  mixed states):

  * no annotated photon: one group, the whole state;
  * annotated photons of ONE tag `f` plus un-annotated ones: one group, the whole state, returned AS IT IS;
    `_annot_state_mapping` / `_evolve_no_compute` label it with `get_photon_annotation(0)`, the annotation of the
    first photon (modes in order; inside a mode annotated photons come first): `f` or the empty annotation;
  * annotated photons of several tags `f, g, …` (order of first occurrence among the annotated photons): the
    un-annotated photons join the group of the FIRST tag `f` and are given its annotation; the other groups are
    the photons of `g, …`.

  A state is given as the tags of its photons mode by mode in the object's own photon order; tag 0 = no
  annotation, `k+1` = `_:k`.
-/
import PercevalModel.Model.C03

namespace PM.C03
open PM.Fock PM.Dist PM.SimSpec

/-- the annotations present (tag ≠ 0), in order of first occurrence -/
def nzTags (st : AState) : List ℕ := (tagsOf st).filter (· ≠ 0)

/-- un-annotated photons receive the annotation `f` -/
def relabel (f : ℕ) (st : AState) : AState := st.map (·.map fun t => if t = 0 then f else t)

/-- every photon receives the label `l` -/
def allTo (l : ℕ) (st : AState) : AState := st.map (·.map fun _ => l)

/-- the state the Simulator effectively works on (native `separate_state(keep_annotations=True)` followed by the
labelling of `_annot_state_mapping`): see the header -/
def native (st : AState) : AState :=
  match nzTags st with
  | [] => st
  | [_] => allTo (st.flatten.headD 0) st
  | f :: _ :: _ => relabel f st

/-- the groups the rule produces, written out: the first annotation's photons together with all un-annotated
ones, then the photons of every further annotation -/
def mixedGroups (st : AState) : List Fock :=
  match nzTags st with
  | [] => [occ st]
  | f :: rest => fadd (groupOf f st) (groupOf 0 st) :: rest.map (groupOf · st)

/-- photons are either all annotated or all un-annotated -/
def Uniform (st : AState) : Prop := (∀ t ∈ st.flatten, t = 0) ∨ (∀ t ∈ st.flatten, t ≠ 0)

end PM.C03
