/-
  C09 (extension) — `Sampler` iterations, local execution (core Lean only).

  Modelled code (`perceval/algorithm/sampler.py`): `_samples_iterate_locally(max_shots, max_samples)` /
  `_probs_iterate_locally(max_shots)`, `_it_default_parameters`, `_apply_iteration(default_it | it)` with the
  `_set_*` methods, `_check_sample_shot_iterator`, and what each iteration finally asks the processor for
  (`processor.samples(self._max_samples, self._max_shots)` on the configuration in place at that moment).

  DEFECT REPAIRED (fixes/C09-iterations-keep-max-shots.diff): a local job never passes `max_shots` to the
  `_…_iterate_locally` functions (`LocalJob` only forwards `max_samples`), and both began with
  `self._max_shots = max_shots`: the `max_shots_per_call` given to the `Sampler` was overwritten by `None` as soon as
  the sampler held one iteration — every iteration ran without shot limit and the sampler had lost its limit for all
  later jobs.  `fixed = true` is the repaired code (an absent `max_shots` means the sampler's own value),
  `fixed = false` the code as it was (kept for the regression witness).

  Values that the model does not interpret (input states, noise models, parameter values) are identifiers.
-/
import PercevalModel.Model.C09

namespace PM.C09

/-- `Sampler.SAMPLES_MAX_COUNT` -/
def samplesMax : Nat := 100000000

/-- what an iteration can touch: the sampler's two limits and the processor's configuration -/
structure SCfg where
  maxSamples : Option Nat    -- `Sampler._max_samples`
  maxShots : Option Nat      -- `Sampler._max_shots` (`max_shots_per_call`)
  filter : Option Nat        -- `min_detected_photons` (`None` = not set)
  input : Nat
  noise : Nat
  params : List Nat          -- value of every variable circuit parameter, by position
  deriving DecidableEq, Repr

/-- one iteration: `none` = key absent -/
structure Iter where
  maxSamples : Option Nat
  maxShots : Option Nat
  filter : Option Nat
  input : Option Nat
  noise : Option Nat
  params : Option (List (Nat × Nat))    -- `circuit_params`: (position of the parameter, value)
  deriving DecidableEq, Repr

/-- `_set_circuit_params`: only the named parameters are set -/
def setParams (l : List (Nat × Nat)) (ps : List Nat) : List Nat :=
  l.foldl (fun ps iv => ps.set iv.1 iv.2) ps

/-- `_apply_iteration(default_it | it)` on the configuration `c` in place; `d` = the defaults recorded at the start of
the job.  A key of the iteration replaces the default's value — for `circuit_params` the whole dictionary. -/
def applyIt (d : SCfg) (it : Iter) (c : SCfg) : SCfg :=
  { maxSamples := match it.maxSamples with
      | some v => some v
      | none => d.maxSamples
    maxShots := match it.maxShots with
      | some v => some v
      | none => d.maxShots
    filter := match it.filter with
      | some v => some v
      | none => d.filter
    input := it.input.getD d.input
    noise := it.noise.getD d.noise
    params := match it.params with
      | some l => setParams l c.params
      | none => d.params }

def noIter : Iter := ⟨none, none, none, none, none, none⟩

/-- the iterations one after the other: the configuration each one runs on, and the configuration left -/
def runIts (d : SCfg) : List Iter → SCfg → List SCfg × SCfg
  | [], c => ([], c)
  | it :: rest, c =>
    let c1 := applyIt d it c
    let (calls, cf) := runIts d rest c1
    (c1 :: calls, cf)

/-- `_check_sample_shot_iterator` -/
def everyIterLimited (its : List Iter) : Bool := its.all fun it => it.maxSamples.isSome || it.maxShots.isSome

/-- `_samples_iterate_locally(max_shots, max_samples)` on a sampler/processor in configuration `c`:
→ the configuration of every `processor.samples(self._max_samples, self._max_shots)` call, and the configuration
left behind (`_apply_iteration(default_it)`). -/
def samplesIterate (fixed : Bool) (c : SCfg) (maxShotsArg maxSamplesArg : Option Nat) (its : List Iter) :
    Except String (List SCfg × SCfg) :=
  let sh := if fixed then (match maxShotsArg with
      | some v => some v
      | none => c.maxShots) else maxShotsArg
  if maxSamplesArg.isNone && sh.isNone && !everyIterLimited its then .error "RuntimeError"
  else
    let d : SCfg := { c with maxSamples := some (maxSamplesArg.getD samplesMax), maxShots := sh }
    let (calls, cf) := runIts d its d
    .ok (calls, applyIt d noIter cf)

/-- `_probs_iterate_locally(max_shots)`: the same bookkeeping, every iteration asks for
`processor.probs(precision)` with `precision = None if _max_shots is None else min(1e-6, 1/_max_shots)`;
`_max_samples` is not touched. -/
def probsIterate (fixed : Bool) (c : SCfg) (maxShotsArg : Option Nat) (its : List Iter) : List SCfg × SCfg :=
  let sh := if fixed then (match maxShotsArg with
      | some v => some v
      | none => c.maxShots) else maxShotsArg
  let d : SCfg := { c with maxShots := sh }
  let (calls, cf) := runIts d its d
  (calls, applyIt d noIter cf)

/-- an iteration names every variable parameter of a circuit with `n` of them (the documented use) or none -/
def fullParams (n : Nat) (it : Iter) : Bool :=
  match it.params with
  | none => true
  | some l => (List.range n).all fun i => l.any fun iv => iv.1 == i


/-! ## a one-slot cache (`Source._prob_table`, keyed by the photon number and the photon filter)

`Source.generate_samples` recomputes its table of emission events only when the photon number of the expected input or
the photon filter differ from those the stored table was computed for; the other parameters of a `Source` never change
after construction. -/

/-- one question to a one-slot cache in front of `f`: the slot answers when it holds the key, else it is replaced -/
def slotStep {K V : Type} [DecidableEq K] (f : K → V) (slot : Option (K × V)) (k : K) : Option (K × V) × V :=
  match slot with
  | some (k', v) => if k' = k then (slot, v) else (some (k, f k), f k)
  | none => (some (k, f k), f k)

/-- the same with a slot keyed by PART of the question only (the shape of a defect: a table computed for another
filter answering) -/
def slotStepBy {Q K V : Type} [DecidableEq K] (key : Q → K) (f : Q → V) (slot : Option (K × V)) (q : Q) :
    Option (K × V) × V :=
  match slot with
  | some (k', v) => if k' = key q then (slot, v) else (some (key q, f q), f q)
  | none => (some (key q, f q), f q)

end PM.C09
