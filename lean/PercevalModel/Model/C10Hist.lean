/-
  C10 (extension 3) — the bookkeeping of a long-lived `Experiment` / `Processor` as a state machine over its
  public mutators, so that the well-formedness facts the composition theorems assume of the left processor
  (and of an added processor) become theorems about every history instead of hypotheses:

  * `Processor(backend, m)` / `Processor(backend)`                      (`Exp.new`, the `m` setter)
  * `add_herald(mode, expected, name)`                                  (`addHerald`)
  * `add_port(m, Port(encoding, name), location)`                       (`addPort`)
  * `remove_port(m, location)`                                          (`removePort`)
  * `add(mode, Detector)`           = `Experiment._add_detector`        (`addDet`)
  * `set_postselection(ps)`                                             (`setps`)
  * `add(mapping, obj, keep_port)`  = the modelled `compose`, preceded by the
    `if self.m == 0: self.m = …` prelude of `Experiment.add`             (`defaultM`, `addObj`)

  The code is modelled AS IT IS: `add_herald` / `add_port` do not check that the mode is inside the circuit (the
  herald then dies on `_mode_type[mode]` with an IndexError, the port is accepted), `remove_port` of a herald port
  leaves `_n_heralds` and the mode type alone, `circuit_size` is `_n_moi + _n_heralds`, `_n_moi` is a Python int
  that `add_herald` decrements without a floor.

  One behaviour of the code as found is selected by `fixM0 = false`: the prelude of `Experiment.add` tests
  `self.m == 0` to detect "the number of modes was never given"; a processor ALL of whose modes were declared
  heralds also has `m == 0`, so the next `add` re-runs the `m` setter: `_mode_type` and `_detectors` are rebuilt as
  `value` photonic modes, the herald modes become connectible again and `circuit_size` jumps to `value + #heralds`.
  Repaired (`fixM0 = true`, fixes/C10-add-m0-heralded.diff) the test is `circuit_size == 0`.

  Assumptions (stated, not proved): modes given to these calls are non-negative (a negative mode is taken by Python
  as an index from the end), every `add_port` brings a fresh `Port` object (the port dictionaries are keyed by
  object identity), `add_port` is not given a `Herald`.
-/
import PercevalModel.Model.C10

namespace PM.C10

/-- `ModeType` -/
inductive MT | photonic | herald | classical
deriving DecidableEq, Repr

/-- errors of the history operations: those of `compose`, plus IndexError / TypeError -/
inductive HErr | base (e : Err) | index | type
deriving DecidableEq, Repr

def HErr.name : HErr → String
  | .base e => e.name
  | .index => "IndexError"
  | .type => "TypeError"

/-- bookkeeping fields of an `Experiment` -/
structure Exp where
  nmoi : Int                       -- `_n_moi`
  nher : Nat                       -- `_n_heralds`
  mt : List MT                     -- `_mode_type`
  dets : List (Option String)      -- `_detectors`
  inp : List Port                  -- `_in_ports` (insertion order)
  outp : List Port                 -- `_out_ports`
  ps : Option PS                   -- `_postselect`

/-- `circuit_size = _n_moi + _n_heralds` -/
def Exp.cs (e : Exp) : Nat := (e.nmoi + (e.nher : Int)).toNat

def MT.isPhot : MT → Bool
  | .photonic => true
  | _ => false

/-- what `compose` reads of an experiment (as the left processor or as the added one) -/
def Exp.side (e : Exp) : Side :=
  { comp := false, m := e.nmoi.toNat, cs := e.cs, conn := e.mt.map MT.isPhot,
    heralds := heraldsOf e.outp, dets := e.dets, outp := e.outp, inp := e.inp,
    outNames := (portNames e.cs e.outp).getD [], inNames := (portNames e.cs e.inp).getD [], ps := e.ps }

/-- `Processor(backend, m)` (`some m`) or `Processor(backend)` (`none`): `_reset_circuit`, then the `m` setter -/
def Exp.new : Option Nat → Except HErr Exp
  | none => .ok ⟨0, 0, [], [], [], [], none⟩
  | some m =>
    if m < 1 then .error (.base .value)
    else .ok ⟨m, 0, List.replicate m .photonic, List.replicate m none, [], [], none⟩

inductive Loc | input | output | inout
deriving DecidableEq, Repr

def Loc.hasIn : Loc → Bool
  | .output => false
  | _ => true

def Loc.hasOut : Loc → Bool
  | .input => false
  | _ => true

/-- `add_herald` (the assertion on `expected`, `_add_herald`, then the two counters) -/
def addHerald (e : Exp) (mode expected : Nat) (name : Option String) : Except HErr Exp :=
  if ¬ (expected = 0 ∨ expected = 1) then .error (.base .assertion)
  else if !(modesFree e.inp mode 1 && modesFree e.outp mode 1) then .error (.base .unavailable)
  else if e.mt.length ≤ mode then .error .index          -- `self._mode_type[mode] = …`, after the ports were stored
  else
    let h : Port := ⟨mode, 1, name.getD "herald#", true, expected, name⟩
    .ok { e with inp := e.inp ++ [h], outp := e.outp ++ [h], mt := e.mt.set mode .herald,
                 nmoi := e.nmoi - 1, nher := e.nher + 1 }

def appIf (c : Bool) (l : List Port) (p : Port) : List Port := if c then l ++ [p] else l

/-- `_add_detector`: a photonic mode becomes classical, a herald mode stays a herald mode -/
def retype (mt : List MT) (mode : Nat) (t : MT) : List MT :=
  if t = .photonic then mt.set mode .classical else mt

/-- `add_port(m, Port(encoding, name), location)`; `size = encoding.fock_length` -/
def addPort (e : Exp) (mode size : Nat) (name : String) (loc : Loc) : Except HErr Exp :=
  let p : Port := ⟨mode, size, name, false, 0, none⟩
  if loc.hasIn && !modesFree e.inp mode size then .error (.base .unavailable)
  else if loc.hasOut && !modesFree e.outp mode size then .error (.base .unavailable)
  else .ok { e with inp := appIf loc.hasIn e.inp p, outp := appIf loc.hasOut e.outp p }

/-- `_find_and_remove_port_from_list`: the first port (insertion order) sitting on mode `m` -/
def removeFirst (ports : List Port) (m : Nat) : Option (List Port) :=
  match ports.findIdx? (fun p => p.start ≤ m && m < p.start + p.size) with
  | none => none
  | some i => some (ports.eraseIdx i)

/-- `remove_port(m, location)` -/
def removePort (e : Exp) (m : Nat) (loc : Loc) : Except HErr Exp :=
  match (if loc.hasIn then removeFirst e.inp m else some e.inp) with
  | none => .error (.base .unavailable)
  | some inp =>
    match (if loc.hasOut then removeFirst e.outp m else some e.outp) with
    | none => .error (.base .unavailable)
    | some outp => .ok { e with inp := inp, outp := outp }

/-- the test at the top of `Experiment.add`: as found `self.m == 0`, repaired `self.circuit_size == 0` -/
def needDefault (fixM0 : Bool) (e : Exp) : Bool :=
  if fixM0 then e.cs == 0 else e.nmoi == 0

/-- `self.m = value` inside `Experiment.add` (the `m` setter: RuntimeError when `_n_moi` is already set,
ValueError below 1, then `_detectors` and `_mode_type` are rebuilt) -/
def defaultM (fixM0 : Bool) (e : Exp) (value : Except HErr Int) : Except HErr Exp :=
  if needDefault fixM0 e then
    match value with
    | .error x => .error x
    | .ok v =>
      if e.nmoi ≠ 0 then .error (.base .runtime)
      else if v < 1 then .error (.base .value)
      else .ok { e with nmoi := v, dets := List.replicate v.toNat none, mt := List.replicate v.toNat .photonic }
  else .ok e

def maxI : List Int → Int
  | [] => 0
  | a :: l => l.foldr max a

/-- `component.m + mode_mapping if isinstance(mode_mapping, int) else max(mode_mapping) + 1` -/
def defaultValue (rm : Nat) : RawMap → Except HErr Int
  | .ofInt b => .ok (rm + b)
  | .ofList [] => .error (.base .value)                  -- `max()` of an empty sequence
  | .ofList ks => .ok (maxI ks + 1)
  | .ofDict [] => .error (.base .value)
  | .ofDict items =>
    match items.mapM (fun it => match it.1 with | .int k => some k | .name _ => none) with
    | some ks => .ok (maxI ks + 1)
    | none => .error .type                               -- `max` over str / int keys, or `str + 1`

/-- `add(mode, Detector)`: the prelude, then `_add_detector` -/
def addDet (fixM0 : Bool) (e : Exp) (mode : Nat) (name : String) : Except HErr Exp :=
  match defaultM fixM0 e (.ok (1 + (mode : Int))) with
  | .error x => .error x
  | .ok e =>
    match e.mt[mode]? with
    | none => .error .index
    | some .classical => .error (.base .unavailable)
    | some t =>
      if e.dets.length ≤ mode then .error .index
      else .ok { e with dets := e.dets.set mode (some name), mt := retype e.mt mode t }

/-- the state `compose` leaves behind -/
def Exp.after (e : Exp) (r : Side) (res : Result) : Exp :=
  { e with nher := if r.comp then e.nher else e.nher + r.heralds.length,
           mt := if r.comp then e.mt else e.mt ++ List.replicate r.heralds.length .herald,
           dets := res.dets, inp := res.inp, outp := res.outp, ps := res.ps }

/-- `add(mapping, obj, keep_port)` for a unitary component or a processor -/
def addObj (fixM0 : Bool) (e : Exp) (r : Side) (raw : RawMap) (keep : Bool) : Except HErr Exp :=
  match defaultM fixM0 e (defaultValue r.m raw) with
  | .error x => .error x
  | .ok e =>
    match compose .all true true e.side r raw keep with
    | .error x => .error (.base x)
    | .ok res => .ok (e.after r res)

inductive HOp
  | herald (mode expected : Nat) (name : Option String)
  | port (mode size : Nat) (name : String) (loc : Loc)
  | rmport (mode : Nat) (loc : Loc)
  | det (mode : Nat) (name : String)
  | setps (ps : PS)
  | add (r : Side) (raw : RawMap) (keep : Bool)

def stepH (fixM0 : Bool) (e : Exp) : HOp → Except HErr Exp
  | .herald mode expected name => addHerald e mode expected name
  | .port mode size name loc => addPort e mode size name loc
  | .rmport mode loc => removePort e mode loc
  | .det mode name => addDet fixM0 e mode name
  | .setps ps => .ok { e with ps := some ps }
  | .add r raw keep => addObj fixM0 e r raw keep

/-- a history: every call must succeed (the first exception ends it) -/
def runH (fixM0 : Bool) : Exp → List HOp → Except HErr Exp
  | e, [] => .ok e
  | e, op :: rest =>
    match stepH fixM0 e op with
    | .error x => .error x
    | .ok e' => runH fixM0 e' rest

/-- the whole life of a processor: construction, then the calls -/
def history (fixM0 : Bool) (m : Option Nat) (ops : List HOp) : Except HErr Exp :=
  match Exp.new m with
  | .error x => .error x
  | .ok e => runH fixM0 e ops

/-- the history never removes a herald port (`remove_port` on a heralded mode leaves `_n_heralds` alone:
afterwards `m ≠ circuit_size − #heralds`) -/
def noHeraldRemoval (fixM0 : Bool) : Exp → List HOp → Bool
  | _, [] => true
  | e, op :: rest =>
    (match op with
      | .rmport m loc =>
        !((loc.hasIn && ((portAt e.inp m).map (·.herald)).getD false) ||
          (loc.hasOut && ((portAt e.outp m).map (·.herald)).getD false))
      | _ => true) &&
    match stepH fixM0 e op with
    | .error _ => true
    | .ok e' => noHeraldRemoval fixM0 e' rest

end PM.C10
