/-
  C14 (extension) — the LIFECYCLE of a `Parameter` (`perceval/utils/parameter.py`) and the way a component
  recycles it (`AParametrizedComponent._set_parameter / vars / assign / defined / reset_parameters /
  get_variables / copy`, `perceval/components/abstract_component.py`) as a state machine, as the code is.

  A parameter object is the record `Par`: `_min`, `_max`, `_periodic`, "`_symbol is not None`", `_value`.
  Arithmetic is exact (ℚ); `_check_value` is the `wrap` of `Model/C14.lean` (the repaired code of
  `fixes/C14-wrap.diff`, which is what /repo contains), refined here with the CLASS of the exception.

  Quirks that are modelled because the code has them:
  * `set_value` checks the value first and the fixed flag second (`ValueError` wins over `RuntimeError`);
  * `fix_value` drops the symbol BEFORE it checks the value: a rejected `fix_value` leaves a parameter that
    is fixed and keeps its old value (possibly none: fixed and undefined);
  * the message of the out-of-bound error is formatted with `%f` of both bounds: with a missing bound the
    formatting itself raises `TypeError`;
  * a periodic parameter with `min == max` divides by zero when the value is outside;
  * `_set_parameter` narrows the bounds of a recycled parameter to the intersection and does NOT check the
    value the parameter already holds; `sound = false` is the pinned code (the parameter is made periodic
    over the intersection whatever its span), `sound = true` the repaired code (`fixes/C14-shared-range.diff`:
    periodic only when the interval is exactly the slot's range and was not restricted otherwise before);
  * `assign` computes `vars` once, then calls `set_value` key by key: what was assigned before a failing key
    stays assigned;
  * `copy()` rebuilds every parameter through the constructor from `(name, float value | None, min, max,
    is_periodic)`: a defined variable becomes fixed, and the value is checked again against the bounds.
-/
import PercevalModel.Model.C14
import PercevalModel.Found.SM

namespace PM.C14

/-- exception classes that the lifecycle can raise -/
inductive Exc | ValueError | TypeError | ZeroDivisionError | RuntimeError | KeyError | AttributeError
deriving DecidableEq, Repr

def Exc.name : Exc → String
  | .ValueError => "ValueError"
  | .TypeError => "TypeError"
  | .ZeroDivisionError => "ZeroDivisionError"
  | .RuntimeError => "RuntimeError"
  | .KeyError => "KeyError"
  | .AttributeError => "AttributeError"

/-- periodic, both bounds given and equal, value outside: `(v-max_v)/(max_v-min_v)` divides by zero -/
def zeroSpanOutside (lo hi : Option ℚ) (v : ℚ) : Bool :=
  match lo, hi with
  | some l, some h => decide (h = l) && (decide (v > h) || decide (v < l))
  | _, _ => false

/-- `Parameter._check_value(v, min_v, max_v, periodic)` with the class of the exception:
`inr w` = the value that is stored, `inl e` = raises `e`. -/
def checkE (periodic : Bool) (lo hi : Option ℚ) (v : ℚ) : Exc ⊕ ℚ :=
  if periodic && zeroSpanOutside lo hi v then .inl .ZeroDivisionError
  else match wrap periodic lo hi v with
    | some w => .inr w
    | none => .inl (if lo.isNone || hi.isNone then .TypeError else .ValueError)

/-- a `Parameter` object -/
structure Par where
  /-- `_min` -/
  lo : Option ℚ
  /-- `_max` -/
  hi : Option ℚ
  /-- `_periodic` -/
  periodic : Bool
  /-- `_symbol is not None` (`is_variable`, `not fixed`) -/
  sym : Bool
  /-- `_value` -/
  val : Option ℚ
deriving DecidableEq, Repr

namespace Par

def check (p : Par) (v : ℚ) : Exc ⊕ ℚ := checkE p.periodic p.lo p.hi v

/-- `Parameter.__init__(name, value, min_v, max_v, periodic)` -/
def init (value lo hi : Option ℚ) (periodic : Bool) : Exc ⊕ Par :=
  match value with
  | none => .inr ⟨lo, hi, periodic, true, none⟩
  | some v =>
    match checkE periodic lo hi v with
    | .inl e => .inl e
    | .inr w => .inr ⟨lo, hi, periodic, false, some w⟩

/-- `defined` -/
def defined (p : Par) : Bool := p.val.isSome
/-- `fixed` -/
def fixed (p : Par) : Bool := !p.sym
/-- `is_variable` -/
def isVariable (p : Par) : Bool := p.sym

/-- the value respects the bounds that exist -/
def InRange (lo hi : Option ℚ) (w : ℚ) : Prop := (∀ l, lo = some l → l ≤ w) ∧ (∀ h, hi = some h → w ≤ h)

/-- a defined value lies inside the current bounds -/
def Inv (p : Par) : Prop := ∀ w, p.val = some w → InRange p.lo p.hi w

end Par

/-- operations on one parameter object -/
inductive POp
  /-- `set_value(v, force)` -/
  | set (v : ℚ) (force : Bool)
  /-- `fix_value(v)` -/
  | fix (v : ℚ)
  /-- `reset()` -/
  | reset
  /-- `set_periodic(b)` -/
  | setPeriodic (b : Bool)
  /-- `AParametrizedComponent._set_parameter(name, p, min_v, max_v, periodic)` on this existing object -/
  | bind (lo hi : Option ℚ) (periodic : Option Bool)
deriving DecidableEq, Repr

/-- `if p.min is None or min_v > p.min: p.min = float(min_v)` -/
def narrowLo (cur new : Option ℚ) : Option ℚ :=
  match new with
  | none => cur
  | some l => match cur with
    | none => some l
    | some c => if l > c then some l else some c

/-- `if p.max is None or max_v < p.max: p.max = float(max_v)` -/
def narrowHi (cur new : Option ℚ) : Option ℚ :=
  match new with
  | none => cur
  | some h => match cur with
    | none => some h
    | some c => if h < c then some h else some c

/-- the periodic flag that `_set_parameter` leaves on a recycled parameter `p` (bounds before the call) whose
bounds became `lo', hi'`; the slot declares `lo, hi`.
`sound = false` (pinned code): `if periodic is not None: p.set_periodic(periodic)`.
`sound = true` (repaired code): periodic is kept only if the parameter covers exactly the slot's range and
was not already restricted to a different, or a non periodic, range. -/
def bindPeriodic (sound : Bool) (p : Par) (lo hi lo' hi' : Option ℚ) : Option Bool → Bool
  | none => p.periodic
  | some false => false
  | some true =>
    if !sound then true
    else !(((lo.isSome && hi.isSome) && !(decide (lo' = lo) && decide (hi' = hi))) ||
           ((p.lo.isSome && p.hi.isSome) && (!p.periodic || !(decide (p.lo = lo') && decide (p.hi = hi')))))

/-- one operation; the output is the exception raised, if any -/
def pstep (sound : Bool) (p : Par) : POp → Par × Option Exc
  | .set v force =>
    match p.check v with
    | .inl e => (p, some e)
    | .inr w => if !p.sym && !force then (p, some .RuntimeError) else ({ p with val := some w }, none)
  | .fix v =>
    match p.check v with
    | .inl e => ({ p with sym := false }, some e)
    | .inr w => ({ p with sym := false, val := some w }, none)
  | .reset => (if p.sym then { p with val := none } else p, none)
  | .setPeriodic b => ({ p with periodic := b }, none)
  | .bind lo hi per =>
    let lo' := narrowLo p.lo lo
    let hi' := narrowHi p.hi hi
    ({ p with lo := lo', hi := hi', periodic := bindPeriodic sound p lo hi lo' hi' per }, none)

/-- the operation can change the value of a fixed parameter (by design: `force=True`, `fix_value`) -/
def POp.forces : POp → Bool
  | .set _ force => force
  | .fix _ => true
  | _ => false

def POp.isBind : POp → Bool
  | .bind .. => true
  | _ => false

def POp.isSetPeriodic : POp → Bool
  | .setPeriodic _ => true
  | _ => false

/-- `copy()`: `Parameter(p.name, float(p) if p.defined else None, p.min, p.max, p.is_periodic)` -/
def Par.copy (p : Par) : Exc ⊕ Par := Par.init p.val p.lo p.hi p.periodic

/-! ### a session: several parameter objects, components holding them in their slots -/

/-- the parameter objects alive, by key (the name of a user-made parameter, `"<component>.<slot>"` for a
parameter made on the fly from a number) -/
abbrev LStore := String → Option Par

/-- a component: the keys of the parameters in its slots, in slot order -/
abbrev Comp := List String

inductive SOp
  /-- `Parameter(x, value, min_v, max_v, periodic)` -/
  | new (x : String) (value lo hi : Option ℚ) (periodic : Bool)
  /-- an operation on the object `x` -/
  | par (x : String) (op : POp)
  /-- `component.assign({k: v, …})` -/
  | assign (c : Comp) (kv : List (String × ℚ))
deriving Repr

/-- `vars`: the non-fixed parameters of the component -/
def vars (st : LStore) (c : Comp) : List String :=
  c.filter fun k => match st k with
    | some p => p.sym
    | none => false

/-- `for k, v in assign.items(): vs[k].set_value(v)` with `vs` computed before the loop -/
def assignRun (sound : Bool) (vs : List String) : LStore → List (String × ℚ) → LStore × Option Exc
  | st, [] => (st, none)
  | st, (k, v) :: rest =>
    if k ∈ vs then
      match st k with
      | none => (st, some .KeyError)
      | some p =>
        match pstep sound p (.set v false) with
        | (_, some e) => (st, some e)
        | (p', none) => assignRun sound vs (Function.update st k (some p')) rest
    else (st, some .KeyError)

def sstep (sound : Bool) (st : LStore) : SOp → LStore × Option Exc
  | .new x value lo hi per =>
    match Par.init value lo hi per with
    | .inl e => (st, some e)
    | .inr p => (Function.update st x (some p), none)
  | .par x op =>
    match st x with
    | none => (st, some .KeyError)
    | some p => (Function.update st x (some (pstep sound p op).1), (pstep sound p op).2)
  | .assign c kv => assignRun sound (vars st c) st kv

/-- `leaf.compute_unitary(assign=kv)`: `PS`, `WP` (`HWP`, `QWP`), `PR` start `_compute_unitary` with
`self.assign(assign)`; `BS._compute_unitary` never looks at `assign` (neither do `PERM` / `PBS`, which have no
parameters): `forwards = false`. The matrix is then computed from the store the call leaves. -/
def computeAssign (sound forwards : Bool) (st : LStore) (c : Comp) (kv : List (String × ℚ)) : LStore × Option Exc :=
  if forwards then sstep sound st (.assign c kv) else (st, none)

/-- how a constructor fills one slot -/
inductive Arg
  /-- a number: `Parameter(value=p, name=slot, min_v, max_v, periodic=True)` stored under `key` -/
  | num (key : String) (v : ℚ)
  /-- an existing parameter object -/
  | ref (x : String)
deriving Repr

/-- the `_set_parameter` call of one slot (declared range `[lo, hi]`, periodic) as a session operation -/
def slotOp (lo hi : ℚ) : Arg → SOp
  | .num key v => .new key (some v) (some lo) (some hi) true
  | .ref x => .par x (.bind (some lo) (some hi) (some true))

def Arg.key : Arg → String
  | .num key _ => key
  | .ref x => x

/-- `component.defined` -/
def compDefined (st : LStore) (c : Comp) : Bool :=
  c.all fun k => match st k with
    | some p => p.defined
    | none => false

/-- `_populate_parameters(out, slot, default)`: what `get_variables()` shows for a slot —
`none`: nothing (value within `1e-6` of the default), `inl`: the parameter's name, `inr`: its value -/
def populate (p : Par) (dflt : Option ℚ) : Option (Unit ⊕ ℚ) :=
  match p.val with
  | none => some (.inl ())
  | some v =>
    match dflt with
    | none => some (.inr v)
    | some d => if |v - d| > 1 / 1000000 then some (.inr v) else none

/-! ### ranges of a parameter shared between slots -/

/-- bind a parameter to the slots `(lo, hi)` in turn (all periodic) -/
def bindAll (sound : Bool) (p : Par) (slots : List (ℚ × ℚ)) : Par :=
  slots.foldl (fun q s => (pstep sound q (.bind (some s.1) (some s.2) (some true))).1) p

end PM.C14
