/-
  C11 — list-level model (core Lean only):

  * the permutation helpers of `perceval/utils/algorithms/simplification.py`
    (`extend_perm`, `perm_compose`, `reduce_perm`, `invert_permutation`);
  * `PERM.break_in_2_mode_perms` (the bubble sort) of `unitary_components.py`;
  * the simplifier `simplify` / `_simplify_comp` / `_simplify_perm` / `_simplify_PS`:
    the successive-PERM and single-PERM branches and the phase-shifter walk-back exactly; the
    non-successive branch as a *non-deterministic* step — the heuristic
    `_generate_compatible_perm` is not modelled, any `left_right_perm` satisfying the decidable
    predicate `ValidChoice` is allowed, everything computed from it is modelled exactly.

  A range is always a tuple of consecutive ports, so it is held as `(first port, width)`.
  Out-of-range list accesses (`IndexError` in Python, excluded by the invariants of the callers)
  read a default value here; the correspondence never sends such inputs.
-/

namespace PM.C11

/-! ### permutation helpers -/

/-- `extend_perm(r, perm_list, m)[1]` with `r[0] = r0`, `r[-1] + 1 = r0 + len(perm_list)`:
`list(range(r0)) + [p + r0 for p in perm_list] + list(range(M_r, m))` -/
def extendPerm (r0 : Nat) (σ : List Nat) (m : Nat) : List Nat :=
  List.range r0 ++ σ.map (· + r0) ++ List.range' (r0 + σ.length) (m - (r0 + σ.length))

/-- `perm_compose(left_r, left_perm, right_r, right_perm)`: both extended to
`max_r = max(left_r[-1]+1, right_r[-1]+1)`, then `[right[left[i]] for i in range(len(right))]`;
the returned range is `list(range(max_r))`. -/
def permCompose (lr0 : Nat) (lσ : List Nat) (rr0 : Nat) (rσ : List Nat) : Nat × List Nat :=
  let maxR := max (lr0 + lσ.length) (rr0 + rσ.length)
  let l := extendPerm lr0 lσ maxR
  let r := extendPerm rr0 rσ maxR
  (maxR, (List.range r.length).map fun i => r.getD (l.getD i 0) 0)

/-- the `i` of `reduce_perm`: first index with `perm[i] != i`, `n - 1` when there is none -/
def firstMoved (σ : List Nat) : Nat :=
  match (List.range σ.length).find? (fun i => σ.getD i 0 != i) with
  | some i => i
  | none => σ.length - 1

/-- the `j` of `reduce_perm`: last index with `perm[j] != j`, `0` when there is none -/
def lastMoved (σ : List Nat) : Nat :=
  match (List.range σ.length).reverse.find? (fun j => σ.getD j 0 != j) with
  | some j => j
  | none => 0

/-- `reduce_perm(r, perm)` for `r = (r0, r0+1, …)`: `(r[i:j+1], [perm[k] - i for k in range(i, j+1)])`
as `(first port, perm)`; the range is empty iff the list is.  (A one-mode identity is *kept*:
`i = j = 0`.) -/
def reducePerm (r0 : Nat) (σ : List Nat) : Nat × List Nat :=
  let i := firstMoved σ
  let j := lastMoved σ
  (r0 + i, (List.range' i (j + 1 - i)).map fun k => σ.getD k 0 - i)

/-- `invert_permutation`: `inv[perm[i]] = i` -/
def invertPerm (σ : List Nat) : List Nat := (List.range σ.length).map fun j => σ.idxOf j

/-- a list is a permutation of `0 … n-1` (decidable form) -/
def isPerm (σ : List Nat) : Bool :=
  (List.range σ.length).all fun j => σ.contains j

/-! ### `PERM.break_in_2_mode_perms` -/

/-- exchange positions `k` and `k+1` -/
def swapAdj (l : List Nat) (k : Nat) : List Nat :=
  (l.set k (l.getD (k + 1) 0)).set (k + 1) (l.getD k 0)

/-- the `while new_perm_vec[in_m_pos] != out_m_pos` loop (with fuel): returns the updated vector and
the first ports of the emitted `PERM([1, 0])`, in emission order -/
def bubbleInner (p target : Nat) : Nat → List Nat → List Nat × List Nat
  | 0, vec => (vec, [])
  | fuel + 1, vec =>
    if vec.getD p 0 = target then (vec, [])
    else
      let idx := vec.idxOf target
      let (v, s) := bubbleInner p target fuel (swapAdj vec (idx - 1))
      (v, (idx - 1) :: s)

/-- the outer `for in_m_pos in range(perm_len)` loop over the positions still to visit -/
def bubbleOuter (σ : List Nat) : List Nat → List Nat → List Nat × List Nat
  | [], vec => (vec, [])
  | p :: ps, vec =>
    let (v1, s1) := bubbleInner p (σ.idxOf p) σ.length vec
    let (v2, s2) := bubbleOuter σ ps v1
    (v2, s1 ++ s2)

/-- `break_in_2_mode_perms` for `perm_len ≠ 2`: first ports of the two-mode swaps, in circuit order
(for `perm_len = 2` the component itself is returned) -/
def bubble (σ : List Nat) : List Nat := (bubbleOuter σ (List.range σ.length) (List.range σ.length)).2

/-- the final `new_perm_vec` -/
def bubbleFinal (σ : List Nat) : List Nat :=
  (bubbleOuter σ (List.range σ.length) (List.range σ.length)).1

/-! ### the simplifier -/

/-- phases of numeric phase shifters: `add` is `float(phi) + float(previous_phi)`, `canDrop φ` says
that `φ` is a multiple of `2π` (the code tests `φ % (2*np.pi) != 0` in floating point) -/
class PhaseAlg (P : Type) where
  add : P → P → P
  canDrop : P → Bool

inductive Kind (P : Type) where
  | perm (σ : List Nat)
  | ps (φ : P)           -- numeric phase
  | psVar (id : Nat)     -- `PS` whose `phi` is a variable: never simplified
  | other (id : Nat)     -- anything else, kept by identity
deriving DecidableEq, Repr

structure Item (P : Type) where
  r0 : Nat
  w : Nat
  k : Kind P
deriving DecidableEq, Repr

variable {P : Type}

/-- `new_phi % (2*np.pi) != 0 or display` is the *keep* condition.  When the phase is a multiple of
`2π` and `display` is off, floating-point rounding decides (`wantDrop`); a keep is always sound. -/
def dropDecision [PhaseAlg P] (display wantDrop : Bool) (φ : P) : Bool :=
  !display && PhaseAlg.canDrop φ && wantDrop

/-- the walk-back of `_simplify_PS` over the earlier components (latest first): `none` when no
phase shifter to fuse with is reached -/
def psWalk [PhaseAlg P] (m : Nat) (display wantDrop : Bool) (φ : P) :
    Nat → List (Item P) → Option (List (Item P))
  | _, [] => none
  | r0, it :: rest =>
    match it.k with
    | .ps ψ =>
      if r0 = it.r0 then
        let nφ := PhaseAlg.add φ ψ
        some (if dropDecision display wantDrop nφ then rest else { it with k := .ps nφ } :: rest)
      else (psWalk m display wantDrop φ r0 rest).map (it :: ·)
    | .psVar _ => (psWalk m display wantDrop φ r0 rest).map (it :: ·)
    | .perm σ =>
      let r0' := (invertPerm (extendPerm it.r0 σ m)).getD r0 0
      (psWalk m display wantDrop φ r0' rest).map (it :: ·)
    | .other _ =>
      if it.r0 ≤ r0 ∧ r0 < it.r0 + it.w then none
      else (psWalk m display wantDrop φ r0 rest).map (it :: ·)

/-- `_simplify_PS(components, m, display)`; `comps` are the earlier components in circuit order,
`(r0, φ)` the numeric phase shifter just appended -/
def simplifyPS [PhaseAlg P] (m : Nat) (display wantDrop : Bool) (comps : List (Item P))
    (r0 : Nat) (φ : P) : List (Item P) :=
  match psWalk m display wantDrop φ r0 comps.reverse with
  | some l => l.reverse
  | none =>
    if dropDecision display wantDrop φ then comps else comps ++ [⟨r0, 1, .ps φ⟩]

/-- `_update_adjacent(adjacent_modes, r)`.
Old code (`fixed = false`): the group holding `r[0]` absorbs `r`, every *other* group meeting `r` is
dropped (its remaining modes are lost).  Repaired code (`fixes/C10-simplify-adjacent.diff`): all
groups meeting `r` are merged with `r` into one group at the position of the first of them. -/
def updateAdjacent (fixed : Bool) (adj : List (List Nat)) (r0 w : Nat) : List (List Nat) :=
  let touches := fun (modes : List Nat) => modes.any (fun x => r0 ≤ x && x < r0 + w)
  if fixed then
    let merged := (adj.filter touches).flatten ++ List.range' r0 w
    match adj.findIdx? touches with
    | none => adj ++ [merged]
    | some i => (adj.take i).filter (!touches ·) ++ [merged] ++ (adj.drop i).filter (!touches ·)
  else
    adj.filterMap fun modes =>
      if modes.contains r0 then
        some (modes ++ (List.range' r0 w).filter (fun x => !modes.contains x))
      else if touches modes then none
      else some modes

/-- index of the last `PERM` among the earlier components -/
def lastPermIdx (comps : List (Item P)) : Option Nat :=
  (List.range comps.length).reverse.find? fun i =>
    match comps[i]? with
    | some ⟨_, _, .perm _⟩ => true
    | _ => false

/-- `_evaluate_perm` -/
def evaluatePerm (l r : List Nat) (display : Bool) : Nat :=
  if display then
    let s := (List.range l.length).foldl (fun s i =>
      let v := l.getD i 0
      if i != v then s + (if v ≥ i then v - i else i - v) + 1 else s) 0
    s + l.length + r.length
  else l.length + r.length

/-- `_move_comp(in_components, perm)` -/
def moveComp (inComps : List (Item P)) (perm : List Nat) : List (Item P) :=
  inComps.map fun it => { it with r0 := perm.getD it.r0 0 }

/-- append `PERM(σ)` at `r0` unless the reduced range is empty -/
def pushPerm (l : List (Item P)) (rp : Nat × List Nat) : List (Item P) :=
  if rp.2.isEmpty then l else l ++ [⟨rp.1, rp.2.length, .perm rp.2⟩]

/-- what makes an unravelling permutation usable: it is a permutation of the `m` modes whose
inverse keeps every in-between component's modes consecutive and in order
(`_move_comp` places the component at `[perm[r[0]] + i for i in range(len(r))]`) -/
def validChoice (m : Nat) (inComps : List (Item P)) (ρ : List Nat) : Bool :=
  ρ.length == m && isPerm ρ &&
    inComps.all fun it =>
      let inv := invertPerm ρ
      (List.range it.w).all fun j => inv.getD (it.r0 + j) m == inv.getD it.r0 m + j

/-- the outcome of the non-successive branch for a given choice `ρ = left_right_perm`:
`none` when the scores say "keep the circuit as it is" -/
def unravel (m : Nat) (display : Bool) (before : List (Item P)) (prev : Item P)
    (prevσ : List Nat) (inComps : List (Item P)) (r0 : Nat) (σ : List Nat) (ρ : List Nat) :
    Option (List (Item P)) :=
  let cList := extendPerm r0 σ m
  let prevList := extendPerm prev.r0 prevσ m
  let permList := invertPerm prevList
  let leftLeft := invertPerm ((List.range m).map fun i => permList.getD (ρ.getD i 0) 0)
  let rightPerm := (List.range m).map fun i => cList.getD (ρ.getD i 0) 0
  let right := reducePerm 0 rightPerm
  let left := reducePerm 0 leftLeft
  let oldScore := evaluatePerm (reducePerm 0 prevList).2 (reducePerm 0 cList).2 display
  let newScore := evaluatePerm left.2 right.2 display
  if oldScore > newScore then
    some (pushPerm (pushPerm before left ++ moveComp inComps (invertPerm ρ)) right)
  else none

/-- which branch of `_simplify_perm` applies -/
inductive PermBranch | successive | nonSuccessive | single
deriving DecidableEq, Repr

def permBranch (fixedAdj : Bool) (m : Nat) (comps : List (Item P)) : PermBranch :=
  match lastPermIdx comps with
  | none => .single
  | some i =>
    if i + 1 = comps.length then .successive
    else
      let adj := (comps.drop (i + 1)).foldl (fun a it => updateAdjacent fixedAdj a it.r0 it.w)
        ((List.range m).map fun j => [j])
      if adj.length > 1 then .nonSuccessive else .single

/-- `_simplify_perm(components, m, display)`; `choice` is the heuristic's `left_right_perm`
(used by the non-successive branch only).  An invalid choice is rejected (`none`). -/
def simplifyPerm (fixedAdj : Bool) (m : Nat) (display : Bool) (comps : List (Item P)) (r0 : Nat) (σ : List Nat)
    (choice : Option (List Nat)) : Option (List (Item P)) :=
  match permBranch fixedAdj m comps with
  | .single => some (pushPerm comps (reducePerm r0 σ))
  | .successive =>
    match comps.getLast? with
    | some ⟨lr0, _, .perm lσ⟩ =>
      let c := permCompose lr0 lσ r0 σ
      some (pushPerm comps.dropLast (reducePerm 0 c.2))
    | _ => none
  | .nonSuccessive =>
    let keep := pushPerm comps (reducePerm 0 (extendPerm r0 σ m))
    match choice, lastPermIdx comps with
    | none, _ => some keep
    | some ρ, some i =>
      match comps[i]? with
      | some ⟨pr0, pw, .perm pσ⟩ =>
        let inComps := comps.drop (i + 1)
        if validChoice m inComps ρ then
          match unravel m display (comps.take i) ⟨pr0, pw, .perm pσ⟩ pσ inComps r0 σ ρ with
          | some l => some l
          | none => some keep
        else none
      | _ => none
    | _, none => none

/-- one iteration of the loop of `simplify`: append the component, run `_simplify_comp` -/
def simplifyStep [PhaseAlg P] (fixedAdj : Bool) (m : Nat) (display wantDrop : Bool) (choice : Option (List Nat))
    (comps : List (Item P)) (it : Item P) : Option (List (Item P)) :=
  match it.k with
  | .perm σ => simplifyPerm fixedAdj m display comps it.r0 σ choice
  | .ps φ => some (simplifyPS m display wantDrop comps it.r0 φ)
  | _ => some (comps ++ [it])

/-- the unravelling permutation the implementation used, recovered from what it produced:
`left_left = ρ⁻¹ ∘ prev`, hence `ρ = prev ∘ left_left⁻¹` -/
def recoverChoice (m : Nat) (comps after : List (Item P)) : Option (List Nat) :=
  match lastPermIdx comps with
  | none => none
  | some i =>
    match comps[i]? with
    | some ⟨pr0, _, .perm pσ⟩ =>
      let prevList := extendPerm pr0 pσ m
      let leftLeft := match after[i]? with
        | some ⟨lr0, _, .perm lσ⟩ => extendPerm lr0 lσ m
        | _ => List.range m
      let inv := invertPerm leftLeft
      some ((List.range m).map fun j => prevList.getD (inv.getD j 0) 0)
    | _ => none

end PM.C11
