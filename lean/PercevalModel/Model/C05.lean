/-
  C05 — results depend on the current configuration only, never on call history.

  Four state machines with *ghost-tagged caches*, one per kind of long-lived object.  Core Lean only.

  * `B`   one strong-simulation backend object (`kind` = Naive | SLAP | SLOS | MPS):
          `_abstract_backends.py` (`ABackend`, `AStrongSimulationBackend`: `set_circuit`, `set_input_state`,
          `set_mask`, `_init_mask`, `clear_mask`, `_get_iterator`, `clear_iterator_cache`),
          `_slos.py` (`_reset`, `set_circuit` path reuse, `clear_mask`, `_deploy`, `preprocess`, queries),
          `_slap.py` (`_fock_space`), `_mps.py` (`set_cutoff`, `_compile`, `_sv_diag`).
  * `St`  one `Stepper` (`_compiled_input`, `_out`, `_clear_cache`).
  * `Si`  one `Simulator` (`_evolve` cache with both kinds of keys, `_invalidate_cache`, `init_use_mask`,
          `_best_n`, `_evolve_cache_with_n`, `_evolve_cache`, the mask left on the backend
          (`use_mask` / `_clear_backend_mask`), generic / fast `probs_svd` paths, `evolve`, `evolve_svd`,
          `probs`, `probability`, `prob_amplitude`).
  * `Pr`  one `Processor` (`_simulator` and the selection it was built for, its precision and
          `_simulator_precision_set`, `_inputs_map`, `_source`, the phase-noise snapshot, observers,
          `add` / `add_herald` / `set_postselection` / `clear_postselection` / detectors /
          `with_input` of a Fock state or of a distribution / the automatic photon filter /
          a NoiseModel updated in place, `probs(precision)`, `samples`).

  Values that the caches do not inspect are abstract identifiers (`Nat`): a circuit is `(m, uid)` where
  `uid` names the unitary computed by `set_circuit`; a list of mask strings is `(sid, len)`; heralds,
  post-selection, noise models, inputs are identifiers.  A cache entry carries as a *ghost* the part of
  the configuration it was computed from; a query returns the ghosts of the entries it read
  (`Out.res …`), i.e. *which configuration the returned numbers belong to*.  The property is that this is
  always the current configuration, equivalently what a freshly constructed object returns.

  `fixed : Bool` selects the code as it stood on the pinned tree (`false`) or with the repairs
  `fixes/C05-slos-mask.diff` (SLOS queries re-deploy the current input when the computation graph was
  dropped by a mask change), `fixes/C05-slos-mask-instance.diff` (SLOS drops the graph when the mask is
  re-instantiated for another photon number), `fixes/C05-mps-cutoff.diff` (`_compile` does not overwrite
  the requested cut-off; `set_cutoff` recompiles), `fixes/C05-stepper-filter.diff` (photon filter is part
  of the Stepper's compiled key), `fixes/C05-simulator-mask-mode.diff` (`init_use_mask` invalidates the
  evolve cache when the mask mode changes), `fixes/C05-simulator-evolve-mask-mode.diff` (`evolve` sets the
  mask mode itself), `fixes/C05-simulator-leftover-mask.diff` and /repo df89d90b (`probs`, `probability`,
  `prob_amplitude`, `init_use_mask` remove the mask an earlier call left on the backend) (`true`, the main
  model).  `fixes/C05-processor-precision.diff` and `fixes/C05-experiment-set-circuit.diff` are part of the
  Processor model as it is (no unrepaired variant of them is kept).

  Not modelled (assumptions, exercised by the correspondence): the numbers themselves (exqalibur kernels,
  numpy); `FSMask`/`FSArray` contents (a mask instance is identified by `(sid, n)`, an array by
  `(m, mask instance)`); a mask whose length differs from the circuit size (the model refuses the
  operation with `AssertionError` and leaves the state unchanged — the real code fails half-way; the
  harness does not generate it); symbolic SLOS; `Stepper._result_dict` (keyed by `describe()`, assumed
  injective on the parameter values used); that masked and unmasked evaluation agree after herald
  post-selection (C04).
-/
import PercevalModel.Found.SM

namespace PM.C05

def sum (l : List Nat) : Nat := l.foldr (· + ·) 0

/-! ## Backends -/

inductive Kind | naive | slap | slos | mps
  deriving DecidableEq, Repr, Inhabited

structure Circ where
  m : Nat
  uid : Nat
  deriving DecidableEq, Repr

/-- `_masks_str` (identified by `sid`, strings of length `len`) and `_mask_n` -/
structure MaskCfg where
  sid : Nat
  len : Nat
  n : Option Nat
  deriving DecidableEq, Repr

/-- an instantiated `xq.FSMask`: `(sid, n)`; `none` = no mask -/
abbrev MInst := Option (Nat × Nat)

/-- what a Fock-space enumeration (`allstate_iterator`, `FSArray`, `FSMap`) depends on: `(m, mask)` -/
abbrev Tag := Nat × MInst

/-- `self._mask_n or instate.n` (a `_mask_n` of 0 is falsy) -/
def maskN (n : Option Nat) (k : Nat) : Nat :=
  match n with
  | some (j + 1) => j + 1
  | _ => k

/-- the mask instance `_init_mask` builds for an input of `k` photons -/
def expInst (mask : Option MaskCfg) (k : Nat) : MInst :=
  mask.map fun mc => (mc.sid, maskN mc.n k)

def lookup {α : Type} (k : Nat) : List (Nat × α) → Option α
  | [] => none
  | (k', v) :: r => if k' = k then some v else lookup k r

def lookupL {α : Type} (k : List Nat) : List (List Nat × α) → Option α
  | [] => none
  | (k', v) :: r => if k' = k then some v else lookupL k r

structure B where
  kind : Kind
  circ : Option Circ                 -- `_circuit`, `_umat`
  input : Option (List Nat)          -- `_input_state`
  mask : Option MaskCfg              -- `_masks_str`, `_mask_n`
  minst : MInst                      -- `_mask`
  iter : List (Nat × Tag)            -- `_cache_iterator`: photon number ↦ ghost (m, mask instance)
  instN : Option Nat                 -- SLOS `_mask_instance_n` (fixed code only)
  layers : List Tag                  -- SLOS `_fsms[1:]`, `_mk_l[1:]`: ghost per layer
  fsas : List (Nat × Tag)            -- SLOS `_fsas`
  paths : List (List Nat × Nat)      -- SLOS `_state_mapping` / `_path_roots`: input ↦ ghost unitary uid
  fock : Option (Nat × Nat)          -- SLAP `_fock_space` (m, n)
  cutReq : Option Nat                -- MPS: the cut-off the user asked for
  cutCur : Option Nat                -- MPS `_cutoff`
  compiled : Option (List Nat × Nat × Nat)   -- MPS `_res[input]`: ghost (input, unitary uid, cut-off used)
  deriving Repr

def initB (k : Kind) : B :=
  { kind := k, circ := none, input := none, mask := none, minst := none, iter := [], instN := none,
    layers := [], fsas := [], paths := [], fock := none, cutReq := none, cutCur := none, compiled := none }

/-- the configuration of a backend: what the user set last -/
structure BCfg where
  circ : Option Circ
  input : Option (List Nat)
  mask : Option MaskCfg
  cutoff : Option Nat
  deriving DecidableEq, Repr

def B.config (s : B) : BCfg := ⟨s.circ, s.input, s.mask, s.cutReq⟩

/-- `ampOther`: `prob_amplitude` / `probability` of an output state with another photon number than the
input (answered 0 before any cache is read) -/
inductive Q | dist | allprob | evolve | amp | ampOther
  deriving DecidableEq, Repr

inductive Op
  | setCircuit (c : Circ)
  | setInput (s : List Nat)
  | setMask (sid len : Nat) (n : Option Nat)
  | clearMask
  | setCutoff (k : Nat)
  | query (q : Q)
  deriving Repr

inductive Out
  | ok
  | exc (e : String)
  /-- numbers computed from unitary `uid`, input `s`, enumeration `tag`, (MPS) cut-off `cut` -/
  | res (uid : Nat) (s : List Nat) (tag : Tag) (cut : Option Nat)
  /-- entries computed for different configurations were combined (garbage or a crash in the real code) -/
  | stale
  deriving DecidableEq, Repr

/-- SLOS `_reset` -/
def reset (s : B) : B :=
  { s with layers := [], fsas := [], paths := [], minst := none, instN := none, iter := [] }

/-- `_init_mask` (with the SLOS override of the fixed code) -/
def initMask (fixed : Bool) (s : B) : B :=
  match s.mask, s.input with
  | some mc, some inp =>
    let n := maskN mc.n (sum inp)
    let s1 := if fixed = true ∧ s.kind = .slos ∧ s.instN ≠ some n then { reset s with instN := some n } else s
    { s1 with minst := some (mc.sid, n) }
  | _, _ => s

/-- SLOS `preprocess([input])`: `_deploy` + a new `_Path` -/
def deploy (s : B) (inp : List Nat) : B :=
  match s.circ with
  | none => s
  | some c =>
    match lookupL inp s.paths with
    | some _ => s
    | none =>
      let n := sum inp
      let tag : Tag := (c.m, s.minst)
      { s with layers := s.layers ++ List.replicate (n - s.layers.length) tag,
               fsas := match lookup n s.fsas with
                 | some _ => s.fsas
                 | none => (n, tag) :: s.fsas,
               paths := (inp, c.uid) :: s.paths }

/-- the bond dimension `_compile` uses -/
def effCut (base : Option Nat) (inp : List Nat) : Nat :=
  let d := sum inp + 1
  let k0 := match base with
    | some k => if k < d then d else k
    | none => d
  min k0 (d ^ (inp.length / 2))

/-- MPS `_compile` (always recompiles: `self._input_state in self._res` compares a `BasicState` with
tuple keys and is never true) -/
def compile (fixed : Bool) (s : B) (inp : List Nat) : B :=
  match s.circ with
  | none => s
  | some c =>
    let k := effCut (if fixed then s.cutReq else s.cutCur) inp
    { s with cutCur := some k, compiled := some (inp, c.uid, k) }

/-- `_get_iterator(self._input_state)` -/
def getIter (s : B) (c : Circ) (inp : List Nat) : B × Tag :=
  match lookup (sum inp) s.iter with
  | some t => (s, t)
  | none => ({ s with iter := (sum inp, (c.m, s.minst)) :: s.iter }, (c.m, s.minst))

/-- the tag shared by SLOS layers `1..n` and `_fsas[n]`, if they agree -/
def slosTag (s : B) (n : Nat) : Option Tag :=
  match lookup n s.fsas with
  | some t => if n ≤ s.layers.length ∧ (s.layers.take n).all (· == t) = true then some t else none
  | none => none

/-- the assertion of `_init_mask`: mask strings and input state have different lengths -/
def badLen (mask : Option MaskCfg) (len : Nat) : Bool :=
  match mask with
  | some mc => mc.len != len
  | none => false

def badLenI (input : Option (List Nat)) (len : Nat) : Bool :=
  match input with
  | some inp => inp.length != len
  | none => false

def usesIter : Kind → Q → Bool
  | _, .ampOther => false
  | .naive, .amp => false
  | .naive, _ => true
  | .mps, .amp => false
  | .mps, _ => true
  | .slos, .dist => true
  | .slos, .evolve => true
  | .slos, _ => false
  | .slap, .dist => true
  | .slap, _ => false

def queryB (fixed : Bool) (s : B) (q : Q) : B × Out :=
  match s.circ, s.input with
  | some c, some inp =>
    if q = .ampOther then (s, .res c.uid inp (c.m, none) none) else
    match s.kind with
    | .naive =>
      if usesIter .naive q then
        let (s1, t) := getIter s c inp
        (s1, .res c.uid inp t none)
      else (s, .res c.uid inp (c.m, none) none)
    | .mps =>
      match s.compiled with
      | some (ci, cu, ck) =>
        if ci = inp ∧ s.cutCur = some ck then
          if usesIter .mps q then
            let (s1, t) := getIter s c inp
            (s1, .res cu inp t (some ck))
          else (s, .res cu inp (c.m, none) (some ck))
        else (s, .stale)
      | none => (s, .stale)
    | .slap =>
      if s.fock = some (inp.length, sum inp) then
        if q = .amp then (s, .res c.uid inp (c.m, none) none)
        else if usesIter .slap q then
          let (s1, t) := getIter s c inp
          (s1, if t = (c.m, s.minst) then .res c.uid inp t none else .stale)
        else (s, .res c.uid inp (c.m, s.minst) none)
      else (s, .stale)
    | .slos =>
      -- fixed code: `_input_path` deploys the input again when the graph was dropped
      let s0 := if fixed then deploy s inp else s
      match lookupL inp s0.paths with
      | none => (s0, .exc "KeyError")
      | some u =>
        match slosTag s0 (sum inp) with
        | none => (s0, .stale)
        | some t =>
          if usesIter .slos q then
            let (s1, ti) := getIter s0 c inp
            (s1, if ti = t then .res u inp t none else .stale)
          else (s0, .res u inp t none)
  | _, _ => (s, .exc "NoInput")

def stepB (fixed : Bool) (s : B) : Op → B × Out
  | .setCircuit c =>
    let s1 := match s.kind with
      | .slos =>
        match s.circ with
        | some p =>
          if s.paths ≠ [] ∧ p.m = c.m then { s with paths := s.paths.map fun (x : List Nat × Nat) => (x.1, c.uid) }
          else reset s
        | none => reset s
      | _ =>
        -- `if self._circuit and circuit.m != self._circuit:` compares an int with a circuit: always true
        if s.circ.isSome then { s with iter := [] } else s
    ({ s1 with circ := some c, input := none }, .ok)
  | .setInput inp =>
    match s.circ with
    | none => (s, .exc "AssertionError")
    | some c =>
      if inp.length ≠ c.m then (s, .exc "AssertionError")
      else if badLen s.mask inp.length then (s, .exc "AssertionError")
      else
        let s1 := initMask fixed { s with input := some inp }
        let s2 := match s.kind with
          | .slos => deploy s1 inp
          | .slap => { s1 with fock := some (inp.length, sum inp) }
          | .mps => compile fixed s1 inp
          | .naive => s1
        (s2, .ok)
  | .setMask sid len n =>
    if badLenI s.input len then (s, .exc "AssertionError")
    else
      -- `clear_mask()` then the new strings then `_init_mask()`
      let s1 := { s with mask := none, minst := none, iter := [] }
      let s2 := if s.kind = .slos then reset s1 else s1
      (initMask fixed { s2 with mask := some ⟨sid, len, n⟩ }, .ok)
  | .clearMask =>
    let s1 := { s with mask := none, minst := none, iter := [] }
    (if s.kind = .slos then reset s1 else s1, .ok)
  | .setCutoff k =>
    if s.kind = .mps then
      if fixed then
        let s1 := { s with cutReq := some k }
        (match s.input with
          | some inp => compile fixed s1 inp
          | none => s1, .ok)
      else ({ s with cutReq := some k, cutCur := some k }, .ok)
    else (s, .exc "AttributeError")
  | .query q => queryB fixed s q

/-- configuring a new object: cut-off, mask, circuit, input -/
def canonB (cfg : BCfg) : List Op :=
  (match cfg.cutoff with | some k => [Op.setCutoff k] | none => []) ++
  (match cfg.mask with | some mc => [Op.setMask mc.sid mc.len mc.n] | none => []) ++
  (match cfg.circ with | some c => [Op.setCircuit c] | none => []) ++
  (match cfg.input with | some s => [Op.setInput s] | none => [])

/-- what a freshly constructed backend of kind `k`, given only the configuration, answers -/
def freshB (fixed : Bool) (k : Kind) (cfg : BCfg) (q : Q) : Out :=
  (stepB fixed (SM.exec (stepB fixed) (initB k) (canonB cfg)) (.query q)).2

/-- closed form of the answer in terms of the configuration only -/
def specB (k : Kind) (cfg : BCfg) (q : Q) : Out :=
  match cfg.circ, cfg.input with
  | some c, some inp =>
    let tag : Tag := (c.m, expInst cfg.mask (sum inp))
    match k with
    | .naive => .res c.uid inp (if usesIter .naive q then tag else (c.m, none)) none
    | .mps => .res c.uid inp (if usesIter .mps q then tag else (c.m, none)) (some (effCut cfg.cutoff inp))
    | .slap => .res c.uid inp (if q = .amp then (c.m, none) else tag) none
    | .slos => .res c.uid inp tag none
  | _, _ => .exc "NoInput"

/-! ## Stepper -/

structure St where
  circ : Option Nat                         -- `_C` (identifier of the circuit object)
  pv : Nat                                  -- current values of the variable parameters
  filt : Nat                                -- `min_detected_photons_filter` (heralds included)
  compiled : Option (Nat × Nat × Nat)       -- `_compiled_input`: (pv, input, filter [fixed code only])
  out : Nat × Nat × Nat × Nat               -- ghost of `_out`: (circuit, pv, input, filter)
  deriving Repr

def initSt : St := ⟨none, 0, 0, none, (0, 0, 0, 0)⟩

inductive StOp
  | setCircuit (c : Nat)
  | setParams (pv : Nat)
  | setFilter (k : Nat)
  | evolve (inp : Nat)
  deriving Repr

inductive StOut
  | ok
  | exc (e : String)
  | res (circ pv inp filt : Nat)
  deriving DecidableEq, Repr

def stepSt (fixed : Bool) (s : St) : StOp → St × StOut
  | .setCircuit c => ({ s with circ := some c, compiled := none }, .ok)
  | .setParams pv => ({ s with pv := pv }, .ok)
  | .setFilter k => ({ s with filt := k }, .ok)
  | .evolve inp =>
    match s.circ with
    | none => (s, .exc "NoCircuit")
    | some c =>
      let key := (s.pv, inp, if fixed then s.filt else 0)
      if s.compiled = some key then (s, .res s.out.1 s.out.2.1 s.out.2.2.1 s.out.2.2.2)
      else ({ s with compiled := some key, out := (c, s.pv, inp, s.filt) }, .res c s.pv inp s.filt)

structure StCfg where
  circ : Option Nat
  pv : Nat
  filt : Nat
  deriving DecidableEq, Repr

def St.config (s : St) : StCfg := ⟨s.circ, s.pv, s.filt⟩

def canonSt (cfg : StCfg) : List StOp :=
  [.setParams cfg.pv, .setFilter cfg.filt] ++ (match cfg.circ with | some c => [StOp.setCircuit c] | none => [])

def freshSt (fixed : Bool) (cfg : StCfg) (inp : Nat) : StOut :=
  (stepSt fixed (SM.exec (stepSt fixed) initSt (canonSt cfg)) (.evolve inp)).2

/-! ## Simulator

  Modelled: `_evolve` (both kinds of keys: `(state, n)` written by `_evolve_cache_with_n`, bare `state` written by
  `_evolve_cache`), `_can_use_mask`, `_n_heralds`, the mask the simulator leaves on its backend
  (`_backend._masks_str / _mask_n`, set by `use_mask`, removed by `_clear_backend_mask`), and every public
  query: `probs_svd` (generic / fast path), `evolve` (= `probs(StateVector)` for a superposed input),
  `evolve_svd`, `probs(BasicState)`, `probability` and `prob_amplitude`.
-/

/-- the mask the simulator put on its backend: (heralds it was built from, photon number it is instantiated
with); `none` = no mask -/
abbrev BMask := Option (Nat × Nat)

/-- ghost of an `_evolve` entry: circuit, mask on the backend when it was computed -/
abbrev SiGhost := Nat × BMask

structure Si where
  circ : Option Nat
  heralds : Nat            -- identifier of the heralds dict (0 = empty)
  nHeralds : Nat           -- `_n_heralds`
  other : Nat              -- post-selection, filter, precision, keep_heralds: never cached
  canMask : Bool           -- `_can_use_mask`
  bmask : BMask            -- `_backend._masks_str`, `_backend._mask_n`
  evolve : List ((Nat × Nat) × SiGhost)      -- `_evolve[(state, n)]`
  bare : List (Nat × SiGhost)                -- `_evolve[state]` (written by `probs(BasicState)`)
  deriving Repr

def initSi : Si := ⟨none, 0, 0, 0, false, none, [], []⟩

/-- one separated input component: (state identifier, photons of the whole input, own photons) -/
abbrev SiKey := Nat × Nat × Nat

inductive SiOp
  | setCircuit (c : Nat)
  | setHeralds (h n : Nat)          -- identifier (non-zero) and photon sum
  | clearHeralds
  | setOther (o : Nat)
  /-- `probs_svd`: detectors PNR or not; superposed (generic path, uses `_evolve`) or not (fast path) -/
  | probsSvd (pnr generic : Bool) (keys : List SiKey)
  /-- `evolve`; `probs(StateVector)` of a superposed vector -/
  | evolve (keys : List SiKey)
  /-- `evolve_svd`: one group per state vector — does it pass the photon filter, its components.  Every
  component is evolved (`_prepare_decomposed_input`), the vectors that pass are rebuilt from the cache -/
  | evolveSvd (groups : List (Bool × List SiKey))
  /-- `probs(BasicState)`: the separated components, cached under the bare state -/
  | probs (sts : List Nat)
  /-- `probability(BasicState, BasicState)` / `prob_amplitude(BasicState, BasicState)` for a non-vacuum input:
  nothing cached, one backend call per separated component -/
  | direct (sts : List Nat)
  deriving Repr

inductive SiOut
  | ok
  | exc (e : String)
  /-- the (state, circuit) ghosts of the evolved states combined into the answer, and the selection settings
  applied.  The photon budget `n` of a key is not part of the answer: masked and unmasked evaluation are
  assumed to agree after herald post-selection (C04). -/
  | res (parts : List (Nat × Nat)) (heralds other : Nat)
  /-- `probability` / `prob_amplitude`: no heralding, no post-selection -/
  | raw (parts : List (Nat × Nat))
  /-- a part was computed under a mask that is not the one the current configuration asks for -/
  | stale
  deriving DecidableEq, Repr

/-- `_best_n` -/
def bestN (canMask : Bool) (nH nExt nOwn : Nat) : Nat :=
  if canMask then min nExt (nOwn + nH) else nOwn + nH

def lookupK (k : Nat × Nat) : List ((Nat × Nat) × SiGhost) → Option SiGhost
  | [] => none
  | (k', v) :: r => if k' = k then some v else lookupK k r

/-- the mask a state with budget `n` has to be evolved under: `use_mask(n)` (not called for `n = 0`) -/
def wantM (canMask : Bool) (heralds n : Nat) : BMask :=
  if canMask = true ∧ n ≠ 0 then some (heralds, n) else none

/-- `_evolve_cache_with_n` followed by reading the entries of the flagged keys.  The code walks the keys sorted
by `n`: a missing key with `n = 0` is computed before any `use_mask` call of this walk, i.e. under the mask
`bm0` found on the backend when the walk starts; a missing key with `n ≠ 0` is computed after `use_mask(n)`.
(The mask left on the backend is the one of the last missing key in the given order: the driver is given the
keys in the order of the walk.) -/
def evolveAllF (s : Si) (c : Nat) (bm0 : BMask) : List (Bool × SiKey) → Si × List ((Nat × Nat) × SiGhost)
  | [] => (s, [])
  | (fl, st, nExt, nOwn) :: r =>
    let n := bestN s.canMask s.nHeralds nExt nOwn
    match lookupK (st, n) s.evolve with
    | some g =>
      let (s1, l) := evolveAllF s c bm0 r
      (s1, if fl then ((st, n), g) :: l else l)
    | none =>
      let g : SiGhost := (c, if n = 0 then bm0 else wantM s.canMask s.heralds n)
      let (s1, l) := evolveAllF { s with evolve := ((st, n), g) :: s.evolve,
                                         bmask := if n = 0 then s.bmask else wantM s.canMask s.heralds n } c bm0 r
      (s1, if fl then ((st, n), g) :: l else l)

def allT (keys : List SiKey) : List (Bool × SiKey) := keys.map fun k => (true, k)

/-- the keys of `evolve_svd` with the flag of their vector -/
def flagged (groups : List (Bool × List SiKey)) : List (Bool × SiKey) :=
  groups.flatMap fun g => g.2.map fun k => (g.1, k)

/-- the answer if every part was computed under the mask the current mode asks for, `stale` otherwise -/
def siAnswer (s : Si) (parts : List ((Nat × Nat) × SiGhost)) : SiOut :=
  if parts.all (fun p => p.2.2 == wantM s.canMask s.heralds p.1.2) = true then
    .res (parts.map fun p => (p.1.1, p.2.1)) s.heralds s.other
  else .stale

/-- `_evolve_cache` (after the mask was cleared, in the repaired code) followed by reading the entries -/
def bareAll (s : Si) (c : Nat) : List Nat → Si × List (Nat × SiGhost)
  | [] => (s, [])
  | st :: r =>
    match lookup st s.bare with
    | some g =>
      let (s1, l) := bareAll s c r
      (s1, (st, g) :: l)
    | none =>
      let g : SiGhost := (c, s.bmask)
      let (s1, l) := bareAll { s with bare := (st, g) :: s.bare } c r
      (s1, (st, g) :: l)

/-- `_clear_backend_mask` (repaired code only: `fixes/C05-simulator-leftover-mask.diff`) -/
def clearB (fixed : Bool) (s : Si) : Si := if fixed then { s with bmask := none } else s

/-- `init_use_mask`: the repaired code drops the cache when the mode changes and removes a mask left on the
backend by an earlier call -/
def initUseMask (fixed : Bool) (s : Si) (pnr : Bool) : Si :=
  let cm := (s.heralds != 0) && pnr
  let s1 := if fixed = true ∧ cm ≠ s.canMask then { s with evolve := [], bare := [] } else s
  clearB fixed { s1 with canMask := cm }

def stepSi (fixed : Bool) (s : Si) : SiOp → Si × SiOut
  | .setCircuit c => ({ s with circ := some c, evolve := [], bare := [] }, .ok)
  | .setHeralds h n => ({ s with heralds := h, nHeralds := n, evolve := [], bare := [] }, .ok)
  | .clearHeralds => ({ s with heralds := 0, nHeralds := 0, evolve := [], bare := [] }, .ok)
  | .setOther o => ({ s with other := o }, .ok)
  | .probsSvd pnr generic keys =>
    match s.circ with
    | none => (s, .exc "NoCircuit")
    | some c =>
      let s1 := initUseMask fixed s pnr
      if generic then
        let (s2, parts) := evolveAllF s1 c s1.bmask (allT keys)
        (s2, siAnswer s2 parts)
      else
        -- fast path: the same walk over a local cache (everything is computed now); `_evolve` is not touched
        let (s2, parts) := evolveAllF { s1 with evolve := [] } c s1.bmask (allT keys)
        ({ s2 with evolve := s1.evolve }, siAnswer s2 parts)
  | .evolve keys =>
    match s.circ with
    | none => (s, .exc "NoCircuit")
    | some c =>
      -- repaired code: `evolve` sets the mask mode itself (`init_use_mask(True)`, as `evolve_svd` does);
      -- the pinned tree inherits the mode of the last `probs_svd` / `evolve_svd`
      let s1 := if fixed then initUseMask fixed s true else s
      let (s2, parts) := evolveAllF s1 c s1.bmask (allT keys)
      (s2, siAnswer s2 parts)
  | .evolveSvd groups =>
    match s.circ with
    | none => (s, .exc "NoCircuit")
    | some c =>
      let s1 := initUseMask fixed s true
      let (s2, parts) := evolveAllF s1 c s1.bmask (flagged groups)
      (s2, siAnswer s2 parts)
  | .probs sts =>
    match s.circ with
    | none => (s, .exc "NoCircuit")
    | some c =>
      let (s2, parts) := bareAll (clearB fixed s) c sts
      (s2, if parts.all (fun p => p.2.2 == none) = true then
             .res (parts.map fun p => (p.1, p.2.1)) s2.heralds s2.other
           else .stale)
  | .direct sts =>
    match s.circ with
    | none => (s, .exc "NoCircuit")
    | some c =>
      let s1 := clearB fixed s
      (s1, if s1.bmask = none then .raw (sts.map fun st => (st, c)) else .stale)

def SiOp.isQuery : SiOp → Bool
  | .probsSvd .. | .evolve _ | .evolveSvd _ | .probs _ | .direct _ => true
  | _ => false

structure SiCfg where
  circ : Option Nat
  heralds : Nat
  nHeralds : Nat
  other : Nat
  deriving DecidableEq, Repr

def Si.config (s : Si) : SiCfg := ⟨s.circ, s.heralds, s.nHeralds, s.other⟩

def canonSi (cfg : SiCfg) : List SiOp :=
  [.setOther cfg.other, .setHeralds cfg.heralds cfg.nHeralds] ++
  (match cfg.circ with | some c => [SiOp.setCircuit c] | none => [])

/-- what a freshly constructed simulator, given only the configuration, answers to the query `q` -/
def freshSi (fixed : Bool) (cfg : SiCfg) (q : SiOp) : SiOut :=
  (stepSi fixed (SM.exec (stepSi fixed) initSi (canonSi cfg)) q).2

def specSi (cfg : SiCfg) (keys : List SiKey) : SiOut :=
  match cfg.circ with
  | none => .exc "NoCircuit"
  | some c => .res (keys.map fun k => (k.1, c)) cfg.heralds cfg.other

/-- the components of the vectors of an `evolve_svd` input that pass the photon filter -/
def usedKeys (groups : List (Bool × List SiKey)) : List SiKey :=
  ((flagged groups).filter (·.1)).map (·.2)

/-- closed form of every query in terms of the configuration only -/
def specSiQ (cfg : SiCfg) : SiOp → SiOut
  | .probsSvd _ _ keys => specSi cfg keys
  | .evolve keys => specSi cfg keys
  | .evolveSvd groups => specSi cfg (usedKeys groups)
  | .probs sts =>
    match cfg.circ with
    | none => .exc "NoCircuit"
    | some c => .res (sts.map fun st => (st, c)) cfg.heralds cfg.other
  | .direct sts =>
    match cfg.circ with
    | none => .exc "NoCircuit"
    | some c => .raw (sts.map fun st => (st, c))
  | _ => .ok

/-! ## Processor

  Modelled: the kept simulator (`_simulator`: built by `SimulatorFactory.build` from the heralds and the
  post-selection of that moment, with the default precision; on later calls only the circuit and the photon
  filter are given again, the detectors are passed at every call), `_simulator_precision_set`, `_source`,
  `_inputs_map`, the phase noise snapshot of `Experiment.noise`, the merged `_input_state` of
  `with_input(BasicState)` (the heralds of that moment are written into it), `with_input` of a distribution
  (`SVDistribution` / `StateVector`: the source is bypassed, `_noise_changed_observer` keeps `_inputs_map`),
  the automatic photon filter of `check_min_detected_photons_filter` (stored as if the user had set it), and a
  `NoiseModel` object updated in place while the processor holds it (`held` — nothing in the code reads it
  before it is assigned again).
-/

inductive InKind | bs | svd
  deriving DecidableEq, Repr

/-- the values of a noise model: identifier, and whether the source built from them is perfect -/
abbrev NoiseV := Nat × Bool

/-- `_input_state` -/
structure PrIn where
  kind : InKind
  id : Nat          -- the state / distribution the user gave
  n : Nat           -- photons the user gave on the modes of interest (bs)
  her : Nat         -- heralds written into the merged state (bs; 0 for a distribution)
  nHer : Nat        -- their photons
  deriving DecidableEq, Repr

/-- ghost of `_simulator` -/
structure SimG where
  her : Nat
  ps : Nat
  prec : Option Nat       -- `none` = the default precision
  deriving DecidableEq, Repr

structure Pr where
  comps : Nat                      -- components and parameter values (re-read at every `probs`)
  her : Nat                        -- heralds (identifier, 0 = none)
  nHer : Nat                       -- photons they expect
  ps : Nat                         -- post-selection (0 = none)
  det : Nat                        -- detectors (passed at every `probs`)
  held : NoiseV                    -- what the held NoiseModel object shows now (`processor.noise`)
  noise : NoiseV                   -- its values when it was assigned (ghost of `_phase_noise`)
  source : NoiseV                  -- ghost of `_source`
  input : Option PrIn
  filtUser : Option Nat            -- ghost: the filter the user asked for
  filt : Option Nat                -- `_min_detected_photons_filter`
  auto : Bool                      -- ghost: the stored filter was written by the automatic rule
  inputsMap : Option (Option Nat × PrIn)   -- ghost of `_inputs_map`: noise of the source that generated it
                                           -- (`none`: a distribution given by the user), input
  sim : Option SimG
  precSet : Bool                   -- `_simulator_precision_set`
  deriving Repr

def initPr : Pr :=
  { comps := 0, her := 0, nHer := 0, ps := 0, det := 0, held := (0, true), noise := (0, true),
    source := (0, true), input := none, filtUser := none, filt := none, auto := false, inputsMap := none,
    sim := none, precSet := false }

inductive PrOp
  | setComps (c : Nat)             -- parameter change: no observer fires
  | addComp (c : Nat)              -- `add` of a component, `set_circuit`: `_circuit_changed`
  | addDet (d : Nat)               -- `add` of a detector
  | addHerald (h n : Nat)          -- `add_herald`: the new heralds and their photons
  | setPs (p : Nat)                -- `set_postselection`
  | clearPs                        -- `clear_postselection` (notifies only if there was one)
  | setNoise (v : NoiseV)          -- `processor.noise = nm`
  | mutateNoise (v : NoiseV)       -- `nm.set_value(…)` on the held object, the processor is not told
  | withInput (k : InKind) (i n : Nat)
  | setFilter (k : Nat)
  | probs (prec : Option Nat)
  /-- `Processor.samples(…)` (a sampling engine): a NEW `NoisySamplingSimulator` at every call, given the linear
  circuit, the stored filter, the current post-selection, heralds and detectors, and as provider either
  `(_source, _input_state)` (Fock-state input) or `source_distribution` (a distribution given by the user) -/
  | samples
  deriving Repr

/-- which configuration the returned numbers belong to -/
structure PrAns where
  comps : Nat
  her : Nat
  ps : Nat
  det : Nat
  phase : Nat            -- noise the phase quantisation was taken from
  src : Option Nat       -- noise the input distribution was generated from (`none`: given by the user)
  kind : InKind
  inp : Nat
  herIn : Nat            -- heralds written into the input
  filt : Nat
  prec : Option Nat
  deriving DecidableEq, Repr

inductive PrOut
  | ok
  | exc (e : String)
  | res (a : PrAns)
  /-- `samples`: what the sampling simulator of this call was given (`prec` is `none`) -/
  | smp (a : PrAns)
  deriving DecidableEq, Repr

/-- `_generate_noisy_input` / `_inputs_map = input_state` -/
def genMap (src : NoiseV) (i : PrIn) : Option Nat × PrIn :=
  (if i.kind = .bs then some src.1 else none, i)

/-- `check_min_detected_photons_filter`: the stored value, else the automatic one (perfect source, Fock state
input: `n` photons), else nothing (`ValueError`) -/
def autoFilter (filt : Option Nat) (perfect : Bool) (k : InKind) (n : Nat) : Option Nat :=
  match filt with
  | some f => some f
  | none => if perfect = true ∧ k = InKind.bs then some n else none

/-- the automatic value counts the photons of the merged input minus the photons of the current heralds -/
def effFilter (s : Pr) (i : PrIn) : Option Nat :=
  autoFilter s.filt s.source.2 i.kind (i.n + i.nHer - s.nHer)

/-- `set_precision(precision)` when one is given -/
def SimG.withPrec (g : SimG) : Option Nat → SimG
  | some p => { g with prec := some p }
  | none => g

/-- the simulator `probs(precision)` uses: the kept one — dropped first when the previous call changed its
precision and this one gives none — or a new one built for the current heralds and post-selection -/
def simFor (s : Pr) (prec : Option Nat) : SimG :=
  ((if prec = none ∧ s.precSet = true then none else s.sim).getD ⟨s.her, s.ps, none⟩).withPrec prec

/-- `persist = true`: the code as it is (the automatic filter is stored by `min_detected_photons_filter`);
`false`: a repair in which it is recomputed at every call (no such repair exists in the tree:
tests/test_processor.py::test_processor_samples relies on the stored value) -/
def stepPr (persist : Bool) (s : Pr) : PrOp → Pr × PrOut
  | .setComps c => ({ s with comps := c }, .ok)
  | .addComp c => ({ s with comps := c, sim := none }, .ok)
  | .addDet d => ({ s with det := d, sim := none }, .ok)
  | .addHerald h n => ({ s with her := h, nHer := n, sim := none }, .ok)
  | .setPs p => ({ s with ps := p, sim := none }, .ok)
  | .clearPs => (if s.ps = 0 then s else { s with ps := 0, sim := none }, .ok)
  | .setNoise v =>
    ({ s with held := v, noise := v, source := v,
              inputsMap := match s.input with
                | some i => if i.kind = .svd then s.inputsMap else none
                | none => none }, .ok)
  | .mutateNoise v => ({ s with held := v }, .ok)
  | .withInput k i n =>
    let inp : PrIn := ⟨k, i, n, if k = .bs then s.her else 0, if k = .bs then s.nHer else 0⟩
    ({ s with input := some inp, inputsMap := some (genMap s.source inp) }, .ok)
  | .setFilter k => ({ s with filtUser := some k, filt := some k, auto := false }, .ok)
  | .probs prec =>
    match s.input with
    | none => (s, .exc "NotConfigured")
    | some i =>
      match effFilter s i with
      | none => (s, .exc "ValueError")
      | some f =>
        let g := simFor s prec
        let im := s.inputsMap.getD (genMap s.source i)
        ({ s with filt := if persist then some f else s.filt,
                  auto := if persist then (s.auto || s.filt.isNone) else s.auto,
                  sim := some g, inputsMap := some im, precSet := prec.isSome },
         .res ⟨s.comps, g.her, g.ps, s.det, s.noise.1, im.1, im.2.kind, im.2.id, im.2.her, f, g.prec⟩)
  | .samples =>
    match s.input with
    | none => (s, .exc "NotConfigured")
    | some i =>
      match effFilter s i with
      | none => (s, .exc "ValueError")
      | some f =>
        -- nothing is kept from an earlier call: the sampling simulator is new, heralds / post-selection /
        -- detectors are read now; a Fock-state input goes with the live `_source` (not through `_inputs_map`),
        -- a distribution is read through `source_distribution`
        let im := if i.kind = .svd then s.inputsMap.getD (genMap s.source i) else genMap s.source i
        ({ s with filt := if persist then some f else s.filt,
                  auto := if persist then (s.auto || s.filt.isNone) else s.auto,
                  inputsMap := if i.kind = .svd then some im else s.inputsMap },
         .smp ⟨s.comps, s.her, s.ps, s.det, s.noise.1, im.1, im.2.kind, im.2.id, im.2.her, f, none⟩)

/-- the queries of the Processor machine -/
def PrOp.isQuery : PrOp → Bool
  | .probs _ | .samples => true
  | _ => false

structure PrCfg where
  comps : Nat
  her : Nat
  nHer : Nat
  ps : Nat
  det : Nat
  noise : NoiseV
  input : Option (InKind × Nat × Nat)
  filt : Option Nat
  deriving DecidableEq, Repr

/-- what the user set last (the noise: the values at the last assignment) -/
def Pr.config (s : Pr) : PrCfg :=
  ⟨s.comps, s.her, s.nHer, s.ps, s.det, s.noise, s.input.map fun i => (i.kind, i.id, i.n), s.filtUser⟩

/-- the configuration the code as it is answers for: the photon filter is the STORED one (the one the user gave,
or the automatic value an earlier query wrote — open known finding `processor-auto-filter-persists`) -/
def Pr.configStored (s : Pr) : PrCfg := { s.config with filt := s.filt }

/-- the same with the values the held NoiseModel object shows now -/
def Pr.shown (s : Pr) : PrCfg := { s.config with noise := s.held }

/-- the held NoiseModel was updated in place and not assigned again -/
def Pr.dirty (s : Pr) : Prop := s.held ≠ s.noise

/-- the Fock-state input was given after the last `add_herald` (a processor whose heralds changed expects an
input of another length: the old one cannot be given to a fresh processor at all) -/
def Pr.inputCurrent (s : Pr) : Prop :=
  ∀ i, s.input = some i → i.her = (if i.kind = .bs then s.her else 0) ∧ i.nHer = (if i.kind = .bs then s.nHer else 0)

def canonPr (cfg : PrCfg) : List PrOp :=
  [.addComp cfg.comps, .addHerald cfg.her cfg.nHer] ++
  (if cfg.ps = 0 then [] else [PrOp.setPs cfg.ps]) ++
  [.addDet cfg.det, .setNoise cfg.noise] ++
  (match cfg.filt with | some k => [PrOp.setFilter k] | none => []) ++
  (match cfg.input with | some (k, i, n) => [PrOp.withInput k i n] | none => [])

def freshPr (persist : Bool) (cfg : PrCfg) (prec : Option Nat) : PrOut :=
  (stepPr persist (SM.exec (stepPr persist) initPr (canonPr cfg)) (.probs prec)).2

/-- what a freshly constructed processor, given only the configuration, answers to the query `q` -/
def freshPrQ (persist : Bool) (cfg : PrCfg) (q : PrOp) : PrOut :=
  (stepPr persist (SM.exec (stepPr persist) initPr (canonPr cfg)) q).2

/-- closed form of `probs(precision)` in terms of the configuration only -/
def specPr (cfg : PrCfg) (prec : Option Nat) : PrOut :=
  match cfg.input with
  | none => .exc "NotConfigured"
  | some (k, i, n) =>
    match autoFilter cfg.filt cfg.noise.2 k n with
    | none => .exc "ValueError"
    | some f =>
      .res ⟨cfg.comps, cfg.her, cfg.ps, cfg.det, cfg.noise.1, if k = InKind.bs then some cfg.noise.1 else none, k, i,
            if k = InKind.bs then cfg.her else 0, f, prec⟩

/-- closed form of every query in terms of the configuration only -/
def specPrQ (cfg : PrCfg) : PrOp → PrOut
  | .probs prec => specPr cfg prec
  | .samples =>
    match specPr cfg none with
    | .res a => .smp a
    | o => o
  | _ => .ok

/-- operations that do not set the photon filter -/
def PrOp.setsFilter : PrOp → Bool
  | .setFilter _ => true
  | _ => false

end PM.C05
