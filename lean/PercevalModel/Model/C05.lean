/-
  C05 — results depend on the current configuration only, never on call history.

  Four state machines with *ghost-tagged caches*, one per kind of long-lived object.  Core Lean only.

  * `B`   one strong-simulation backend object (`kind` = Naive | SLAP | SLOS | MPS):
          `_abstract_backends.py` (`ABackend`, `AStrongSimulationBackend`: `set_circuit`, `set_input_state`,
          `set_mask`, `_init_mask`, `clear_mask`, `_get_iterator`, `clear_iterator_cache`),
          `_slos.py` (`_reset`, `set_circuit` path reuse, `clear_mask`, `_deploy`, `preprocess`, queries),
          `_slap.py` (`_fock_space`), `_mps.py` (`set_cutoff`, `_compile`, `_sv_diag`).
  * `St`  one `Stepper` (`_compiled_input`, `_out`, `_clear_cache`).
  * `Si`  one `Simulator` (`_evolve` cache, `_invalidate_cache`, `init_use_mask`, `_best_n`,
          `_evolve_cache_with_n`, generic / fast `probs_svd` paths, `evolve`).
  * `Pr`  one `Processor` (`_simulator`, `_inputs_map`, `_source`, observers, `probs`).

  Values that the caches do not inspect are abstract identifiers (`Nat`): a circuit is `(m, uid)` where
  `uid` names the unitary computed by `set_circuit`; a list of mask strings is `(sid, len)`; heralds,
  post-selection, noise models, inputs are identifiers.  A cache entry carries as a *ghost* the part of
  the configuration it was computed from; a query returns the ghosts of the entries it read
  (`Out.res …`), i.e. *which configuration the returned numbers belong to*.  The property is that this is
  always the current configuration, equivalently what a freshly constructed object returns.

  `fixed : Bool` selects the code as it stood on the pinned tree (`false`) or with the repairs
  `fixes/C05-slos-mask.diff` (SLOS queries re-deploy the current input when the computation graph was
  dropped by a mask change), `fixes/C05-slos-mask-instance.diff` (SLOS drops the graph when the mask is
  re-instantiated for another photon number), `fixes/C05-mps-cutoff.diff` (`_compile` does not overwrite
  the requested cut-off; `set_cutoff` recompiles), `fixes/C05-stepper-filter.diff` (photon filter is part
  of the Stepper's compiled key), `fixes/C05-simulator-mask-mode.diff` (`init_use_mask` invalidates the
  evolve cache when the mask mode changes), `fixes/C05-simulator-evolve-mask-mode.diff` (`evolve` sets the
  mask mode itself) (`true`, the main model).  Outside the model: `fixes/C05-simulator-leftover-mask.diff`,
  `fixes/C05-processor-precision.diff`, `fixes/C05-experiment-set-circuit.diff`.

  Not modelled (assumptions, exercised by the correspondence): the numbers themselves (exqalibur kernels,
  numpy); `FSMask`/`FSArray` contents (a mask instance is identified by `(sid, n)`, an array by
  `(m, mask instance)`); a mask whose length differs from the circuit size (the model refuses the
  operation with `AssertionError` and leaves the state unchanged — the real code fails half-way; the
  harness does not generate it); symbolic SLOS; `Stepper._result_dict` (keyed by `describe()`, assumed
  injective on the parameter values used); that masked and unmasked evaluation agree after herald
  post-selection (C04).
-/
import PercevalModel.Found.SM

namespace PM.C05

def sum (l : List Nat) : Nat := l.foldr (· + ·) 0

/-! ## Backends -/

inductive Kind | naive | slap | slos | mps
  deriving DecidableEq, Repr, Inhabited

structure Circ where
  m : Nat
  uid : Nat
  deriving DecidableEq, Repr

/-- `_masks_str` (identified by `sid`, strings of length `len`) and `_mask_n` -/
structure MaskCfg where
  sid : Nat
  len : Nat
  n : Option Nat
  deriving DecidableEq, Repr

/-- an instantiated `xq.FSMask`: `(sid, n)`; `none` = no mask -/
abbrev MInst := Option (Nat × Nat)

/-- what a Fock-space enumeration (`allstate_iterator`, `FSArray`, `FSMap`) depends on: `(m, mask)` -/
abbrev Tag := Nat × MInst

/-- `self._mask_n or instate.n` (a `_mask_n` of 0 is falsy) -/
def maskN (n : Option Nat) (k : Nat) : Nat :=
  match n with
  | some (j + 1) => j + 1
  | _ => k

/-- the mask instance `_init_mask` builds for an input of `k` photons -/
def expInst (mask : Option MaskCfg) (k : Nat) : MInst :=
  mask.map fun mc => (mc.sid, maskN mc.n k)

def lookup {α : Type} (k : Nat) : List (Nat × α) → Option α
  | [] => none
  | (k', v) :: r => if k' = k then some v else lookup k r

def lookupL {α : Type} (k : List Nat) : List (List Nat × α) → Option α
  | [] => none
  | (k', v) :: r => if k' = k then some v else lookupL k r

structure B where
  kind : Kind
  circ : Option Circ                 -- `_circuit`, `_umat`
  input : Option (List Nat)          -- `_input_state`
  mask : Option MaskCfg              -- `_masks_str`, `_mask_n`
  minst : MInst                      -- `_mask`
  iter : List (Nat × Tag)            -- `_cache_iterator`: photon number ↦ ghost (m, mask instance)
  instN : Option Nat                 -- SLOS `_mask_instance_n` (fixed code only)
  layers : List Tag                  -- SLOS `_fsms[1:]`, `_mk_l[1:]`: ghost per layer
  fsas : List (Nat × Tag)            -- SLOS `_fsas`
  paths : List (List Nat × Nat)      -- SLOS `_state_mapping` / `_path_roots`: input ↦ ghost unitary uid
  fock : Option (Nat × Nat)          -- SLAP `_fock_space` (m, n)
  cutReq : Option Nat                -- MPS: the cut-off the user asked for
  cutCur : Option Nat                -- MPS `_cutoff`
  compiled : Option (List Nat × Nat × Nat)   -- MPS `_res[input]`: ghost (input, unitary uid, cut-off used)
  deriving Repr

def initB (k : Kind) : B :=
  { kind := k, circ := none, input := none, mask := none, minst := none, iter := [], instN := none,
    layers := [], fsas := [], paths := [], fock := none, cutReq := none, cutCur := none, compiled := none }

/-- the configuration of a backend: what the user set last -/
structure BCfg where
  circ : Option Circ
  input : Option (List Nat)
  mask : Option MaskCfg
  cutoff : Option Nat
  deriving DecidableEq, Repr

def B.config (s : B) : BCfg := ⟨s.circ, s.input, s.mask, s.cutReq⟩

/-- `ampOther`: `prob_amplitude` / `probability` of an output state with another photon number than the
input (answered 0 before any cache is read) -/
inductive Q | dist | allprob | evolve | amp | ampOther
  deriving DecidableEq, Repr

inductive Op
  | setCircuit (c : Circ)
  | setInput (s : List Nat)
  | setMask (sid len : Nat) (n : Option Nat)
  | clearMask
  | setCutoff (k : Nat)
  | query (q : Q)
  deriving Repr

inductive Out
  | ok
  | exc (e : String)
  /-- numbers computed from unitary `uid`, input `s`, enumeration `tag`, (MPS) cut-off `cut` -/
  | res (uid : Nat) (s : List Nat) (tag : Tag) (cut : Option Nat)
  /-- entries computed for different configurations were combined (garbage or a crash in the real code) -/
  | stale
  deriving DecidableEq, Repr

/-- SLOS `_reset` -/
def reset (s : B) : B :=
  { s with layers := [], fsas := [], paths := [], minst := none, instN := none, iter := [] }

/-- `_init_mask` (with the SLOS override of the fixed code) -/
def initMask (fixed : Bool) (s : B) : B :=
  match s.mask, s.input with
  | some mc, some inp =>
    let n := maskN mc.n (sum inp)
    let s1 := if fixed = true ∧ s.kind = .slos ∧ s.instN ≠ some n then { reset s with instN := some n } else s
    { s1 with minst := some (mc.sid, n) }
  | _, _ => s

/-- SLOS `preprocess([input])`: `_deploy` + a new `_Path` -/
def deploy (s : B) (inp : List Nat) : B :=
  match s.circ with
  | none => s
  | some c =>
    match lookupL inp s.paths with
    | some _ => s
    | none =>
      let n := sum inp
      let tag : Tag := (c.m, s.minst)
      { s with layers := s.layers ++ List.replicate (n - s.layers.length) tag,
               fsas := match lookup n s.fsas with
                 | some _ => s.fsas
                 | none => (n, tag) :: s.fsas,
               paths := (inp, c.uid) :: s.paths }

/-- the bond dimension `_compile` uses -/
def effCut (base : Option Nat) (inp : List Nat) : Nat :=
  let d := sum inp + 1
  let k0 := match base with
    | some k => if k < d then d else k
    | none => d
  min k0 (d ^ (inp.length / 2))

/-- MPS `_compile` (always recompiles: `self._input_state in self._res` compares a `BasicState` with
tuple keys and is never true) -/
def compile (fixed : Bool) (s : B) (inp : List Nat) : B :=
  match s.circ with
  | none => s
  | some c =>
    let k := effCut (if fixed then s.cutReq else s.cutCur) inp
    { s with cutCur := some k, compiled := some (inp, c.uid, k) }

/-- `_get_iterator(self._input_state)` -/
def getIter (s : B) (c : Circ) (inp : List Nat) : B × Tag :=
  match lookup (sum inp) s.iter with
  | some t => (s, t)
  | none => ({ s with iter := (sum inp, (c.m, s.minst)) :: s.iter }, (c.m, s.minst))

/-- the tag shared by SLOS layers `1..n` and `_fsas[n]`, if they agree -/
def slosTag (s : B) (n : Nat) : Option Tag :=
  match lookup n s.fsas with
  | some t => if n ≤ s.layers.length ∧ (s.layers.take n).all (· == t) = true then some t else none
  | none => none

/-- the assertion of `_init_mask`: mask strings and input state have different lengths -/
def badLen (mask : Option MaskCfg) (len : Nat) : Bool :=
  match mask with
  | some mc => mc.len != len
  | none => false

def badLenI (input : Option (List Nat)) (len : Nat) : Bool :=
  match input with
  | some inp => inp.length != len
  | none => false

def usesIter : Kind → Q → Bool
  | _, .ampOther => false
  | .naive, .amp => false
  | .naive, _ => true
  | .mps, .amp => false
  | .mps, _ => true
  | .slos, .dist => true
  | .slos, .evolve => true
  | .slos, _ => false
  | .slap, .dist => true
  | .slap, _ => false

def queryB (fixed : Bool) (s : B) (q : Q) : B × Out :=
  match s.circ, s.input with
  | some c, some inp =>
    if q = .ampOther then (s, .res c.uid inp (c.m, none) none) else
    match s.kind with
    | .naive =>
      if usesIter .naive q then
        let (s1, t) := getIter s c inp
        (s1, .res c.uid inp t none)
      else (s, .res c.uid inp (c.m, none) none)
    | .mps =>
      match s.compiled with
      | some (ci, cu, ck) =>
        if ci = inp ∧ s.cutCur = some ck then
          if usesIter .mps q then
            let (s1, t) := getIter s c inp
            (s1, .res cu inp t (some ck))
          else (s, .res cu inp (c.m, none) (some ck))
        else (s, .stale)
      | none => (s, .stale)
    | .slap =>
      if s.fock = some (inp.length, sum inp) then
        if q = .amp then (s, .res c.uid inp (c.m, none) none)
        else if usesIter .slap q then
          let (s1, t) := getIter s c inp
          (s1, if t = (c.m, s.minst) then .res c.uid inp t none else .stale)
        else (s, .res c.uid inp (c.m, s.minst) none)
      else (s, .stale)
    | .slos =>
      -- fixed code: `_input_path` deploys the input again when the graph was dropped
      let s0 := if fixed then deploy s inp else s
      match lookupL inp s0.paths with
      | none => (s0, .exc "KeyError")
      | some u =>
        match slosTag s0 (sum inp) with
        | none => (s0, .stale)
        | some t =>
          if usesIter .slos q then
            let (s1, ti) := getIter s0 c inp
            (s1, if ti = t then .res u inp t none else .stale)
          else (s0, .res u inp t none)
  | _, _ => (s, .exc "NoInput")

def stepB (fixed : Bool) (s : B) : Op → B × Out
  | .setCircuit c =>
    let s1 := match s.kind with
      | .slos =>
        match s.circ with
        | some p =>
          if s.paths ≠ [] ∧ p.m = c.m then { s with paths := s.paths.map fun (x : List Nat × Nat) => (x.1, c.uid) }
          else reset s
        | none => reset s
      | _ =>
        -- `if self._circuit and circuit.m != self._circuit:` compares an int with a circuit: always true
        if s.circ.isSome then { s with iter := [] } else s
    ({ s1 with circ := some c, input := none }, .ok)
  | .setInput inp =>
    match s.circ with
    | none => (s, .exc "AssertionError")
    | some c =>
      if inp.length ≠ c.m then (s, .exc "AssertionError")
      else if badLen s.mask inp.length then (s, .exc "AssertionError")
      else
        let s1 := initMask fixed { s with input := some inp }
        let s2 := match s.kind with
          | .slos => deploy s1 inp
          | .slap => { s1 with fock := some (inp.length, sum inp) }
          | .mps => compile fixed s1 inp
          | .naive => s1
        (s2, .ok)
  | .setMask sid len n =>
    if badLenI s.input len then (s, .exc "AssertionError")
    else
      -- `clear_mask()` then the new strings then `_init_mask()`
      let s1 := { s with mask := none, minst := none, iter := [] }
      let s2 := if s.kind = .slos then reset s1 else s1
      (initMask fixed { s2 with mask := some ⟨sid, len, n⟩ }, .ok)
  | .clearMask =>
    let s1 := { s with mask := none, minst := none, iter := [] }
    (if s.kind = .slos then reset s1 else s1, .ok)
  | .setCutoff k =>
    if s.kind = .mps then
      if fixed then
        let s1 := { s with cutReq := some k }
        (match s.input with
          | some inp => compile fixed s1 inp
          | none => s1, .ok)
      else ({ s with cutReq := some k, cutCur := some k }, .ok)
    else (s, .exc "AttributeError")
  | .query q => queryB fixed s q

/-- configuring a new object: cut-off, mask, circuit, input -/
def canonB (cfg : BCfg) : List Op :=
  (match cfg.cutoff with | some k => [Op.setCutoff k] | none => []) ++
  (match cfg.mask with | some mc => [Op.setMask mc.sid mc.len mc.n] | none => []) ++
  (match cfg.circ with | some c => [Op.setCircuit c] | none => []) ++
  (match cfg.input with | some s => [Op.setInput s] | none => [])

/-- what a freshly constructed backend of kind `k`, given only the configuration, answers -/
def freshB (fixed : Bool) (k : Kind) (cfg : BCfg) (q : Q) : Out :=
  (stepB fixed (SM.exec (stepB fixed) (initB k) (canonB cfg)) (.query q)).2

/-- closed form of the answer in terms of the configuration only -/
def specB (k : Kind) (cfg : BCfg) (q : Q) : Out :=
  match cfg.circ, cfg.input with
  | some c, some inp =>
    let tag : Tag := (c.m, expInst cfg.mask (sum inp))
    match k with
    | .naive => .res c.uid inp (if usesIter .naive q then tag else (c.m, none)) none
    | .mps => .res c.uid inp (if usesIter .mps q then tag else (c.m, none)) (some (effCut cfg.cutoff inp))
    | .slap => .res c.uid inp (if q = .amp then (c.m, none) else tag) none
    | .slos => .res c.uid inp tag none
  | _, _ => .exc "NoInput"

/-! ## Stepper -/

structure St where
  circ : Option Nat                         -- `_C` (identifier of the circuit object)
  pv : Nat                                  -- current values of the variable parameters
  filt : Nat                                -- `min_detected_photons_filter` (heralds included)
  compiled : Option (Nat × Nat × Nat)       -- `_compiled_input`: (pv, input, filter [fixed code only])
  out : Nat × Nat × Nat × Nat               -- ghost of `_out`: (circuit, pv, input, filter)
  deriving Repr

def initSt : St := ⟨none, 0, 0, none, (0, 0, 0, 0)⟩

inductive StOp
  | setCircuit (c : Nat)
  | setParams (pv : Nat)
  | setFilter (k : Nat)
  | evolve (inp : Nat)
  deriving Repr

inductive StOut
  | ok
  | exc (e : String)
  | res (circ pv inp filt : Nat)
  deriving DecidableEq, Repr

def stepSt (fixed : Bool) (s : St) : StOp → St × StOut
  | .setCircuit c => ({ s with circ := some c, compiled := none }, .ok)
  | .setParams pv => ({ s with pv := pv }, .ok)
  | .setFilter k => ({ s with filt := k }, .ok)
  | .evolve inp =>
    match s.circ with
    | none => (s, .exc "NoCircuit")
    | some c =>
      let key := (s.pv, inp, if fixed then s.filt else 0)
      if s.compiled = some key then (s, .res s.out.1 s.out.2.1 s.out.2.2.1 s.out.2.2.2)
      else ({ s with compiled := some key, out := (c, s.pv, inp, s.filt) }, .res c s.pv inp s.filt)

structure StCfg where
  circ : Option Nat
  pv : Nat
  filt : Nat
  deriving DecidableEq, Repr

def St.config (s : St) : StCfg := ⟨s.circ, s.pv, s.filt⟩

def canonSt (cfg : StCfg) : List StOp :=
  [.setParams cfg.pv, .setFilter cfg.filt] ++ (match cfg.circ with | some c => [StOp.setCircuit c] | none => [])

def freshSt (fixed : Bool) (cfg : StCfg) (inp : Nat) : StOut :=
  (stepSt fixed (SM.exec (stepSt fixed) initSt (canonSt cfg)) (.evolve inp)).2

/-! ## Simulator -/

/-- ghost of an `_evolve` entry: circuit, heralds, computed under the heralds mask or not -/
abbrev SiGhost := Nat × Nat × Bool

structure Si where
  circ : Option Nat
  heralds : Nat            -- identifier of the heralds dict (0 = empty)
  nHeralds : Nat           -- `_n_heralds`
  other : Nat              -- post-selection, filter, precision, keep_heralds: never cached
  canMask : Bool           -- `_can_use_mask`
  evolve : List ((Nat × Nat) × SiGhost)      -- `_evolve`: (state, n) ↦ ghost
  deriving Repr

def initSi : Si := ⟨none, 0, 0, 0, false, []⟩

/-- one separated input component: (state identifier, photons of the whole input, own photons) -/
abbrev SiKey := Nat × Nat × Nat

inductive SiOp
  | setCircuit (c : Nat)
  | setHeralds (h n : Nat)          -- identifier (non-zero) and photon sum
  | clearHeralds
  | setOther (o : Nat)
  /-- `probs_svd`: detectors PNR or not; superposed (generic path, uses `_evolve`) or not (fast path) -/
  | probsSvd (pnr generic : Bool) (keys : List SiKey)
  /-- `evolve` -/
  | evolve (keys : List SiKey)
  deriving Repr

inductive SiOut
  | ok
  | exc (e : String)
  /-- the ghosts (state, circuit, heralds) of the evolved states combined into the answer, and the selection
  settings applied.  The photon budget `n` of a key is not part of the answer: masked and unmasked evaluation
  are assumed to agree after herald post-selection (C04). -/
  | res (parts : List (Nat × Nat × Nat)) (heralds other : Nat)
  | stale
  deriving DecidableEq, Repr

/-- `_best_n` -/
def bestN (canMask : Bool) (nH nExt nOwn : Nat) : Nat :=
  if canMask then min nExt (nOwn + nH) else nOwn + nH

def lookupK (k : Nat × Nat) : List ((Nat × Nat) × SiGhost) → Option SiGhost
  | [] => none
  | (k', v) :: r => if k' = k then some v else lookupK k r

/-- `_evolve_cache_with_n` followed by reading the entries -/
def evolveAll (s : Si) (c : Nat) : List SiKey → Si × List ((Nat × Nat) × SiGhost)
  | [] => (s, [])
  | (st, nExt, nOwn) :: r =>
    let k := (st, bestN s.canMask s.nHeralds nExt nOwn)
    match lookupK k s.evolve with
    | some g =>
      let (s1, l) := evolveAll s c r
      (s1, (k, g) :: l)
    | none =>
      let g : SiGhost := (c, s.heralds, s.canMask)
      let (s1, l) := evolveAll { s with evolve := (k, g) :: s.evolve } c r
      (s1, (k, g) :: l)

/-- the answer if every part was computed in the current mask mode, `stale` otherwise -/
def siAnswer (s : Si) (parts : List ((Nat × Nat) × SiGhost)) : SiOut :=
  if parts.all (fun p => p.2.2.2 == s.canMask) = true then
    .res (parts.map fun p => (p.1.1, p.2.1, p.2.2.1)) s.heralds s.other
  else .stale

/-- `init_use_mask` (the fixed code drops the cache when the mode changes) -/
def initUseMask (fixed : Bool) (s : Si) (pnr : Bool) : Si :=
  if fixed = true ∧ ((s.heralds != 0) && pnr) ≠ s.canMask then
    { s with canMask := (s.heralds != 0) && pnr, evolve := [] }
  else { s with canMask := (s.heralds != 0) && pnr }

def stepSi (fixed : Bool) (s : Si) : SiOp → Si × SiOut
  | .setCircuit c => ({ s with circ := some c, evolve := [] }, .ok)
  | .setHeralds h n => ({ s with heralds := h, nHeralds := n, evolve := [] }, .ok)
  | .clearHeralds => ({ s with heralds := 0, nHeralds := 0, evolve := [] }, .ok)
  | .setOther o => ({ s with other := o }, .ok)
  | .probsSvd pnr generic keys =>
    match s.circ with
    | none => (s, .exc "NoCircuit")
    | some c =>
      let s1 := initUseMask fixed s pnr
      if generic then
        let (s2, parts) := evolveAll s1 c keys
        (s2, siAnswer s2 parts)
      else
        -- fast path: a local cache, everything is computed now
        (s1, .res (keys.map fun k => (k.1, c, s1.heralds)) s1.heralds s1.other)
  | .evolve keys =>
    match s.circ with
    | none => (s, .exc "NoCircuit")
    | some c =>
      -- fixed code: `evolve` sets the mask mode itself (`init_use_mask(True)`, as `evolve_svd` does);
      -- the pinned tree inherits the mode of the last `probs_svd` / `evolve_svd`
      let s1 := if fixed then initUseMask fixed s true else s
      let (s2, parts) := evolveAll s1 c keys
      (s2, siAnswer s2 parts)

structure SiCfg where
  circ : Option Nat
  heralds : Nat
  nHeralds : Nat
  other : Nat
  deriving DecidableEq, Repr

def Si.config (s : Si) : SiCfg := ⟨s.circ, s.heralds, s.nHeralds, s.other⟩

def canonSi (cfg : SiCfg) : List SiOp :=
  [.setOther cfg.other, .setHeralds cfg.heralds cfg.nHeralds] ++
  (match cfg.circ with | some c => [SiOp.setCircuit c] | none => [])

/-- the two kinds of query -/
def freshSi (fixed : Bool) (cfg : SiCfg) (q : SiOp) : SiOut :=
  (stepSi fixed (SM.exec (stepSi fixed) initSi (canonSi cfg)) q).2

def specSi (cfg : SiCfg) (keys : List SiKey) : SiOut :=
  match cfg.circ with
  | none => .exc "NoCircuit"
  | some c => .res (keys.map fun k => (k.1, c, cfg.heralds)) cfg.heralds cfg.other

/-! ## Processor -/

structure Pr where
  comps : Nat                      -- components and parameter values (re-read at every `probs`)
  sel : Nat                        -- heralds, post-selection, detectors' modes, component kinds
  noise : Nat                      -- noise model identifier
  input : Option Nat               -- input state identifier
  filt : Option Nat                -- `min_photons_filter`
  source : Nat                     -- ghost of `_source`: noise it was built from
  inputsMap : Option (Nat × Nat)   -- ghost of `_inputs_map`: (noise, input)
  sim : Option Nat                 -- ghost of `_simulator`: `sel` it was built for
  deriving Repr

def initPr : Pr := ⟨0, 0, 0, none, none, 0, none, none⟩

inductive PrOp
  | setComps (c : Nat)             -- parameter change, `Experiment.set_circuit`: no observer fires
  | addComp (c sel : Nat)          -- `add`, `add_herald`, `set_postselection`, `clear_postselection`
  | setNoise (n : Nat)
  | withInput (i : Nat)
  | setFilter (k : Nat)
  | probs
  deriving Repr

inductive PrOut
  | ok
  | exc (e : String)
  | res (comps sel noise inp filt : Nat)
  deriving DecidableEq, Repr

def stepPr (s : Pr) : PrOp → Pr × PrOut
  | .setComps c => ({ s with comps := c }, .ok)
  | .addComp c sel => ({ s with comps := c, sel := sel, sim := none }, .ok)
  | .setNoise n => ({ s with noise := n, source := n, inputsMap := none }, .ok)
  | .withInput i => ({ s with input := some i, inputsMap := some (s.source, i) }, .ok)
  | .setFilter k => ({ s with filt := some k }, .ok)
  | .probs =>
    match s.input, s.filt with
    | some i, some f =>
      let g := s.sim.getD s.sel
      let im := s.inputsMap.getD (s.source, i)
      ({ s with sim := some g, inputsMap := some im }, .res s.comps g im.1 im.2 f)
    | _, _ => (s, .exc "NotConfigured")

structure PrCfg where
  comps : Nat
  sel : Nat
  noise : Nat
  input : Option Nat
  filt : Option Nat
  deriving DecidableEq, Repr

def Pr.config (s : Pr) : PrCfg := ⟨s.comps, s.sel, s.noise, s.input, s.filt⟩

def canonPr (cfg : PrCfg) : List PrOp :=
  [.addComp cfg.comps cfg.sel, .setNoise cfg.noise] ++
  (match cfg.filt with | some k => [PrOp.setFilter k] | none => []) ++
  (match cfg.input with | some i => [PrOp.withInput i] | none => [])

def freshPr (cfg : PrCfg) : PrOut :=
  (stepPr (SM.exec stepPr initPr (canonPr cfg)) .probs).2

end PM.C05
