/-
  C16 (extension, round 5) — `add` with list / dict mode mappings and port names, on herald modes and next to a
  post-selection; `clear_input_and_circuit`; `set_parameters`, `thresholded_output`.

  `perceval/components/_mode_connector.py` (`ModeConnector.resolve`, `_check_consistency`, `_resolve_port_left`,
  `generate_permutation`), `perceval/components/experiment.py` (`add`, `_add_component`,
  `_validate_postselect_composition`, `clear_input_and_circuit`, `add_port`, `_add_herald`, `m` setter),
  `perceval/components/abstract_processor.py` (`set_parameters`), `perceval/runtime/remote_processor.py`
  (`thresholded_output`) — AS THE CODE IS:

  * `add(mapping, circuit)` for a circuit component: the mapping (int offset, list of output modes, dict with int
    keys or OUTPUT PORT NAMES of the processor and int / list values) is resolved to `{processor mode: component
    input}` with Python dictionary semantics (a repeated key keeps its first position and its last value); it is
    refused when it has not exactly one entry per component mode (`InvalidMappingException`), when a key is negative,
    outside the circuit or a HERALD mode (`UnavailableModeException`), when two keys go to the same input
    (`InvalidMappingException`); then the processor's `PostSelect` must have every condition containing all the keys
    or none (`AssertionError`); then `generate_permutation` completes the mapping on the modes between the smallest
    and the largest key (they go BEHIND the component's inputs, in increasing order) and the component list gets
    `PERM(vector)` on that span (none when the vector is the identity; `PERM.__init__` asserts it is a permutation)
    and the component on the first `component.m` modes of the span.  NO inverse permutation follows: the modes of the
    span stay where the PERM put them — heralds and post-selection conditions on modes strictly inside the span now
    look at other light (the code as it is; C10's subject).
  * `clear_input_and_circuit(new_m)`: components, heralds, ports, post-selection and input state are dropped, the
    number of modes becomes 0 (then `new_m` if given: the `m` setter refuses anything but an int ≥ 1 with
    `ValueError`, AFTER the reset); noise, photon filter and `_parameters` STAY.  On a processor of 0 modes the first
    `add` / `set_circuit` decides the size (`component.m + offset`, `max(keys) + 1`, `circuit.m`) — the model tests
    `circuit_size == 0`, which is what `m == 0` means on every processor it reaches (`add_herald` keeps one mode of
    interest), so it describes `add` whether the code tests `self.m` or `self.circuit_size`.
  * `set_parameters(d)`: `set_parameter` key by key; a key that is not a string raises `TypeError` after the earlier
    keys were written.  `thresholded_output(v)`: `v is False` on a platform whose spec says `detector: threshold`
    asserts; else `_parameters['thresholded'] = v`.

  The machine `astep` is the machine with components `cstep` (every call it does not intercept is literally
  `cstep`'s) plus the processor's named ports, the mode sets of its post-selection's conditions and the platform's
  detector spec.  The user-level reading (`ASpec`) extends `Spec`: a mapped `add` means "route the light of mode `k`
  to the component's input `v` for every `k: v` of the mapping, the other modes of the span behind, in order; then the
  component" — a permutation given as a FUNCTION on modes and the component's elementary components at absolute
  positions.
-/
import PercevalModel.Model.C16Mat

namespace PM.C16
open Matrix

/-! ### Python dictionaries with integer keys -/

abbrev IMap := List (Int × Int)

def iget : IMap → Int → Option Int
  | [], _ => none
  | (k, v) :: t, x => if k = x then some v else iget t x

/-- `d[k] = v` -/
def iset : IMap → Int → Int → IMap
  | [], x, v => [(x, v)]
  | (k, w) :: t, x, v => if k = x then (k, v) :: t else (k, w) :: iset t x v

/-- `{k: v for k, v in zip(keys, values)}` continued from `m` -/
def zipSet (m : IMap) : List Int → List Int → IMap
  | k :: ks, v :: vs => zipSet (iset m k v) ks vs
  | _, _ => m

/-! ### ports and mappings -/

/-- a named (non-herald) port of the remote processor -/
structure NPort where
  name : String
  start : Nat
  size : Nat
deriving DecidableEq, Repr

/-- `out_port_names`: `''` on every mode, each port's name on its modes (later ports overwrite) -/
def portNames (size : Nat) (ports : List NPort) : List String :=
  ports.foldl (fun names p => (List.range p.size).foldl (fun ns i => ns.set (p.start + i) p.name) names)
    (List.replicate size "")

/-- `_resolve_port_left(name)`: `count` consecutive modes from the first mode carrying the name -/
def resolvePortLeft (names : List String) (name : String) : Option (List Int) :=
  let count := names.count name
  if count = 0 then none
  else some ((List.range count).map fun (i : Nat) => ((names.idxOf name + i : Nat) : Int))

inductive MKey where
  | mode (k : Int)
  | port (name : String)
deriving DecidableEq, Repr

inductive MVal where
  | mode (v : Int)
  | modes (vs : List Int)
  | str                        -- a port name of the right object: refused for a component
deriving DecidableEq, Repr

inductive Mapping where
  | offset (k : Int)
  | list (keys : List Int)
  | dict (items : List (MKey × MVal))
deriving DecidableEq, Repr

/-- the processor modes a dictionary key stands for: `[k]`, or the modes of the output port of that name -/
def leftModes (names : List String) : MKey → Option (List Int)
  | .mode k => some [k]
  | .port n => resolvePortLeft names n

/-- the component inputs a dictionary value stands for, next to `llen` processor modes: an int only next to ONE
mode (otherwise the code takes it for a port name of the right object: `AssertionError` for a component) -/
def rightModes (llen : Nat) : MVal → Option (List Int)
  | .mode x => if llen = 1 then some [x] else none
  | .modes vs => some vs
  | .str => none

/-- the loop of `resolve` over a dictionary (after `_mapping_type_checks`): `result[l_idx[i]] = r_idx[i]` -/
def resolveDict (names : List String) : List (MKey × MVal) → IMap → Res IMap
  | [], acc => .ok acc
  | (key, v) :: t, acc =>
    match leftModes names key with
    | none => .error .invalidMapping                 -- port not found
    | some l =>
      match rightModes l.length v with
      | none => .error .assertion                    -- `_resolve_port_right` on a component
      | some r =>
        if l.length = r.length then resolveDict names t (zipSet acc l r)
        else .error .invalidMapping                  -- imbalanced

/-- `ModeConnector.resolve()` for a component of `n` modes, before `_check_consistency` -/
def resolveRaw (names : List String) (n : Nat) : Mapping → Res IMap
  | .offset k => .ok ((List.range n).map fun (i : Nat) => (k + (i : Int), (i : Int)))
  | .list keys =>
    if keys.length = n then .ok (zipSet [] keys ((List.range n).map fun (i : Nat) => (i : Int)))
    else .error .invalidMapping
  | .dict items =>
    if items.any (fun kv => kv.2 == .str) = true then .error .assertion     -- `_mapping_type_checks`
    else resolveDict names items []

/-- `Experiment.is_mode_connectible(mode)` -/
def connectible (e : Exp) (k : Int) : Bool :=
  decide (0 ≤ k) && decide (k.toNat < e.size) && !(heraldModes e).contains k.toNat

/-- `_check_consistency()` -/
def checkConsistency (e : Exp) (n : Nat) (m : IMap) : Option Err :=
  if m.length = n then
    if m.all (fun kv => connectible e kv.1) = true then
      if (m.map (·.2)).Nodup then none else some .invalidMapping
    else some .unavailable
  else some .invalidMapping

/-- `PostSelect.can_compose_with(modes)`: every condition contains all the modes or none of them -/
def canCompose (conds : List (List Nat)) (keys : List Nat) : Bool :=
  conds.all fun c => keys.all (fun k => c.contains k) || keys.all (fun k => !c.contains k)

/-! ### `generate_permutation` -/

abbrev NMap := List (Nat × Nat)

def nget : NMap → Nat → Option Nat
  | [], _ => none
  | (k, v) :: t, x => if k = x then some v else nget t x

def maxL (l : List Nat) : Nat := l.foldl max 0
def minL (l : List Nat) : Nat := l.foldl min (l.headD 0)

/-- how many modes of the span before position `i` are not keys of the mapping -/
def missingBefore (keys : List Nat) (mn i : Nat) : Nat :=
  ((List.range i).filter fun t => !keys.contains (mn + t)).length

/-- the value the completed mapping gives the `i`-th mode of the span `min … max`: the user's value for a key;
`for mm in missing_modes: mode_mapping[mm] = max(mode_mapping.values()) + 1` gives the `r`-th missing mode (they are
visited in increasing order, the maximum grows by one each time) the value `max(values) + 1 + r` -/
def spanVal (nm : NMap) (i : Nat) : Nat :=
  match nget nm (minL (nm.map (·.1)) + i) with
  | some v => v
  | none => maxL (nm.map (·.2)) + 1 + missingBefore (nm.map (·.1)) (minL (nm.map (·.1))) i

/-- number of modes between the smallest and the largest key, both included -/
def spanLen (nm : NMap) : Nat := maxL (nm.map (·.1)) + 1 - minL (nm.map (·.1))

/-- `perm_vect = [mode_mapping[i] for i in sorted(mode_mapping.keys())]` of the completed mapping -/
def permVect (nm : NMap) : List Nat := (List.range (spanLen nm)).map (spanVal nm)

/-! ### the machine -/

structure AWorld where
  cw : CWorld
  ports : List NPort             -- named output ports, in insertion order
  portsKnown : Bool              -- false after a conversion (port transfer is C10's subject)
  psc : Option (List (List Nat)) -- the mode sets of the conditions of the processor's `PostSelect`
  thrOnly : Bool                 -- the platform's specs say `detector: threshold`
deriving DecidableEq, Repr

inductive AOp where
  | base (op : COp)
  | convertPS (p : Exp) (pcomps : List Comp) (conds : List (List Nat))   -- a local processor with a `PostSelect`
  | post (id : Nat) (conds : List (List Nat))        -- `set_postselection(PostSelect)`
  | clearPost                                        -- `clear_postselection()`
  | addPort (mode : Nat) (name : String) (size : Nat)
  | addMapped (mp : Mapping) (c : UC)                -- `add(mapping, circuit)`
  | setParams (d : List (Option String × PV))        -- `set_parameters(dict)` (`none`: a key that is not a string)
  | thresholded (v : Bool)                           -- `thresholded_output(v)`
  | clearAll (newM : Option Int) (sym : Nat)         -- `clear_input_and_circuit(new_m)`; `sym`: the empty circuit
deriving DecidableEq, Repr

/-- a mode under a named port -/
def underPort (ports : List NPort) (k : Nat) : Bool := ports.any fun p => decide (p.start ≤ k) && decide (k < p.start + p.size)

def setExp (aw : AWorld) (e : Exp) : AWorld := { aw with cw := { aw.cw with w := { aw.cw.w with exp := some e } } }

def setComps (aw : AWorld) (cs : List Comp) : AWorld := { aw with cw := { aw.cw with comps := cs } }

/-- `set_parameters` -/
def setParams (e : Exp) : List (Option String × PV) → Exp × Option Err
  | [] => (e, none)
  | (none, _) :: _ => (e, some .type)
  | (some k, v) :: t => setParams (setParam e k v) t

/-- the processor after `_reset_circuit()` + `_input_state = None` -/
def resetExp (e : Exp) (sym : Nat) : Exp :=
  { e with m := 0, size := 0, heralds := [], input := none, post := none, circ := ⟨sym, []⟩, cparams := [] }

/-- `Experiment.m = n` on a processor of 0 modes -/
def sized (e : Exp) (n : Nat) : Exp := { e with m := n, size := n }

/-- the size the first `add` gives a processor of 0 modes -/
def firstSize (mp : Mapping) (cm : Nat) : Option Nat :=
  match mp with
  | .offset k => if (cm : Int) + k < 1 then none else some ((cm : Int) + k).toNat
  | .list keys =>
    let x := keys.foldl max (keys.headD 0)
    if keys = [] ∨ x + 1 < 1 then none else some (x + 1).toNat
  | .dict _ => none              -- `max(dict)` over keys of mixed types: outside the model

/-- what a successful `add(mapping, circuit)` appends to the component list -/
def mappedComps (nm : NMap) (c : UC) : List Comp :=
  let mn := minL (nm.map (·.1))
  let σ := permVect nm
  (if isIdentity σ then [] else [.perm mn σ]) ++ [.sub mn c]

/-- `_validate_postselect_composition`: some condition of the post-selection has some of the keys but not all -/
def psBlocks (aw : AWorld) (keys : List Nat) : Bool :=
  match aw.psc with
  | some conds => !canCompose conds keys
  | none => false

def toNMap (m : IMap) : NMap := m.map fun kv => (kv.1.toNat, kv.2.toNat)

/-- `add(mapping, circuit)` on the processor `e`: the resolved mapping (keys in dictionary order), or the exception -/
def resolveAdd (aw : AWorld) (e : Exp) (mp : Mapping) (c : UC) : Res NMap :=
  match resolveRaw (portNames e.size aw.ports) c.m mp with
  | .error err => .error err
  | .ok m =>
    match checkConsistency e c.m m with
    | some err => .error err
    | none =>
      if psBlocks aw ((toNMap m).map (·.1)) = true then .error .assertion
      else if m.any (fun kv => decide (kv.2 < 0)) = true then .error .assertion      -- `PERM`: not a permutation
      else if IsPermList (spanLen (toNMap m)) (permVect (toNMap m)) then .ok (toNMap m)
      else .error .assertion

def usesPortName : Mapping → Bool
  | .dict items => items.any fun kv => match kv.1 with | .port _ => true | .mode _ => false
  | _ => false

/-- the call goes to the machine with components as it is -/
def pass (aw : AWorld) (op : COp) : AWorld × Out :=
  let r := cstep aw.cw op
  ({ aw with cw := r.1 }, r.2)

/-- the processor has 0 modes (after `clear_input_and_circuit()`) -/
def emptyProc (aw : AWorld) : Bool :=
  match aw.cw.w.exp with
  | some e => e.size == 0
  | none => false

/-- calls that do not look at the circuit: modelled on a processor of 0 modes too -/
def Op.okOnEmpty : Op → Bool
  | .setFilter _ => true
  | .setNoise _ => true
  | .setParam _ _ => true
  | .clearParams => true
  | .execute _ _ _ _ => true
  | _ => false

/-- `prepare_job_payload` on a processor of 0 modes: nothing to send — `Circuit(0)` asserts, after the filter check
and the parameter synchronisation -/
def prepareEmpty (aw : AWorld) (circuitless : Bool) (kw : Dict V) : AWorld × Out :=
  match aw.cw.w.exp with
  | none => (aw, .err .precondition)
  | some e =>
    if circuitless then (aw, .err .precondition)
    else if (dget kw "command").isSome then (aw, .err .type)
    else if e.filter.isNone then (aw, .err .value)
    else (setExp aw (syncFilterParam e), .err .assertion)

/-- a call of the session machine -/
def astepPlain (aw : AWorld) (op : Op) : AWorld × Out :=
  match op with
  | .setPost _ => (aw, .err .precondition)                   -- use `.post` / `.clearPost`
  | .addHerald mode ex =>
    if ex ≤ 1 ∧ underPort aw.ports mode = true then (aw, .err .unavailable)       -- "Another port overlaps"
    else pass aw (.plain op)
  | .prepare _ cl _ kw =>
    if emptyProc aw = true then prepareEmpty aw cl kw else pass aw (.plain op)
  | op =>
    if emptyProc aw = true ∧ op.okOnEmpty = false then (aw, .err .precondition)
    else pass aw (.plain op)

/-- a constructor: the new processor has no named port and no post-selection -/
def freshOn (aw : AWorld) (r : AWorld × Out) (known : Bool) (psc : Option (List (List Nat))) : AWorld × Out :=
  if r.2 = .done then ({ r.1 with ports := [], portsKnown := known, psc := psc }, r.2) else r

def astepBase (aw : AWorld) : COp → AWorld × Out
  | .newRemote via c noise => freshOn aw (pass aw (.newRemote via c noise)) true none
  | .convert p pc =>
    if p.post.isSome ∨ p.size = 0 then (aw, .err .precondition)           -- use `.convertPS`
    else freshOn aw (pass aw (.convert p pc)) false none
  | .add _ _ => (aw, .err .precondition)                     -- use `.addMapped (.offset k)`
  | .setCircuit checked c =>
    match aw.cw.w.exp with
    | some e =>
      if e.size = 0 then
        -- `if self._n_moi == 0: self.m = circuit.m` (after `check_circuit`: a refusal leaves 0 modes)
        let r := pass (setExp aw (sized e c.m)) (.setCircuit checked c)
        if r.2 = .done then r else (aw, r.2)
      else pass aw (.setCircuit checked c)
    | none => pass aw (.setCircuit checked c)
  | .plain op => astepPlain aw op

def astep (aw : AWorld) : AOp → AWorld × Out
  | .base op => astepBase aw op
  | .convertPS p pc conds =>
    if p.post.isNone ∨ p.size = 0 then (aw, .err .precondition)
    else
      -- conditions are renumbered with the conversion's relabelling: local mode `x` is the new mode `σ.idxOf x`
      freshOn aw (pass aw (.convert p pc)) false (some (conds.map fun c => c.map fun x => (relabelOf p).idxOf x))
  | .post id conds =>
    let r := pass aw (.plain (.setPost (some id)))
    if r.2 = .done then ({ r.1 with psc := some conds }, r.2) else r
  | .clearPost =>
    let r := pass aw (.plain (.setPost none))
    if r.2 = .done then ({ r.1 with psc := none }, r.2) else r
  | .addPort mode name size =>
    match aw.cw.w.exp with
    | none => (aw, .err .precondition)
    | some e =>
      if size = 0 ∨ e.size < mode + size ∨ aw.portsKnown = false then (aw, .err .precondition)
      else if (List.range size).any (fun i => underPort aw.ports (mode + i) || (heraldModes e).contains (mode + i)) = true then
        (aw, .err .unavailable)
      else ({ aw with ports := aw.ports ++ [⟨name, mode, size⟩] }, .done)
  | .addMapped mp c =>
    match aw.cw.w.exp with
    | none => (aw, .err .precondition)
    | some e0 =>
      if ¬ c.WF ∨ c.m = 0 ∨ (usesPortName mp = true ∧ aw.portsKnown = false) then (aw, .err .precondition)
      else
        -- `if self.m == 0: self.m = …` (kept even when the call then raises)
        match (if e0.size = 0 then (firstSize mp c.m).map (sized e0) else some e0) with
        | none => (aw, .err .precondition)
        | some e =>
          match resolveAdd aw e mp c with
          | .error err => (setExp aw e, .err err)
          | .ok nm =>
            (setComps (setExp aw (addComponent e c.sym c.cparams)) (aw.cw.comps ++ mappedComps nm c), .done)
  | .setParams d =>
    match aw.cw.w.exp with
    | none => (aw, .err .precondition)
    | some e =>
      match setParams e d with
      | (e', some err) => (setExp aw e', .err err)
      | (e', none) => (setExp aw e', .done)
  | .thresholded v =>
    match aw.cw.w.exp with
    | none => (aw, .err .precondition)
    | some e =>
      if v = false ∧ aw.thrOnly = true then (aw, .err .assertion)
      else (setExp aw (setParam e "thresholded" (.bool v)), .done)
  | .clearAll newM sym =>
    match aw.cw.w.exp with
    | none => (aw, .err .precondition)
    | some e =>
      let aw₀ := setComps { (setExp aw (resetExp e sym)) with ports := [], portsKnown := true, psc := none } []
      match newM with
      | none => (aw₀, .done)
      | some i =>
        if i < 1 then (aw₀, .err .value)            -- the `m` setter refuses, after the reset
        else (setExp aw₀ (sized (resetExp e sym) i.toNat), .done)

def AWorld.init (pf : Platform) (thrOnly : Bool) : AWorld := ⟨CWorld.init pf, [], true, none, thrOnly⟩

/-! ### the user-level reading -/

section Mat
variable {R : Type} [CommRing R] [StarRing R]

/-- where the light of mode `j` goes under the user's mapping `nm` (`{processor mode: component input}`): a mode
`mn + i` of the span `min key … max key` goes to `mn + v` where `v` is the input the user gave it, or — for a mode of
the span the user did not name — the next free position behind the component's inputs; every other mode stays -/
def routeFn (N : Nat) (nm : NMap) (j : Fin N) : Fin N :=
  if h : minL (nm.map (·.1)) ≤ j.val ∧ j.val < minL (nm.map (·.1)) + spanLen nm ∧
      minL (nm.map (·.1)) + spanVal nm (j.val - minL (nm.map (·.1))) < N then
    ⟨minL (nm.map (·.1)) + spanVal nm (j.val - minL (nm.map (·.1))), h.2.2⟩
  else j

/-- one thing the user did to the circuit since the last reset -/
inductive Seg where
  | leaves (ls : List (Nat × Leaf))      -- elementary components at absolute positions, in order
  | route (nm : NMap)                    -- "send mode `k` to the component input `v`" for every `k: v`
deriving DecidableEq, Repr

def Seg.mat (ρ : Env R) (N : Nat) : Seg → Matrix (Fin N) (Fin N) R
  | .leaves ls => flatMat ρ N ls
  | .route nm => permMatF (routeFn N nm)

/-- later segments on the left -/
def segsMat (ρ : Env R) (N : Nat) (segs : List Seg) : Matrix (Fin N) (Fin N) R :=
  segs.foldl (fun acc s => s.mat ρ N * acc) 1

end Mat

/-- the processor the user built: a `Spec` (converted local processor and the components put behind it by the calls
`cstep` knows), then the segments of the mapped `add`s and of whatever followed them -/
structure ASpec where
  sp : Spec
  segs : List Seg
deriving DecidableEq, Repr

section Mat
variable {R : Type} [CommRing R] [StarRing R]

def ASpec.mat (ρ : Env R) (N : Nat) (s : ASpec) : Matrix (Fin N) (Fin N) R := segsMat ρ N s.segs * s.sp.mat ρ N

end Mat

/-- the reading after a call that succeeded (`done`) -/
def aspecAfter (aw : AWorld) (s : ASpec) : AOp → ASpec
  | .base op =>
    match op with
    | .newRemote _ _ _ => ⟨specAfter s.sp op, []⟩
    | .convert _ _ => ⟨specAfter s.sp op, []⟩
    | .setCircuit _ _ => ⟨specAfter s.sp op, []⟩
    | _ => s
  | .convertPS p pc _ => ⟨specAfter s.sp (.convert p pc), []⟩
  | .addMapped mp c =>
    match aw.cw.w.exp with
    | some e0 =>
      match (if e0.size = 0 then (firstSize mp c.m).map (sized e0) else some e0) with
      | some e =>
        match resolveAdd aw e mp c with
        | .ok nm =>
          { s with segs := s.segs ++ (if isIdentity (permVect nm) then [] else [.route nm]) ++
                             [.leaves (shiftLeaves (minL (nm.map (·.1))) c.leaves)] }
        | .error _ => s
      | none => s
    | none => s
  | .clearAll _ _ => ⟨⟨none, []⟩, []⟩
  | _ => s

/-- implementation and user-level reading side by side; `clear_input_and_circuit` resets the reading even when the
`m` setter then raises -/
def asstep (st : AWorld × ASpec) (op : AOp) : (AWorld × ASpec) × Out :=
  let r := astep st.1 op
  let reset : Bool := match op with | .clearAll _ _ => st.1.cw.w.exp.isSome | _ => false
  ((r.1, if r.2 = .done ∨ reset = true then aspecAfter st.1 st.2 op else st.2), r.2)

def asinit (pf : Platform) (thrOnly : Bool) : AWorld × ASpec := (AWorld.init pf thrOnly, ⟨⟨none, []⟩, []⟩)

end PM.C16

namespace PM.C16

/-- the call of the machine with components a call IS, when `astep` does not treat it itself -/
def AOp.delegate (aw : AWorld) : AOp → Option COp
  | .base op =>
    match op with
    | .newRemote _ _ _ => some op
    | .convert p _ => if p.post.isSome ∨ p.size = 0 then none else some op
    | .add _ _ => none
    | .setCircuit _ _ => if emptyProc aw = true then none else some op
    | .plain o =>
      match o with
      | .setPost _ => none
      | .addHerald mode ex => if ex ≤ 1 ∧ underPort aw.ports mode = true then none else some op
      | .prepare _ _ _ _ => if emptyProc aw = true then none else some op
      | o => if emptyProc aw = true ∧ o.okOnEmpty = false then none else some op
  | .convertPS p pc _ => if p.post.isNone ∨ p.size = 0 then none else some (.convert p pc)
  | .post id _ => some (.plain (.setPost (some id)))
  | .clearPost => some (.plain (.setPost none))
  | _ => none

end PM.C16
