/-
  C04 — a long-lived `Simulator` / `Processor` whose *selection* (heralds, post-selection, photon filter,
  keep_heralds, detectors) changes between queries.  The circuit (hence the engine `eng` and the mode count `m`)
  is fixed for the session; circuits, inputs, noise and precision of a reused object are C05's subject.

  `Simulator` fields modelled: `_heralds`, `_n_heralds` (a *separate* field, written by `set_heralds` /
  `clear_heralds` only, read by `_best_n`; the photon filter reads `sum(_heralds.values())`), `_postselect`,
  `_min_detected_photons_filter`, `_keep_heralds`, `_can_use_mask`, and the mask left on the backend
  (`_backend._masks_str`, `_backend._mask_n`) — concretely, as the native mask string and photon number.

  `probs_svd` (fast path) is modelled with its walk over the set of `(group, budget)` keys *sorted by budget*:
  `use_mask(n)` is called when the budget changes and is non-zero, a group with budget 0 (the vacuum of a vacuum
  input) is computed under whatever mask is on the backend at that moment — `init_use_mask` removes the one an
  earlier call left (fixes/C04-stale-mask-vacuum.diff) — and every group distribution is what the engine returns
  under the mask on the backend when it is computed (`underMask`).

  `Processor`: the kept simulator `_simulator` is built by `SimulatorFactory.build` from the heralds and the
  post-selection of that moment (`set_selection`: `None` arguments leave the fresh simulator's defaults); later calls
  give it the photon filter again and nothing else; `set_postselection`, `clear_postselection` (only when one is set),
  `add_herald` and adding a detector notify `_circuit_changed`, which drops the kept simulator.  `clear_postselection`
  carries a flag `notify` so that the regression witness of a silent variant can be stated.
-/
import PercevalModel.Model.C04
import PercevalModel.Model.C04Trim
import PercevalModel.Found.SM

namespace PM.C04
open PM.Fock PM.Dist PM.SimSpec

/-- the mask on the backend: native mask (per mode an expected count or blank) and photon number -/
abbrev BMask := Option (List (Option ℕ) × ℕ)

structure SimSt where
  heralds : List (ℕ × ℕ)
  nHer : ℕ
  ps : PS
  userFilter : ℕ
  keep : Bool
  canUseMask : Bool
  bmask : BMask

/-- `Simulator(backend)`: no heralds, `PostSelect()`, filter 0, heralds kept, no mask -/
def SimSt.init : SimSt := ⟨[], 0, .tt, 0, true, false, none⟩

inductive SimOp where
  /-- `ISimulator.set_selection(min_detected_photons_filter, postselect, heralds)`: `None` leaves a setting as it is -/
  | setSelection (filter : Option ℕ) (ps : Option PS) (heralds : Option (List (ℕ × ℕ)))
  | setHeralds (h : List (ℕ × ℕ))
  | clearHeralds
  | setPostselection (p : PS)
  | clearPostselection
  | setFilter (k : ℕ)
  | keepHeralds (b : Bool)
  | probsSvd (ds : List Det) (members : List Member)

inductive SimOut where
  | ok
  | res (o : Out)

/-- the engine's distribution of one group under the mask that is on the backend: a group of `s.sum` photons may
leave at most `n - s.sum` of the masked counts to other groups (`PM.Fock.maskOk`) -/
def underMask (bm : BMask) (eng : Fock → D) (s : Fock) : D :=
  match bm with
  | none => eng s
  | some (mask, n) => restrict (maskOk mask (n - s.sum)) (eng s)

/-- `use_mask(n)`: `_setup_heralds(n)` when the mask may be used, otherwise the backend's mask is removed -/
def useMask (m : ℕ) (st : SimSt) (n : ℕ) : BMask :=
  if st.canUseMask then some (heraldMask m st.heralds, n) else none

structure Walk where
  prev : Option ℕ                        -- `previous_n`
  bmask : BMask
  cache : List ((Fock × ℕ) × D)          -- `cache[(state, n)]`

/-- one iteration of `for (state, n) in sorted(input_set, key=lambda x: x[1])` -/
def walkStep (eng : Fock → D) (m : ℕ) (st : SimSt) (w : Walk) (key : Fock × ℕ) : Walk :=
  let w1 : Walk :=
    if w.prev ≠ some key.2 ∧ key.2 ≠ 0 then { w with prev := some key.2, bmask := useMask m st key.2 } else w
  { w1 with cache := (key, underMask w1.bmask eng key.1) :: w1.cache }

/-- the configuration a simulator state denotes (the `pnr` field is overwritten by the detectors of the query) -/
def SimSt.cfg (m : ℕ) (st : SimSt) : Cfg :=
  { m := m, heralds := st.heralds, ps := st.ps, userFilter := st.userFilter, keepHeralds := st.keep, pnr := true }

/-- `res` of `_probs_svd_fast` for an arbitrary source `gd nExt s` of group distributions -/
def resG (gd : ℕ → Fock → D) (c : Cfg) (members : List Member) : D :=
  mix ((kept c members).map fun mb => (mb.w, convAll [(zeros c.m, 1)] (mb.groups.map (gd mb.n))))

/-- `probs_svd` after the accumulation loop, with the detector stage -/
def tailDet (c : Cfg) (ds : List Det) (phys : ℚ) (res : D) : Out :=
  if allPnr ds then finishSvd c phys res
  else
    let acc := mass res
    let l0 := if 0 < acc ∧ 0 < phys then acc / phys else acc
    if acc = 0 then ⟨[], phys, 0⟩
    else
      let det := detect (ds.map Det.kern) (normalize res)
      let pass := restrict (fun t => decide (minFilter c ≤ t.sum)) det
      let phys2 := 1 - mass (restrict (fun t => !decide (minFilter c ≤ t.sum)) det)
      let ps := postSelect c (normalize pass)
      ⟨ps.1, phys * phys2, l0 * ps.2⟩

/-- `Simulator.probs_svd(svd, detectors)` on the long-lived object -/
def simProbs (eng : Fock → D) (m : ℕ) (st : SimSt) (ds : List Det) (members : List Member) : SimSt × Out :=
  -- `init_use_mask(is_pnr)`
  let st1 : SimSt := { st with canUseMask := !st.heralds.isEmpty && allPnr ds, bmask := none }
  let c : Cfg := { st1.cfg m with pnr := allPnr ds }
  let keys := (kept c members).flatMap fun mb =>
    mb.groups.map fun s => (s, bestN st1.canUseMask st1.nHer mb.n s.sum)
  let w := (keys.mergeSort fun a b => decide (a.2 ≤ b.2)).foldl (walkStep eng m st1) ⟨none, st1.bmask, []⟩
  let gd : ℕ → Fock → D := fun nExt s => (w.cache.lookup (s, bestN st1.canUseMask st1.nHer nExt s.sum)).getD []
  ({ st1 with bmask := w.bmask }, tailDet c ds (physInputs c members) (resG gd c members))

def simStep (eng : Fock → D) (m : ℕ) (st : SimSt) : SimOp → SimSt × SimOut
  | .setSelection f p h =>
    let st1 := match f with | some k => { st with userFilter := k } | none => st
    let st2 := match p with | some q => { st1 with ps := q } | none => st1
    let st3 := match h with | some hs => { st2 with heralds := hs, nHer := nHeralds hs } | none => st2
    (st3, .ok)
  | .setHeralds hs => ({ st with heralds := hs, nHer := nHeralds hs }, .ok)
  | .clearHeralds => ({ st with heralds := [], nHer := 0 }, .ok)
  | .setPostselection p => ({ st with ps := p }, .ok)
  | .clearPostselection => ({ st with ps := .tt }, .ok)
  | .setFilter k => ({ st with userFilter := k }, .ok)
  | .keepHeralds b => ({ st with keep := b }, .ok)
  | .probsSvd ds members =>
    let r := simProbs eng m st ds members
    (r.1, .res r.2)

/-! ### Processor -/

structure ProcSt where
  heralds : List (ℕ × ℕ)          -- `experiment.heralds`, in declaration order
  ps : Option PS                   -- `experiment._postselect`
  filter : Option ℕ               -- `experiment._min_detected_photons_filter`
  dets : List Det                  -- `experiment.detectors` (empty list: none declared)
  sim : Option SimSt               -- `_simulator`

def ProcSt.init : ProcSt := ⟨[], none, none, [], none⟩

inductive ProcOp where
  | addHerald (k v : ℕ)
  | setDetectors (ds : List Det)
  | setPostselection (p : PS)
  | clearPostselection
  | setFilter (k : ℕ)
  /-- `probs()`: the input mixture of that moment and, when the source is perfect and the input a Fock state, the
  photon number of the user's part of it (the automatic filter) -/
  | probs (members : List Member) (autoN : Option ℕ)

inductive ProcOut where
  | ok
  | exc (e : String)
  | res (o : Out)

/-- `SimulatorFactory.build(processor)`: a fresh simulator given the selection of that moment -/
def buildSim (eng : Fock → D) (m : ℕ) (filter : Option ℕ) (ps : Option PS) (heralds : List (ℕ × ℕ)) : SimSt :=
  (simStep eng m SimSt.init (.setSelection filter ps (some heralds))).1

/-- `Processor.probs()` -/
def procProbs (eng : Fock → D) (m : ℕ) (p : ProcSt) (members : List Member) (autoN : Option ℕ) : ProcSt × ProcOut :=
  -- `check_min_detected_photons_filter`: the automatic value is stored
  match p.filter.or autoN with
  | none => (p, .exc "ValueError")
  | some f =>
    let s0 : SimSt := match p.sim with
      | none => buildSim eng m (some f) p.ps p.heralds
      | some s => { s with userFilter := f }        -- `set_min_detected_photons_filter`
    let r := simProbs eng m { s0 with keep := false } p.dets members
    ({ p with filter := some f, sim := some r.1 }, .res r.2)

/-- `notify = true`: the code as it is.  `false`: `clear_postselection` without `_circuit_changed()` — kept for the
regression witness only. -/
def procStep (notify : Bool) (eng : Fock → D) (m : ℕ) (p : ProcSt) : ProcOp → ProcSt × ProcOut
  | .addHerald k v => ({ p with heralds := p.heralds ++ [(k, v)], sim := none }, .ok)
  | .setDetectors ds => ({ p with dets := ds, sim := none }, .ok)
  | .setPostselection q => ({ p with ps := some q, sim := none }, .ok)
  | .clearPostselection =>
    (if p.ps.isSome then { p with ps := none, sim := if notify then none else p.sim } else p, .ok)
  | .setFilter k => ({ p with filter := some k }, .ok)
  | .probs members autoN => procProbs eng m p members autoN

/-- the configuration a processor state denotes, for the effective filter `f` -/
def ProcSt.cfg (m : ℕ) (p : ProcSt) (f : ℕ) : Cfg :=
  { m := m, heralds := p.heralds, ps := p.ps.getD .tt, userFilter := f, keepHeralds := false, pnr := true }

end PM.C04
