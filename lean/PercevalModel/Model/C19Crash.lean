/-
  C19 (extension) — the stopping point between the server's answer to `create_job` / `rerun_job` and the
  `_write_to_file` that follows it in `_launch_jobs`.

      job.execute_async()        -- (or job.rerun()): returns once the server has issued an identifier
      …
      self._write_to_file()      -- save data after each job (rerun/execution) at launch

  A process that dies between the two has run no code that could save the identifier: it leaves the file as it was
  when the request left, i.e. the file of the process that dies *at* that server call (a stopping point the
  machine of `Model/C19.lean` has: the script of `outs` running out), while the server has issued one more
  identifier.
-/
import PercevalModel.Model.C19

namespace PM.C19

/-- the state left by a process that dies between the answer `accept g` to its `create_job` / `rerun_job` request
and the `_write_to_file` that follows, `s` being the state left by the process that dies at that request: memory is
lost and the group re-opened from the file; the server's counter and the ghost list of issued identifiers have
moved on -/
def crashAfterAnswer (s : State) (g : Nat) : State :=
  (construct fixed { s with next := s.next + g + 1, issued := (s.next + g) :: s.issued }).1

end PM.C19
