/-
  C19 — model of `perceval/runtime/job_group.py` (`JobGroup`), the part of
  `perceval/runtime/remote_job.py` it persists (`RemoteJob._to_dict/_from_dict/_create_payload_data/
  execute_async/rerun/status`) and the file primitives of `perceval/utils/persistent_data.py`.

  Memory  = ordered list of job records (`JobGroup._jobs`).
  Disk    = what `_write_to_file` puts in `<data dir>/job_group/<name>.jgrp` (dates dropped):
            per job `id`, `status` (null when not sent), `metadata`, `body` (absent when SUCCESS).
  Server  = a script of answers consumed by the server calls of one operation, in call order:
            `outs` for `create_job`/`rerun_job` (accept with a fresh identifier / refuse),
            `sts` for `get_job_status` (a status, or a failed request that `_handle_status_error`
            re-raises or swallows).  A script that runs out means *the process stops at that
            call* (kill, hang): memory is lost and the group is re-opened from the file, so every
            prefix of every loop is a reachable stopping point.

  The code has five behaviours that break property C19 on the pinned tree; each is a flag of
  `Variant` (`false` = the code as pinned, `true` = the repaired behaviour, `fixes/C19-*.diff`):
  * `ctxFix`  — `RemoteJob._from_dict` restores `job_context` from the stored payload
                (pinned: a reloaded job has `_job_context = None`, and `_create_payload_data`
                then overwrites `payload['job_context']` with `None`);
  * `dirFix`  — `JobGroup.__init__` creates `<data dir>/job_group` (pinned: nobody does, and
                `PersistentData.write_file` only warns "Can't save" when the directory is missing);
  * `addFix`  — `JobGroup.add` serialises the job before appending it (pinned: append, then
                `_write_to_file` raises `TypeError` for a job that cannot be serialised, leaving
                it in memory only);
  * `statFix` — the rerun loop of `_launch_jobs` uses the statuses just refreshed (pinned:
                `job.is_failed` queries the server again and the new status is not written);
  * `pollFix` — the sequential wait `while not job.status.completed` writes the last status seen
                when a status request raises inside it (pinned: the statuses seen during the wait are
                only written once the job is complete; an error leaving the wait leaves them in memory).

  Two more, found when `get_results` entered the model (`fixes/C19-results-delta-parameters.diff`,
  `fixes/C19-get-results-status.diff`):
  * `resFix`  — `RemoteJob._get_results` leaves the job's `_delta_parameters` alone (before: results carrying a
                `result_mapping` made it replace the dictionary, after which `_create_payload_data` — every save of
                the group, every rerun — raises `KeyError`);
  * `gstFix`  — `JobGroup.get_results` writes a status that `job.get_results()` refreshed (before: `job.status` of an
                UNKNOWN job is evaluated again inside `job.get_results()` and the answer stays in memory only).

  Also modelled: `get_results` (per results request an answer `Rsp`), `track_progress` (rounds of refreshes), Ctrl-C
  (`Ans.intr`: `KeyboardInterrupt` in a status request or in the `time.sleep` after it), deletion of the group's
  file by name / with all groups / by date followed by re-opening the name (`created`, `clock`), and at the end the
  directory of group files (`NS`: listing, deletion of all, deletion by date over many names).

  Abstractions (the correspondence harness realises them with concrete values):
  identifiers, job names, handler metadata (token, platform, url, proxies) and the untouched rest
  of the payload are natural-number tokens; of the payload the model keeps what the code touches:
  `job_name`, `payload.max_samples`, `payload.max_shots`, `payload.job_context`
  (`result_mapping`, `mapping_delta_parameters`).  Command delta parameters are restricted to the
  `max_samples` key and mapping delta parameters to `{max_samples, max_shots}` (what `Sampler` builds).
  The `rest` token stands for the request *as it leaves for the server* (`serialize(body)` encoded as JSON);
  a stored body equals the request only if writing it to the file and reading it back does not change
  that form, which is the case exactly for bodies made of JSON values: `Job.js` records whether the body
  is one, and `prep` (hence every save) refuses a body that is not, as `json.dumps` does.
  Core Lean only.
-/
import PercevalModel.Found.SM

namespace PM.C19

/-! ## Job status (`RunningStatus`, `JobStatus` predicates) -/

inductive Status where
  | waiting | running | success | error | canceled | suspended | cancelRequested | unknown
  deriving DecidableEq, Repr, Inhabited

namespace Status
/-- `JobStatus.completed` -/
def completed : Status → Bool
  | success | error | canceled => true
  | _ => false
/-- `JobStatus.failed` -/
def failed : Status → Bool
  | error | canceled => true
  | _ => false
/-- `JobStatus.success` -/
def isSuccess : Status → Bool
  | success => true
  | _ => false
/-- `JobStatus.waiting` -/
def isWaiting : Status → Bool
  | waiting => true
  | _ => false
/-- `JobStatus.running` (includes CANCEL_REQUESTED) -/
def isRunning : Status → Bool
  | running | cancelRequested => true
  | _ => false
end Status

/-! ## Requests -/

/-- `_delta_parameters['mapping']` when non-empty: `{max_samples, max_shots}` (values nullable) -/
structure MapDelta where
  maxSamples : Option Nat
  maxShots : Option Nat
  deriving DecidableEq, Repr

/-- a `job_context` dictionary: `result_mapping` (token of the converter), `mapping_delta_parameters` -/
structure Ctx where
  rm : Option Nat
  md : Option MapDelta
  deriving DecidableEq, Repr

/-- `request_data['payload']` as far as the code touches it; outer `Option` = key absent,
inner `Option` = JSON null -/
structure Payload where
  rest : Nat
  maxSamples : Option (Option Nat)
  maxShots : Option (Option Nat)
  ctx : Option (Option Ctx)
  deriving DecidableEq, Repr

/-- `request_data` -/
structure Req where
  jobName : Option Nat
  payload : Payload
  deriving DecidableEq, Repr

/-- a `RemoteJob` -/
structure Job where
  id : Option Nat                -- `_id`
  st : Status                    -- `_job_status.status`
  hd : Nat                     -- handler: token, platform, url, proxies
  name : Nat                     -- `_name`
  req : Option Req               -- `_request_data` (None for a job loaded from a SUCCESS entry / `from_id`)
  ctx : Option Ctx               -- `_job_context`
  cmdMax : Option (Option Nat)   -- `_delta_parameters['command']['max_samples']`: absent | None | value
  dmap : Option MapDelta         -- `_delta_parameters['mapping']` (none = empty dict)
  res : Bool := false            -- `_results` is truthy: results were downloaded and are cached
  dp : Bool := true              -- `_delta_parameters` still is `{'command': …, 'mapping': …}` (see `Variant.resFix`)
  js : Bool := true              -- the request data hold JSON values only (`json.dumps` of the body succeeds).  A job
                                 --   built by a `Sampler` with iterations keeps `BasicState` / `NoiseModel` objects in
                                 --   `payload['iterator']`; `execute_async` sends `serialize(body)`, which has a JSON
                                 --   form, but `_write_to_file` calls `json.dumps` on the body itself → `TypeError`.
                                 --   A job read back from the file is made of JSON values (`fromDict`: default).
  deriving DecidableEq, Repr

inductive Err where
  | typeError | valueError | runtimeError | assertionError | httpError | connectionError
  | keyError             -- `self._delta_parameters['command']` on a job whose delta parameters were overwritten
  | keyboardInterrupt    -- the user interrupts the process (Ctrl-C); not an `Exception`
  deriving DecidableEq, Repr

/-- `_check_max_shots_samples_validity`: both keys present → compare (a `None` operand is a
`TypeError` in Python 3), lower `max_samples` to `max_shots` -/
def clamp (p : Payload) : Except Err Payload :=
  match p.maxSamples, p.maxShots with
  | none, _ => .ok p
  | some _, none => .ok p
  | some none, some _ => .error .typeError
  | some (some _), some none => .error .typeError
  | some (some x), some (some y) => if x > y then .ok { p with maxSamples := some (some y) } else .ok p

/-- the `job_context` after `_create_payload_data` merged the mapping delta parameters into it -/
def mergeCtx (j : Job) : Option Ctx :=
  match j.dmap with
  | none => j.ctx
  | some m => some { rm := (match j.ctx with | some c => c.rm | none => none), md := some m }

/-- `RemoteJob._create_payload_data()` without arguments, for a job whose `_delta_parameters` are intact:
the job after the call (its `_request_data` is the prepared request).  `_request_data is None` → `TypeError`. -/
def normCore (j : Job) : Except Err Job :=
  match j.req with
  | none => .error .typeError
  | some r =>
    match clamp { r.payload with
                  maxSamples := (match j.cmdMax with | none => r.payload.maxSamples | some v => some v),
                  ctx := some (mergeCtx j) } with
    | .error e => .error e
    | .ok p => .ok { j with ctx := mergeCtx j, req := some { jobName := some j.name, payload := p } }

/-- `RemoteJob._create_payload_data()`: `_handle_params` reads `self._delta_parameters['command']` first —
`KeyError` once `_get_results` replaced the dictionary (pinned code, `Variant.resFix`) -/
def norm (j : Job) : Except Err Job := if j.dp then normCore j else .error .keyError

/-- `Job._handle_params((), kwargs)` with `kwargs = {max_samples: v}`: fill a `None` placeholder
(command first, then mapping), otherwise `RuntimeError("Unused parameters")` -/
def fillKw (j : Job) (v : Nat) : Except Err Job :=
  if !j.dp then .error .keyError
  else if j.cmdMax = some none then .ok { j with cmdMax := some (some v) }
  else match j.dmap with
    | some m => if m.maxSamples = none then .ok { j with dmap := some { m with maxSamples := some v } }
                else .error .runtimeError
    | none => .error .runtimeError

/-! ## Serialisation -/

/-- one entry of `job_group_data` -/
structure DJob where
  id : Option Nat
  status : Option Status
  hd : Nat
  body : Option Req
  deriving DecidableEq, Repr

/-- `RemoteJob._to_dict` of a job whose request is already prepared -/
def toDict (j : Job) : DJob :=
  { id := j.id,
    status := if j.id.isSome then some j.st else none,
    hd := j.hd,
    body := if j.st.isSuccess then none else j.req }

/-- what saving the group asks of one job: `_to_dict` prepares the request unless SUCCESS (then there is no body),
and `json.dumps` must be able to write that body: a body holding a value that is not JSON makes
`_write_to_file` raise `TypeError` before the file is touched.  (In the code `json.dumps` runs once every
`_to_dict` has returned; folding its test into the per-job step changes neither the outcome — an error,
the file untouched — nor, on a group whose other jobs are all saved already, which error it is.) -/
def prep (j : Job) : Except Err Job :=
  if j.st.isSuccess then .ok j
  else match norm j with
    | .error e => .error e
    | .ok j' => if j'.js then .ok j' else .error .typeError

/-- `_to_json`: every job prepared in list order; the first failure aborts -/
def saveAll : List Job → Except Err (List Job)
  | [] => .ok []
  | j :: js =>
    match prep j with
    | .error e => .error e
    | .ok j' =>
      match saveAll js with
      | .error e => .error e
      | .ok js' => .ok (j' :: js')

structure Variant where
  ctxFix : Bool
  dirFix : Bool
  addFix : Bool
  statFix : Bool
  pollFix : Bool
  resFix : Bool     -- `RemoteJob._get_results` leaves `_delta_parameters` alone (before: replaced by the mapping
                    --   delta parameters of the results, after which `_create_payload_data` raises `KeyError`)
  gstFix : Bool     -- `JobGroup.get_results` writes a status that `job.get_results()` refreshed (before: unsaved)
  deriving DecidableEq, Repr

/-- the code as pinned -/
def current : Variant := ⟨false, false, false, false, false, false, false⟩
/-- the repaired code (main model) -/
def fixed : Variant := ⟨true, true, true, true, true, true, true⟩

/-- `RemoteJob._from_dict` (+ `JobGroup._build_remote_job`: same handler metadata).  An entry
without body that is not SUCCESS cannot be produced by `toDict`; the model maps it to a job
without request. -/
def fromDict (v : Variant) (e : DJob) : Job :=
  if e.status = some .success then
    { id := e.id, st := .success, hd := e.hd, name := 0, req := none, ctx := none,
      cmdMax := none, dmap := none }
  else
    { id := e.id,
      st := (match e.status with | some s => s | none => .waiting),
      hd := e.hd,
      name := (match e.body with
               | some b => (match b.jobName with | some n => n | none => 0)
               | none => 0),
      req := e.body,
      ctx := if v.ctxFix then
               (match e.body with
                | some b => (match b.payload.ctx with | some c => c | none => none)
                | none => none)
             else none,
      cmdMax := none, dmap := none }

/-! ## State -/

inductive Outcome where
  | accept (gap : Nat)   -- the server issues identifier `next + gap` (never issued before)
  | refuse
  deriving DecidableEq, Repr

/-- what one `get_job_status` request comes to (`RemoteJob.status` + `_handle_status_error`).  Whether a
failed request is re-raised or swallowed is decided by the code from the HTTP status code and from its
in-memory count of faults in a row (`_status_refresh_error`, `_MAX_ERROR`); the model leaves that choice to
the script, so the theorems hold for every pattern of raised / swallowed faults (the code's pattern is one
of them). -/
inductive Ans where
  | st (x : Status)     -- the server answers; the status becomes `x`
  | fault (e : Err)     -- the request fails and the error leaves `job.status` (unrecoverable HTTP status,
                        --   or the `_MAX_ERROR`-th fault in a row): nothing in memory changes
  | ignored             -- the request fails with a recoverable fault: logged, the previous status is returned
  | intr                -- Ctrl-C at the next interruptible point — the status request itself, or the `time.sleep`
                        --   that follows it (wait loop, delay between two sequential launches, `track_progress`):
                        --   `KeyboardInterrupt` leaves the operation through its `finally` clauses
  deriving DecidableEq, Repr

/-- what one `get_job_results` request comes to (`RemoteJob._get_results`) -/
inductive Rsp where
  | ok (mapped : Bool)  -- results delivered and cached; `mapped`: they carry a `job_context.result_mapping`
  | unavailable         -- no decodable results (`TypeError`/`KeyError` inside `_get_results`) → `RuntimeError`
  | fault (e : Err)     -- the request fails (HTTP error, connection error, Ctrl-C): the error leaves `get_results`
  deriving DecidableEq, Repr

/-- ghost record of one `create_job` request -/
structure Sent where
  idx : Nat
  id : Nat
  req : Option Req        -- the request that left (`_create_payload_data()` of the job)
  stored : Option Req     -- the body the file held for that entry when the request left
  deriving DecidableEq, Repr

structure State where
  mem : List Job
  disk : Option (List DJob)   -- none = no file
  dir : Bool                  -- `<data dir>/job_group` exists
  next : Nat                  -- server: every identifier issued so far is below
  outs : List Outcome         -- script of the running operation
  sts : List Ans
  rsps : List Rsp             -- answers to `get_job_results`
  created : Nat               -- `created_date` of the group object (= of the file when there is one), in seconds
  clock : Nat                 -- `datetime.now()` of the running operation
  sent : List Sent            -- ghost: all `create_job` requests, oldest first
  issued : List Nat           -- ghost: identifiers the server issued to this group's launches
  retired : List Nat          -- ghost: identifiers of failed jobs replaced by their rerun
  deriving Repr

inductive Res where
  | ok
  | raised (e : Err)
  | killed
  deriving DecidableEq, Repr

/-- update the job at position `i` -/
def upd (f : Job → Job) : List Job → Nat → List Job
  | [], _ => []
  | j :: js, 0 => f j :: js
  | j :: js, i + 1 => j :: upd f js i

def setSt (x : Status) (j : Job) : Job := { j with st := x }

/-- `_write_to_file`: `_to_json` may raise before the file is touched; without the directory
`write_file` only warns -/
def write (s : State) : Except Err State :=
  match saveAll s.mem with
  | .error e => .error e
  | .ok m => .ok { s with mem := m, disk := if s.dir then some (m.map toDict) else s.disk }

def writeR (s : State) : State × Res :=
  match write s with
  | .ok s' => (s', .ok)
  | .error e => (s, .raised e)

/-- `try: self._write_to_file() except Exception: <undo>; raise` — when `_to_json` raises, the state `s0` from
before the attempted change is what remains -/
def writeOr (s0 s : State) : State × Res :=
  match write s with
  | .ok s' => (s', .ok)
  | .error e => (s0, .raised e)

/-- `JobGroup(name)`: load when the file exists (jobs and `created_date`), else start empty — created
now — and write -/
def construct (v : Variant) (s : State) : State × Res :=
  let s1 : State := { s with dir := s.dir || v.dirFix, outs := [], sts := [], rsps := [] }
  match s1.disk with
  | some d => ({ s1 with mem := d.map (fromDict v) }, .ok)
  | none => writeR { s1 with mem := [], created := s1.clock }

/-- the process stops here: memory is lost, the group is re-opened from the file -/
def kill (v : Variant) (s : State) : State × Res := ((construct v s).1, .killed)

def ids (l : List Job) : List Nat := l.filterMap (·.id)

def diskBody (s : State) (i : Nat) : Option Req :=
  match s.disk with
  | none => none
  | some d => (match d[i]? with | some e => e.body | none => none)

/-! ## Operations -/

/-- `JobGroup.add(job, max_samples=kw)` -/
def addOp (v : Variant) (s : State) (j : Job) (kw : Option Nat) : State × Res :=
  if (match j.id with | some k => decide (k ∈ ids s.mem) | none => false) then (s, .raised .valueError)
  else
    match (match kw with | none => Except.ok j | some x => (fillKw j x).bind norm) with
    | .error e => (s, .raised e)
    | .ok j1 =>
      let nx := match j1.id with | some k => max s.next (k + 1) | none => s.next
      if v.addFix then writeOr s { s with mem := s.mem ++ [j1], next := nx }   -- `except Exception: self._jobs.pop()`
      else writeR { s with mem := s.mem ++ [j1], next := nx }

/-- `job.status` on job `i`: a sent, not completed job asks the server; `.killed` = script over -/
def query (s : State) (i : Nat) : State × Res :=
  match s.mem[i]? with
  | none => (s, .ok)
  | some j =>
    if j.id.isSome && !j.st.completed then
      match s.sts with
      | [] => (s, .killed)
      | .st x :: rest => ({ s with sts := rest, mem := upd (setSt x) s.mem i }, .ok)
      | .fault e :: rest => ({ s with sts := rest }, .raised e)
      | .ignored :: rest => ({ s with sts := rest }, .ok)
      | .intr :: rest => ({ s with sts := rest }, .raised .keyboardInterrupt)
    else (s, .ok)

/-- one iteration of `_update_job_statuses` -/
def refreshOne (v : Variant) (s : State) (i : Nat) : State × Res :=
  match s.mem[i]? with
  | none => (s, .ok)
  | some j =>
    if j.id.isSome && !j.st.completed then
      match s.sts with
      | [] => kill v s
      | .st x :: rest =>
        let s1 : State := { s with sts := rest, mem := upd (setSt x) s.mem i }
        if x = j.st then (s1, .ok) else writeR s1
      | .fault e :: rest => ({ s with sts := rest }, .raised e)   -- the error leaves `_update_job_statuses`
      | .ignored :: rest => ({ s with sts := rest }, .ok)
      | .intr :: rest => ({ s with sts := rest }, .raised .keyboardInterrupt)
    else (s, .ok)

def refreshIdx (v : Variant) : List Nat → State → State × Res
  | [], s => (s, .ok)
  | i :: is, s =>
    match refreshOne v s i with
    | (s', .ok) => refreshIdx v is s'
    | r => r

/-- `_update_job_statuses` -/
def refreshAll (v : Variant) (s : State) : State × Res := refreshIdx v (List.range s.mem.length) s

/-- how `while not job.status.completed` on the job just sent ends -/
inductive Poll where
  | done (x : Status) (rest : List Ans)              -- completed with status `x`
  | cut                                              -- never completes: the script is over
  | raised (x : Status) (e : Err) (rest : List Ans)  -- a status request raised; last status seen `x`
  deriving DecidableEq, Repr

def pollSts : Status → List Ans → Poll
  | cur, [] => if cur.completed then .done cur [] else .cut
  | cur, a :: r =>
    if cur.completed then .done cur (a :: r)
    else match a with
      | .st x => pollSts x r
      | .ignored => pollSts cur r
      | .fault e => .raised cur e r
      | .intr => .raised cur .keyboardInterrupt r    -- in the status request or in the `time.sleep(1)` after it

/-- after a job was sent: write; sequential mode: poll job `p` until completed, write again.
A status request that raises inside the wait ends the launch; `pollFix`: the last status seen is written
first (`try … finally`), pinned: it stays in memory only. -/
def afterSend (v : Variant) (seq : Bool) (s : State) (p : Nat) : State × Res :=
  match write s with
  | .error e => (s, .raised e)
  | .ok s1 =>
    if seq then
      match s1.mem[p]? with
      | none => (s1, .ok)
      | some j =>
        match pollSts j.st s1.sts with
        | .cut => kill v s1
        | .done x rest =>
          match writeR { s1 with sts := rest, mem := upd (setSt x) s1.mem p } with
          | (s2, .ok) =>
            (match s2.sts with      -- `time.sleep(delay)` before the next launch may be interrupted
             | .intr :: rest' => ({ s2 with sts := rest' }, .raised .keyboardInterrupt)
             | _ => (s2, .ok))
          | r => r
        | .raised x e rest =>
          let s2 : State := { s1 with sts := rest, mem := upd (setSt x) s1.mem p }
          if v.pollFix then
            match write s2 with
            | .ok s3 => (s3, .raised e)
            | .error e' => (s2, .raised e')
          else (s2, .raised e)
    else (s1, .ok)

/-- one iteration of the launch loop, `rerun = False`: `execute_async` on an unsent job -/
def execIter (v : Variant) (seq : Bool) (s : State) (i : Nat) : State × Res :=
  match s.mem[i]? with
  | none => (s, .ok)
  | some j =>
    if j.id.isSome then (s, .ok)
    else if !j.st.isWaiting then (s, .raised .assertionError)
    else
      match norm j with
      | .error e => ({ s with mem := upd (setSt .error) s.mem i }, .raised e)
      | .ok j1 =>
        match s.outs with
        | [] => kill v s
        | .refuse :: r =>
          ({ s with outs := r, mem := upd (fun _ => { j1 with st := .error }) s.mem i }, .raised .httpError)
        | .accept g :: r =>
          let k := s.next + g
          afterSend v seq
            { s with outs := r, next := k + 1,
                     mem := upd (fun _ => { j1 with id := some k, st := .waiting }) s.mem i,
                     sent := s.sent ++ [{ idx := i, id := k,
                                          req := j1.req,
                                          stored := diskBody s i }],
                     issued := k :: s.issued } i

/-- one iteration of the launch loop, `rerun = True` -/
def rerunIter (v : Variant) (replace seq : Bool) (s : State) (i : Nat) : State × Res :=
  match (if v.statFix then (s, Res.ok) else query s i) with
  | (_, .killed) => kill v s
  | (s', .raised e) => (s', .raised e)
  | (s0, .ok) =>
    match s0.mem[i]? with
    | none => (s0, .ok)
    | some j =>
      if !j.st.failed then (s0, .ok)
      else
        match norm j with        -- `rerun()` → `_to_dict()`
        | .error e => (s0, .raised e)
        | .ok j1 =>
          match s0.outs with
          | [] => kill v s0
          | .refuse :: r => ({ s0 with outs := r, mem := upd (fun _ => j1) s0.mem i }, .raised .httpError)
          | .accept g :: r =>
            let k := s0.next + g
            let nj := fromDict v { toDict j1 with id := some k, status := some .waiting }
            let m1 := upd (fun _ => j1) s0.mem i
            if replace then
              afterSend v seq
                { s0 with outs := r, next := k + 1, mem := upd (fun _ => nj) m1 i, issued := k :: s0.issued,
                          retired := (match j.id with | some o => o :: s0.retired | none => s0.retired) } i
            else
              afterSend v seq
                { s0 with outs := r, next := k + 1, mem := m1 ++ [nj], issued := k :: s0.issued } m1.length

def launchIdx (v : Variant) (rerun replace seq : Bool) : List Nat → State → State × Res
  | [], s => (s, .ok)
  | i :: is, s =>
    match (if rerun then rerunIter v replace seq s i else execIter v seq s i) with
    | (s', .ok) => launchIdx v rerun replace seq is s'
    | r => r

/-- `_launch_jobs(rerun, delay, replace_failed_jobs)`; `range(len(self._jobs))` is fixed at entry -/
def launchOp (v : Variant) (rerun replace seq : Bool) (s : State) : State × Res :=
  match (if rerun then refreshAll v s else (s, Res.ok)) with   -- `list_unsuccessful_jobs()` refreshes
  | (s1, .ok) => launchIdx v rerun replace seq (List.range s1.mem.length) s1
  | r => r

/-! ## `get_results`, `track_progress`, deletion -/

/-- `JobStatus.maybe_completed` -/
def Status.maybeCompleted : Status → Bool
  | .success | .error | .canceled | .unknown => true
  | _ => false

def stAt (s : State) (i : Nat) : Option Status := (s.mem[i]?).map (·.st)

/-- leaving `job.get_results()` of job `i`, whose status was `old` when it was entered, with result `r`.
`gstFix`: a `finally` clause writes the group when the status changed meanwhile (`job.get_results()` evaluates
`self.status`, and UNKNOWN is not a final status); pinned: nothing is written. -/
def finishGet (v : Variant) (old : Status) (s : State) (i : Nat) (r : Res) : State × Res :=
  if v.gstFix && decide (stAt s i ≠ some old) then
    match write s with
    | .ok s' => (s', r)
    | .error e => (s, .raised e)
  else (s, r)

/-- `_get_results` stores the results; pinned code: results carrying a `result_mapping` make it replace
`self._delta_parameters` by the mapping delta parameters (a dictionary without the keys `command`/`mapping`) -/
def setRes (v : Variant) (mapped : Bool) (j : Job) : Job :=
  { j with res := true, dp := if mapped && !v.resFix then false else j.dp }

/-- the `get_job_results` request for job `i`; the `Bool` = results were obtained -/
def fetch (v : Variant) (old : Status) (s : State) (i : Nat) : State × Res × Bool :=
  match s.rsps with
  | [] => let r := kill v s; (r.1, r.2, false)
  | .fault e :: rest => let r := finishGet v old { s with rsps := rest } i (.raised e); (r.1, r.2, false)
  | .unavailable :: rest => let r := finishGet v old { s with rsps := rest } i .ok; (r.1, r.2, false)
  | .ok mapped :: rest =>
    let r := finishGet v old { s with rsps := rest, mem := upd (setRes v mapped) s.mem i } i .ok
    (r.1, r.2, true)

/-- one iteration of `JobGroup.get_results`: `job.get_results()` when `maybe_completed`, else `None` -/
def getOne (v : Variant) (s : State) (i : Nat) : State × Res × Bool :=
  match s.mem[i]? with
  | none => (s, .ok, false)
  | some j =>
    if !j.st.maybeCompleted then (s, .ok, false)
    else
      match query s i with                       -- `job_status = self.status`
      | (_, .killed) => let r := kill v s; (r.1, r.2, false)
      | (s1, .raised e) => let r := finishGet v j.st s1 i (.raised e); (r.1, r.2, false)
      | (s1, .ok) =>
        match s1.mem[i]? with
        | none => let r := finishGet v j.st s1 i .ok; (r.1, r.2, false)     -- (not reachable)
        | some j1 =>
          if !j1.st.maybeCompleted then           -- `RuntimeError('The job is still running…')` → `None`
            let r := finishGet v j.st s1 i .ok; (r.1, r.2, false)
          else if j1.res then
            match query s1 i with                -- `if self._results and self.status.completed`
            | (_, .killed) => let r := kill v s1; (r.1, r.2, false)
            | (s2, .raised e) => let r := finishGet v j.st s2 i (.raised e); (r.1, r.2, false)
            | (s2, .ok) =>
              if ((s2.mem[i]?).map (·.st.completed)).getD false then
                let r := finishGet v j.st s2 i .ok; (r.1, r.2, true)
              else fetch v j.st s2 i
          else fetch v j.st s1 i

def getIdx (v : Variant) : List Nat → State → List Nat → State × Res × List Nat
  | [], s, acc => (s, .ok, acc)
  | i :: is, s, acc =>
    match getOne v s i with
    | (s', .ok, b) => getIdx v is s' (acc ++ [if b then 1 else 0])
    | (s', r, _) => (s', r, [])

/-- `JobGroup.get_results()`; the view lists per job 1 = results, 0 = `None` -/
def getResultsOp (v : Variant) (s : State) : State × Res × List Nat :=
  match refreshAll v s with
  | (s1, .ok) => getIdx v (List.range s1.mem.length) s1 []
  | (s1, r) => (s1, r, [])

/-- `track_progress` counts `status.waiting or status.running` over ALL jobs, sent or not -/
def activeCount (l : List Job) : Nat := (l.filter (fun j => j.st.isWaiting || j.st.isRunning)).length

/-- the `while True` of `track_progress`: refresh, stop when nothing is waiting/running, else sleep and go on.
Every round that does not end the loop and is not the last asks the server at least once, or can never change
anything again (only unsent WAITING jobs left: the loop never ends by itself and the process has to be
stopped) — `fuel` = number of answers left + 1 rounds therefore covers every run; out of fuel = stopped. -/
def trackLoop (v : Variant) : Nat → State → State × Res
  | 0, s => kill v s
  | fuel + 1, s =>
    match refreshAll v s with
    | (s1, .ok) =>
      if activeCount s1.mem = 0 then (s1, .ok)
      else match s1.sts with
        | .intr :: rest => ({ s1 with sts := rest }, .raised .keyboardInterrupt)  -- in `time.sleep(STATUS_REFRESH_DELAY)`
        | _ => trackLoop v fuel s1
    | r => r

/-- `JobGroup.track_progress()` (`len(self.list_active_jobs())` refreshes once before the loop) -/
def trackOp (v : Variant) (s : State) : State × Res :=
  match refreshAll v s with
  | (s1, .ok) => trackLoop v (s1.sts.length + 1) s1
  | r => r

/-- `JobGroup.delete_job_group(name)` (or `delete_all_job_groups()`) at time `now`; the process drops its object of
the deleted group and opens the name again.  Identifiers of the deleted group count as retired. -/
def wipeOp (v : Variant) (s : State) (now : Nat) : State × Res :=
  construct v { s with disk := none, mem := [], clock := now, retired := s.issued ++ s.retired }

/-- `JobGroup.delete_job_groups_date(cutoff)` at time `now`, then `JobGroup(name)` again: the group goes when its
`created_date` is strictly before the cut-off -/
def deleteDateOp (v : Variant) (s : State) (cutoff now : Nat) : State × Res :=
  if s.created < cutoff then wipeOp v s now else construct v { s with clock := now }

/-! ## Views -/

/-- `progress()`'s cascade: (successful, unsuccessful, sent, not sent) -/
def classify (j : Job) : Nat :=
  if j.id.isNone then 3
  else if j.st.isSuccess then 0
  else if j.st.isWaiting || j.st.isRunning then 2
  else 1

def countClass (l : List Job) (c : Nat) : Nat := (l.filter (fun j => classify j = c)).length

def progressView (l : List Job) : List Nat :=
  [countClass l 0, countClass l 1, countClass l 2, countClass l 3, l.length]

inductive ListKind where
  | successful | active | unsuccessful | unsent
  deriving DecidableEq, Repr

def inKind (k : ListKind) (j : Job) : Bool :=
  match k with
  | .successful => j.id.isSome && j.st = .success
  | .active => j.id.isSome && (j.st = .running || j.st = .waiting)
  | .unsuccessful => j.id.isSome && (j.st = .error || j.st = .canceled)
  | .unsent => j.id.isNone

def indicesWhere (p : Job → Bool) : List Job → Nat → List Nat
  | [], _ => []
  | j :: js, n => if p j then n :: indicesWhere p js (n + 1) else indicesWhere p js (n + 1)

/-! ## The machine -/

inductive Op where
  | reopen
  | add (j : Job) (kw : Option Nat)
  | addLocal                      -- `add(<not a RemoteJob>)` → `TypeError`, nothing changes
  | launch (rerun replace seq : Bool) (outs : List Outcome) (sts : List Ans)
  | progress (sts : List Ans)
  | list (k : ListKind) (sts : List Ans)
  | getResults (sts : List Ans) (rsps : List Rsp)
  | track (sts : List Ans)
  | wipe (now : Nat)                    -- delete this group (by name or with all groups), open the name again
  | deleteDate (cutoff now : Nat)       -- date-based deletion, open the name again
  | other     -- a namespace operation that concerns other names only: `list_existing`, opening / saving / deleting
              --   groups with another name (also through `delete_job_groups_date` when this group is recent enough)
  deriving Repr

structure Out where
  res : Res
  view : List Nat
  deriving DecidableEq, Repr

def clearScript (s : State) : State := { s with outs := [], sts := [], rsps := [] }

def step (v : Variant) (s : State) (op : Op) : State × Out :=
  match op with
  | .reopen => let r := construct v s; (clearScript r.1, ⟨r.2, []⟩)
  | .add j kw => let r := addOp v (clearScript s) j kw; (clearScript r.1, ⟨r.2, []⟩)
  | .addLocal => (clearScript s, ⟨.raised .typeError, []⟩)
  | .launch rr rp sq outs sts =>
    let r := launchOp v rr rp sq { s with outs := outs, sts := sts }
    (clearScript r.1, ⟨r.2, []⟩)
  | .progress sts =>
    let r := refreshAll v { s with outs := [], sts := sts }
    (clearScript r.1, ⟨r.2, match r.2 with | .ok => progressView r.1.mem | _ => []⟩)
  | .list k sts =>
    let r := if k = .unsent then (clearScript s, Res.ok) else refreshAll v { s with outs := [], sts := sts }
    (clearScript r.1, ⟨r.2, match r.2 with | .ok => indicesWhere (inKind k) r.1.mem 0 | _ => []⟩)
  | .getResults sts rsps =>
    let r := getResultsOp v { s with outs := [], sts := sts, rsps := rsps }
    (clearScript r.1, ⟨r.2.1, match r.2.1 with | .ok => r.2.2 | _ => []⟩)
  | .track sts => let r := trackOp v { s with outs := [], sts := sts, rsps := [] }; (clearScript r.1, ⟨r.2, []⟩)
  | .wipe now => let r := wipeOp v (clearScript s) now; (clearScript r.1, ⟨r.2, []⟩)
  | .deleteDate c now => let r := deleteDateOp v (clearScript s) c now; (clearScript r.1, ⟨r.2, []⟩)
  | .other => (clearScript s, ⟨.ok, []⟩)

/-- before the first `JobGroup(name)`: nothing in memory, no file; `dir` = whether the
`job_group` directory already exists in the data directory -/
def init (dir : Bool) : State :=
  { mem := [], disk := none, dir := dir, next := 0, outs := [], sts := [], rsps := [], created := 0, clock := 0,
    sent := [], issued := [], retired := [] }

/-- the state right after the first `JobGroup(name)` -/
def create (v : Variant) (dir : Bool) : State := (construct v (init dir)).1

/-- the group a fresh process would see: `JobGroup(name)._jobs` -/
def reload (v : Variant) (s : State) : List Job := (construct v s).1.mem

/-! ## File primitives of `PersistentData` over many file names

`JobGroup` keeps one file per group *name*: `__init__` decides between "re-open" and "create" with
`has_file(<dir>/<name>.jgrp)`, loads with `read_file`, saves with `write_file`; `delete_job_group` uses
`delete_file`.  `write_file`/`read_file`/`delete_file` derive the path with `get_full_path`, `has_file`
with its own `os.path.join`.  The single `disk` of `State` above is *the file under the group's name*;
that reading is only faithful if the four primitives form a store keyed by the name.  File names,
paths and contents are natural-number tokens. -/
namespace FS

/-- the path each primitive derives from a file name -/
structure Paths where
  full : Nat → Nat     -- `get_full_path`: `write_file`, `read_file`, `delete_file`
  look : Nat → Nat     -- `has_file`'s own `os.path.join(self._directory, filename)`

/-- the code as it is: both are `os.path.join(directory, name)`; distinct names, distinct paths -/
def real : Paths := ⟨id, id⟩

/-- the primitives agree on the path and distinct names never share one -/
def Coherent (k : Paths) : Prop := (∀ n, k.look n = k.full n) ∧ (∀ a b, k.full a = k.full b → a = b)

/-- a variant in which `get_full_path` alone makes names "portable" (name `2k+1`, which holds a
character some platform refuses, is stored under the path of its twin `2k`) while `has_file` keeps
its own join — regression witness for the two-site shape -/
def portable : Paths := ⟨fun n => n - n % 2, id⟩

/-- directory content: path ↦ content -/
abbrev Store := Nat → Option Nat

def empty : Store := fun _ => none

def writeFile (k : Paths) (s : Store) (n c : Nat) : Store := fun p => if p = k.full n then some c else s p
def deleteFile (k : Paths) (s : Store) (n : Nat) : Store := fun p => if p = k.full n then none else s p
/-- `none` = `FileNotFoundError` -/
def readFile (k : Paths) (s : Store) (n : Nat) : Option Nat := s (k.full n)
def hasFile (k : Paths) (s : Store) (n : Nat) : Bool := (s (k.look n)).isSome

inductive Op where
  | write (n c : Nat)
  | delete (n : Nat)
  | read (n : Nat)
  | has (n : Nat)
  | openGroup (n : Nat)    -- `JobGroup(name)`: `has_file` ? `read_file` : `write_file(<empty group> = 0)`
  deriving DecidableEq, Repr

inductive Obs where
  | done
  | content (c : Option Nat)
  | found (b : Bool)
  deriving DecidableEq, Repr

def step (k : Paths) (s : Store) : Op → Store × Obs
  | .write n c => (writeFile k s n c, .done)
  | .delete n => (deleteFile k s n, .done)
  | .read n => (s, .content (readFile k s n))
  | .has n => (s, .found (hasFile k s n))
  | .openGroup n =>
    if hasFile k s n then (s, .content (readFile k s n))
    else (writeFile k s n 0, .content (some 0))

end FS

/-! ## The group files of one directory: listing and deletion

`JobGroup.list_existing()`, `delete_job_group(name)`, `delete_all_job_groups()` and
`delete_job_groups_date(date)` work on the directory as a whole.  Beyond `FS` above the model needs a directory that
can be *listed* (a finite association list path ↦ content), the `created_date` each group file carries, and the third
site that relates names and directory entries: `list_existing` recovers a name from an entry
(`f.endswith('jgrp')`, `os.path.splitext(f)[0]`).  `delete_all_job_groups` deletes what `list_existing` returns;
`delete_job_groups_date` *opens* every listed name with `JobGroup(name)` — which creates a group file when that name
has none — compares `created_date < date`, then deletes. -/
namespace NS

/-- a group file: `created_date` in seconds, the rest of its content as a token (0 = no jobs) -/
structure Content where
  created : Nat
  data : Nat
  deriving DecidableEq, Repr

structure Paths where
  full : Nat → Nat             -- `get_full_path`: `write_file`, `read_file`, `delete_file`
  look : Nat → Nat             -- `has_file`'s own join
  unname : Nat → Option Nat    -- `list_existing`: directory entry ↦ group name (`none` = not a group file)

/-- names and entries related by the identity -/
def real : Paths := ⟨id, id, some⟩

/-- the three sites agree: same path for a name everywhere, distinct names distinct paths, and listing gives back
the name a file was saved under -/
def Coherent (k : Paths) : Prop :=
  (∀ n, k.look n = k.full n) ∧ (∀ a b, k.full a = k.full b → a = b) ∧ (∀ n, k.unname (k.full n) = some n)

/-- `list_existing` as pinned: a name that is empty or consists of dots only (the odd tokens here) has an entry
(`.jgrp`, `..jgrp`, …) that `os.path.splitext` does not split — it is listed as its entry's whole file name, which
is another name (token + 1) -/
def dotted : Paths := ⟨id, id, fun p => if p % 2 = 1 then some (p + 1) else some p⟩

abbrev Dir := List (Nat × Content)

def lookup : Dir → Nat → Option Content
  | [], _ => none
  | (q, c) :: d, p => if q = p then some c else lookup d p

/-- create or overwrite -/
def put : Dir → Nat → Content → Dir
  | [], p, c => [(p, c)]
  | (q, c') :: d, p, c => if q = p then (q, c) :: d else (q, c') :: put d p c

def remove : Dir → Nat → Dir
  | [], _ => []
  | (q, c) :: d, p => if q = p then remove d p else (q, c) :: remove d p

def hasFile (k : Paths) (d : Dir) (n : Nat) : Bool := (lookup d (k.look n)).isSome
def readFile (k : Paths) (d : Dir) (n : Nat) : Option Content := lookup d (k.full n)
def writeFile (k : Paths) (d : Dir) (n : Nat) (c : Content) : Dir := put d (k.full n) c
def deleteFile (k : Paths) (d : Dir) (n : Nat) : Dir := remove d (k.full n)
def listExisting (k : Paths) (d : Dir) : List Nat := d.filterMap (fun e => k.unname e.1)

/-- `JobGroup(name)` at time `now` → the directory afterwards and what the object holds
(`none` = `FileNotFoundError`: found by `has_file`, not by `read_file`) -/
def openGroup (k : Paths) (d : Dir) (n now : Nat) : Dir × Option Content :=
  if hasFile k d n then (d, readFile k d n)
  else (writeFile k d n ⟨now, 0⟩, some ⟨now, 0⟩)

/-- `JobGroup(name)` then a mutation that saves: the object writes its own `created_date` back -/
def saveGroup (k : Paths) (d : Dir) (n data now : Nat) : Dir × Option Content :=
  match openGroup k d n now with
  | (d1, some c) => (writeFile k d1 n ⟨c.created, data⟩, some ⟨c.created, data⟩)
  | r => r

/-- `delete_all_job_groups` -/
def deleteAll (k : Paths) (d : Dir) : Dir := (listExisting k d).foldl (deleteFile k) d

/-- first loop of `delete_job_groups_date`: open every listed name, keep those created before the cut-off -/
def scanDates (k : Paths) (cutoff now : Nat) : List Nat → Dir → List Nat → Dir × Option (List Nat)
  | [], d, acc => (d, some acc)
  | n :: ns, d, acc =>
    match openGroup k d n now with
    | (d1, some c) => scanDates k cutoff now ns d1 (if c.created < cutoff then acc ++ [n] else acc)
    | (d1, none) => (d1, none)

/-- `delete_job_groups_date`; the `Bool`: returned normally -/
def deleteDate (k : Paths) (d : Dir) (cutoff now : Nat) : Dir × Bool :=
  match scanDates k cutoff now (listExisting k d) d [] with
  | (d1, some dels) => (dels.foldl (deleteFile k) d1, true)
  | (d1, none) => (d1, false)

inductive Op where
  | open (n now : Nat)
  | save (n data now : Nat)
  | has (n : Nat)
  | list
  | delete (n : Nat)
  | deleteAll
  | deleteDate (cutoff now : Nat)
  deriving DecidableEq, Repr

inductive Obs where
  | content (c : Option Content)
  | found (b : Bool)
  | names (l : List Nat)
  | done
  | raised
  deriving DecidableEq, Repr

def step (k : Paths) (d : Dir) : Op → Dir × Obs
  | .open n now => let r := openGroup k d n now; (r.1, .content r.2)
  | .save n data now => let r := saveGroup k d n data now; (r.1, .content r.2)
  | .has n => (d, .found (hasFile k d n))
  | .list => (d, .names (listExisting k d))
  | .delete n => (deleteFile k d n, .done)
  | .deleteAll => (deleteAll k d, .done)
  | .deleteDate c now => let r := deleteDate k d c now; (r.1, if r.2 then .done else .raised)

end NS

end PM.C19
