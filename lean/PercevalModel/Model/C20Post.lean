/-
  C20 — the post-selection bookkeeping of `_create_2_qubit_gates_from_catalog` and the default input state of
  `_configure_processor` / `apply_input_state`, as the code is:

    * before every two-qubit gate the processor's post-selection is saved and cleared, the gate is added, and the
      saved conditions are re-applied: merged with the conditions the post-processed CNOT brought
      (`[0,1]==1 & [2,3]==1` renamed through `_create_mode_map(2a, 2b)`; `PostSelect.merge` does not repeat a
      condition that is already present), moved by `PostSelect.apply_permutation(perm, c_first)` for a SWAP,
      unchanged for the heralded gates;
    * `_input_list` is `[1,0]` per qubit, the herald modes carry their values, `min_detected_photons_filter(n)`.

  Core Lean + `Model/C20Conv.lean` only: this is what the driver runs (`psplan` request).
-/
import PercevalModel.Model.C20Conv

namespace PM.C20

/-- `PostSelect.merge`: conjunction with the new conditions, a condition already present is not repeated -/
def mergeConds (cur new : List Cond) : List Cond :=
  new.foldl (fun acc c => if c ∈ acc then acc else acc ++ [c]) cur

/-- the conditions `[0,1] == 1 & [2,3] == 1` of the post-processed CNOT once added through
`_create_mode_map(2a, 2b)` (control qubit `a`, data qubit `b`) -/
def ppConds (a b : ℕ) : List Cond := [[2 * a, 2 * a + 1], [2 * b, 2 * b + 1]]

/-- conditions a gate brings with it: only the post-processed CNOT has a post-selection -/
def ppNew (g : Gate) (k : String) : List Cond :=
  if g.qubits.length == 1 then [] else
  if k == "PostProcessed CNOT" then ppConds (g.qubits.getD 0 0) (g.qubits.getD 1 0) else []

/-- what one gate (component kind `k` of `planKinds`) does to the saved conditions -/
def psStep (fixed : Bool) (g : Gate) (k : String) (cur : List Cond) : List Cond :=
  if g.qubits.length == 1 then cur
  else if k == "PostProcessed CNOT" then mergeConds cur (ppConds (g.qubits.getD 0 0) (g.qubits.getD 1 0))
  else if k == "PERM" then cur.map (condAfterSwap fixed (g.qubits.getD 0 0) (g.qubits.getD 1 0))
  else cur

/-- the post-selection conditions (each `cond == 1`) of the processor after the gates, starting from `cur` -/
def planPS (fixed : Bool) : List Gate → List String → List Cond → List Cond
  | [], _, cur => cur
  | _, [], cur => cur
  | g :: gs, k :: ks, cur => planPS fixed gs ks (psStep fixed g k cur)

/-- where one gate moves the photons a condition counts (repaired rule: a SWAP moves them) -/
def moveStep (g : Gate) (k : String) (c : Cond) : Cond :=
  if g.qubits.length == 1 then c
  else if k == "PERM" then c.map (swapPairs (g.qubits.getD 0 0) (g.qubits.getD 1 0)) else c

/-- where the remaining gates move the photons a condition counts -/
def trackC : List Gate → List String → Cond → Cond
  | [], _, c => c
  | _, [], c => c
  | g :: gs, k :: ks, c => trackC gs ks (moveStep g k c)

/-- the conditions of all post-processed CNOTs, each moved by the SWAPs that follow its gate -/
def ppTracked : List Gate → List String → List Cond
  | [], _ => []
  | _, [] => []
  | g :: gs, k :: ks => (ppNew g k).map (trackC gs ks) ++ ppTracked gs ks

/-- `_input_list` of `_configure_processor`: `[0] * 2n` with a `1` at every even position -/
def inputList (n : ℕ) : List ℕ := (List.range n).foldl (fun l i => l.set (2 * i) 1) (List.replicate (2 * n) 0)

/-- the input state of the converted processor: `_input_list`, then the herald values in the order the herald
modes were appended -/
def inputState (n : ℕ) (hv : List ℕ) : List ℕ := inputList n ++ hv

end PM.C20
