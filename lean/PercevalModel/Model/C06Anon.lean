/-
  C06 — `Source.simplify_distribution = True`: model of `anonymize_annotations`
  (`perceval/utils/statevector.py`, both overloads) and of the last two lines of
  `Source.generate_distribution`

      if self.simplify_distribution and self.partially_distinguishable:
          dist = anonymize_annotations(dist, annot_tag='_')

  The code as it is:
    * per key (a `StateVector` holding one `BasicState`) a NEW `annot_map = {}`;
    * the photons are visited in index order `i in range(bs.n)` — mode after mode, inside a mode in
      exqalibur's storage order (the order of the model's `Mode` list; for tags below 10 it is the numeric
      order the model keeps, for larger tags exqalibur orders the annotation *strings*, see the harness);
    * `if annot_map.get(str(annot)) is None: annot_map[str(annot)] = "{_:<len(annot_map)>}"` — the new name
      is the rank of first appearance; an unannotated photon (`str(annot) == ""`) is a key like any other, so
      it is renamed as well; the FIRST photon always becomes `_:0`, whether or not it carried the common tag;
    * the renamed state is rebuilt from a string (`StateVector("|…>")`), which re-sorts every mode;
    * SVDistribution overload: `sv_dist[state] += p` on a `defaultdict` (equal renamed states are merged by
      ADDITION, first-insertion order), then `sorted(…, key=lambda x: -x[1])` (stable, decreasing).
-/
import PercevalModel.Model.C06
import Mathlib.Data.List.Sort

namespace PM.C06

/-- `annot_map` as the list of its keys in insertion order: the key at index `i` has the value `{_:i}`.
One visit: `if annot_map.get(str(annot)) is None: annot_map[str(annot)] = …` -/
def seenAdd (seen : List Tag) (a : Tag) : List Tag := if a ∈ seen then seen else seen ++ [a]

/-- `annot_map[str(annot)]` for a key of the map: `{_:index}` -/
def newName (seen : List Tag) (a : Tag) : Tag := some (seen.idxOf a)

/-- the photons of one mode in index order: (the `annot_map` afterwards, the new names in visiting order) -/
def anonPhotons : List Tag → List Tag → List Tag × List Tag
  | seen, [] => (seen, [])
  | seen, a :: l =>
    let seen1 := seenAdd seen a
    let r := anonPhotons seen1 l
    (r.1, newName seen1 a :: r.2)

/-- the modes in order, `annot_map` threaded through (`s[mode] += annot_map[str(annot)]`) -/
def anonModes : List Tag → State → State
  | _, [] => []
  | seen, m :: s =>
    let r := anonPhotons seen m
    r.2 :: anonModes r.1 s

/-- storage order of a mode rebuilt from its string: by tag number (insertion sort; same result as the
`mergeSort` of `mergeTags`, but evaluable by `decide`) -/
def sortMode (m : Mode) : Mode := m.insertionSort (fun a b => tagCode a ≤ tagCode b)

/-- `anonymize_annotations(StateVector(bs), annot_tag='_')` for a single basic state -/
def anonState (s : State) : State := (anonModes [] s).map sortMode

/-- insertion into a list sorted by decreasing probability, AFTER the entries with a larger probability
and BEFORE those with an equal or smaller one -/
def insDesc {α : Type} (e : α × ℚ) : Dist α → Dist α
  | [] => [e]
  | x :: xs => if x.2 ≤ e.2 then e :: x :: xs else x :: insDesc e xs

/-- `sorted(d.items(), key=lambda x: -x[1])`: stable, by decreasing probability -/
def sortDesc {α : Type} (d : Dist α) : Dist α := d.foldr insDesc []

/-- `anonymize_annotations(svd, annot_tag='_')` on a distribution of single basic states -/
def anonDist (d : Dist State) : Dist State :=
  sortDesc (accum (d.map fun e => (anonState e.1, e.2)))

/-- `Source.generate_distribution(expected_input, prob_threshold)` with the attribute
`simplify_distribution` taken into account -/
def generateS (P : Params) (simplify : Bool) (thr : ℚ) (ns : List ℕ) (t : ℕ) : Dist State :=
  if simplify && partDist P then anonDist (generate P thr ns t) else generate P thr ns t

/-- the same with the threshold already resolved (`generateS P b thr = generateSAt P b (max thr 1e-16)`);
at `θ = 0` this is the simplification of the exact, untrimmed product law the theorems speak about -/
def generateSAt (P : Params) (simplify : Bool) (θ : ℚ) (ns : List ℕ) (t : ℕ) : Dist State :=
  if simplify && partDist P then anonDist (generateAt P θ ns t) else generateAt P θ ns t

/-! ### vocabulary of the statements -/

/-- the final `annot_map` of a state (keys in order of first appearance) -/
def annotMap (s : State) : List Tag := s.flatten.foldl seenAdd []

/-- the renaming a state undergoes -/
def renameOf (s : State) : Tag → Tag := newName (annotMap s)

/-- all photons of the state carry one and the same tag (true for at most one photon) -/
def oneTag (s : State) : Bool :=
  match s.flatten with
  | [] => true
  | a :: l => l.all fun b => decide (b = a)

/-- the equality pattern of the tags: for every pair of photon positions of the flattened state, do the
two photons share a tag? -/
def tagPattern (l : List Tag) : List (List Bool) := l.map fun a => l.map fun b => decide (a = b)

end PM.C06
