/-
  C11 — model of the circuit transformations of Perceval:

  * §1  `BS.inverse`, `PS.inverse`, `Unitary.inverse` (= `PERM.inverse`), `Barrier.inverse` as
        parameter maps, `Circuit.inverse(v, h)` on trees of any depth
        (`perceval/components/unitary_components.py`, `linear_circuit.py`);
        `fixed = true` is the repaired code (`fixes/C11-bs-inverse.diff`,
        `fixes/C11-shared-inverse.diff`), `fixed = false` the code as it was (regression witness).
  * §2  `Circuit.inverse` on a circuit whose items are *references* to shared component objects
        (`//` and `add` store the object itself): once per occurrence (old) / once per object (repaired).
  * §3  `Experiment.flatten` / `_flatten` (old: the enclosing offset is dropped below depth 1;
        repaired: offsets accumulate), regrouping into unitary blocks (`non_unitary_circuit`).

  The list-level part (permutation helpers, bubble sort, simplifier) is `Model/C11Lists.lean`.

  Numbers: generic commutative star ring `R` with a distinguished element `I`
  (theorems assume `I * I = -1`, `star I = -I`).  An angle `x` is seen through the unit phase
  `e^{ix}`; `θ` through `c = cos(θ/2)`, `s = sin(θ/2)`.
-/
import PercevalModel.Model.C01
import PercevalModel.Found.Perm
import Mathlib.LinearAlgebra.Matrix.Notation

open Matrix

namespace PM.C11

variable {R : Type}

/-! ## §1 component-wise inversion -/

/-- `BSConvention` -/
inductive Conv | Rx | Ry | H
deriving DecidableEq, Repr

/-- the five parameters of a beam splitter: `c = cos(θ/2)`, `s = sin(θ/2)`, `tl = e^{i φ_tl}` … -/
structure BSP (R : Type) where
  conv : Conv
  c : R
  s : R
  tl : R
  bl : R
  tr : R
  br : R

/-- `BS._compute_unitary`: template entry × `exp(i(φ_a + φ_b))` × `cos`/`sin` -/
def bsMat [CommRing R] (I : R) (p : BSP R) : Matrix (Fin 2) (Fin 2) R :=
  match p.conv with
  | .Rx => !![p.tl * p.tr * p.c, I * (p.tr * p.bl * p.s); I * (p.tl * p.br * p.s), p.br * p.bl * p.c]
  | .Ry => !![p.tl * p.tr * p.c, -(p.tr * p.bl * p.s); p.tl * p.br * p.s, p.br * p.bl * p.c]
  | .H => !![p.tl * p.tr * p.c, p.tr * p.bl * p.s; p.tl * p.br * p.s, -(p.br * p.bl * p.c)]

/-- `θ ← -θ` (`cos(-θ/2) = c`, `sin(-θ/2) = -s`) -/
def BSP.negTheta [Neg R] (p : BSP R) : BSP R := { p with s := -p.s }

/-- `θ ← 2π - θ` (`cos(π - θ/2) = -c`, `sin(π - θ/2) = s`) -/
def BSP.twoPiMinusTheta [Neg R] (p : BSP R) : BSP R := { p with c := -p.c }

/-- the `θ` part of `BS.inverse(v=True)`: nothing for `Rx`, `-θ` for `Ry`, `2π - θ` for `H` -/
def BSP.vTheta [Neg R] (p : BSP R) : BSP R :=
  match p.conv with
  | .Rx => p
  | .Ry => p.negTheta
  | .H => p.twoPiMinusTheta

/-- the `θ` part of `BS.inverse(h=True)`: `-θ` for `Rx`, `Ry`; nothing for `H` -/
def BSP.hTheta [Neg R] (p : BSP R) : BSP R :=
  match p.conv with
  | .Rx => p.negTheta
  | .Ry => p.negTheta
  | .H => p

/-- `BS.inverse(v=True)`.  Old code: the four phases are written back unchanged.
Repaired code: top and bottom phases are exchanged (`tl ↔ bl`, `tr ↔ br`). -/
def BSP.vInv [Neg R] (fixed : Bool) (p : BSP R) : BSP R :=
  let q := p.vTheta
  if fixed then { q with tl := p.bl, bl := p.tl, tr := p.br, br := p.tr } else q

/-- `BS.inverse(h=True)`.  Old code: every phase is negated in place.
Repaired code: negated and left/right exchanged (`tl ↔ tr`, `bl ↔ br`). -/
def BSP.hInv [Neg R] [Star R] (fixed : Bool) (p : BSP R) : BSP R :=
  let q := p.hTheta
  if fixed then { q with tl := star p.tr, tr := star p.tl, bl := star p.br, br := star p.bl }
  else { q with tl := star p.tl, tr := star p.tr, bl := star p.bl, br := star p.br }

/-- `BS.inverse(v, h)`: the `v` block runs first, then the `h` block.
Old code: the `h` block of `Rx`/`Ry` writes `-θ₀` where `θ₀` was read *before* the `v` block
(`theta = float(self._theta)` at the top of the method), so for `Ry` with both flags the sign
change of the `v` block is lost.  Repaired code: `θ` is read again. -/
def BSP.inv [Neg R] [Star R] (fixed v h : Bool) (p : BSP R) : BSP R :=
  let p1 := if v then p.vInv fixed else p
  if h then
    let q := p1.hInv fixed
    if fixed then q
    else match p.conv with
      | .H => q
      | _ => { q with c := p.c, s := -p.s }
  else p1

/-- `np.flip(u)`: both axes reversed -/
def vflip {n : ℕ} (M : Matrix (Fin n) (Fin n) R) : Matrix (Fin n) (Fin n) R :=
  M.submatrix Fin.rev Fin.rev

/-- the advertised effect of `inverse(v, h)` on a matrix: mode order reversed on both sides for `v`,
then the inverse (of a unitary matrix: the conjugate transpose) for `h` -/
def xform [Star R] {n : ℕ} (v h : Bool) (M : Matrix (Fin n) (Fin n) R) : Matrix (Fin n) (Fin n) R :=
  let M1 := if v then vflip M else M
  if h then M1ᴴ else M1

/-- elementary components with an `inverse` method -/
inductive Leaf (R : Type) where
  | bs (p : BSP R)
  | ps (z : R)                                      -- `PS(φ)`, `z = e^{iφ}`, `max_error = 0`
  | un (k : ℕ) (U : Matrix (Fin k) (Fin k) R)       -- `Unitary(U)` and `PERM` (a `Unitary`)
  | barrier (k : ℕ)

def Leaf.size : Leaf R → ℕ
  | .bs _ => 2
  | .ps _ => 1
  | .un k _ => k
  | .barrier k => k

def Leaf.mat [CommRing R] (I : R) : (l : Leaf R) → Matrix (Fin l.size) (Fin l.size) R
  | .bs p => bsMat I p
  | .ps z => Matrix.of fun _ _ => z
  | .un _ U => U
  | .barrier _ => 1

/-- `component.inverse(v=v, h=h)`: `PS` negates its phase for `h` and ignores `v`;
`Unitary` flips for `v` then inverts for `h` (`self._u.inv()`, the conjugate transpose of a unitary
matrix — the constructor asserts unitarity); `Barrier` does nothing. -/
def Leaf.inv [Neg R] [Star R] (fixed v h : Bool) : Leaf R → Leaf R
  | .bs p => .bs (p.inv fixed v h)
  | .ps z => .ps (if h then star z else z)
  | .un k U => .un k (xform v h U)
  | .barrier k => .barrier k

mutual
  /-- a circuit: elementary leaf, or sized container of `(first port, component)` items -/
  inductive Cmp (R : Type) where
    | leaf (l : Leaf R)
    | circ (m : ℕ) (items : Its R)
  inductive Its (R : Type) where
    | nil
    | cons (off : ℕ) (c : Cmp R) (rest : Its R)
end

def Cmp.size : Cmp R → ℕ
  | .leaf l => l.size
  | .circ m _ => m

def Its.append : Its R → Its R → Its R
  | .nil, ys => ys
  | .cons o c r, ys => .cons o c (r.append ys)

/-- `_components.reverse()` -/
def Its.reverse : Its R → Its R
  | .nil => .nil
  | .cons o c r => r.reverse.append (.cons o c .nil)

mutual
  /-- matrix-level reading of a circuit (C01's tree of leaf matrices) -/
  def Cmp.toC01 [CommRing R] (I : R) : Cmp R → C01.Comp R
    | .leaf l => .leaf l.size (l.mat I)
    | .circ m items => .circ m (items.toC01 I)
  def Its.toC01 [CommRing R] (I : R) : Its R → C01.Items R
    | .nil => .nil
    | .cons o c r => .cons o (c.toC01 I) (r.toC01 I)
end

mutual
  /-- `Circuit.inverse(v, h)`: for `v` every range `r` becomes `[m-1-p for p in reversed(r)]`
  (first port `m - off - k`), every component is inverted recursively, for `h` the order is reversed -/
  def Cmp.inv [Neg R] [Star R] (fixed v h : Bool) : Cmp R → Cmp R
    | .leaf l => .leaf (l.inv fixed v h)
    | .circ m items =>
        .circ m (if h then (items.invMap fixed v h m).reverse else items.invMap fixed v h m)
  def Its.invMap [Neg R] [Star R] (fixed v h : Bool) (m : ℕ) : Its R → Its R
    | .nil => .nil
    | .cons off c rest =>
        .cons (if v then m - off - c.size else off) (c.inv fixed v h) (rest.invMap fixed v h m)
end

/-- the component list of a circuit of size `m` after `inverse(v, h)` -/
def Its.inv [Neg R] [Star R] (fixed v h : Bool) (m : ℕ) (items : Its R) : Its R :=
  if h then (items.invMap fixed v h m).reverse else items.invMap fixed v h m

mutual
  /-- ranges the code accepted (`Circuit.add` asserts them) -/
  def Cmp.WF : Cmp R → Prop
    | .leaf _ => True
    | .circ m items => items.WF m
  def Its.WF : Its R → ℕ → Prop
    | .nil, _ => True
    | .cons off c rest, m => off + c.size ≤ m ∧ c.WF ∧ rest.WF m
end

/-- the matrix `compute_unitary()` reports for a circuit of size `m` holding `items` -/
def Its.U [CommRing R] (I : R) (m : ℕ) (items : Its R) : Matrix (Fin m) (Fin m) R :=
  C01.prodItems m (items.toC01 I)

/-- the matrix of any component, as data (driver) -/
def Cmp.UV [CommRing R] (I : R) (c : Cmp R) : MatV R (c.toC01 I).size (c.toC01 I).size :=
  C01.unitaryV (c.toC01 I)

/-! ## §2 shared component objects

`Circuit.add` / `//` store the component object itself.  A flat circuit is a list of
`(first port, object index)` over a store of leaf objects. -/

structure RefCirc (R : Type) where
  m : ℕ
  store : List (Leaf R)
  items : List (ℕ × ℕ)

/-- the component list the references denote (an index outside the store denotes an empty barrier) -/
def RefCirc.build (store : List (Leaf R)) (items : List (ℕ × ℕ)) : Its R :=
  items.foldr (fun it acc => .cons it.1 (.leaf (store.getD it.2 (.barrier 0))) acc) .nil

def RefCirc.its (rc : RefCirc R) : Its R := RefCirc.build rc.store rc.items

/-- the tree the references denote -/
def RefCirc.deref (rc : RefCirc R) : Cmp R := .circ rc.m rc.its

/-- the matrix of the circuit -/
def RefCirc.U [CommRing R] (I : R) (rc : RefCirc R) : Matrix (Fin rc.m) (Fin rc.m) R :=
  rc.its.U I rc.m

/-- new `(range, component)` list: ranges mapped for `v`, order reversed for `h` -/
def RefCirc.invItems (rc : RefCirc R) (v h : Bool) : List (ℕ × ℕ) :=
  let mapped := rc.items.map fun it =>
    (if v then rc.m - it.1 - (rc.store.getD it.2 (.barrier 0)).size else it.1, it.2)
  if h then mapped.reverse else mapped

/-- old `Circuit.inverse`: `component.inverse(v, h)` is called for every *occurrence* -/
def RefCirc.invCurrent [Neg R] [Star R] (fixed v h : Bool) (rc : RefCirc R) : RefCirc R :=
  { m := rc.m
    store := rc.items.foldl (fun st it => st.modify it.2 (Leaf.inv fixed v h)) rc.store
    items := rc.invItems v h }

/-- repaired `Circuit.inverse`: every distinct object that occurs is inverted once -/
def RefCirc.invFixed [Neg R] [Star R] (fixed v h : Bool) (rc : RefCirc R) : RefCirc R :=
  { m := rc.m
    store := rc.store.zipIdx.map fun (l, i) =>
      if (rc.items.map Prod.snd).contains i then l.inv fixed v h else l
    items := rc.invItems v h }

/-! ## §3 flattening and regrouping -/

mutual
  /-- `_flatten(composite, starting_mode, max_depth)`; `depth = none` is `max_depth=None`.
  `fixed = false`: the recursive call receives `starting_mode = m_range[0]` (the enclosing offset is
  lost from the second level on); `fixed = true`: `starting_mode + m_range[0]`. -/
  def flattenCmp (fixed : Bool) (start off : ℕ) (depth : Option ℕ) : Cmp R → List (ℕ × Cmp R)
    | .leaf l => [(off + start, .leaf l)]
    | .circ m sub =>
        if depth.all (0 < ·) then
          flattenIts fixed (if fixed then start + off else off) (depth.map (· - 1)) sub
        else [(off + start, .circ m sub)]
  def flattenIts (fixed : Bool) (start : ℕ) (depth : Option ℕ) : Its R → List (ℕ × Cmp R)
    | .nil => []
    | .cons off c rest => flattenCmp fixed start off depth c ++ flattenIts fixed start depth rest
end

/-- `Experiment.flatten(max_depth)` of an experiment holding `items` -/
def flattenExp (fixed : Bool) (depth : Option ℕ) (items : Its R) : List (ℕ × Cmp R) :=
  flattenIts fixed 0 depth items

/-- ordered product of embedded components (first element applied first) -/
def prodList [CommRing R] (I : R) (N : ℕ) : List (ℕ × Cmp R) → Matrix (Fin N) (Fin N) R
  | [] => 1
  | (o, c) :: rest => prodList I N rest * embed N o (C01.unitaryOf (c.toC01 I))

/-- `u[min_r:max_r, min_r:max_r]` (total: entries outside the matrix read 0) -/
def block {N : ℕ} [Zero R] (a k : ℕ) (M : Matrix (Fin N) (Fin N) R) : Matrix (Fin k) (Fin k) R :=
  fun i j => if h : a + i.val < N ∧ a + j.val < N then M ⟨a + i.val, h.1⟩ ⟨a + j.val, h.2⟩ else 0

/-- an entry of `_flatten(experiment)`: a unitary component (`ACircuit`) or a non-unitary one
(loss channel, time delay … kept by identity) -/
inductive Entry (R : Type) where
  | uni (c : Cmp R)
  | non (id : ℕ) (w : ℕ)

/-- an entry of `non_unitary_circuit()`: a regrouped block `Unitary(u[min_r:max_r, min_r:max_r])`
or a non-unitary component -/
inductive Group (R : Type) where
  | blockOf (r0 w : ℕ) (comps : List (ℕ × Cmp R))     -- the components it was computed from
  | non (r0 : ℕ) (id : ℕ) (w : ℕ)

/-- `min_r = min(min_r, r[0])`, `max_r = max(max_r, r[-1] + 1)` over the pending components,
starting from `min_r = circuit_size`, `max_r = 0` -/
def pendingRange [CommRing R] (I : R) (N : ℕ) (pending : List (ℕ × Cmp R)) : ℕ × ℕ :=
  pending.foldl (fun mm p => (min mm.1 p.1, max mm.2 (p.1 + (p.2.toC01 I).size))) (N, 0)

/-- the loop of `Experiment.non_unitary_circuit(flatten=False)` over the flattened components;
`pending` are the unitary components accumulated in `unitary_circuit` (in circuit order) -/
def regroup [CommRing R] (I : R) (N : ℕ) : List (ℕ × Entry R) → List (ℕ × Cmp R) → List (Group R)
  | [], pending =>
      if pending.isEmpty then []
      else
        let mm := pendingRange I N pending
        [.blockOf mm.1 (mm.2 - mm.1) pending]
  | (r0, .uni c) :: rest, pending => regroup I N rest (pending ++ [(r0, c)])
  | (r0, .non id w) :: rest, pending =>
      (if pending.isEmpty then []
       else
        let mm := pendingRange I N pending
        [.blockOf mm.1 (mm.2 - mm.1) pending])
      ++ .non r0 id w :: regroup I N rest []

/-- the matrix handed to `Unitary(...)` for a block -/
def Group.blockMat [CommRing R] (I : R) (N : ℕ) (r0 w : ℕ) (comps : List (ℕ × Cmp R)) :
    Matrix (Fin w) (Fin w) R :=
  block r0 w (prodList I N comps)

end PM.C11
