/-
  C08 — model of `BSLayeredPPNR.create_circuit()` (perceval/components/detector.py):

      ppnr_circuit = Circuit(2 ** self._layers)
      for l in range(self._layers):
          perm_vector = list(range(0, 2**(l+1)-1, 2)) + list(range(1, 2**(l+1)-1, 2))
          if len(perm_vector) > 1:
              ppnr_circuit.add(0, PERM(perm_vector))
          for m in range(0, 2**(l+1), 2):
              ppnr_circuit.add(m, BS(BS.r_to_theta(self._r)))

  as the list of placed components it adds (`treeComps`), and of `Circuit.compute_unitary()` on it
  (`_compute_circuit_unitary`: every component's block placed on the identity, later components
  multiplied on the LEFT): `circuitU`, `treeU`.  `PERM(σ)` has `U[σ[j], j] = 1` (`permMatL`);
  `BS(θ)` (Rx convention, no phases) is `[[cos θ/2, i sin θ/2], [i sin θ/2, cos θ/2]]`; with
  `θ = r_to_theta(r) = 2 acos √r` that is `c = √r`, `s = i √(1-r)`; the model is polymorphic in the
  commutative ring and takes the two amplitudes `c`, `s` as parameters (`|c|² = r`, `|s|² = 1 - r`
  are hypotheses of the theorems that need them).  Executable at `GQ` for reflectivities with
  rational `√r`, `√(1-r)` (Pythagorean triples).
-/
import PercevalModel.Found.LinAlg
import PercevalModel.Found.Perm
import PercevalModel.Found.Memo
import Mathlib.LinearAlgebra.Matrix.Notation

open Matrix

namespace PM.C08

variable {R : Type} [CommRing R]

/-- `list(range(0, 2**(l+1)-1, 2)) + list(range(1, 2**(l+1)-1, 2))` -/
def permVector (l : ℕ) : List ℕ :=
  (List.range (2 ^ l)).map (2 * ·) ++ (List.range (2 ^ l - 1)).map (2 * · + 1)

/-- a component placed by `create_circuit` -/
inductive TComp
  | perm (σ : List ℕ)     -- `ppnr_circuit.add(0, PERM(σ))`
  | bs (m : ℕ)            -- `ppnr_circuit.add(m, BS(BS.r_to_theta(r)))`
  deriving DecidableEq, Repr

/-- what iteration `l` of the outer loop adds -/
def layerComps (l : ℕ) : List TComp :=
  (if 1 < (permVector l).length then [TComp.perm (permVector l)] else [])
    ++ (List.range (2 ^ l)).map fun i => TComp.bs (2 * i)

/-- the components of `BSLayeredPPNR(L, r).create_circuit()`, in the order they are added -/
def treeComps (L : ℕ) : List TComp := (List.range L).flatMap layerComps

/-- the Rx beam splitter block `[[c, s], [s, c]]` (`c = cos θ/2`, `s = i sin θ/2`) -/
def bsBlock (c s : R) : Matrix (Fin 2) (Fin 2) R := Matrix.of fun a b => if a = b then c else s

theorem bsBlock_eq (c s : R) : bsBlock c s = !![c, s; s, c] := by
  ext a b
  fin_cases a <;> fin_cases b <;> rfl

/-- the `N × N` matrix of a placed component: its block on the identity -/
def compMat (N : ℕ) (c s : R) : TComp → Matrix (Fin N) (Fin N) R
  | .perm σ => embed N 0 (permMatL σ.length σ)
  | .bs m => embed N m (bsBlock c s)

/-- `_compute_circuit_unitary`: `u = cU @ u` over the components in order -/
def circuitU (N : ℕ) (c s : R) (cs : List TComp) : Matrix (Fin N) (Fin N) R :=
  cs.foldl (fun U C => compMat N c s C * U) 1

/-- `BSLayeredPPNR(L, r).create_circuit().compute_unitary()` -/
def treeU (c s : R) (L : ℕ) : Matrix (Fin (2 ^ L)) (Fin (2 ^ L)) R :=
  circuitU (2 ^ L) c s (treeComps L)

/-- the same, materialised after every product (executable) -/
def circuitV (N : ℕ) (c s : R) (cs : List TComp) : MatV R N N :=
  cs.foldl (fun U C => MatV.ofMatrix (compMat N c s C * U.toMatrix)) (MatV.ofMatrix 1)

theorem circuitV_toMatrix (N : ℕ) (c s : R) (cs : List TComp) :
    (circuitV N c s cs).toMatrix = circuitU N c s cs := by
  unfold circuitV circuitU
  have : ∀ (U : MatV R N N),
      (cs.foldl (fun U C => MatV.ofMatrix (compMat N c s C * U.toMatrix)) U).toMatrix
        = cs.foldl (fun U C => compMat N c s C * U) U.toMatrix := by
    induction cs with
    | nil => intro U; rfl
    | cons C cs ih => intro U; simp only [List.foldl_cons]; rw [ih]; simp
  rw [this]; simp

/-- product over the `L` lowest bits of `k` (least significant = last layer): `a` for a 0 bit (first
output of the beam splitter), `b` for a 1 bit -/
def leafP (a b : R) : ℕ → ℕ → R
  | 0, _ => 1
  | L + 1, k => leafP a b L (k / 2) * (if k % 2 = 0 then a else b)

/-- number of 1 bits among the `L` lowest bits of `k` -/
def onesL : ℕ → ℕ → ℕ
  | 0, _ => 0
  | L + 1, k => onesL L (k / 2) + k % 2

end PM.C08
