/-
  C04 — probability trimming on the two paths `Model/C04Trim.lean` left out.

  (A) layouts that contain a detector which is not photon-number resolving.  `Simulator.probs_svd` then
  * trims the inputs and the per-member products exactly as on the fast path (`keptθ`, `memberDistθ`, the herald mask
    is off: `init_use_mask(False)`),
  * normalises the accumulated dict and hands it to `simulate_detectors(res, detectors, min_filter, p_threshold)`:
    - every detector a threshold detector (`DetectionType.Threshold`): `threshold_detection()` of every state, no
      threshold at all;
    - otherwise (`Mixed` / `PPNR`): for every state `s` of the dict with its (merged) probability `p` the per-mode
      detection distributions are multiplied by
      `BSDistribution.list_tensor_product(distributions, prob_threshold = max(θ, θ/(10·p)) if p > 0 else θ)`
      (`merge_modes=False`: the one-mode states are concatenated): a single factor is returned untouched, an empty
      factor empties the product, entries *not above* the threshold are removed from every factor, a partial product
      *below* the threshold prunes its subtree;
    - the detected patterns below the photon filter are subtracted from `phys_perf` — only those that survived the
      thresholds — and the others are accumulated and normalised;
  * `post_select_distribution` on the result.
  The dict handed to `simulate_detectors` has one entry per distinct state: `mergeD` (first-occurrence order, values
  added up) — the per-state threshold looks at the merged value.

  (B) superposed inputs under the herald mask with the amplitude threshold of `_merge_sv`: see the second half.
-/
import PercevalModel.Model.C04Trim
import PercevalModel.Model.C04Generic

namespace PM.C04
open PM.Fock PM.Dist PM.SimSpec

/-! ### (A) the detector stage under a threshold -/

/-- the dict view of an association list: one entry per distinct key, first-occurrence order, values added up
(fuel = length of the list) -/
def mergeF : ℕ → D → D
  | 0, _ => []
  | _, [] => []
  | n + 1, p :: r => (p.1, p.2 + get r p.1) :: mergeF n (r.filter fun q => !(q.1 == p.1))

def mergeD (d : D) : D := mergeF d.length d

/-- `prob_threshold` of the per-state `list_tensor_product` in `simulate_detectors` -/
def thrOf (θ p : ℚ) : ℚ := if 0 < p then max θ (θ / (10 * p)) else θ

/-- `_inner_tensor_product` over the per-mode detection rows of one state: `p` is the running product (tested against
the threshold), rows are pre-filtered (`prob > θ`), the value of a leaf is the product of the chosen entries -/
def detectStateθ (θ : ℚ) : List Kern → Fock → ℚ → D
  | K :: Ks, a :: t, p =>
    ((K a).filter fun jq => decide (θ < jq.2)).flatMap fun jq =>
      if p * jq.2 < θ then [] else (detectStateθ θ Ks t (p * jq.2)).map fun sp => (jq.1 :: sp.1, jq.2 * sp.2)
  | _, _, _ => [([], 1)]

/-- the per-mode rows `detector.detect(photons_in_mode)` of one state -/
def rowsOf : List Kern → Fock → List (List (ℕ × ℚ))
  | K :: Ks, a :: t => K a :: rowsOf Ks t
  | _, _ => []

/-- `BSDistribution.list_tensor_product(rows, prob_threshold=θ)` for one state -/
def detectStateT (θ : ℚ) (Ks : List Kern) (t : Fock) : D :=
  match rowsOf Ks t with
  | [] => detectState Ks t                                   -- no mode at all: does not occur (`dist.m ≥ 1`)
  | [_] => detectState Ks t                                  -- a single factor is returned untouched
  | rows => if rows.any List.isEmpty then [] else detectStateθ θ Ks t 1

/-- the general (`Mixed` / `PPNR`) branch of `simulate_detectors` before the photon filter -/
def detectθ (θ : ℚ) (Ks : List Kern) (d : D) : D :=
  (mergeD d).flatMap fun tp => scale tp.2 (detectStateT (thrOf θ tp.2) Ks tp.1)

def Det.isThr : Det → Bool
  | .thr => true
  | _ => false

/-- `get_detection_type(detectors) == DetectionType.Threshold` (the list is not empty) -/
def allThr (ds : List Det) : Bool := ds.all Det.isThr

/-- what `simulate_detectors` computes from the normalised dict before applying the photon filter -/
def detStage (θ : ℚ) (ds : List Det) (d : D) : D :=
  if allThr ds then detect (ds.map Det.kern) d else detectθ θ (ds.map Det.kern) d

/-- the tail of `probs_svd` on the detector path: `acc` = what `_logical_perf` accumulated, `det` = the detected
patterns computed from the normalised dict -/
def finishDet (c : Cfg) (phys acc : ℚ) (det : D) : Out :=
  let l0 := if 0 < acc ∧ 0 < phys then acc / phys else acc
  if acc = 0 then ⟨[], phys, 0⟩
  else
    let pass := restrict (fun t => decide (minFilter c ≤ t.sum)) det
    let phys2 := 1 - mass (restrict (fun t => !decide (minFilter c ≤ t.sum)) det)
    let ps := postSelect c (normalize pass)
    ⟨ps.1, phys * phys2, l0 * ps.2⟩

/-- what `simulate_detectors` receives (normalised) at precision `P` -/
def detInθ (eng : Fock → D) (P : Prec) (c : Cfg) (members : List Member) : D :=
  normalize (codeResθ eng P { c with pnr := false } members)

/-- the detected patterns at precision `P`, before the photon filter -/
def detResθ (eng : Fock → D) (P : Prec) (c : Cfg) (ds : List Det) (members : List Member) : D :=
  detStage (pThreshold P c members) ds (detInθ eng P c members)

/-- `Simulator.probs_svd(svd, detectors)` at precision `P`, any detector layout (no superposed input state) -/
def probsSvdDetθ (eng : Fock → D) (P : Prec) (c : Cfg) (ds : List Det) (members : List Member) : Out :=
  if allPnr ds then probsSvdθ eng P { c with pnr := true } members
  else
    finishDet c (physInputs c members) (mass (codeResθ eng P { c with pnr := false } members))
      (detResθ eng P c ds members)

/-- the un-normalised list of detected patterns without any threshold (its restriction to the photon filter is the
specification's), and what the thresholds leave of it -/
def detFullU (eng : Fock → D) (c : Cfg) (ds : List Det) (members : List Member) : D :=
  detect (ds.map Det.kern) (mix ((kept c members).map fun mb => (mb.w, memberDist eng { c with pnr := false } mb)))

def detTrimU (eng : Fock → D) (P : Prec) (c : Cfg) (ds : List Det) (members : List Member) : D :=
  scale (mass (codeResθ eng P { c with pnr := false } members)) (detResθ eng P c ds members)

/-- total probability mass removed by the three thresholds (members, per-member products, per-state detection) -/
def trimmedMassDet (eng : Fock → D) (P : Prec) (c : Cfg) (ds : List Det) (members : List Member) : ℚ :=
  mass (detFullU eng c ds members) - mass (detTrimU eng P c ds members)

/-- the part of it that passes the photon filter after detection -/
def trimmedPassDet (eng : Fock → D) (P : Prec) (c : Cfg) (ds : List Det) (members : List Member) : ℚ :=
  mass (restrict (physOk (cond c)) (detFullU eng c ds members)) -
    mass (restrict (physOk (cond c)) (detTrimU eng P c ds members))

/-- the part of it that would have been retained (filter, heralds, post-selection) -/
def trimmedRetainedDet (eng : Fock → D) (P : Prec) (c : Cfg) (ds : List Det) (members : List Member) : ℚ :=
  mass (restrict (fun t => physOk (cond c) t && logicOk (cond c) t) (detFullU eng c ds members)) -
    mass (restrict (fun t => physOk (cond c) t && logicOk (cond c) t) (detTrimU eng P c ds members))

end PM.C04
