/-
  C04 — probability trimming on the two paths `Model/C04Trim.lean` left out.

  (A) layouts that contain a detector which is not photon-number resolving.  `Simulator.probs_svd` then
  * trims the inputs and the per-member products exactly as on the fast path (`keptθ`, `memberDistθ`, the herald mask
    is off: `init_use_mask(False)`),
  * normalises the accumulated dict and hands it to `simulate_detectors(res, detectors, min_filter, p_threshold)`:
    - every detector a threshold detector (`DetectionType.Threshold`): `threshold_detection()` of every state, no
      threshold at all;
    - otherwise (`Mixed` / `PPNR`): for every state `s` of the dict with its (merged) probability `p` the per-mode
      detection distributions are multiplied by
      `BSDistribution.list_tensor_product(distributions, prob_threshold = max(θ, θ/(10·p)) if p > 0 else θ)`
      (`merge_modes=False`: the one-mode states are concatenated): a single factor is returned untouched, an empty
      factor empties the product, entries *not above* the threshold are removed from every factor, a partial product
      *below* the threshold prunes its subtree;
    - the detected patterns below the photon filter are subtracted from `phys_perf` — only those that survived the
      thresholds — and the others are accumulated and normalised;
  * `post_select_distribution` on the result.
  The dict handed to `simulate_detectors` has one entry per distinct state: `mergeD` (first-occurrence order, values
  added up) — the per-state threshold looks at the merged value.

  (B) superposed inputs under the herald mask with the amplitude threshold of `_merge_sv`: see the second half.
-/
import PercevalModel.Model.C04Trim
import PercevalModel.Model.C04Generic
import PercevalModel.Model.C03Prec

namespace PM.C04
open PM.Fock PM.Dist PM.SimSpec

/-! ### (A) the detector stage under a threshold -/

/-- the dict view of an association list: one entry per distinct key, first-occurrence order, values added up
(fuel = length of the list) -/
def mergeF : ℕ → D → D
  | 0, _ => []
  | _, [] => []
  | n + 1, p :: r => (p.1, p.2 + get r p.1) :: mergeF n (r.filter fun q => !(q.1 == p.1))

def mergeD (d : D) : D := mergeF d.length d

/-- `prob_threshold` of the per-state `list_tensor_product` in `simulate_detectors` -/
def thrOf (θ p : ℚ) : ℚ := if 0 < p then max θ (θ / (10 * p)) else θ

/-- `_inner_tensor_product` over the per-mode detection rows of one state: `p` is the running product (tested against
the threshold), rows are pre-filtered (`prob > θ`), the value of a leaf is the product of the chosen entries -/
def detectStateθ (θ : ℚ) : List Kern → Fock → ℚ → D
  | K :: Ks, a :: t, p =>
    ((K a).filter fun jq => decide (θ < jq.2)).flatMap fun jq =>
      if p * jq.2 < θ then [] else (detectStateθ θ Ks t (p * jq.2)).map fun sp => (jq.1 :: sp.1, jq.2 * sp.2)
  | _, _, _ => [([], 1)]

/-- the per-mode rows `detector.detect(photons_in_mode)` of one state -/
def rowsOf : List Kern → Fock → List (List (ℕ × ℚ))
  | K :: Ks, a :: t => K a :: rowsOf Ks t
  | _, _ => []

/-- `BSDistribution.list_tensor_product(rows, prob_threshold=θ)` for one state -/
def detectStateT (θ : ℚ) (Ks : List Kern) (t : Fock) : D :=
  match rowsOf Ks t with
  | [] => detectState Ks t                                   -- no mode at all: does not occur (`dist.m ≥ 1`)
  | [_] => detectState Ks t                                  -- a single factor is returned untouched
  | rows => if rows.any List.isEmpty then [] else detectStateθ θ Ks t 1

/-- the general (`Mixed` / `PPNR`) branch of `simulate_detectors` before the photon filter -/
def detectθ (θ : ℚ) (Ks : List Kern) (d : D) : D :=
  (mergeD d).flatMap fun tp => scale tp.2 (detectStateT (thrOf θ tp.2) Ks tp.1)

def Det.isThr : Det → Bool
  | .thr => true
  | _ => false

/-- `get_detection_type(detectors) == DetectionType.Threshold` (the list is not empty) -/
def allThr (ds : List Det) : Bool := ds.all Det.isThr

/-- what `simulate_detectors` computes from the normalised dict before applying the photon filter -/
def detStage (θ : ℚ) (ds : List Det) (d : D) : D :=
  if allThr ds then detect (ds.map Det.kern) d else detectθ θ (ds.map Det.kern) d

/-- the tail of `probs_svd` on the detector path: `acc` = what `_logical_perf` accumulated, `det` = the detected
patterns computed from the normalised dict -/
def finishDet (c : Cfg) (phys acc : ℚ) (det : D) : Out :=
  let l0 := if 0 < acc ∧ 0 < phys then acc / phys else acc
  if acc = 0 then ⟨[], phys, 0⟩
  else
    let pass := restrict (fun t => decide (minFilter c ≤ t.sum)) det
    let phys2 := 1 - mass (restrict (fun t => !decide (minFilter c ≤ t.sum)) det)
    let ps := postSelect c (normalize pass)
    ⟨ps.1, phys * phys2, l0 * ps.2⟩

/-- what `simulate_detectors` receives (normalised) at precision `P` -/
def detInθ (eng : Fock → D) (P : Prec) (c : Cfg) (members : List Member) : D :=
  normalize (codeResθ eng P { c with pnr := false } members)

/-- the detected patterns at precision `P`, before the photon filter -/
def detResθ (eng : Fock → D) (P : Prec) (c : Cfg) (ds : List Det) (members : List Member) : D :=
  detStage (pThreshold P c members) ds (detInθ eng P c members)

/-- `Simulator.probs_svd(svd, detectors)` at precision `P`, any detector layout (no superposed input state) -/
def probsSvdDetθ (eng : Fock → D) (P : Prec) (c : Cfg) (ds : List Det) (members : List Member) : Out :=
  if allPnr ds then probsSvdθ eng P { c with pnr := true } members
  else
    finishDet c (physInputs c members) (mass (codeResθ eng P { c with pnr := false } members))
      (detResθ eng P c ds members)

/-- the un-normalised list of detected patterns without any threshold (its restriction to the photon filter is the
specification's), and what the thresholds leave of it -/
def detFullU (eng : Fock → D) (c : Cfg) (ds : List Det) (members : List Member) : D :=
  detect (ds.map Det.kern) (mix ((kept c members).map fun mb => (mb.w, memberDist eng { c with pnr := false } mb)))

def detTrimU (eng : Fock → D) (P : Prec) (c : Cfg) (ds : List Det) (members : List Member) : D :=
  scale (mass (codeResθ eng P { c with pnr := false } members)) (detResθ eng P c ds members)

/-- total probability mass removed by the three thresholds (members, per-member products, per-state detection) -/
def trimmedMassDet (eng : Fock → D) (P : Prec) (c : Cfg) (ds : List Det) (members : List Member) : ℚ :=
  mass (detFullU eng c ds members) - mass (detTrimU eng P c ds members)

/-- the part of it that passes the photon filter after detection -/
def trimmedPassDet (eng : Fock → D) (P : Prec) (c : Cfg) (ds : List Det) (members : List Member) : ℚ :=
  mass (restrict (physOk (cond c)) (detFullU eng c ds members)) -
    mass (restrict (physOk (cond c)) (detTrimU eng P c ds members))

/-- the part of it that would have been retained (filter, heralds, post-selection) -/
def trimmedRetainedDet (eng : Fock → D) (P : Prec) (c : Cfg) (ds : List Det) (members : List Member) : ℚ :=
  mass (restrict (fun t => physOk (cond c) t && logicOk (cond c) t) (detFullU eng c ds members)) -
    mass (restrict (fun t => physOk (cond c) t && logicOk (cond c) t) (detTrimU eng P c ds members))

/-! ### (B) superposed inputs under the herald mask with the amplitude threshold of `_merge_sv`

`_probs_svd_generic` at a threshold `θ = p_threshold`: for a member of weight `w` and every term of (normalised)
weight `|c|²`, the groups' masked state vectors are merged left to right by
`_merge_sv(acc, group, prob_threshold = θ / (10·|c|²·w))`: the first group is taken as it is (`if not sv1: return sv2`),
afterwards a product of amplitudes is kept iff `abs(pa1·pa2) > sqrt(prob_threshold)`; an empty accumulated vector ends
the term (`break`; nothing is added to `result_sv`).  Then the terms are added (interference), `_to_bsd` squares.
Numbers as in `PM.C03.evolveTermθ` (un-normalised permanents next to the factorial product of the merged groups, so
that the squared modulus of the real amplitude is the rational `normSq amp / fact`); the only difference with C03's
model is that every group's outputs are those the herald mask with budget `_best_n` keeps (`ampFilter`). -/

/-- `backend.evolve()` of one group under the mask in force, with the factorials of input and output -/
def groupEvolveFM {m : ℕ} (U : Matrix (Fin m) (Fin m) GQ) (c : Cfg) (nExt : ℕ) (s : Fock) : List (Fock × GQ × ℚ) :=
  ((allStates m s.sum).filter (ampFilter c nExt s)).map fun t =>
    (t, pamp U s t, ((prodFact s * prodFact t : ℕ) : ℚ))

/-- one annotation of the loop over `instate_list` (`acc.2`: a group with photons was already merged) -/
def stepθM {m : ℕ} (U : Matrix (Fin m) (Fin m) GQ) (c : Cfg) (nExt : ℕ) (thr : ℚ)
    (acc : PM.C03.AmpsF × Bool) (s : Fock) : PM.C03.AmpsF × Bool :=
  if s.sum = 0 then (acc.1.map fun x => (x.1 ++ [s], x.2.1, x.2.2), acc.2)
  else if acc.2 then (PM.C03.mergeSVθ thr acc.1 (groupEvolveFM U c nExt s), true)
  else (PM.C03.mergeAllF acc.1 (groupEvolveFM U c nExt s), true)

def evolveTermθM {m : ℕ} (U : Matrix (Fin m) (Fin m) GQ) (c : Cfg) (nExt : ℕ) (thr : ℚ) (groups : List Fock) :
    PM.C03.AmpsF :=
  (groups.foldl (stepθM U c nExt thr) ([([], 1, 1)], false)).1

/-- the components `result_sv` is the sum of, for a member of weight `w` -/
def ampsθM {m : ℕ} (U : Matrix (Fin m) (Fin m) GQ) (c : Cfg) (θ w : ℚ) (terms : List Term) :
    List (List Fock × GQ) :=
  terms.flatMap fun t =>
    (evolveTermθM U c (svN terms) (θ / (10 * (PM.C03.termW t / svNorm2 terms) * w)) t.groups).map fun x =>
      (x.1, t.coef * x.2.1)

/-- squared moduli of gathered components (`_to_bsd`) -/
def toBsd (m : ℕ) (n2 : ℚ) (l : List (List Fock × GQ)) : D :=
  (gatherAmps l).map fun p => (flattenTuple m p.1, GQ.normSq p.2 / (((p.1.map prodFact).prod : ℕ) : ℚ) / n2)

/-- `_to_bsd(result_sv)` for one member at threshold `θ` -/
def memberGenθ {m : ℕ} (U : Matrix (Fin m) (Fin m) GQ) (c : Cfg) (θ w : ℚ) (terms : List Term) : D :=
  toBsd m (svNorm2 terms) (ampsθM U c θ w terms)

def keptG (c : Cfg) (members : List GMember) : List GMember :=
  members.filter fun g => decide (minFilter c ≤ svN g.terms)

/-- `p_threshold` of `_preprocess_svd` for a mixture of superpositions (every member holds one photon number) -/
def pThresholdG (P : Prec) (c : Cfg) (members : List GMember) : ℚ :=
  max P.minp ((((keptG c members).map (·.w)).foldl max 0) * P.prec)

def keptGθ (P : Prec) (c : Cfg) (members : List GMember) : List GMember :=
  (keptG c members).filter fun g => decide (pThresholdG P c members < g.w)

/-- `res` of `_probs_svd_generic` before normalisation, at precision `P` -/
def genResθ {m : ℕ} (U : Matrix (Fin m) (Fin m) GQ) (P : Prec) (c : Cfg) (members : List GMember) : D :=
  mix ((keptGθ P c members).map fun g => (g.w, memberGenθ U c (pThresholdG P c members) g.w g.terms))

/-- the same accumulation with no threshold at all: every member that passes the photon filter, threshold 0 in
`_merge_sv` (components of amplitude exactly 0 are the only ones left out) -/
def genRes0 {m : ℕ} (U : Matrix (Fin m) (Fin m) GQ) (c : Cfg) (members : List GMember) : D :=
  mix ((keptG c members).map fun g => (g.w, memberGenθ U c 0 g.w g.terms))

/-- `Simulator.probs_svd` on a mixture of superpositions at precision `P` (no detectors / PNR detectors) -/
def probsSvdGenθ {m : ℕ} (U : Matrix (Fin m) (Fin m) GQ) (P : Prec) (c : Cfg) (members : List GMember) : Out :=
  finishSvd c (AM.phys c (members.map (toAM U c))) (genResθ U P c members)

/-- bound of the change of one member's distribution caused by the amplitude threshold, as a distribution over the
outcomes: per annotated output `k`, `|l_k|² + 2·√|b_k|²·√|l_k|²` (kept amplitude `b_k`, dropped `l_k`; rational upper
square roots `PM.C03.sqrtUp`) -/
def genErrDM {m : ℕ} (U : Matrix (Fin m) (Fin m) GQ) (c : Cfg) (θ w : ℚ) (terms : List Term) : D :=
  let a0 := ampsθM U c 0 w terms
  let aθ := ampsθM U c θ w terms
  let n2 := svNorm2 terms
  ((a0 ++ aθ).map (·.1)).dedup.map fun k =>
    (flattenTuple m k, PM.C03.keyErrOf n2 (PM.C03.ampGet a0 k) (PM.C03.ampGet aθ k) k)

/-- the error distribution of the whole accumulation: the members dropped by the relative threshold with their whole
distribution, the others with the bound of their internal threshold -/
def genErrD {m : ℕ} (U : Matrix (Fin m) (Fin m) GQ) (P : Prec) (c : Cfg) (members : List GMember) : D :=
  mix (((keptG c members).filter fun g => !decide (pThresholdG P c members < g.w)).map fun g =>
        (g.w, memberGenθ U c 0 g.w g.terms)) ++
  mix ((keptGθ P c members).map fun g => (g.w, genErrDM U c (pThresholdG P c members) g.w g.terms))

/-! ### `check_heralds_detectors`: the early exit of `probs_svd`

`if heralds and detectors:` — for every herald `(k, v)`, `detector = detectors[k]`; `if detector:` its
`max_detections` (None = unbounded) must not be below `v`; otherwise `probs_svd` returns
`{'results': BSDistribution(), 'physical_perf': 1, 'logical_perf': 0}` without simulating.  `maxes[k]` is
`detectors[k].max_detections` (`none` for no detector / a PNR detector). -/

def checkHeraldsDetectors (h : List (ℕ × ℕ)) (maxes : List (Option ℕ)) : Bool :=
  h.isEmpty || maxes.isEmpty || h.all fun p => match maxes.getD p.1 none with
    | none => true
    | some mx => !decide (mx < p.2)

/-- `Simulator.probs_svd(svd, detectors)` with its first statement -/
def probsSvdGuarded (eng : Fock → D) (c : Cfg) (ds : List Det) (maxes : List (Option ℕ)) (members : List Member) : Out :=
  if checkHeraldsDetectors c.heralds maxes then probsSvdDet eng c ds members else ⟨[], 1, 0⟩

end PM.C04
