/-
  C16 — model of the client side of a cloud job (core Lean only):

  * `perceval/components/experiment.py`  : `add_herald`, `with_input(BasicState)`, filter / noise /
    post-selection setters — the state a `RemoteProcessor` reads when it builds a request;
  * `perceval/runtime/remote_processor.py`: `check_circuit`, `check_input`, `prepare_job_payload`,
    `from_local_processor` (current behaviour and the repaired one, selected by a flag);
  * `perceval/runtime/job.py`            : `Job._handle_params`;
  * `perceval/runtime/remote_job.py`     : `_create_payload_data`, `_check_max_shots_samples_validity`,
    `execute_async` (as far as the handler's `create_job` log is concerned);
  * `perceval/algorithm/abstract_algorithm.py`, `sampler.py`: `max_shots_per_call` handling,
    `_check_iteration`, `_input_available`, `_get_primitive_converter`, `_create_job`.

  Circuits, post-selections and noise models are *symbols* (an identifier plus, for the first two,
  the mode relabelling applied by processor composition): what the symbol denotes (a matrix, a
  predicate on states) is checked by the correspondence on the real objects.  A change of the
  processor's circuit between two requests (`P.set_value` on a parameter = `retune`, `set_circuit`
  through the processor or its experiment, `add` of a component) gives the circuit a new symbol.  Python dictionaries
  are association lists with Python's `d[k] = v` semantics (`dset`: overwrite in place or append).
-/

namespace PM.C16

/-- exception classes (the harness maps Python exceptions to these names) -/
inductive Err where
  | assertion | value | runtime | type | index | notImplemented | unavailable
  | invalidMapping          -- `InvalidMappingException` (`ModeConnector`)
  | transport               -- `rpc_handler.create_job` raised (the request was not delivered / was refused)
  | precondition            -- outside the modelled domain: the driver refuses, it never defaults
deriving DecidableEq, Repr

def Err.name : Err → String
  | .assertion => "AssertionError"
  | .value => "ValueError"
  | .runtime => "RuntimeError"
  | .type => "TypeError"
  | .index => "IndexError"
  | .notImplemented => "NotImplementedError"
  | .unavailable => "UnavailableModeException"
  | .invalidMapping => "InvalidMappingException"
  | .transport => "TransportError"
  | .precondition => "precondition"

abbrev Res := Except Err

/-- scalar Python values occurring as limits / parameter values -/
inductive PV where
  | none
  | int (i : Int)
  | str (s : String)
  | bool (b : Bool)         -- `True` / `False` (`thresholded_output`)
deriving DecidableEq, Repr, Inhabited

/-! ### Python dictionaries -/

abbrev Dict (α : Type) := List (String × α)

/-- `d.get(k)` -/
def dget {α : Type} : Dict α → String → Option α
  | [], _ => none
  | (k, v) :: t, x => if k = x then some v else dget t x

/-- `d[k] = v` (an existing key keeps its position) -/
def dset {α : Type} : Dict α → String → α → Dict α
  | [], x, v => [(x, v)]
  | (k, w) :: t, x, v => if k = x then (k, v) :: t else (k, w) :: dset t x v

/-- `del d[k]` -/
def derase {α : Type} : Dict α → String → Dict α
  | [], _ => []
  | (k, w) :: t, x => if k = x then derase t x else (k, w) :: derase t x

/-- `d.update(other)` -/
def dupdate {α : Type} (d : Dict α) : Dict α → Dict α
  | [] => d
  | (k, v) :: t => dupdate (dset d k v) t

def dkeys {α : Type} (d : Dict α) : List String := d.map (·.1)

/-! ### Symbols, experiment state, platform -/

/-- a circuit or a post-selection: identifier of the user's object and the relabelling
(`perm[j]` = original mode carried by mode `j`; `[]` = untouched) -/
structure Sym where
  id : Nat
  perm : List Nat
deriving DecidableEq, Repr

/-- what an `Experiment` holds, as far as a request depends on it -/
structure Exp where
  m : Nat                          -- modes of interest (`_n_moi`)
  size : Nat                       -- `circuit_size`
  heralds : List (Nat × Nat)       -- herald ports `(mode, expected)` in insertion order
  input : Option (List Nat)        -- `_input_state` (full size) when it is a `BasicState`
  post : Option Sym
  noise : Option Nat
  filter : Option Int              -- `_min_detected_photons_filter`
  params : Dict PV                 -- `AProcessor._parameters`
  circ : Sym
  cparams : List String            -- names of the circuit's variable parameters
deriving DecidableEq, Repr

/-- platform specs as fetched from the (fake) handler -/
structure Platform where
  maxModes : Option Nat
  minModes : Option Nat
  maxPhotons : Option Nat
  minPhotons : Option Nat
  commands : List String
deriving DecidableEq, Repr

def heraldModes (e : Exp) : List Nat := e.heralds.map (·.1)
def heraldSum (e : Exp) : Nat := (e.heralds.map (·.2)).sum

/-- `self.heralds[k]` (the `heralds` property is a dict: the last port on a mode wins, but modes
are distinct under `WF`) -/
def hlookup : List (Nat × Nat) → Nat → Option Nat
  | [], _ => none
  | (k, v) :: t, x => if k = x then some v else hlookup t x

/-- the stored input state has the size of the circuit -/
def inputLenOk (e : Exp) : Bool :=
  match e.input with
  | some s => s.length == e.size
  | none => true

/-- invariant of every experiment reachable through the modelled API -/
structure Exp.WF (e : Exp) : Prop where
  count : e.m + e.heralds.length = e.size
  nodup : (heraldModes e).Nodup
  inside : ∀ k ∈ heraldModes e, k < e.size
  inlen : inputLenOk e = true

instance (e : Exp) : Decidable e.WF :=
  if h : e.m + e.heralds.length = e.size ∧ (heraldModes e).Nodup ∧ (∀ k ∈ heraldModes e, k < e.size)
      ∧ inputLenOk e = true then
    isTrue ⟨h.1, h.2.1, h.2.2.1, h.2.2.2⟩
  else isFalse (fun w => h ⟨w.count, w.nodup, w.inside, w.inlen⟩)

def pvOfFilter : Option Int → PV
  | none => .none
  | some i => .int i

/-! ### `Experiment` / `AProcessor` setters -/

/-- `add_herald(mode, expected)`; the mode is assumed to exist (`mode < size`) -/
def addHerald (e : Exp) (mode expected : Nat) : Res Exp :=
  if 1 < expected then throw .assertion
  else if (heraldModes e).contains mode then throw .unavailable
  else pure { e with heralds := e.heralds ++ [(mode, expected)], m := e.m - 1 }

/-- the loop of `Experiment.with_input(BasicState)`: herald modes take the herald's expected
value, the other modes consume the user's state in order (`k` = current mode, `n` = modes left).
The last branch (user state exhausted) is unreachable under the length check and `WF`. -/
def merge (h : List (Nat × Nat)) : Nat → Nat → List Nat → List Nat
  | _, 0, _ => []
  | k, n + 1, s =>
    match hlookup h k with
    | some v => v :: merge h (k + 1) n s
    | none =>
      match s with
      | x :: xs => x :: merge h (k + 1) n xs
      | [] => 0 :: merge h (k + 1) n []

/-- `BasicState.remove_modes(modes)` (`k` = index of the head) -/
def removeModes (modes : List Nat) : Nat → List Nat → List Nat
  | _, [] => []
  | k, x :: xs => if modes.contains k then removeModes modes (k + 1) xs else x :: removeModes modes (k + 1) xs

/-- `with_input(BasicState)` (`Experiment.check_input`: only the length is checked here) -/
def withInput (e : Exp) (s : List Nat) : Res Exp :=
  if s.length ≠ e.m then throw .assertion
  else pure { e with input := some (merge e.heralds 0 e.size s) }

/-- `min_detected_photons_filter(n)` -/
def setFilter (e : Exp) (n : Option Int) : Exp :=
  { e with filter := n, params := dset e.params "min_detected_photons" (pvOfFilter n) }

def setParam (e : Exp) (k : String) (v : PV) : Exp := { e with params := dset e.params k v }
def clearParams (e : Exp) : Exp := { e with params := [] }
def setPost (e : Exp) (p : Option Sym) : Exp := { e with post := p }
def setNoise (e : Exp) (n : Option Nat) : Exp := { e with noise := n }

/-- a value of one of the circuit's parameters is changed in place (`P.set_value(v)`, no observer is
told): the processor's circuit is the same object but denotes another matrix — a new symbol under
the same mode relabelling -/
def retune (e : Exp) (circ : Nat) : Exp := { e with circ := { e.circ with id := circ } }

/-- `add(k, component)` of a unitary component on free modes of interest of a processor without
post-selection: the composed circuit is a new symbol (in the processor's own mode labelling), its
variable parameters are appended -/
def addComponent (e : Exp) (circ : Nat) (cparams : List String) : Exp :=
  { e with circ := ⟨circ, []⟩, cparams := e.cparams ++ cparams }

/-! ### `check_circuit`, `check_input`, `prepare_job_payload` -/

def above (limit : Option Nat) (x : Nat) : Bool :=
  match limit with
  | some l => decide (l < x)
  | none => false

def below (limit : Option Nat) (x : Nat) : Bool :=
  match limit with
  | some l => decide (x < l)
  | none => false

/-- `RemoteProcessor.check_circuit(self.linear_circuit())` -/
def checkCircuit (pf : Platform) (e : Exp) : Option Err :=
  if above pf.maxModes e.size then some .runtime
  else if below pf.minModes e.size then some .runtime
  else match e.input with
    | some s => if s.length ≠ e.size then some .runtime else none
    | none => none

/-- `RemoteProcessor.check_circuit(circuit)` for a circuit of `sz` modes handed in by the user -/
def checkCircuitOf (pf : Platform) (input : Option (List Nat)) (sz : Nat) : Option Err :=
  if above pf.maxModes sz then some .runtime
  else if below pf.minModes sz then some .runtime
  else match input with
    | some s => if s.length ≠ sz then some .runtime else none
    | none => none

/-- `RemoteProcessor.set_circuit(c)` (`checked = true`: `check_circuit(c)` first) or
`rp.experiment.set_circuit(c)` (`checked = false`: `Experiment.set_circuit` only) for a circuit of
`sz` modes on a processor with at least one mode of interest: the components are replaced when the
size is the circuit size (`assert circuit.m == self.circuit_size`); heralds, input, post-selection,
noise, filter stay -/
def setCircuit (pf : Platform) (e : Exp) (checked : Bool) (sz circ : Nat) (cparams : List String) : Res Exp :=
  match (if checked then checkCircuitOf pf e.input sz else none) with
  | some err => throw err
  | none =>
    if sz ≠ e.size then throw .assertion
    else pure { e with circ := ⟨circ, []⟩, cparams := cparams }

/-- `RemoteProcessor.check_input(state)` for a state given on the modes of interest -/
def checkInput (pf : Platform) (e : Exp) (s : List Nat) : Option Err :=
  if s.length ≠ e.m then some .assertion
  else if above pf.maxPhotons (s.sum + heraldSum e) then some .runtime
  else if below pf.minPhotons (s.sum + heraldSum e) then some .runtime
  else none

/-- values of a request's `payload` dictionary -/
inductive V where
  | pv (p : PV)
  | circ (c : Sym) (size : Nat)
  | state (s : List Nat)
  | heralds (h : List (Nat × Nat))
  | post (p : Sym)
  | noise (n : Nat)
  | params (d : Dict PV)
  | ctx (resultMapping : Option String) (mapping : Option (Dict PV))    -- `job_context` dict
  | iter (n : Nat)                       -- the sampler's iterator list (identified by its length; content in `World`)
deriving DecidableEq, Repr

/-- the input state that is transmitted: `if self.input_state and not inputless` -/
def inputField (e : Exp) (inputless : Bool) : Option (List Nat) :=
  match e.input with
  | some s => if s ≠ [] ∧ inputless = false then some s else none
  | none => none

/-- `if present: payload[k] = v` -/
def oset (d : Dict V) (k : String) : Option V → Dict V
  | some v => dset d k v
  | none => d

/-- the optional fields, each behind the test the code uses -/
def fields (e : Exp) (circuitless inputless : Bool) (base : Dict V) : Dict V :=
  let pl := oset base "circuit" (if circuitless then none else some (.circ e.circ e.size))
  let pl := oset pl "input_state" ((inputField e inputless).map V.state)
  let pl := oset pl "parameters" (if e.params ≠ [] then some (.params e.params) else none)
  let pl := oset pl "postselect" (e.post.map V.post)
  let pl := oset pl "heralds" (if e.heralds ≠ [] then some (.heralds e.heralds) else none)
  oset pl "noise" (e.noise.map V.noise)

/-- `_set_min_photons_parameter()` -/
def syncFilterParam (e : Exp) : Exp :=
  { e with params := dset e.params "min_detected_photons" (pvOfFilter e.filter) }

/-- first failing check after `_set_min_photons_parameter()` -/
def guardsAfterSync (pf : Platform) (e : Exp) (circuitless inputless : Bool) : Option Err :=
  match (if circuitless then none else checkCircuit pf e) with
  | some err => some err
  | none =>
    match inputField e inputless with
    | some s => checkInput pf e (removeModes (heraldModes e) 0 s)
    | none => none

/-- `prepare_job_payload(command, circuitless, inputless, **kwargs)`: the processor state afterwards
(the filter parameter is re-synchronised as soon as the filter check has passed, also when a later
check raises) and `j['payload']` or the exception -/
def preparePayload (pf : Platform) (e : Exp) (cmd : String) (circuitless inputless : Bool)
    (kw : Dict V) : Exp × Res (Dict V) :=
  if (dget kw "command").isSome then (e, throw .type)     -- Python: multiple values for argument 'command'
  else if e.filter.isNone then (e, throw .value)
  else
    let e' := syncFilterParam e
    match guardsAfterSync pf e' circuitless inputless with
    | some err => (e', throw err)
    | none => (e', pure (fields e' circuitless inputless (("command", V.pv (.str cmd)) :: kw)))

/-! ### what a receiver reads back from a payload -/

structure Config where
  command : Option PV
  circ : Option (Sym × Nat)
  input : Option (List Nat)
  filter : Option PV
  post : Option Sym
  heralds : List (Nat × Nat)
  noise : Option Nat
deriving DecidableEq, Repr

def decode (pl : Dict V) : Config where
  command := match dget pl "command" with | some (.pv p) => some p | _ => none
  circ := match dget pl "circuit" with | some (.circ c n) => some (c, n) | _ => none
  input := match dget pl "input_state" with | some (.state s) => some s | _ => none
  filter := match dget pl "parameters" with
    | some (.params d) => dget d "min_detected_photons"
    | _ => none
  post := match dget pl "postselect" with | some (.post p) => some p | _ => none
  heralds := match dget pl "heralds" with | some (.heralds h) => h | _ => []
  noise := match dget pl "noise" with | some (.noise n) => some n | _ => none

/-- the configuration of the user's processor -/
def configOf (e : Exp) (cmd : String) (circuitless inputless : Bool) : Config where
  command := some (.str cmd)
  circ := if circuitless then none else some (e.circ, e.size)
  input := inputField e inputless
  filter := some (pvOfFilter e.filter)
  post := e.post
  heralds := e.heralds
  noise := e.noise

/-- the keys `prepare_job_payload` writes itself -/
def fieldKeys : List String :=
  ["command", "circuit", "input_state", "parameters", "postselect", "heralds", "noise"]

/-! ### `from_local_processor` -/

/-- heralds of the composed processor: `add(0, processor)` puts the k-th herald port (insertion
order) of the added processor on the new mode `base + k` -/
def enumHeralds : Nat → List (Nat × Nat) → List (Nat × Nat)
  | _, [] => []
  | base, (_, ex) :: t => (base, ex) :: enumHeralds (base + 1) t

/-- original mode carried by each mode of the converted processor: the modes of interest in
increasing order, then the herald modes in insertion order -/
def relabelOf (p : Exp) : List Nat :=
  (List.range p.size).filter (fun k => !(heraldModes p).contains k) ++ heraldModes p

def Sym.relabel (s : Sym) (perm : List Nat) : Sym := { s with perm := perm }

def isIdentity (perm : List Nat) : Bool := perm == List.range perm.length

/-- a relabelling that moves nothing is recorded as "untouched" -/
def normPerm (perm : List Nat) : List Nat := if isIdentity perm then [] else perm

/-- `RemoteProcessor.from_local_processor(p)`.  `fixed = false`: the code as it is (the full-size
input state, herald modes included, is handed to `with_input`); `fixed = true`: the repaired code
(herald modes are removed first).  `p.noise = none` is read through `Processor.noise`, which
answers a default `NoiseModel()` — noise symbol `0`. -/
def fromLocal (fixed : Bool) (p : Exp) : Res Exp :=
  let perm := normPerm (relabelOf p)
  let rp : Exp :=
    { m := p.m, size := p.m + p.heralds.length, heralds := enumHeralds p.m p.heralds, input := none,
      post := p.post.map (·.relabel perm), noise := some (p.noise.getD 0), filter := p.filter,
      params := [("min_detected_photons", pvOfFilter p.filter)], circ := p.circ.relabel perm,
      cparams := p.cparams }
  match p.input with
  | none => pure rp
  | some s => withInput rp (if fixed then removeModes (heraldModes p) 0 s else s)

/-! ### `Job._handle_params` -/

/-- `if len(args) > len(self._param_names): mapping['max_samples'] = args.pop()` -/
def splitArgs (names : List String) (args : List PV) (mapping : Dict PV) : List PV × Dict PV :=
  if names.length < args.length then
    match args.getLast? with
    | some x => (args.dropLast, dset mapping "max_samples" x)
    | none => (args, mapping)
  else (args, mapping)

/-- the positional loop: `command[param_names[idx]] = arg`, refusing a name also given by keyword -/
def bindPositional (kw : Dict PV) : List PV → List String → Dict PV → Res (Dict PV)
  | [], _, cmd => pure cmd
  | _ :: _, [], _ => throw .index
  | a :: as, n :: ns, cmd =>
    if (dget kw n).isSome then throw .runtime else bindPositional kw as ns (dset cmd n a)

/-- `for k, v in d.items(): if v is None and k in kwargs: d[k] = kwargs[k]; del kwargs[k]` -/
def fill : Dict PV → Dict PV → Dict PV × Dict PV
  | [], kw => ([], kw)
  | (k, v) :: rest, kw =>
    match v, dget kw k with
    | .none, some x => let r := fill rest (derase kw k); ((k, x) :: r.1, r.2)
    | _, _ => let r := fill rest kw; ((k, v) :: r.1, r.2)

/-- `_handle_params(args, kwargs)`: new `(command, mapping)` delta parameters -/
def handleParams (names : List String) (command mapping : Dict PV) (args : List PV) (kw : Dict PV) :
    Res (Dict PV × Dict PV) :=
  let am := splitArgs names args mapping
  match bindPositional kw am.1 names command with
  | .error err => throw err
  | .ok command₁ =>
    let c := fill command₁ kw
    let mp := fill am.2 c.2
    if mp.2 ≠ [] then throw .runtime else pure (c.1, mp.1)

/-! ### `RemoteJob._create_payload_data`, `_check_max_shots_samples_validity` -/

/-- `max_samples > max_shots` is evaluated on whatever the two entries are: only two ints compare
(`None > int`, `str > int` raise `TypeError`); `str > str` cannot occur with a `Sampler`, whose
`max_shots` is always an int, and is refused here -/
def clampPayload (pl : Dict V) : Res (Dict V) :=
  match dget pl "max_samples", dget pl "max_shots" with
  | some a, some b =>
    match a, b with
    | .pv (.int x), .pv (.int y) => if y < x then pure (dset pl "max_samples" (.pv (.int y))) else pure pl
    | .pv (.str _), .pv (.str _) => throw .precondition
    | _, _ => throw .type
  | _, _ => pure pl

structure Job where
  payload : Dict V                 -- `_request_data['payload']`
  jobName : String
  names : List String              -- `_param_names`
  command : Dict PV                -- `_delta_parameters['command']`
  mapping : Dict PV                -- `_delta_parameters['mapping']`
  resultMapping : Option String    -- `_job_context['result_mapping']` (converter name), if any
  hasCtx : Bool                    -- `_job_context is not None`
  fresh : Bool                     -- never executed
deriving DecidableEq, Repr

def pvDict (d : Dict PV) : Dict V := d.map (fun kv => (kv.1, V.pv kv.2))

/-- `_create_payload_data(*args, **kwargs)`: the `payload` part of what is handed to `create_job` -/
def createPayloadData (j : Job) (args : List PV) (kw : Dict PV) : Res (Dict V) :=
  match handleParams j.names j.command j.mapping args kw with
  | .error err => throw err
  | .ok (command, mapping) =>
    let ctx : V :=
      if mapping ≠ [] then .ctx j.resultMapping (some mapping)
      else if j.hasCtx then .ctx j.resultMapping none
      else .pv .none
    clampPayload (dupdate j.payload (pvDict command ++ [("job_context", ctx)]))

/-! ### `AAlgorithm.__init__`, `Sampler` -/

/-- `max_shots_per_call` of a sampler on a remote processor (ints and `None` only) -/
def samplerShots (ms : PV) : Res Int :=
  match ms with
  | .none => throw .runtime
  | .int i => if i = 0 then throw .runtime else if i < 1 then throw .runtime else pure i
  | .str _ => throw .precondition
  | .bool _ => throw .precondition

inductive Method where
  | probs | sample_count | samples
deriving DecidableEq, Repr

def Method.name : Method → String
  | .probs => "probs"
  | .sample_count => "sample_count"
  | .samples => "samples"

/-- `method.find('sample') == -1` on the three method names -/
def Method.isProbs : Method → Bool
  | .probs => true
  | _ => false

/-- `Sampler._METHOD_MAPPING[method]` in dictionary order: `(primitive, converter function name)` -/
def methodMapping : Method → List (Method × String)
  | .probs => [(.sample_count, "sample_count_to_probs"), (.samples, "samples_to_probs")]
  | .sample_count => [(.probs, "probs_to_sample_count"), (.samples, "samples_to_sample_count")]
  | .samples => [(.probs, "probs_to_samples"), (.sample_count, "sample_count_to_samples")]

def firstAvailable (avail : List String) : List (Method × String) → Option (Method × Option String)
  | [] => none
  | (p, conv) :: t => if avail.contains p.name then some (p, some conv) else firstAvailable avail t

/-- `_get_primitive_converter(method)` -/
def primitive (avail : List String) (method : Method) : Option (Method × Option String) :=
  if avail.contains method.name then some (method, none) else firstAvailable avail (methodMapping method)

/-- values of an iteration dictionary -/
inductive IV where
  | cparams (d : Dict PV)          -- a dict of circuit parameter values (`int` = a number)
  | state (s : List Nat)           -- a BasicState
  | int (i : Int)
  | noise (id : Nat)
  | other                          -- a value of none of these types
deriving DecidableEq, Repr

def checkCParams (names : List String) : Dict PV → Option Err
  | [] => none
  | (k, v) :: t =>
    match v with
    | .int _ => if names.contains k then checkCParams names t else some .assertion
    | _ => some .assertion

/-- one key of `_check_iteration` -/
def checkIterKey (pf : Platform) (e : Exp) (key : String) (val : IV) : Option Err :=
  if key = "circuit_params" then
    match val with
    | .cparams d => checkCParams e.cparams d
    | _ => some .assertion
  else if key = "input_state" then
    match val with
    | .state s => if s.length ≠ e.m then some .assertion else checkInput pf e s
    | _ => some .assertion
  else if key = "min_detected_photons" ∨ key = "max_samples" ∨ key = "max_shots" then
    match val with
    | .int _ => none
    | _ => some .assertion
  else if key = "noise" then
    match val with
    | .noise _ => none
    | _ => some .assertion
  else some .notImplemented

def checkIteration (pf : Platform) (e : Exp) : Dict IV → Option Err
  | [] => none
  | (k, v) :: t =>
    match checkIterKey pf e k v with
    | some err => some err
    | none => checkIteration pf e t

structure Sampler where
  maxShots : Int
  iterator : List (Dict IV)
deriving DecidableEq, Repr

/-- `add_iteration_list`: iterations are appended one by one until one is refused -/
def addIterations (pf : Platform) (e : Exp) (s : Sampler) : List (Dict IV) → Sampler × Option Err
  | [] => (s, none)
  | it :: rest =>
    match checkIteration pf e it with
    | some err => (s, some err)
    | none => addIterations pf e { s with iterator := s.iterator ++ [it] } rest

/-- `_input_available()` -/
def inputAvailable (e : Exp) (s : Sampler) : Bool :=
  e.input.isSome || (!s.iterator.isEmpty && s.iterator.all (fun it => (dget it "input_state").isSome))

/-- `Sampler._create_job(method)` on a remote processor -/
def createJob (pf : Platform) (e : Exp) (s : Sampler) (method : Method) : Exp × Res Job :=
  if !inputAvailable e s then (e, throw .assertion)
  else match primitive pf.commands method with
    | none => (e, throw .runtime)
    | some (prim, conv) =>
      let names : List String := if prim.isProbs then [] else ["max_samples"]
      let command : Dict PV :=
        if method.isProbs && !prim.isProbs then [("max_samples", .int 10000)]
        else if !method.isProbs && !prim.isProbs then [("max_samples", .none)]
        else []
      let mapping : Dict PV :=
        if !method.isProbs && prim.isProbs then [("max_samples", .none), ("max_shots", .int s.maxShots)]
        else []
      match preparePayload pf e prim.name false false [] with
      | (e', .error err) => (e', throw err)
      | (e', .ok pl) =>
        let pl := if s.iterator ≠ [] then dset pl "iterator" (.iter s.iterator.length) else pl
        let pl := dset pl "max_shots" (.pv (.int s.maxShots))
        (e', pure { payload := pl, jobName := method.name, names := names, command := command,
                    mapping := mapping, resultMapping := conv, hasCtx := conv.isSome, fresh := true })

/-! ### the session as a state machine: what reaches the handler's `create_job` -/

structure Sent where
  jobName : String
  payload : Dict V
  iterator : List (Dict IV)
deriving DecidableEq, Repr

structure World where
  pf : Platform
  exp : Option Exp                 -- the remote processor
  sampler : Option Sampler
  jobs : List (Job × List (Dict IV))   -- jobs created so far (with the iterator they captured)
  log : List Sent                  -- requests received by the platform through `rpc_handler.create_job`
deriving DecidableEq, Repr

/-- what happens to the ONE request `rpc_handler.create_job` emits for an execution (the network is
not under the client's control; the harness scripts it in its fake handler) -/
inductive Net where
  | ok        -- delivered; the platform's answer (the job id) comes back
  | lost      -- delivered — the job now exists platform side — but the answer never comes back (read time-out)
  | down      -- not delivered (platform unreachable, connection time-out) or refused (HTTP error): no job created
deriving DecidableEq, Repr

inductive Op where
  | newRemote (viaSetCircuit : Bool) (m : Nat) (circ : Nat) (cparams : List String) (noise : Option Nat)
  | convert (fixed : Bool) (p : Exp)
  | addHerald (mode expected : Nat)
  | withInput (s : List Nat)
  | setFilter (n : Option Int)
  | setPost (p : Option Nat)
  | setNoise (n : Option Nat)
  | setParam (k : String) (v : PV)
  | clearParams
  | setCircuit (checked : Bool) (size circ : Nat) (cparams : List String)
  | retune (circ : Nat)
  | addComponent (circ : Nat) (cparams : List String)
  | prepare (cmd : String) (circuitless inputless : Bool) (kw : Dict V)
  | newSampler (ms : PV)
  | addIterations (its : List (Dict IV))
  | clearIterations
  | createJob (method : Method)
  | execute (job : Nat) (args : List PV) (kw : Dict PV) (net : Net)
deriving DecidableEq, Repr

inductive Out where
  | err (e : Err)
  | done
  | payload (pl : Dict V)
  | sent (s : Sent)
  | lost (s : Sent)                -- the request reached the platform, `create_job` raised all the same
deriving DecidableEq, Repr

/-- the step made a request reach the platform (a remote job exists) -/
def Out.isSent : Out → Bool
  | .sent _ => true
  | .lost _ => true
  | _ => false

def Op.isExecute : Op → Bool
  | .execute _ _ _ _ => true
  | _ => false

/-- the requests the platform receives when the client calls `create_job(s)` ONCE -/
def received : Net → Sent → List Sent
  | .down, _ => []
  | _, s => [s]

/-- what `execute_async` reports after that single call: `create_job`'s exception is re-raised as it is
(the job is marked as failed, nothing is re-sent) -/
def outcome : Net → Sent → Out
  | .ok, s => .sent s
  | .lost, s => .lost s
  | .down, _ => .err .transport

def onExp (w : World) (f : Exp → Res Exp) : World × Out :=
  match w.exp with
  | none => (w, .err .precondition)
  | some e =>
    match f e with
    | .error err => (w, .err err)
    | .ok e' => ({ w with exp := some e' }, .done)

/-- `RemoteProcessor(rpc_handler=h, m=m, noise=noise)` followed by `add(0, circuit)` or
`set_circuit(circuit)` for a circuit of `m` modes -/
def newRemote (pf : Platform) (viaSetCircuit : Bool) (m circ : Nat) (cparams : List String)
    (noise : Option Nat) : Res Exp :=
  let e : Exp := { m := m, size := m, heralds := [], input := none, post := none, noise := noise,
                   filter := none, params := [("min_detected_photons", .none)], circ := ⟨circ, []⟩,
                   cparams := cparams }
  if m = 0 then throw .precondition
  else if viaSetCircuit then
    match checkCircuit pf e with
    | some err => throw err
    | none => pure e
  else pure e

def step (w : World) (op : Op) : World × Out :=
  match op with
  | .newRemote via m circ cps noise =>
    match newRemote w.pf via m circ cps noise with
    | .error err => (w, .err err)
    | .ok e => ({ w with exp := some e, sampler := none }, .done)
  | .convert fixed p =>
    if ¬ p.WF then (w, .err .precondition)
    else match fromLocal fixed p with
      | .error err => (w, .err err)
      | .ok e => ({ w with exp := some e, sampler := none }, .done)
  | .addHerald mode ex =>
    onExp w (fun e => if e.size ≤ mode ∨ e.m ≤ 1 then throw .precondition else addHerald e mode ex)
  | .withInput s => onExp w (fun e => withInput e s)
  | .setFilter n => onExp w (fun e => pure (setFilter e n))
  | .setPost p => onExp w (fun e => pure (setPost e (p.map (⟨·, []⟩))))
  | .setNoise n => onExp w (fun e => pure (setNoise e n))
  | .setParam k v => onExp w (fun e => pure (setParam e k v))
  | .clearParams => onExp w (fun e => pure (clearParams e))
  | .setCircuit checked sz circ cps =>
    onExp w (fun e => if e.m = 0 then throw .precondition else setCircuit w.pf e checked sz circ cps)
  | .retune circ => onExp w (fun e => pure (retune e circ))
  | .addComponent circ cps => onExp w (fun e => if e.post.isSome then throw .precondition else pure (addComponent e circ cps))
  | .prepare cmd cl il kw =>
    match w.exp with
    | none => (w, .err .precondition)
    | some e =>
      match preparePayload w.pf e cmd cl il kw with
      | (e', .error err) => ({ w with exp := some e' }, .err err)
      | (e', .ok pl) => ({ w with exp := some e' }, .payload pl)
  | .newSampler ms =>
    match w.exp with
    | none => (w, .err .precondition)
    | some _ =>
      match samplerShots ms with
      | .error err => (w, .err err)
      | .ok i => ({ w with sampler := some ⟨i, []⟩ }, .done)
  | .addIterations its =>
    match w.exp, w.sampler with
    | some e, some s =>
      match addIterations w.pf e s its with
      | (s', some err) => ({ w with sampler := some s' }, .err err)
      | (s', none) => ({ w with sampler := some s' }, .done)
    | _, _ => (w, .err .precondition)
  | .clearIterations =>
    match w.sampler with
    | some s => ({ w with sampler := some { s with iterator := [] } }, .done)
    | none => (w, .err .precondition)
  | .createJob method =>
    match w.exp, w.sampler with
    | some e, some s =>
      match createJob w.pf e s method with
      | (e', .error err) => ({ w with exp := some e' }, .err err)
      | (e', .ok j) => ({ w with exp := some e', jobs := w.jobs ++ [(j, s.iterator)] }, .payload j.payload)
    | _, _ => (w, .err .precondition)
  | .execute idx args kw net =>
    match w.jobs[idx]? with
    | none => (w, .err .precondition)
    | some (j, its) =>
      if !j.fresh then (w, .err .assertion)
      else
        let jobs' := w.jobs.set idx ({ j with fresh := false }, its)
        match createPayloadData j args kw with
        | .error err => ({ w with jobs := jobs' }, .err err)
        | .ok pl =>
          let s : Sent := ⟨j.jobName, pl, its⟩
          ({ w with jobs := jobs', log := w.log ++ received net s }, outcome net s)

def World.init (pf : Platform) : World := ⟨pf, none, none, [], []⟩

end PM.C16
