/-
  C03, section 13 — the weights of a mixture as a dict keyed by NORMALISED state vectors
  (perceval/utils/statevector.py, `SVDistribution`, a `defaultdict(float)`):

    __setitem__(key, v):  key.normalize(); dict.__setitem__(key, v)
    __getitem__(key):     dict.__getitem__(key)          -- the pinned code: the key is looked up AS IT IS
                          key.normalize(); dict.__getitem__(key)   -- repaired (fixes/C03-svd-getitem-unnormalised-key.diff)
    a missing key:        defaultdict.__missing__ stores 0.0 THROUGH __setitem__ and returns 0.0
    svd[key] += w, add(key, w):   v = svd[key]; svd[key] = v + w

  A key is abstract (`K`); `norm` is the normalisation (two state vectors are the same mixture component iff their
  normalised forms are equal).  Core Lean only.
-/
namespace PM.C03

section Keys
variable {K : Type} [DecidableEq K]

abbrev WDict (K : Type) := List (K × Rat)

/-- the stored weight of a key (0 when absent) -/
def wget (d : WDict K) (k : K) : Rat := (d.lookup k).getD 0

/-- `dict.__setitem__` -/
def wset : WDict K → K → Rat → WDict K
  | [], k, v => [(k, v)]
  | (k', v') :: r, k, v => if k' = k then (k', v) :: r else (k', v') :: wset r k v

/-- `SVDistribution.__setitem__` -/
def svdSet (norm : K → K) (d : WDict K) (k : K) (v : Rat) : WDict K := wset d (norm k) v

/-- `SVDistribution.__getitem__` (`fixed = false`: the pinned code) with `defaultdict.__missing__` -/
def svdGet (fixed : Bool) (norm : K → K) (d : WDict K) (k : K) : WDict K × Rat :=
  let k' := if fixed then norm k else k
  match d.lookup k' with
  | some v => (d, v)
  | none => (svdSet norm d k' 0, 0)

/-- `svd[k] += w` / `svd.add(k, w)` -/
def svdIadd (fixed : Bool) (norm : K → K) (d : WDict K) (k : K) (w : Rat) : WDict K :=
  let r := svdGet fixed norm d k
  svdSet norm r.1 k (r.2 + w)

/-- the operations a user (or the simulator) performs on the dict of a mixture -/
inductive KeyOp (K : Type) where
  | set (k : K) (v : Rat)
  | iadd (k : K) (w : Rat)
  | read (k : K)

def svdStep (fixed : Bool) (norm : K → K) (d : WDict K) : KeyOp K → WDict K
  | .set k v => svdSet norm d k v
  | .iadd k w => svdIadd fixed norm d k w
  | .read k => (svdGet fixed norm d k).1

def svdRun (fixed : Bool) (norm : K → K) (ops : List (KeyOp K)) : WDict K :=
  ops.foldl (svdStep fixed norm) []

/-- what the sequence MEANS for the component `c` (a normalised key): assignments replace, `+=` accumulates, reading
changes nothing -/
def intended (norm : K → K) (c : K) : Rat → List (KeyOp K) → Rat
  | acc, [] => acc
  | acc, .set k v :: r => intended norm c (if norm k = c then v else acc) r
  | acc, .iadd k w :: r => intended norm c (if norm k = c then acc + w else acc) r
  | acc, .read _ :: r => intended norm c acc r

end Keys
end PM.C03
