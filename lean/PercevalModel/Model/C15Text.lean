/-
  C15 — the text formats of `perceval/serialization` (core Lean only).

  `serialize` writes BasicState, StateVector, SVDistribution, BSDistribution, BSCount and BSSamples as plain
  text after the `:PCVL:<tag>:` envelope; `deserialize` reads them back with `str.split`, one regular
  expression, `float`, `int` and the `BasicState` constructor.  This file models

  * the decimal text of a number: `simple_float(v, nsimplify=False)[1]` (writer) and `float(text)` (reader,
    restricted to the syntax the writer emits: `-?D+(.D+)?(e-D+)?`);
  * the text of a Fock state with annotations: `str(BasicState)` / `BasicState(text)` (both native, exqalibur):
    photons of one mode are grouped by annotation, the groups sorted by the text of the annotation, a group of
    `n > 1` equal photons is written `n{…}`, photons without annotation come last as a bare count;
  * `serialize_statevector` / `deserialize_statevector` (`"+".join`, `split("+")`, the regular expression
    `\((.*),(.*)\)\*(.*)$` with its greedy groups);
  * the three distributions `{k=v;k=v}` (`split(";")`, `split("=")`, dict assignment) and the text layer of
    `serialize_bssamples` / `deserialize_bssamples` (`split('/')`, `split(';')`, `int`).

  The readers are modelled on the language the writers emit (plus unsorted / repeated annotations, which the
  native constructor sorts and merges): the model never accepts a text the real reader rejects, nor reads it
  differently; it may reject texts the real reader accepts (leading zeros, blanks, `[1,0]`, `(1,0)`, complex
  annotation values, `+` signs, …) — see `harness/c15.py` (`text-reader` stream) for how this is checked.
-/
import PercevalModel.Model.C15

namespace PM.C15.Txt

open PM.C15 (Text Dbl gridNum gridExp)

/-! ## decimal digits -/

def digitChar (d : Nat) : Char := Char.ofNat (48 + d)
def isDigit (c : Char) : Bool := 48 ≤ c.toNat && c.toNat ≤ 57
def digitVal (c : Char) : Nat := c.toNat - 48

/-- `str(n)` for a natural number (fuel = one more than the number of digits is enough; `n + 1` is) -/
def showNatF : Nat → Nat → Text
  | 0, _ => []
  | f + 1, n => if n < 10 then [digitChar n] else showNatF f (n / 10) ++ [digitChar (n % 10)]

def showNat (n : Nat) : Text := showNatF (n + 1) n

def parseDigits (acc : Nat) : Text → Nat
  | [] => acc
  | c :: cs => parseDigits (acc * 10 + digitVal c) cs

def allDigits (t : Text) : Bool := !t.isEmpty && t.all isDigit

/-- `int(text)` on a non-empty run of digits (Python also accepts blanks, `+`, `_`: not modelled) -/
def parseNat? (t : Text) : Option Nat := if allDigits t then some (parseDigits 0 t) else none

/-- a run of digits without superfluous leading zero -/
def canonNat (t : Text) : Bool := allDigits t && (t.length = 1 || t.head? != some '0')

/-! ## numbers on the 1e-6 text grid -/

/-- the decimal `simple_float` prints: `± k / 10^(6+e)`; `e = 0` is the plain form, `e ≥ 4` the `e-<e>` form -/
structure GNum where
  neg : Bool
  k : Nat
  e : Nat
  deriving DecidableEq, Repr

def GNum.toRat (g : GNum) : Dbl := (if g.neg then -1 else 1) * (g.k : Dbl) / (10 : Dbl) ^ (6 + g.e)

/-- what `simple_float(v, nsimplify=False)` computes for the double `v` (exact rational), in the exact arithmetic
of `Model/C15.lean` (`gridNum`, `gridExp`); `alpha < 0` is the sign test of the code (`-0.0` is not negative) -/
def gnumOf (v : Dbl) : GNum :=
  ⟨decide (v < 0), gridNum v.num.natAbs v.den, gridExp v.num.natAbs v.den⟩

/-- six digits, zero padded (`n < 10^6`) -/
def pad6 (n : Nat) : Text :=
  [n / 100000 % 10, n / 10000 % 10, n / 1000 % 10, n / 100 % 10, n / 10 % 10, n % 10].map digitChar

/-- the loop that removes trailing zeros -/
def stripZeros (t : Text) : Text := (t.reverse.dropWhile (· == '0')).reverse

/-- `str(sp.S(alpha))` with trailing zeros (and a bare `.`) removed: `k / 10^6` as a decimal -/
def mantText (k : Nat) : Text :=
  showNat (k / 10 ^ 6) ++ (if k % 10 ^ 6 = 0 then [] else '.' :: stripZeros (pad6 (k % 10 ^ 6)))

/-- the `e-<mult10>` suffix -/
def expText (e : Nat) : Text := if e = 0 then [] else 'e' :: '-' :: showNat e

/-- the text of `simple_float(v, nsimplify=False)[1]` -/
def renderNum (g : GNum) : Text := (if g.neg then ['-'] else []) ++ (mantText g.k ++ expText g.e)

/-- split at the first occurrence of `c` -/
def splitFirst (c : Char) : Text → Option (Text × Text)
  | [] => none
  | x :: xs => if x = c then some ([], xs) else (splitFirst c xs).map fun (a, b) => (x :: a, b)

/-- value of a decimal: `± m / 10^sc` -/
def decVal (neg : Bool) (m sc : Nat) : Dbl := (if neg then -1 else 1) * (m : Dbl) / (10 : Dbl) ^ sc

/-- `D+(.D+)?` as mantissa and scale: the value is `m / 10^sc` -/
def parseMant (t : Text) : Option (Nat × Nat) :=
  match splitFirst '.' t with
  | some (a, b) =>
    match parseNat? a, parseNat? b with
    | some x, some y => some (x * 10 ^ b.length + y, b.length)
    | _, _ => none
  | none => (parseNat? t).map fun x => (x, 0)

/-- `D+(.D+)?(e-D+)?` -/
def parseUnsigned (t : Text) : Option (Nat × Nat) :=
  match splitFirst 'e' t with
  | some (m, '-' :: ds) =>
    match parseMant m, parseNat? ds with
    | some (x, sc), some e => some (x, sc + e)
    | _, _ => none
  | some _ => none
  | none => parseMant t

/-- `float(text)` on `-?D+(.D+)?(e-D+)?`; the exact rational the text denotes (the nearest double is within
2^-53 relative of it: outside the model) -/
def parseNum (t : Text) : Option Dbl :=
  match t with
  | '-' :: r => (parseUnsigned r).map fun p => decVal true p.1 p.2
  | _ => (parseUnsigned t).map fun p => decVal false p.1 p.2

/-! ## Fock states with annotations -/

/-- one annotation `tag:value, …` (tags sorted); the value is the word the native printer emits: a natural number,
or one of the six polarisation letters when the tag is `P` (complex values `(re,im)` are outside the model) -/
abbrev Annot := List (Text × Text)

/-- `count` photons carrying the same annotation -/
structure Group where
  count : Nat
  annot : Annot
  deriving DecidableEq, Repr

/-- one mode: annotated groups (sorted by the text of the annotation) and `plain` photons without annotation -/
structure Mode where
  groups : List Group
  plain : Nat
  deriving DecidableEq, Repr

abbrev FState := List Mode

/-- a piece of text: a (possibly empty) word followed by one punctuation character -/
abbrev Seg := Text × Char

/-- letters, digits and `_` -/
def wordChar (c : Char) : Bool :=
  isDigit c || (65 ≤ c.toNat && c.toNat ≤ 90) || (97 ≤ c.toNat && c.toNat ≤ 122) || c.toNat == 95

def renderSegs (l : List Seg) : Text := l.flatMap fun s => s.1 ++ [s.2]

/-- cut a text into words and punctuation; a trailing word without punctuation is refused -/
def segGo : Text → Text → Option (List Seg)
  | acc, [] => if acc.isEmpty then some [] else none
  | acc, c :: cs =>
    if wordChar c then segGo (acc ++ [c]) cs
    else match segGo [] cs with
      | some r => some ((acc, c) :: r)
      | none => none

def polLetters : List Text := [['H'], ['V'], ['D'], ['A'], ['L'], ['R']]

/-- the values the model covers: a polarisation letter under the tag `P`; under any other tag a natural number
up to 2^24 (the native annotation value is a 32-bit float: larger integers are not all representable) -/
def valOk (tag val : Text) : Bool :=
  if tag = ['P'] then polLetters.contains val else canonNat val && parseDigits 0 val ≤ 16777216

/-- a tag: letters, digits, `_`, not digits only ("digit only name is forbidden") -/
def tagOk (tag : Text) : Bool := !tag.isEmpty && tag.all wordChar && !tag.all isDigit

/-- `tag:value, …}` with `closeC` after the last value -/
def annotSegs : Annot → List Seg
  | [] => []
  | [(t, v)] => [(t, ':'), (v, '}')]
  | (t, v) :: rest => (t, ':') :: (v, ',') :: annotSegs rest

def countWord (n : Nat) : Text := if n = 1 then [] else showNat n

def groupSegs (g : Group) : List Seg := (countWord g.count, '{') :: annotSegs g.annot

/-- the bare count that closes a mode: always written when there is no annotated photon -/
def plainWord (m : Mode) : Text := if m.groups.isEmpty then showNat m.plain else if m.plain = 0 then [] else showNat m.plain

def modeSegs (m : Mode) (closeC : Char) : List Seg := m.groups.flatMap groupSegs ++ [(plainWord m, closeC)]

def modesSegs : List Mode → List Seg
  | [] => []
  | [m] => modeSegs m '>'
  | m :: ms => modeSegs m ',' ++ modesSegs ms

def stateSegs (s : FState) : List Seg := ([], '|') :: (if s.isEmpty then [([], '>')] else modesSegs s)

/-- `str(BasicState)` -/
def encodeState (s : FState) : Text := renderSegs (stateSegs s)

/-- byte-wise lexicographic order (the order of the native container) -/
def ltText : Text → Text → Bool
  | [], [] => false
  | [], _ :: _ => true
  | _ :: _, [] => false
  | a :: as, b :: bs => a.toNat < b.toNat || (a == b && ltText as bs)

/-- `a:1,b:2` -/
def annotText : Annot → Text
  | [] => []
  | [(t, v)] => t ++ ':' :: v
  | (t, v) :: rest => t ++ ':' :: v ++ ',' :: annotText rest

/-- insert a `tag:value` into a tag-sorted annotation; a repeated tag is refused ("duplicate tag") -/
def insTag (tv : Text × Text) : Annot → Option Annot
  | [] => some [tv]
  | x :: rest =>
    if ltText tv.1 x.1 then some (tv :: x :: rest)
    else if tv.1 = x.1 then none
    else (insTag tv rest).map (x :: ·)

def sortAnnot : Annot → Option Annot
  | [] => some []
  | tv :: rest => (sortAnnot rest).bind (insTag tv)

/-- insert a group into a list sorted by annotation text; equal annotations are merged -/
def insGroup (g : Group) : List Group → List Group
  | [] => [g]
  | x :: rest =>
    if ltText (annotText g.annot) (annotText x.annot) then g :: x :: rest
    else if g.annot = x.annot then ⟨g.count + x.count, x.annot⟩ :: rest
    else x :: insGroup g rest

def sortGroups : List Group → List Group
  | [] => []
  | g :: rest => insGroup g (sortGroups rest)

/-- `tag:value,tag:value}` -/
def parseAnnot : List Seg → Option (Annot × List Seg)
  | (t, ':') :: (v, c) :: rest =>
    if tagOk t && valOk t v then
      if c = '}' then some ([(t, v)], rest)
      else if c = ',' then
        match parseAnnot rest with
        | some (a, r) => some ((t, v) :: a, r)
        | none => none
      else none
    else none
  | _ => none

/-- the count in front of `{`: nothing (= 1) or a natural number ≥ 2 without leading zero -/
def parseCount (w : Text) : Option Nat :=
  if w.isEmpty then some 1
  else if canonNat w && 2 ≤ parseDigits 0 w then some (parseDigits 0 w) else none

/-- the groups of one mode and the word + punctuation that close it -/
def parseGroups : Nat → List Seg → Option (List Group × Text × Char × List Seg)
  | 0, _ => none
  | _ + 1, [] => none
  | fuel + 1, (w, c) :: rest =>
    if c = '{' then
      match parseCount w, parseAnnot rest with
      | some n, some (a, rest1) =>
        match sortAnnot a, parseGroups fuel rest1 with
        | some a', some (gs, w', c', rest2) => some (⟨n, a'⟩ :: gs, w', c', rest2)
        | _, _ => none
      | _, _ => none
    else if c = ',' ∨ c = '>' then some ([], w, c, rest)
    else none

/-- one mode, and whether it was closed by `>` -/
def parseMode (fuel : Nat) (segs : List Seg) : Option (Mode × Char × List Seg) :=
  match parseGroups fuel segs with
  | some (gs, w, c, rest) =>
    if gs.isEmpty then
      if canonNat w then some (⟨[], parseDigits 0 w⟩, c, rest) else none
    else if w.isEmpty then some (⟨sortGroups gs, 0⟩, c, rest)
    else if canonNat w && 1 ≤ parseDigits 0 w then some (⟨sortGroups gs, parseDigits 0 w⟩, c, rest)
    else none
  | none => none

def parseModes : Nat → List Seg → Option (List Mode)
  | 0, _ => none
  | fuel + 1, segs =>
    match parseMode (fuel + 1) segs with
    | some (m, c, rest) =>
      if c = '>' then (if rest.isEmpty then some [m] else none)
      else match parseModes fuel rest with
        | some ms => some (m :: ms)
        | none => none
    | none => none

/-- `BasicState(text)` -/
def decodeState (t : Text) : Option FState :=
  match segGo [] t with
  | some (([], '|') :: rest) =>
    if rest = [([], '>')] then some [] else parseModes (rest.length + 1) rest
  | _ => none

/-! ### the states the theorems are about -/

/-- consecutive elements are related -/
def Chain {α} (r : α → α → Bool) : List α → Bool
  | a :: b :: rest => r a b && Chain r (b :: rest)
  | _ => true

def Annot.WF (a : Annot) : Bool :=
  !a.isEmpty && a.all (fun tv => tagOk tv.1 && valOk tv.1 tv.2) && Chain (fun x y => ltText x.1 y.1) a

def Group.WF (g : Group) : Bool := 1 ≤ g.count && Annot.WF g.annot

def Mode.WF (m : Mode) : Bool :=
  m.groups.all Group.WF && Chain (fun x y => ltText (annotText x.annot) (annotText y.annot)) m.groups

def FState.WF (s : FState) : Bool := s.all Mode.WF

/-! ## `{key=value;…}` and the sample list -/

def splitOn (c : Char) : Text → List Text
  | [] => [[]]
  | x :: xs =>
    if x = c then [] :: splitOn c xs
    else match splitOn c xs with
      | [] => [[x]]              -- unreachable: `splitOn` never returns `[]`
      | p :: ps => (x :: p) :: ps

def joinWith (c : Char) : List Text → Text
  | [] => []
  | [p] => p
  | p :: ps => p ++ c :: joinWith c ps

/-- `d[k] = v` on an insertion-ordered dict -/
def assign {κ ν} [DecidableEq κ] (k : κ) (v : ν) : List (κ × ν) → List (κ × ν)
  | [] => [(k, v)]
  | (k', v') :: t => if k' = k then (k, v) :: t else (k', v') :: assign k v t

def assignAll {κ ν} [DecidableEq κ] (acc : List (κ × ν)) : List (κ × ν) → List (κ × ν)
  | [] => acc
  | (k, v) :: t => assignAll (assign k v acc) t

/-- `k, v = s.split("=")` : exactly two parts -/
def splitPair (c : Char) (t : Text) : Option (Text × Text) :=
  match splitOn c t with
  | [a, b] => some (a, b)
  | _ => none

/-- `"{" + ";".join("k=v") + "}"` -/
def encodeDict (items : List (Text × Text)) : Text :=
  '{' :: joinWith ';' (items.map fun kv => kv.1 ++ '=' :: kv.2) ++ ['}']

/-- strip `{`…`}` (the assertion of the readers) -/
def unbrace (t : Text) : Option Text :=
  match t with
  | '{' :: rest => if rest.getLast? = some '}' then some rest.dropLast else none
  | _ => none

/-- one `k=v` entry: `k, v = s.split("=")`, then the two decoders -/
def decodeItem {κ ν} (dk : Text → Option κ) (dv : Text → Option ν) (s : Text) : Option (κ × ν) :=
  match splitPair '=' s with
  | some (a, b) =>
    match dk a, dv b with
    | some k, some v => some (k, v)
    | _, _ => none
  | none => none

/-- the loop of `deserialize_bsdistribution` / `_bscount` / `_svdistribution` over decoders of key and value -/
def decodeDict {κ ν} [DecidableEq κ] (dk : Text → Option κ) (dv : Text → Option ν) (t : Text) :
    Option (List (κ × ν)) :=
  match unbrace t with
  | none => none
  | some inner =>
    if inner.isEmpty then some []
    else ((splitOn ';' inner).mapM (decodeItem dk dv)).map (assignAll [])

/-- "Number of modes is not consistent" / "The mode count in both StateVectors is different": every mode count
equals the first one -/
def uniform : List Nat → Bool
  | [] => true
  | a :: t => t.all (· == a)

/-- BSDistribution: `state = probability` -/
def encodeBSD (d : List (FState × Dbl)) : Text :=
  encodeDict (d.map fun e => (encodeState e.1, renderNum (gnumOf e.2)))

/-- `BSDistribution.__setitem__` refuses a state with another number of modes -/
def decodeBSD (t : Text) : Option (List (FState × Dbl)) :=
  (decodeDict decodeState parseNum t).bind fun d => if uniform (d.map (·.1.length)) then some d else none

/-- BSCount: `state = count` -/
def encodeBSC (d : List (FState × Nat)) : Text :=
  encodeDict (d.map fun e => (encodeState e.1, showNat e.2))

def decodeBSC (t : Text) : Option (List (FState × Nat)) := decodeDict decodeState parseNat? t

/-- the text layer of `serialize_bssamples`: `dict` = the distinct states, `order` = one index per sample -/
def encodeBSSText (w : List FState × List Nat) : Text :=
  joinWith ';' (w.1.map encodeState) ++ '/' :: joinWith ';' (w.2.map showNat)

def decodeBSSText (t : Text) : Option (List FState × List Nat) :=
  match splitOn '/' t with
  | [a, b] =>
    if a.isEmpty then some ([], [])                  -- `if not parts[0]: return BSSamples()`
    else match (splitOn ';' a).mapM decodeState, (splitOn ';' b).mapM parseNat? with
      | some d, some o => some (d, o)
      | _, _ => none
  | _ => none

/-- `serialize_bssamples` -/
def encodeBSS (l : List FState) : Text := encodeBSSText (PM.C15.bssEncode l)

/-- `deserialize_bssamples` -/
def decodeBSS (t : Text) : Option (List FState) := (decodeBSSText t).bind PM.C15.bssDecode

/-! ## state vectors -/

/-- one term of a state vector: amplitude (real, imaginary) and state -/
abbrev Term := Dbl × Dbl × FState

/-- `"(%s,%s)*%s" % (real, imag, str(key))` -/
def encodeTerm (t : Term) : Text :=
  '(' :: ((renderNum (gnumOf t.1) ++ ',' :: renderNum (gnumOf t.2.1)) ++ ')' :: '*' :: encodeState t.2.2)

/-- `serialize_statevector` on the terms the (normalised) vector iterates over -/
def encodeSV (sv : List Term) : Text := joinWith '+' (sv.map encodeTerm)

/-- split at the LAST occurrence of `)*` -/
def splitLastStar : Text → Option (Text × Text)
  | [] => none
  | c :: cs =>
    match splitLastStar cs with
    | some (a, b) => some (c :: a, b)
    | none => if c = ')' ∧ cs.head? = some '*' then some ([], cs.tail) else none

/-- split at the LAST occurrence of `c` -/
def splitLast (c : Char) : Text → Option (Text × Text)
  | [] => none
  | x :: xs =>
    match splitLast c xs with
    | some (a, b) => some (x :: a, b)
    | none => if x = c then some ([], xs) else none

/-- `re.match(r"\((.*),(.*)\)\*(.*)$", c)`: both `.*` before `)*` are greedy, so the third group starts after the
last `)*` and the first group ends at the last comma in front of it -/
def matchTerm (t : Text) : Option (Text × Text × Text) :=
  match t with
  | '(' :: rest =>
    match splitLastStar rest with
    | some (ab, st) =>
      match splitLast ',' ab with
      | some (a, b) => some (a, b, st)
      | none => none
    | none => none
  | _ => none

def decodeTerm (t : Text) : Option Term :=
  match matchTerm t with
  | some (a, b, st) =>
    match parseNum a, parseNum b, decodeState st with
    | some re, some im, some s => some (re, im, s)
    | _, _, _ => none
  | none => none

/-- `deserialize_statevector`: the terms in reading order (`sv += state * amplitude`; equal states add up) -/
def decodeSV (t : Text) : Option (List Term) :=
  ((splitOn '+' t).mapM decodeTerm).bind fun ts => if uniform (ts.map (·.2.2.length)) then some ts else none

/-- the value the text of a number denotes -/
def gridVal (v : Dbl) : Dbl := (gnumOf v).toRat

def roundTerm (t : Term) : Term := (gridVal t.1, gridVal t.2.1, t.2.2)

/-- SVDistribution: `state vector = probability` -/
def encodeSVD (d : List (List Term × Dbl)) : Text :=
  encodeDict (d.map fun e => (encodeSV e.1, renderNum (gnumOf e.2)))

/-- `StateVector.m` -/
def svModes (sv : List Term) : Nat := (sv.head?.map (·.2.2.length)).getD 0

/-- `SVDistribution.__setitem__` refuses a vector with another number of modes -/
def decodeSVD (t : Text) : Option (List (List Term × Dbl)) :=
  (decodeDict decodeSV parseNum t).bind fun d => if uniform (d.map (svModes ·.1)) then some d else none

end PM.C15.Txt
