/-
  C15 — model of `perceval/serialization/*` (hand-written protobuf writers and readers).
  Core Lean only.

  What is modelled (and how):
  * proto3 wire layer: every message is a structure whose scalar fields always have a value
    (absent = default `0`/`""`/`false`, no presence), sub-messages are `Option`, `oneof`s are
    inductives with an `unset` case, repeated fields are lists, maps are association lists.
    The byte encoding itself (protobuf, base64, zlib, json) is trusted (DESIGN section 8).
  * a float64 is the rational it denotes (`Dbl := Rat`; NaN/inf excluded).
  * `Cfg` selects, defect by defect, the behaviour of the code as found (`Cfg.current`) or as
    repaired by `fixes/C15-*.diff` (`Cfg.fixed`, the main model).
-/
namespace PM.C15

abbrev Dbl := Rat
abbrev Text := List Char

/-- which of the repairs to the component / experiment codecs are present (the two further
    repairs, `serialize_matrix` on symbolic matrices and the `compress` keyword of the detector
    overloads of `serialize`, have their own as-found definitions: `encMatAsFound`, `kwAccepted`) -/
structure Cfg where
  /-- `deserialize_unitary` reads `name` and `use_polarization` back -/
  unitaryFields : Bool
  /-- `ExperimentSerializer` tests `min_photons_filter is not None` instead of truthiness -/
  filterZero : Bool
  /-- `CircuitBuilder`/`ExperimentBuilder` keep a shared name table that is still empty
      (`params if params is not None else dict()` instead of `params or dict()`) -/
  keepEmptyTable : Bool
  /-- `serialize_parameter` takes the expression branch before the `defined` branch and names
      fixed sub-parameters; `deserialize_parameter` caches expressions in the name table -/
  exprFix : Bool
  deriving DecidableEq, Repr

def Cfg.fixed : Cfg := ⟨true, true, true, true⟩
def Cfg.current : Cfg := ⟨false, false, false, false⟩

/-! ## Parameters -/

/-- a sub-parameter of an `Expression` (a plain `Parameter`; `fixed` = it has no symbol) -/
structure Sub where
  name : String
  fixed : Bool
  val : Option Dbl
  deriving DecidableEq, Repr

/-- what a component slot holds.  Identity of a variable is its name (Perceval refuses two
    different variables with one name in a circuit); all occurrences carry the current value. -/
inductive Param where
  /-- `Parameter(name, value=v)`: no symbol; the name is not serialised -/
  | fixed (v : Dbl)
  /-- `Parameter(name)` possibly after `set_value` -/
  | var (name : String) (val : Option Dbl)
  /-- `Expression(e, subs)`; `e = str(param._symbol)`; `subs` in `Expression.parameters` order -/
  | expr (e : String) (subs : List Sub)
  deriving DecidableEq, Repr

/-- `Parameter.__bool__`: `is_variable or float(self) != 0` -/
def Param.truthy : Param → Bool
  | .fixed v => v ≠ 0
  | _ => true

/-- proto3 `Parameter.type` oneof -/
inductive PType where
  | unset
  | real (v : Dbl)
  | symbol (s : String)
  | expression (s : String)
  deriving DecidableEq, Repr

/-- an entry of `Parameter.expr_parameters` (the writer never nests deeper:
    `Expression._check_parameters` forces sub-parameters to be symbols) -/
structure PbLeaf where
  type : PType
  name : String
  deriving DecidableEq, Repr

structure PbParam where
  type : PType
  name : String
  subs : List PbLeaf
  deriving DecidableEq, Repr

/-- `serialize_parameter` on a plain `Parameter` met inside an expression.
    `name` is written when the parameter has a symbol (or always, after the repair). -/
def encodeSub (cfg : Cfg) (s : Sub) : PbLeaf :=
  let name := if !s.fixed || cfg.exprFix then s.name else ""
  match s.val with
  | some v => ⟨.real v, name⟩
  | none => ⟨.symbol s.name, name⟩

/-- `serialize_parameter`.  `ev` is `float(expression)` (sympy evaluation, external). -/
def encodeParam (cfg : Cfg) (ev : String → List Sub → Dbl) : Param → PbParam
  | .fixed v => ⟨.real v, "", []⟩
  | .var n (some v) => ⟨.real v, n, []⟩
  | .var n none => ⟨.symbol n, n, []⟩
  | .expr e subs =>
    if !cfg.exprFix && subs.all (·.val.isSome) then
      ⟨.real (ev e subs), e, []⟩                   -- as found: `if param.defined:` comes first
    else
      ⟨.expression ("(" ++ e ++ ")"), e, subs.map (encodeSub cfg)⟩

/-- reader state: the `known_params` dict in scope (newest first, lookup = first match, so
    consing models `d[k] = v`) and the log of every `Parameter(name)` object constructed. -/
structure St where
  tbl : List (String × Option Dbl) := []
  allocs : List String := []
  deriving DecidableEq, Repr

/-- what `deserialize_parameter` returns -/
inductive DVal where
  | none_                                  -- Python `None` (no oneof member set)
  | flt (v : Dbl)                          -- a bare float
  | par (name : String) (val : Option Dbl) -- a `Parameter`
  | expr (e : String) (subs : List Sub)    -- an `Expression`
  | sym (s : String)                       -- `sp.S(expression)`
  deriving DecidableEq, Repr

/-- `deserialize_parameter` without `expr_parameters` -/
def decodeBase (st : St) (t : PType) (name : String) : Option (DVal × St) :=
  match t with
  | .unset => some (.none_, st)
  | .real v =>
    if name ≠ "" then
      match st.tbl.lookup name with
      | some (some w) => if w = v then some (.par name (some w), st) else none   -- ValueError
      | some none => none                                                       -- float(None)
      | none => some (.par name (some v), ⟨(name, some v) :: st.tbl, name :: st.allocs⟩)
    else some (.flt v, st)
  | .symbol s =>
    match st.tbl.lookup s with
    | some val => some (.par s val, st)
    | none => some (.par s none, ⟨(name, none) :: st.tbl, s :: st.allocs⟩)  -- keyed by `name`
  | .expression s => some (.sym s, st)

/-- the loop over `expr_parameters`; `Expression(name, {…})` needs `Parameter`s -/
def decodeSubs : List PbLeaf → St → Option (List Sub × St)
  | [], st => some ([], st)
  | w :: ws, st =>
    match decodeBase st w.type w.name with
    | some (.par n val, st1) =>
      match decodeSubs ws st1 with
      | some (rest, st2) => some (⟨n, false, val⟩ :: rest, st2)
      | none => none
    | _ => none

/-- `deserialize_parameter` -/
def decodeParam (st : St) (w : PbParam) : Option (DVal × St) :=
  match w.type with
  | .expression s =>
    if w.subs.isEmpty then some (.sym s, st)
    else match decodeSubs w.subs st with
      | some (subs, st1) => some (.expr w.name subs, st1)
      | none => none
  | t => decodeBase st t w.name

/-- a component constructor receiving the value for slot `slot`
    (`_set_parameter`: a non-`Parameter` becomes `Parameter(value=p, name=slot)`;
    `None` therefore becomes a fresh symbol named after the slot) -/
def toParam (slot : String) : DVal → Option Param
  | .none_ => some (.var slot none)
  | .flt v => some (.fixed v)
  | .par n v => some (.var n v)
  | .expr e s => some (.expr e s)
  | .sym _ => none            -- sympy value: outside the model

/-- a slot that received `None` makes the constructor build `Parameter(slot)`: one more
    `Parameter` object, outside the name table -/
def bump (slot : String) (d : DVal) (st : St) : St :=
  match d with
  | .none_ => { st with allocs := slot :: st.allocs }
  | _ => st

def decSlot (st : St) : Option PbParam → Option (DVal × St)
  | none => some (.none_, st)
  | some p => decodeParam st p

/-- read the slots in order -/
def decSlots : List String → List (Option PbParam) → St → Option (List Param × St)
  | [], _, st => some ([], st)
  | n :: ns, ws, st =>
    match decSlot st ws.head?.join with
    | some (d, st1) =>
      match toParam n d with
      | some p =>
        match decSlots ns ws.tail (bump n d st1) with
        | some (rest, st2) => some (p :: rest, st2)
        | none => none
      | none => none
    | none => none

/-- equivalence: sub-parameters come back as variables-with-value (the `fixed` flag of a
    sub-parameter is not on the wire) -/
def Sub.norm (s : Sub) : Sub := { s with fixed := false }
def Param.norm : Param → Param
  | .expr e subs => .expr e (subs.map Sub.norm)
  | p => p

/-! ## Matrices -/

abbrev Cx := Dbl × Dbl

inductive Mat where
  | num (rows : List (List Cx))
  | sym (rows : List (List String))
  deriving DecidableEq, Repr

inductive MatData where
  | unset
  | numeric (d : List Cx)
  | symbolic (d : List String)    -- `Parameter{expression = str(x)}` entries
  deriving DecidableEq, Repr

structure PbMat where
  rows : Nat
  cols : Nat
  data : MatData
  deriving DecidableEq, Repr

def rowsCols {α} (rows : List (List α)) : Nat × Nat :=
  (rows.length, (rows.head?.map List.length).getD 0)

/-- `serialize_matrix` (row-major `np.nditer` / `m.vec()`) -/
def encMat : Mat → PbMat
  | .num rows => ⟨(rowsCols rows).1, (rowsCols rows).2, .numeric rows.flatten⟩
  | .sym rows => ⟨(rowsCols rows).1, (rowsCols rows).2, .symbolic rows.flatten⟩

/-- `sympy.Matrix.vec()`: the columns stacked (column-major) -/
def colMajor (rows : List (List String)) : List String :=
  (List.range (rowsCols rows).2).flatMap fun j => rows.map fun r => r.getD j ""

/-- `serialize_matrix` as found: the symbolic branch iterates `m.vec()`, the numeric one
    `np.nditer(m)`; both readers fill rows.  (`encMat` is the repaired writer: `m.flat()`.) -/
def encMatAsFound : Mat → PbMat
  | .num rows => ⟨(rowsCols rows).1, (rowsCols rows).2, .numeric rows.flatten⟩
  | .sym rows => ⟨(rowsCols rows).1, (rowsCols rows).2, .symbolic (colMajor rows)⟩

/-- the row-filling loop of `_deserialize_numeric/_symbolic` -/
def chunkGo {α} (n : Nat) : List α → List α → List (List α)
  | _, [] => []
  | row, x :: xs =>
    if (row ++ [x]).length = n then (row ++ [x]) :: chunkGo n [] xs else chunkGo n (row ++ [x]) xs

def decMat (w : PbMat) : Option Mat :=
  match w.data with
  | .numeric d => if d.length = w.rows * w.cols then some (.num (chunkGo w.cols [] d)) else none
  | .symbolic d => if d.length = w.rows * w.cols then some (.sym (chunkGo w.cols [] d)) else none
  | .unset => none

/-! ## Components and circuits -/

inductive Conv where | rx | ry | h
  deriving DecidableEq, Repr

inductive Kind where
  | bs (c : Conv) | ps | wp | hwp | qwp | pr | td | lc
  deriving DecidableEq, Repr

def Kind.size : Kind → Nat
  | .bs _ => 2
  | _ => 1

/-- constructor keyword of every slot, in the order the reader evaluates them -/
def Kind.slots : Kind → List String
  | .bs _ => ["theta", "phi_tl", "phi_bl", "phi_tr", "phi_br"]
  | .ps => ["phi", "max_error"]
  | .wp => ["delta", "xsi"]
  | .hwp => ["xsi"]
  | .qwp => ["xsi"]
  | .pr => ["delta"]
  | .td => ["t"]
  | .lc => ["loss"]

mutual
  inductive Comp where
    | leaf (k : Kind) (ps : List Param)
    | perm (p : List Nat)
    | unitary (mat : Mat) (name : String) (usePol : Bool)
    | pbs
    | barrier (m : Nat) (visible : Bool)
    | circ (m : Nat) (name : String) (items : Items)
  inductive Items where
    | nil
    | cons (off : Nat) (c : Comp) (rest : Items)
end

def Mat.nrows : Mat → Nat
  | .num r => r.length
  | .sym r => r.length

/-- `component.m` -/
def Comp.size : Comp → Nat
  | .leaf k _ => k.size
  | .perm p => p.length
  | .unitary mat _ up => if up then mat.nrows / 2 else mat.nrows
  | .pbs => 2
  | .barrier m _ => m
  | .circ m _ _ => m

/-- oneof member of `Component.type` for the parametrised kinds -/
inductive WKind where
  | beamSplitter | phaseShifter | wavePlate | halfWavePlate | quarterWavePlate
  | polarizationRotator | timeDelay | lossChannel
  deriving DecidableEq, Repr

mutual
  /-- `Component.type` oneof (with the sub-message inlined) -/
  inductive PbType where
    | unset
    | circuit (name : String) (nMode : Nat) (comps : PbComps)
    | leaf (wk : WKind) (conv : Nat) (slots : List (Option PbParam))
    | permutation (l : List Nat)
    | unitary (mat : Option PbMat) (name : String) (usePol : Bool)
    | pbs
    | barrier (visible : Bool)
  /-- `repeated Component` : `starting_mode`, `n_mode`, `type` -/
  inductive PbComps where
    | nil
    | cons (start nMode : Nat) (t : PbType) (rest : PbComps)
end

def Kind.wire : Kind → WKind
  | .bs _ => .beamSplitter | .ps => .phaseShifter | .wp => .wavePlate | .hwp => .halfWavePlate
  | .qwp => .quarterWavePlate | .pr => .polarizationRotator | .td => .timeDelay
  | .lc => .lossChannel

/-- `_convert_bs_convention` (writer) : enum numbers Rx = 0, Ry = 1, H = 2 -/
def Kind.convNum : Kind → Nat
  | .bs .ry => 1 | .bs .h => 2 | _ => 0

/-- `_convert_bs_convention` (reader) -/
def convOf : Nat → Conv
  | 1 => .ry | 2 => .h | _ => .rx

/-- field lists of the typed messages; `PhaseShifter.max_error` is written only when truthy,
    `WavePlate.delta` is left unset by HWP/QWP -/
def encSlots (cfg : Cfg) (ev : String → List Sub → Dbl) (k : Kind) (ps : List Param) :
    List (Option PbParam) :=
  match k, ps with
  | .ps, [phi, me] =>
    [some (encodeParam cfg ev phi), if me.truthy then some (encodeParam cfg ev me) else none]
  | .hwp, ps => none :: ps.map (fun p => some (encodeParam cfg ev p))
  | .qwp, ps => none :: ps.map (fun p => some (encodeParam cfg ev p))
  | _, ps => ps.map (fun p => some (encodeParam cfg ev p))

mutual
  /-- `ComponentSerializer._serialize` -/
  def encType (cfg : Cfg) (ev : String → List Sub → Dbl) : Comp → PbType
    | .leaf k ps => .leaf k.wire k.convNum (encSlots cfg ev k ps)
    | .perm p => .permutation p
    | .unitary mat name up => .unitary (some (encMat mat)) (if name = "Unitary" then "" else name) up
    | .pbs => .pbs
    | .barrier _ v => .barrier v
    | .circ m name items => .circuit (if name = "CPLX" then "" else name) m (encItems cfg ev items)
  /-- the loop of `serialize_circuit` -/
  def encItems (cfg : Cfg) (ev : String → List Sub → Dbl) : Items → PbComps
    | .nil => .nil
    | .cons off c rest => .cons off c.size (encType cfg ev c) (encItems cfg ev rest)
end

/-- `PERM.__init__`'s assertion -/
def isPerm (p : List Nat) : Bool :=
  !p.isEmpty && p.all (· < p.length) && (List.range p.length).all (p.contains ·)

/-- two slots of one component receive distinct `Expression` objects with one name:
    `_set_parameter` raises "two parameters with the same name" (no expression cache) -/
def dupExpr : List Param → Bool
  | [] => false
  | .expr e _ :: rest => rest.any (fun q => match q with | .expr e' _ => e = e' | _ => false) || dupExpr rest
  | _ :: rest => dupExpr rest

/-- the parametrised component builders of `_component_deserialization.py` -/
def decLeaf (cfg : Cfg) (wk : WKind) (conv : Nat) (slots : List (Option PbParam)) (st : St) :
    Option (Comp × St) :=
  let fin (k : Kind) (r : Option (List Param × St)) : Option (Comp × St) :=
    match r with
    | some (ps, st') => if !cfg.exprFix && dupExpr ps then none else some (.leaf k ps, st')
    | none => none
  match wk with
  | .beamSplitter => fin (.bs (convOf conv)) (decSlots (Kind.bs .rx).slots slots st)
  | .phaseShifter =>
    -- `max_error` is read first; `None` selects the constructor default 0
    match decSlot st (slots.tail.head?.join) with
    | some (dme, st1) =>
      match decSlot st1 (slots.head?.join) with
      | some (dphi, st2) =>
        match toParam "phi" dphi, (match dme with | .none_ => some (.fixed 0) | d => toParam "max_error" d) with
        | some phi, some me => fin .ps (some ([phi, me], bump "phi" dphi st2))
        | _, _ => none
      | none => none
    | none => none
  | .wavePlate => fin .wp (decSlots Kind.wp.slots slots st)
  | .halfWavePlate => fin .hwp (decSlots Kind.hwp.slots slots.tail st)
  | .quarterWavePlate => fin .qwp (decSlots Kind.qwp.slots slots.tail st)
  | .polarizationRotator => fin .pr (decSlots Kind.pr.slots slots st)
  | .timeDelay => fin .td (decSlots Kind.td.slots slots st)
  | .lossChannel => fin .lc (decSlots Kind.lc.slots slots st)

/-- `deserialize_unitary` followed by `Unitary.__init__`'s structural assertions
    (numeric, square, even size when polarised; `is_unitary()` is a function of the doubles,
    which are transported exactly, and is not modelled) -/
def decUnitary (cfg : Cfg) (mat : Option PbMat) (name : String) (up : Bool) : Option Comp :=
  match mat.bind decMat with
  | some (.num rows) =>
    let up' := cfg.unitaryFields && up
    let name' := if cfg.unitaryFields && name ≠ "" then name else "Unitary"
    if rows.all (·.length = rows.length) && 0 < rows.length && (!up' || rows.length % 2 = 0) then
      some (.unitary (.num rows) name' up')
    else none
  | _ => none

mutual
  /-- `CircuitBuilder.deserialize` (dispatch on the oneof) -/
  def decType (cfg : Cfg) (nMode : Nat) : PbType → St → Option (Comp × St)
    | .unset, _ => none
    | .circuit name n comps, st =>
      -- `deserialize_circuit(pb, known_params)` → `CircuitBuilder(n, name, known_params)`:
      -- `self._params = params or dict()` drops a table that is still empty
      let share := cfg.keepEmptyTable || !st.tbl.isEmpty
      let stIn : St := if share then st else ⟨[], st.allocs⟩
      if n = 0 then none else
      match decItems cfg n comps stIn with
      | some (items, stOut) =>
        -- `Circuit.add` refuses a second `Parameter` object under a name the circuit already
        -- holds: the objects constructed while this circuit was read must have distinct names
        if (stOut.allocs.take (stOut.allocs.length - st.allocs.length)).Nodup then
          some (.circ n (if name = "" then "CPLX" else name) items,
                if share then stOut else ⟨st.tbl, stOut.allocs⟩)
        else none
      | none => none
    | .leaf wk conv slots, st => decLeaf cfg wk conv slots st
    | .permutation l, st => if isPerm l then some (.perm l, st) else none
    | .unitary mat name up, st =>
      match decUnitary cfg mat name up with
      | some c => some (c, st)
      | none => none
    | .pbs, st => some (.pbs, st)
    | .barrier v, st => some (.barrier nMode v, st)
  /-- `builder.add(pb_c)` for every component: build, then `Circuit.add(start, c, merge=False)` -/
  def decItems (cfg : Cfg) (m : Nat) : PbComps → St → Option (Items × St)
    | .nil, st => some (.nil, st)
    | .cons start nm t rest, st =>
      match decType cfg nm t st with
      | some (c, st1) =>
        if start + c.size ≤ m ∧ 0 < c.size then
          match decItems cfg m rest st1 with
          | some (r, st2) => some (.cons start c r, st2)
          | none => none
        else none
      | none => none
end

/-- `serialize_circuit`: a bare component is first wrapped into `Circuit(m).add(0, c)` -/
def wrap : Comp → Comp
  | .circ m n i => .circ m n i
  | c => .circ c.size "CPLX" (.cons 0 c .nil)

def encodeCircuit (cfg : Cfg) (ev : String → List Sub → Dbl) (c : Comp) : PbType :=
  encType cfg ev (wrap c)

/-- `deserialize_circuit(pb)` at top level (`known_params=None`) -/
def decodeCircuit (cfg : Cfg) (w : PbType) : Option (Comp × St) :=
  match w with
  | .circuit _ _ _ => decType cfg 0 w {}
  | _ => none

mutual
  def Comp.norm : Comp → Comp
    | .leaf k ps => .leaf k (ps.map Param.norm)
    | .circ m n items => .circ m n items.norm
    | c => c
  def Items.norm : Items → Items
    | .nil => .nil
    | .cons off c rest => .cons off c.norm rest.norm
end

mutual
  /-- every parameter slot of the tree, in reading order (used to state the witnesses) -/
  def Comp.params : Comp → List Param
    | .leaf _ ps => ps
    | .circ _ _ items => items.params
    | _ => []
  def Items.params : Items → List Param
    | .nil => []
    | .cons _ c rest => c.params ++ rest.params
end

/-! ## Well-formedness (the objects the constructors accept, minus the stated boundaries) -/

/-- current value of every variable name -/
abbrev Env := String → Option (Option Dbl)

def Sub.WF (env : Env) (s : Sub) : Prop :=
  s.name ≠ "" ∧ env s.name = some s.val ∧ (s.fixed = true → s.val.isSome = true)

def Param.WF (env : Env) : Param → Prop
  | .fixed _ => True
  | .var n v => n ≠ "" ∧ env n = some v
  | .expr _ subs => subs ≠ [] ∧ ∀ s ∈ subs, s.WF env

/-- a rectangular matrix with at least one row and one column -/
def Mat.WFrect : Mat → Prop
  | .num rows => rows ≠ [] ∧ ∃ n, 0 < n ∧ ∀ r ∈ rows, r.length = n
  | .sym rows => rows ≠ [] ∧ ∃ n, 0 < n ∧ ∀ r ∈ rows, r.length = n

def Mat.WFnum : Mat → Prop
  | .num rows => 0 < rows.length ∧ ∀ r ∈ rows, r.length = rows.length
  | .sym _ => False

mutual
  def Comp.WF (env : Env) : Comp → Prop
    | .leaf k ps => ps.length = k.slots.length ∧ ∀ p ∈ ps, p.WF env
    | .perm p => isPerm p = true
    | .unitary mat name up => mat.WFnum ∧ name ≠ "" ∧ (up = true → mat.nrows % 2 = 0)
    | .pbs => True
    | .barrier m _ => 0 < m
    | .circ m name items => 0 < m ∧ name ≠ "" ∧ items.WF env m
  def Items.WF (env : Env) : Items → Nat → Prop
    | .nil, _ => True
    | .cons off c rest, m => off + c.size ≤ m ∧ c.WF env ∧ rest.WF env m
end

/-- table invariant: the table agrees with the environment, and every `Parameter` object ever
    constructed is in the table exactly once (= parameter identity is preserved) -/
structure Inv (env : Env) (st : St) : Prop where
  agrees : ∀ k v, st.tbl.lookup k = some v → env k = some v
  allocs_eq : st.allocs = st.tbl.map Prod.fst
  nodup : (st.tbl.map Prod.fst).Nodup

/-! ## Detectors, ports, heralds -/

/-- `Detector` (`name`, `_wires`, `max_detections` = `_max`) or `BSLayeredPPNR` -/
inductive Det where
  | det (name : String) (wires : Option Nat) (max : Option Nat)
  | ppnr (name : String) (layers : Nat) (refl : Dbl)
  deriving DecidableEq, Repr

/-- `IDetector.type` oneof with the sub-message inlined -/
inductive PbDet where
  | unset
  | detector (name : String) (nWires : Nat) (maxDetections : Nat)
  | ppnr (name : String) (bsLayers : Nat) (reflectivity : Dbl)
  deriving DecidableEq, Repr

/-- `serialize_detector` / `serialize_bs_layer` -/
def encDet : Det → PbDet
  | .det name wires max => .detector name (wires.getD 0) (max.getD 0)
  | .ppnr name layers r => .ppnr name layers r

/-- `deserialize_detector` (`n_wires or None`, `max_detections or None`, then
    `Detector.__init__`) / `deserialize_bs_layer` -/
def decDet : PbDet → Option Det
  | .unset => none
  | .detector name nw md =>
    let wires : Option Nat := if nw = 0 then none else some nw
    let maxArg : Option Nat := if md = 0 then none else some md
    match wires, maxArg with
    | some w, some k => if k ≤ w then some (.det name (some w) (some (min k w))) else none
    | some w, none => some (.det name (some w) (some w))
    | none, _ => some (.det name none none)
  | .ppnr name l r => if 0 < l ∧ 0 ≤ r ∧ r ≤ 1 then some (.ppnr name l r) else none

def Det.WF : Det → Prop
  | .det _ none max => max = none
  | .det _ (some w) max => 0 < w ∧ ∃ k, max = some k ∧ 0 < k ∧ k ≤ w
  | .ppnr _ l r => 0 < l ∧ 0 ≤ r ∧ r ≤ 1

/-- a port of an experiment.  A herald is what `add_herald(mode, value, name)` creates:
    a user-given name or none (the number in an auto-generated name is not serialised). -/
inductive APort where
  | port (name : String) (enc : Nat)
  | herald (value : Nat) (userName : Option String)
  deriving DecidableEq, Repr

inductive PbPort where
  | unset
  | port (name : String) (encoding : Nat)
  | herald (autogen : Bool) (name : String) (value : Nat)
  deriving DecidableEq, Repr

/-- `serialize_port` / `serialize_herald` -/
def encPort : APort → PbPort
  | .port name enc => .port name enc
  | .herald v un => .herald un.isNone (un.getD "") v

/-- `deserialize_port` / `deserialize_herald` then `user_given_name` -/
def decPort : PbPort → Option APort
  | .unset => none
  | .port name enc => some (.port name enc)
  | .herald autogen name v =>
    some (.herald v (if autogen then none else if name = "" then none else some name))

def APort.WF : APort → Prop
  | .port _ _ => True
  | .herald _ un => un ≠ some ""

def APort.isHerald : APort → Bool
  | .herald _ _ => true
  | _ => false

/-! ## NoiseModel: `json.dumps(nm.__dict__())` / `NoiseModel(**json.loads(s))`
    (`__dict__` lists exactly the fields that were given, whatever their value) -/

inductive JVal where
  | num (v : Dbl)
  | bool (b : Bool)
  deriving DecidableEq, Repr

structure Noise where
  brightness : Option Dbl := none
  indistinguishability : Option Dbl := none
  g2 : Option Dbl := none
  g2Distinguishable : Option Bool := none
  transmittance : Option Dbl := none
  phaseImprecision : Option Dbl := none
  phaseError : Option Dbl := none
  deriving DecidableEq, Repr

def optNum (k : String) : Option Dbl → List (String × JVal)
  | some v => [(k, .num v)]
  | none => []

def encNoise (n : Noise) : List (String × JVal) :=
  optNum "brightness" n.brightness ++ optNum "indistinguishability" n.indistinguishability ++
  optNum "g2" n.g2 ++ (match n.g2Distinguishable with | some b => [("g2_distinguishable", .bool b)] | none => []) ++
  optNum "transmittance" n.transmittance ++ optNum "phase_imprecision" n.phaseImprecision ++
  optNum "phase_error" n.phaseError

def getNum (j : List (String × JVal)) (k : String) : Option (Option Dbl) :=
  match j.lookup k with
  | none => some none
  | some (.num v) => some (some v)
  | some (.bool _) => none            -- `ValidatedFloat`: TypeError (bool is a Number in Python; boundary not modelled)

def getBool (j : List (String × JVal)) (k : String) : Option (Option Bool) :=
  match j.lookup k with
  | none => some none
  | some (.bool b) => some (some b)
  | some (.num _) => none             -- `ValidatedBool`: TypeError

def noiseKeys : List String :=
  ["brightness", "indistinguishability", "g2", "g2_distinguishable", "transmittance",
   "phase_imprecision", "phase_error"]

/-- keyword arguments: an unknown key is a `TypeError`; range validation re-accepts what was
    accepted at construction and is not modelled -/
def decNoise (j : List (String × JVal)) : Option Noise :=
  if j.all (fun kv => noiseKeys.contains kv.1) then
    match getNum j "brightness", getNum j "indistinguishability", getNum j "g2",
          getBool j "g2_distinguishable", getNum j "transmittance", getNum j "phase_imprecision",
          getNum j "phase_error" with
    | some a, some b, some c, some d, some e, some f, some g => some ⟨a, b, c, d, e, f, g⟩
    | _, _, _, _, _, _, _ => none
  else none

/-! ## Envelope `:PCVL:<tag>:<payload>` and the `zip` prefix -/

def pcvlPrefix : Text := ":PCVL:".toList
def zipPrefix : Text := ":PCVL:zip:".toList

def mkEnv (tag payload : Text) : Text := pcvlPrefix ++ (tag ++ ':' :: payload)

/-- `obj[lp:].find(SEP)` : split at the first `:` -/
def splitColon : Text → Option (Text × Text)
  | [] => none
  | c :: cs => if c = ':' then some ([], cs) else (splitColon cs).map fun (a, b) => (c :: a, b)

def parseEnv (t : Text) : Option (Text × Text) :=
  if pcvlPrefix.isPrefixOf t then splitColon (t.drop pcvlPrefix.length) else none

/-- zlib + base64 as an abstract invertible coding -/
structure Codec where
  comp : Text → Text
  decomp : Text → Option Text
  inv : ∀ t, decomp (comp t) = some t

/-- `_handle_compression` -/
def handleCompression (z : Codec) (t : Text) (doCompress : Bool) : Text :=
  if doCompress then zipPrefix ++ z.comp t else t

/-- the string branch of `deserialize` down to `(class_obj, serial_obj)` -/
def openEnvelope (z : Codec) (t : Text) : Option (Text × Text) :=
  if zipPrefix.isPrefixOf t then (z.decomp (t.drop zipPrefix.length)).bind parseEnv else parseEnv t

def knownTags : List Text :=
  ["Matrix", "ACircuit", "Component", "Experiment", "Herald", "Port", "BasicState", "StateVector",
   "SVDistribution", "BSDistribution", "BSCount", "BSSamples", "NoiseModel", "PostSelect",
   "BSLayeredDetector", "Detector"].map String.toList

/-- the keyword under which the overload of `serialize` registered for a tag takes the
    compression setting.  `serialize(dict)`, `serialize(list)` and `serialize_to_file` always
    pass `compress=`; as found, the two detector overloads were declared with `do_compress`. -/
def compressKeyword (asFound : Bool) (tag : Text) : String :=
  if asFound && (tag = "Detector".toList || tag = "BSLayeredDetector".toList) then "do_compress"
  else "compress"

/-- `serialize(x, compress=…)` is accepted (no `TypeError`) -/
def kwAccepted (asFound : Bool) (tag : Text) : Bool := compressKeyword asFound tag == "compress"

/-! ## BSSamples: dictionary of distinct states + index list -/

/-- the loop of `serialize_bssamples` (`mapping` is insertion-ordered) -/
def bssGo {σ} [DecidableEq σ] (dict : List σ) : List σ → List σ × List Nat
  | [] => (dict, [])
  | s :: rest =>
    if s ∈ dict then
      let r := bssGo dict rest
      (r.1, dict.idxOf s :: r.2)
    else
      let r := bssGo (dict ++ [s]) rest
      (r.1, dict.length :: r.2)

def bssEncode {σ} [DecidableEq σ] (l : List σ) : List σ × List Nat := bssGo [] l

/-- `deserialize_bssamples` (`if not parts[0]: return BSSamples()`; `bs_set[index]`) -/
def bssDecode {σ} (w : List σ × List Nat) : Option (List σ) :=
  if w.1.isEmpty then some [] else w.2.mapM (fun i => w.1[i]?)

/-! ## Fixed-precision float text: `simple_float(v, nsimplify=False)` on `v = n/d ≥ 0` -/

/-- `while alpha and alpha < 1: mult10 += 1; alpha *= 10` -/
def mult10Go (n d : Nat) : Nat → Nat → Nat
  | 0, e => e
  | fuel + 1, e => if n = 0 ∨ d ≤ n * 10 ^ e then e else mult10Go n d fuel (e + 1)

def mult10 (n d : Nat) : Nat := mult10Go n d d 0

/-- `np.round` (half to even) of `a / b` -/
def roundHalfEven (a b : Nat) : Nat :=
  let q := a / b
  let r := a % b
  if 2 * r < b then q else if b < 2 * r then q + 1 else if q % 2 = 0 then q else q + 1

/-- printed exponent: `if mult10 <= 3` the value is scaled back and printed plainly -/
def gridExp (n d : Nat) : Nat := if mult10 n d ≤ 3 then 0 else mult10 n d

/-- the decimal the text denotes is `gridNum n d / 10 ^ (6 + gridExp n d)` -/
def gridNum (n d : Nat) : Nat := roundHalfEven (n * 10 ^ (6 + gridExp n d)) d

/-! ## Experiment -/

/-- an experiment as the serialiser sees it.  `input`, `noise`, `postSelect` are the
    `(tag, payload)` of `serialize(x)` of the respective object (their codecs are the leaf
    theorems); detectors and ports are maps `mode ↦ …` as association lists. -/
structure Experiment where
  name : Option String
  nMode : Nat
  input : Option (Text × Text)
  noise : Option (Text × Text)
  postSelect : Option (Text × Text)
  filter : Option Nat
  inPorts : List (Nat × APort)
  outPorts : List (Nat × APort)
  detectors : List (Nat × Det)
  comps : Items

structure PbExperiment where
  inputState : Text
  name : String
  noiseModel : Text
  postSelect : Text
  inputPorts : List (Nat × PbPort)
  outputPorts : List (Nat × PbPort)
  detectors : List (Nat × PbDet)
  nMode : Nat
  components : PbComps
  minPhotonsFilter : Nat

def VALUE_NOT_SET : Nat := 0x0fffffff

def encOptText : Option (Text × Text) → Text
  | some (tag, payload) => mkEnv tag payload
  | none => []

/-- `ExperimentSerializer.serialize` (string fields are written uncompressed: the default of
    `serialize` for BasicState, SVDistribution, NoiseModel, PostSelect) -/
def encExperiment (cfg : Cfg) (ev : String → List Sub → Dbl) (x : Experiment) : PbExperiment where
  inputState := encOptText x.input
  name := x.name.getD ""
  noiseModel := encOptText x.noise
  postSelect := encOptText x.postSelect
  nMode := x.nMode
  minPhotonsFilter :=
    match x.filter with
    | some n => if cfg.filterZero || n ≠ 0 then n else VALUE_NOT_SET
    | none => VALUE_NOT_SET
  inputPorts := x.inPorts.map fun (i, p) => (i, encPort p)
  outputPorts := x.outPorts.map fun (i, p) => (i, encPort p)
  detectors := x.detectors.map fun (i, d) => (i, encDet d)
  components := encItems cfg ev x.comps

def decOptText (t : Text) : Option (Option (Text × Text)) :=
  if t.isEmpty then some none else (parseEnv t).map some

def decAssoc {α β} (f : α → Option β) : List (Nat × α) → Option (List (Nat × β))
  | [] => some []
  | (i, a) :: rest =>
    match f a, decAssoc f rest with
    | some b, some r => some ((i, b) :: r)
    | _, _ => none

/-- `ExperimentBuilder.resolve`.  Heralds are re-created on both sides from the input map
    (`add_herald`), heralds of the output map are skipped; `detectors[i] = …` needs `i < m`. -/
def decExperiment (cfg : Cfg) (w : PbExperiment) : Option (Experiment × St) :=
  match decOptText w.inputState, decOptText w.noiseModel, decOptText w.postSelect,
        decAssoc decPort w.inputPorts, decAssoc decPort w.outputPorts, decAssoc decDet w.detectors,
        decItems cfg w.nMode w.components {} with
  | some inp, some noise, some ps, some ins, some outs, some dets, some (comps, st) =>
    if dets.all (·.1 < w.nMode) ∧ ins.all (fun p => !p.2.isHerald || p.2 matches .herald 0 _ || p.2 matches .herald 1 _) then
      some ({ name := if w.name = "" then none else some w.name
              nMode := w.nMode
              input := inp, noise := noise, postSelect := ps
              filter := if w.minPhotonsFilter ≠ VALUE_NOT_SET then some w.minPhotonsFilter else none
              inPorts := ins
              outPorts := ins.filter (·.2.isHerald) ++ outs.filter (fun p => !p.2.isHerald)
              detectors := dets
              comps := comps }, st)
    else none
  | _, _, _, _, _, _, _ => none

def Experiment.norm (x : Experiment) : Experiment :=
  { x with comps := x.comps.norm
           outPorts := x.inPorts.filter (·.2.isHerald) ++ x.outPorts.filter (fun p => !p.2.isHerald) }

def tagOk (o : Option (Text × Text)) : Prop := ∀ p, o = some p → ':' ∉ p.1

structure Experiment.WF (env : Env) (x : Experiment) : Prop where
  name : ∃ s, x.name = some s ∧ s ≠ ""
  input : tagOk x.input
  noise : tagOk x.noise
  postSelect : tagOk x.postSelect
  filter : ∀ n, x.filter = some n → n ≠ VALUE_NOT_SET
  inPorts : ∀ p ∈ x.inPorts, p.2.WF ∧ (∀ v u, p.2 = .herald v u → v ≤ 1)
  outPorts : ∀ p ∈ x.outPorts, p.2.WF
  detectors : ∀ d ∈ x.detectors, d.2.WF ∧ d.1 < x.nMode
  comps : x.comps.WF env x.nMode

end PM.C15
