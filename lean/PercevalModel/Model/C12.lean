/-
  C12 — model of the *bookkeeping* of `perceval/utils/algorithms/decomposition.py`
  (`decompose_triangle`, `add_phases`) and of the pre/post-processing of
  `Circuit.decomposition` (`perceval/components/linear_circuit.py`).

  What is modelled (the code as it is):
  * the double loop `for j in range(m-1, 0, -1): for n in range(j)` (`cells`),
  * the three branches of one cell: identity-skip (`abs(u[n,j]) <= precision and
    ignore_identity_block`), PERM substitution (first `k ∈ n+1..j` with a small `u[k,j]`, component
    `permutation([k-n,1,…,k-n-1,0])` on modes `n..k`, `u ← RI·u` with `RI` the row swap), and the solved
    block (`u ← embed(cU_inv(res))·u`, component on `(n, n+1)`),
  * `u[n, j] = 0` after every cell (whatever value was there),
  * components are *prepended* to `list_components`,
  * `add_phases`: one phase shifter per diagonal entry passing the test `b != 0 or a < 0`, prepended in
    increasing index order (so the layer is listed with decreasing indices),
  * `Circuit.decomposition`: `U ← U⁻¹` if `inverse_h`, `U ← np.flip(U)` if `inverse_v`, the circuit is the
    list added in order (merged), then `C.inverse(v, h)` (list reversed for `h`, ranges mirrored for `v`,
    every component inverted),
  * the retry loop `while count < max_try` of `Circuit.decomposition`: the attempts share one array object;
    what an attempt leaves in it is a parameter (`retry`), instantiated for the repaired code (a private copy per
    attempt: nothing) and for the pinned code (`inPlace`: the `u[n,j] = 0` writes of the leading identity skips).

  What is an oracle: the numerical solver (`solve`/`scipy.optimize`).  It is a list of results
  `(B, Binv)` consumed one per solved cell — `B` the matrix of the instantiated block, `Binv` the
  matrix `cU_inv.subs(res)` the code multiplies with; an exhausted list is `res is None`.
  The threshold test `abs(x) <= precision` is an arbitrary predicate `small` (at `GQ`: exact
  comparison of `|x|²` with `precision²`).

  Ghost state (not in the code): `err` accumulates `circMat(comps) · (entry overwritten by u[n,j] = 0)`
  so that `circMat comps · u + err = U` is an exact invariant; `nskip` counts identity skips.
-/
import PercevalModel.Found.LinAlg
import PercevalModel.Found.Perm
import PercevalModel.Found.Memo

open Matrix

namespace PM.C12

variable {R : Type}

/-! ### components and circuits -/

/-- an entry of `list_components` -/
inductive Comp (R : Type) where
  /-- `((n, n+1), instantiated_component)` with the block's 2×2 matrix -/
  | block (n : ℕ) (B : Matrix (Fin 2) (Fin 2) R)
  /-- `(list(range(n, n+d+1)), permutation([d,1,…,d-1,0]))` -/
  | perm (n d : ℕ)
  /-- `(idx, phase_shifter_fn(phi))`, `z = e^{iφ}` -/
  | ps (idx : ℕ) (z : R)

/-- the list `p` built by the PERM branch: `p = [0,1,…,d]; p[0] = d; p[-1] = 0` -/
def permList (d : ℕ) : List ℕ := ((List.range (d + 1)).set 0 d).set d 0

/-- 1×1 matrix of a phase shifter -/
def one1 (z : R) : Matrix (Fin 1) (Fin 1) R := fun _ _ => z

/-- a leaf of a flat circuit: first port and own matrix -/
abbrev Leaf (R : Type) := ℕ × (Σ k, Matrix (Fin k) (Fin k) R)

/-- every entry of `list_components` is one leaf (a block is known by its 2×2 matrix; the PERM
component's matrix is `u[p[i], i] = 1`, `Found/Perm.permMatL`) -/
def Comp.leaf [Zero R] [One R] : Comp R → Leaf R
  | .block n B => (n, ⟨2, B⟩)
  | .perm n d => (n, ⟨d + 1, permMatL (d + 1) (permList d)⟩)
  | .ps idx z => (idx, ⟨1, one1 z⟩)

/-- matrix of one component inside an `m`-mode circuit -/
def compMat [Zero R] [One R] (m : ℕ) (c : Comp R) : Matrix (Fin m) (Fin m) R :=
  embed m c.leaf.1 c.leaf.2.2

/-- `_compute_circuit_unitary` of a flat circuit (executable: materialised between the calls) -/
def prodLeavesV [CommRing R] (m : ℕ) : List (Leaf R) → MatV R m m
  | [] => MatV.ofMatrix 1
  | (o, ⟨_, B⟩) :: rest => MatV.ofMatrix ((prodLeavesV m rest).toMatrix * embed m o B)

/-- matrix of a flat circuit: the first leaf of the list is applied first -/
def prodLeaves [CommRing R] (m : ℕ) (ls : List (Leaf R)) : Matrix (Fin m) (Fin m) R :=
  (prodLeavesV m ls).toMatrix

/-- materialised matrix of the circuit built from `list_components` (data, computed once) -/
def circMatV [CommRing R] (m : ℕ) (comps : List (Comp R)) : MatV R m m :=
  prodLeavesV m (comps.map Comp.leaf)

/-- matrix of the circuit `for range, component in lc: C.add(range, component)` -/
def circMat [CommRing R] (m : ℕ) (comps : List (Comp R)) : Matrix (Fin m) (Fin m) R :=
  (circMatV m comps).toMatrix

theorem circMat_eq_prodLeaves [CommRing R] (m : ℕ) (comps : List (Comp R)) :
    circMat m comps = prodLeaves m (comps.map Comp.leaf) := rfl

@[simp] theorem prodLeaves_nil [CommRing R] (m : ℕ) : prodLeaves m ([] : List (Leaf R)) = 1 := by
  simp [prodLeaves, prodLeavesV]

@[simp] theorem prodLeaves_cons [CommRing R] (m o k : ℕ) (B : Matrix (Fin k) (Fin k) R)
    (rest : List (Leaf R)) :
    prodLeaves m ((o, ⟨k, B⟩) :: rest) = prodLeaves m rest * embed m o B := by
  simp [prodLeaves, prodLeavesV]

@[simp] theorem circMat_nil [CommRing R] (m : ℕ) : circMat m ([] : List (Comp R)) = 1 := by
  simp [circMat_eq_prodLeaves]

@[simp] theorem circMat_cons [CommRing R] (m : ℕ) (c : Comp R) (rest : List (Comp R)) :
    circMat m (c :: rest) = circMat m rest * compMat m c := by
  cases c <;> simp [circMat_eq_prodLeaves, compMat, Comp.leaf]

/-! ### `decompose_triangle` -/

/-- the parts of the configuration the control flow looks at -/
structure Cfg (R : Type) where
  /-- `abs(x) <= precision` -/
  small : R → Bool
  /-- `ignore_identity_block` -/
  ignoreId : Bool
  /-- `permutation is not None` -/
  usePerm : Bool

/-- one solver result: the instantiated block's matrix and the matrix `cU_inv.subs(res)` -/
abbrev Sol (R : Type) := Matrix (Fin 2) (Fin 2) R × Matrix (Fin 2) (Fin 2) R

structure St (R : Type) (m : ℕ) where
  u : MatV R m m
  /-- `list_components` -/
  comps : List (Comp R)
  /-- solver results not yet consumed -/
  rest : List (Sol R)
  /-- ghost: accumulated effect of the `u[n, j] = 0` overwrites -/
  err : MatV R m m
  /-- ghost: number of identity skips -/
  nskip : ℕ

/-- `u[a, b]` with natural indices (0 outside the matrix; the loop never looks there) -/
def getN [Zero R] {m : ℕ} (M : Matrix (Fin m) (Fin m) R) (a b : ℕ) : R :=
  if h : a < m ∧ b < m then M ⟨a, h.1⟩ ⟨b, h.2⟩ else 0

/-- `u[n, j] = 0` -/
def zeroAt [Zero R] {m : ℕ} (M : Matrix (Fin m) (Fin m) R) (n j : ℕ) : Matrix (Fin m) (Fin m) R :=
  fun a b => if a.val = n ∧ b.val = j then 0 else M a b

/-- what `u[n, j] = 0` throws away -/
def entryAt [Zero R] {m : ℕ} (M : Matrix (Fin m) (Fin m) R) (n j : ℕ) : Matrix (Fin m) (Fin m) R :=
  fun a b => if a.val = n ∧ b.val = j then M a b else 0

/-- `RI = eye(m); RI[n,n] = RI[k,k] = 0; RI[k,n] = RI[n,k] = 1` -/
def swapMat [Zero R] [One R] (m n k : ℕ) : Matrix (Fin m) (Fin m) R := fun a b =>
  if a.val = n then (if b.val = k then 1 else 0)
  else if a.val = k then (if b.val = n then 1 else 0)
  else if a = b then 1 else 0

/-- the `for k in range(n+1, j+1)` search of the PERM branch: first `k` with a small `u[k, j]` -/
def findK [Zero R] (cfg : Cfg R) {m : ℕ} (M : Matrix (Fin m) (Fin m) R) (n j : ℕ) : Option ℕ :=
  (List.range' (n + 1) (j - n)).find? fun k => cfg.small (getN M k j) && cfg.ignoreId

/-- common tail of the three branches: prepend nothing more, overwrite `u[n, j]`, keep the ghost -/
def finish [CommRing R] {m : ℕ} (st : St R m) (M' : Matrix (Fin m) (Fin m) R)
    (comps : List (Comp R)) (rest : List (Sol R)) (nskip : ℕ) (n j : ℕ) : St R m :=
  { u := MatV.ofMatrix (zeroAt M' n j)
    comps := comps
    rest := rest
    err := MatV.ofMatrix (st.err.toMatrix + (circMatV m comps).toMatrix * entryAt M' n j)
    nskip := nskip }

/-- one cell `(j, n)` of the double loop; `none` is `return None` (solver failed) -/
def step [CommRing R] (cfg : Cfg R) {m : ℕ} (st : St R m) (cell : ℕ × ℕ) : Option (St R m) :=
  let j := cell.1
  let n := cell.2
  let M := st.u.toMatrix
  if cfg.small (getN M n j) && cfg.ignoreId then
    some (finish st M st.comps st.rest (st.nskip + 1) n j)
  else
    match (if cfg.usePerm then findK cfg M n j else none) with
    | some k =>
      some (finish st (swapMat m n k * M) (.perm n (k - n) :: st.comps) st.rest st.nskip n j)
    | none =>
      match st.rest with
      | [] => none
      | (B, Binv) :: rest =>
        some (finish st (embed m n Binv * M) (.block n B :: st.comps) rest st.nskip n j)

/-- `for j in range(m-1, 0, -1): for n in range(j)` -/
def cells (m : ℕ) : List (ℕ × ℕ) :=
  (List.range m).reverse.flatMap fun j => (List.range j).map fun n => (j, n)

def run [CommRing R] (cfg : Cfg R) {m : ℕ} : St R m → List (ℕ × ℕ) → Option (St R m)
  | st, [] => some st
  | st, c :: cs => (step cfg st c).bind fun st' => run cfg st' cs

def initSt [Zero R] {m : ℕ} (U : Matrix (Fin m) (Fin m) R) (sols : List (Sol R)) : St R m :=
  { u := MatV.ofMatrix U, comps := [], rest := sols, err := MatV.ofMatrix 0, nskip := 0 }

/-- `decompose_triangle` up to (not including) the phase layer -/
def decomposeTriangle [CommRing R] (cfg : Cfg R) {m : ℕ} (U : Matrix (Fin m) (Fin m) R)
    (sols : List (Sol R)) : Option (St R m) :=
  run cfg (initSt U sols) (cells m)

/-! ### the retry loop of `Circuit.decomposition` (`while count < max_try`)

Every attempt is handed the SAME array object `U`.  What an attempt leaves in that array is `leave`:

* repaired code (`fixes/C12-input-mutated.diff`, the main model): `decompose_triangle` starts with `u = u.copy()`,
  nothing is ever written into the shared array — `leave = id` (`decompositionRetry`);
* pinned code (kept as `decompositionRetryInPlace`, the witness of the old behaviour): `decompose_triangle` worked on
  the caller's array until it first rebound its local name (`u = RI @ u`: PERM substitution or solved block, a
  fresh array; a failed `solve` returns before anything is written for its cell), so an attempt left
  `u[n, j] = 0` for the maximal prefix of cells that took the identity-skip branch (`inPlace`) — in the array of
  the CALLER, who afterwards holds a matrix that is no longer unitary to `Matrix.is_unitary`'s tolerance.

Nothing else of an abandoned attempt (its partially reduced matrix, its component list) may reach the next one. -/

/-- pinned code: the in-place writes of one attempt on the array shared by all attempts -/
def leadingSkipsV [Zero R] (cfg : Cfg R) {m : ℕ} : MatV R m m → List (ℕ × ℕ) → MatV R m m
  | M, [] => M
  | M, c :: cs =>
    if cfg.small (getN M.toMatrix c.2 c.1) && cfg.ignoreId then
      leadingSkipsV cfg (MatV.ofMatrix (zeroAt M.toMatrix c.2 c.1)) cs
    else M

/-- pinned code: the shared array (= the caller's matrix) after one attempt, whether it failed or not -/
def inPlace [Zero R] (cfg : Cfg R) {m : ℕ} (U : Matrix (Fin m) (Fin m) R) : Matrix (Fin m) (Fin m) R :=
  (leadingSkipsV cfg (MatV.ofMatrix U) (cells m)).toMatrix

/-- `while count < max_try: lc = decompose_triangle(U, …); if lc is not None: return …; count += 1`.
One list of solver results per attempt (`attempts.length = max_try`); `leave V` is what an attempt started on
`V` leaves in the shared array. -/
def retry [CommRing R] (cfg : Cfg R) {m : ℕ}
    (leave : Matrix (Fin m) (Fin m) R → Matrix (Fin m) (Fin m) R) :
    Matrix (Fin m) (Fin m) R → List (List (Sol R)) → Option (St R m)
  | _, [] => none
  | U, s :: rest =>
    match decomposeTriangle cfg U s with
    | some st => some st
    | none => retry cfg leave (leave U) rest

/-- the retry loop (repaired code: every attempt works on its own copy) -/
def decompositionRetry [CommRing R] (cfg : Cfg R) {m : ℕ} (U : Matrix (Fin m) (Fin m) R)
    (attempts : List (List (Sol R))) : Option (St R m) :=
  retry cfg id U attempts

/-- the retry loop of the pinned code (attempts write into the shared array) -/
def decompositionRetryInPlace [CommRing R] (cfg : Cfg R) {m : ℕ} (U : Matrix (Fin m) (Fin m) R)
    (attempts : List (List (Sol R))) : Option (St R m) :=
  retry cfg (inPlace cfg) U attempts

/-- `U'` is `U` with some entries the threshold test calls negligible replaced by 0 -/
def ZeroedSmall [Zero R] (cfg : Cfg R) {m : ℕ} (U U' : Matrix (Fin m) (Fin m) R) : Prop :=
  ∀ a b, U' a b = U a b ∨ (U' a b = 0 ∧ cfg.small (U a b) = true)

/-! ### `add_phases` -/

/-- `add_phases(phase_shifter_fn, D)`: `for idx in range(len(D)): if keep(D[idx]): phases = [(idx, PS)] + phases`
where `keep(a + ib) = (b != 0 or a < 0)`; the PS is recorded by the value `e^{iφ}` it realises, which for a
unit-modulus entry is the entry itself (`Props.C12.add_phases_angle`). -/
def addPhases {m : ℕ} (keep : R → Bool) (D : Fin m → R) : List (Comp R) :=
  (((List.finRange m).filter fun i => keep (D i)).reverse).map fun i => Comp.ps i.val (D i)

/- the quadrant logic of `add_phases` (over ℝ, with `Real.arctan`) is `phaseOf` in `Lemmas/C12Phase.lean`. -/

/-! ### `Circuit.decomposition` pre/post-processing -/

/-- `np.flip(U)` (both axes) -/
def vflip {n : ℕ} (M : Matrix (Fin n) (Fin n) R) : Matrix (Fin n) (Fin n) R :=
  fun i j => M i.rev j.rev

def vflipIf {n : ℕ} (v : Bool) (M : Matrix (Fin n) (Fin n) R) : Matrix (Fin n) (Fin n) R :=
  if v then vflip M else M

/-- `component.inverse(v, h)` followed by the range mirror of `Circuit.inverse`; `inv` is the
component-level horizontal inverse (its correctness is property C11's subject, an assumption here) -/
def invLeaf (v h : Bool) (m : ℕ) (inv : (k : ℕ) → Matrix (Fin k) (Fin k) R → Matrix (Fin k) (Fin k) R)
    (l : Leaf R) : Leaf R :=
  (if v then m - l.1 - l.2.1 else l.1, ⟨l.2.1, vflipIf v (if h then inv l.2.1 l.2.2 else l.2.2)⟩)

/-- `Circuit.inverse(v, h)` on a flat circuit -/
def inverseCircuit (v h : Bool) (m : ℕ)
    (inv : (k : ℕ) → Matrix (Fin k) (Fin k) R → Matrix (Fin k) (Fin k) R) (ls : List (Leaf R)) :
    List (Leaf R) :=
  (if h then ls.reverse else ls).map (invLeaf v h m inv)

/-- the matrix handed to `decompose_triangle`: `U.inv()` if `inverse_h`, then `np.flip` if `inverse_v` -/
def preProcess {n : ℕ} (v h : Bool) (U Uinv : Matrix (Fin n) (Fin n) R) : Matrix (Fin n) (Fin n) R :=
  vflipIf v (if h then Uinv else U)

/-- every leaf lies inside the `m` modes -/
def Fits (m : ℕ) (ls : List (Leaf R)) : Prop := ∀ l ∈ ls, l.1 + l.2.1 ≤ m

end PM.C12
