/-
  C09 — model of the sampling bookkeeping of Perceval (core Lean only).

  Modelled code (as it is in /repo, quirks included):

  * `perceval/utils/conversion.py`
      `_deduce_count`            → `deduceCount`   (the `max_shots or max_samples` truthiness test)
      `samples_to_sample_count`  → `countOf`
      `sample_count_to_probs`    → `countsToProbs` (zero counts skipped, negative count = RuntimeError)
      `probs_to_sample_count`    → `probsToSampleCount` (perturbation values, the random picks of
                                   `random.choice` and the samples of the fall-back path are INPUTS)
  * `perceval/simulators/noisy_sampling_simulator.py`
      `compute_samples`              → `computeSamples`
      `_compute_samples_with_perf`   → `computeSamplesWithPerf`
      `_perfect_sampling_no_selection` (its accounting) → `perfectLoop`
      `_noisy_sampling`              → `step` / `PM.SM.run` : one operation per loop iteration; the
                                       per-shot outcome, the size of the batch the generator hands
                                       back and the cancel answer of the progress callback are INPUTS
      the performance estimate       → `perf`
      `samples` (the glue)           → `samplesPipeline`

  External (assumed, exercised by the correspondence): `Counter`, the native `BSCount`
  (`add(state, 0)` creates no key; counts are unsigned), `BSDistribution.sample(count)` returns
  `count` states of its support, Python `round` = round-half-to-even, `math.ceil`.
-/
import PercevalModel.Found.SM

namespace PM.C09

/-! ## 1. `_deduce_count` -/

/-- Python `a or b` on `Optional[int]`: `None` and `0` are falsy. -/
def pyOr (a b : Option Nat) : Option Nat :=
  match a with
  | some (n + 1) => some (n + 1)
  | _ => b

/-- `_deduce_count(count, max_shots=…, max_samples=…)` -/
def deduceCount (count maxShots maxSamples : Option Nat) : Except String Nat :=
  match count with
  | some c => .ok c
  | none =>
    match maxShots, maxSamples with
    | some sh, some ms => .ok (min ms sh)
    | _, _ =>
      match pyOr maxShots maxSamples with
      | some c => .ok c
      | none => .error "RuntimeError"

/-! ## 2. samples ↔ counts ↔ probabilities -/

def sumI : List Int → Int
  | [] => 0
  | x :: xs => x + sumI xs

def sumQ : List Rat → Rat
  | [] => 0
  | x :: xs => x + sumQ xs

/-- number of occurrences of outcome `i` in a sample list -/
def occ (i : Nat) : List Nat → Nat
  | [] => 0
  | s :: ss => (if s = i then 1 else 0) + occ i ss

/-- `samples_to_sample_count` over an outcome space `{0..n-1}`: entry `i` = multiplicity of `i`
(an absent key of the `Counter` is a 0 entry). -/
def countOf (n : Nat) (samples : List Nat) : List Nat :=
  (List.range n).map fun i => occ i samples

/-- one entry of `sample_count_to_probs`: a zero count produces no key (`none`) -/
def probOf (tot : Int) (c : Int) : Option Rat :=
  if c = 0 then none else some ((c : Rat) / (tot : Rat))

/-- `sample_count_to_probs`: a zero count produces no key, a negative one raises, the remaining
table is normalised (an empty table stays empty).  `none` entries = key absent. -/
def countsToProbs (cs : List Int) : Except String (List (Option Rat)) :=
  if cs.any (· < 0) then .error "RuntimeError"
  else .ok (cs.map (probOf (sumI cs)))

/-- value of a possibly absent key -/
def getQ : Option Rat → Rat
  | none => 0
  | some q => q

/-! ## 3. `probs_to_sample_count` -/

/-- Python 3 `round(x)` for a float holding exactly `x`: nearest integer, ties to even. -/
def roundHalfEven (x : Rat) : Int :=
  let f := x.floor
  let r := x - (f : Rat)
  if r < 1 / 2 then f
  else if 1 / 2 < r then f + 1
  else if f % 2 = 0 then f else f + 1

/-- `max(prob + noise, 0)` per state -/
def perturb : List Rat → List Rat → List Rat
  | p :: ps, n :: ns => max (p + n) 0 :: perturb ps ns
  | _, _ => []

def maxQ : List Rat → Rat
  | [] => 0
  | x :: xs => max x (maxQ xs)

/-- the keys of `results` after the `add` loop: states whose rounded count is not 0
(`BSCount.add(state, 0)` creates no key), in the canonical (input) order -/
def keysOf (cs : List Int) : List Nat :=
  (List.range cs.length).filter fun i => cs.getD i 0 ≠ 0

/-- the too-many repair loop: `d = -diff > 0` still to remove;
`current_diff = max(-results[k], diff)` removes `min results[k] d` from the picked key. -/
def repairHigh (keys : List Nat) : List Int → Int → List Nat → Option (List Int)
  | cs, d, picks =>
    if d ≤ 0 then some cs
    else match picks with
      | [] => none
      | p :: rest =>
        let k := keys.getD (p % keys.length) 0
        let c := cs.getD k 0
        let t := min c d
        repairHigh keys (cs.set k (c - t)) (d - t) rest

inductive P2SC where
  | empty                      -- `count < 1`
  | needPicks                  -- the scripted `random.choice` stream ran dry inside a repair loop
  | bad (why : String)         -- inputs outside the modelled domain
  | done (viaFallback : Bool) (counts : List Int)
  deriving Repr, DecidableEq

/-- `probs_to_sample_count(probs, count)`.
`ps` probabilities (in key order), `ns` the values returned by `np.random.normal` (one per key),
`picks` the successive `random.choice` picks (index into the key list, taken modulo its length),
`fb` the samples `probs.sample(count)` returns if the fall-back path is taken. -/
def probsToSampleCount (ps ns : List Rat) (count : Nat) (picks : List Nat) (fb : List Nat) : P2SC :=
  if count < 1 then .empty
  else if ns.length ≠ ps.length then .bad "noise length"
  else
    let pert := perturb ps ns
    let s := sumQ pert
    if s = 0 then .done true ((countOf ps.length fb).map Int.ofNat)
    else
      let q := pert.map fun x => (1 / s) * x
      if maxQ q * (count : Rat) < 1 then .done true ((countOf ps.length fb).map Int.ofNat)
      else
        let cs := q.map fun x => roundHalfEven (x * (count : Rat))
        let keys := keysOf cs
        let diff : Int := (count : Int) - sumI cs
        if 0 < diff then
          match picks with
          | [] => .needPicks
          | p :: _ =>
            let k := keys.getD (p % keys.length) 0
            .done false (cs.set k (cs.getD k 0 + diff))
        else if diff < 0 then
          match repairHigh keys cs (-diff) picks with
          | none => .needPicks
          | some r => .done false r
        else .done false cs

/-! ## 4. `compute_samples`, `_compute_samples_with_perf`, the perfect fast path -/

/-- `compute_samples(max_samples, max_shots)`; `min(None, k)` is a `TypeError` -/
def computeSamples (maxSamples maxShots : Option Nat) : Except String (Option Nat) :=
  match maxShots with
  | none => .ok maxSamples
  | some sh =>
    match maxSamples with
    | none => .error "TypeError"
    | some ms => .ok (some (min ms sh))

/-- `_compute_samples_with_perf(prepare_samples, physical_perf, zpp, max_shots)` for a simulator
whose photon filter is `filter`; `→ (prepare_samples, max_shots)`.  `math.ceil` of the exact value. -/
def computeSamplesWithPerf (filter prepare : Nat) (physPerf zpp : Rat) (maxShots : Option Nat) :
    Except String (Nat × Option Nat) :=
  match maxShots with
  | some sh =>
    if 2 ≤ filter then
      if zpp = 1 then .error "ZeroDivisionError"
      else
        let v : Int := ((sh : Rat) * (physPerf / (1 - zpp))).ceil
        if v < 0 then .error "domain"
        else .ok (min v.toNat prepare, some v.toNat)
    else .ok (prepare, some sh)
  | none => .ok (prepare, none)

/-- `_perfect_sampling_no_selection`: samples acquired after running the chunk loop on `fuel`
iterations (each asks the backend for `min(1000, n - acquired)` samples, the backend returns that
many); the list of requests is returned too. -/
def perfectLoop (n : Nat) : Nat → Nat → Nat × List Nat
  | 0, acq => (acq, [])
  | fuel + 1, acq =>
    if acq < n then
      let k := min 1000 (n - acq)
      let (a, l) := perfectLoop n fuel (acq + k)
      (a, k :: l)
    else (acq, [])

/-! ## 5. the `_noisy_sampling` loop -/

inductive Outcome where
  | phys    -- `sampled_state.n < min_detected_photons_filter`
  | logic   -- fails heralds / post-selection
  | sel     -- appended to the output
  deriving DecidableEq, Repr

inductive Halt where
  | cancel      -- the progress callback asked to cancel (`break`)
  | exhausted   -- `selected_inputs[idx]` raised IndexError (the generator gave an empty batch)
  deriving DecidableEq, Repr

structure Cfg where
  maxSamples : Nat
  maxShots : Option Nat
  hasCallback : Bool
  deriving Repr

structure St where
  out : Nat          -- len(output)
  shots : Nat
  notSel : Nat
  notSelPhys : Nat
  idx : Nat
  batchLen : Nat     -- len(selected_inputs)
  halt : Option Halt
  deriving DecidableEq, Repr

/-- what one loop iteration is fed -/
structure Shot where
  cancel : Bool      -- answer of the progress callback at the top of this iteration
  batch : Nat        -- size of the batch the generator returns if it is asked in this iteration
  outcome : Outcome
  deriving Repr

/-- what one loop iteration shows -/
structure Ev where
  ran : Bool             -- the loop body was entered
  asked : Option Nat     -- `nb_gen` if the generator was called
  deriving DecidableEq, Repr

def init (firstBatch : Nat) : St := ⟨0, 0, 0, 0, 0, firstBatch, none⟩

/-- the `while` condition -/
def cond (c : Cfg) (s : St) : Bool :=
  decide (s.out < c.maxSamples) &&
    (match c.maxShots with
     | none => true
     | some k => decide (s.shots < k))

/-- `batch_size = min(max_samples, max_shots) if max_shots is not None else max_samples` -/
def batchSize (c : Cfg) : Nat :=
  match c.maxShots with
  | some k => min c.maxSamples k
  | none => c.maxSamples

/-- `nb_gen` -/
def nbGen (c : Cfg) (s : St) : Nat :=
  let g := min (batchSize c) (c.maxSamples - s.out)
  match c.maxShots with
  | some k => min g (k - s.shots)
  | none => g

/-- the loop has stopped: condition false, cancelled, or died on an empty batch -/
def stopped (c : Cfg) (s : St) : Bool := s.halt.isSome || !cond c s

def classify (s : St) : Outcome → St
  | .phys => { s with notSelPhys := s.notSelPhys + 1 }
  | .logic => { s with notSel := s.notSel + 1 }
  | .sel => { s with out := s.out + 1 }

/-- one iteration of the `while` loop (a no-op once the loop has stopped) -/
def step (c : Cfg) (s : St) (op : Shot) : St × Ev :=
  if stopped c s then (s, ⟨false, none⟩)
  else if c.hasCallback && op.cancel then ({ s with halt := some .cancel }, ⟨true, none⟩)
  else
    let regen := s.idx == s.batchLen
    let asked := if regen then some (nbGen c s) else none
    let idx := if regen then 0 else s.idx
    let bl := if regen then op.batch else s.batchLen
    if idx < bl then
      (classify { s with idx := idx + 1, batchLen := bl, shots := s.shots + 1 } op.outcome, ⟨true, asked⟩)
    else
      ({ s with idx := idx, batchLen := bl, halt := some .exhausted }, ⟨true, asked⟩)

/-- the performance estimate at the end of `_noisy_sampling`: `(physical_perf, logical_perf)` -/
def perf (s : St) : Rat × Rat :=
  if 0 < s.out then
    (((s.out + s.notSel : Nat) : Rat) / ((s.out + s.notSel + s.notSelPhys : Nat) : Rat),
     ((s.out : Nat) : Rat) / ((s.out + s.notSel : Nat) : Rat))
  else (0, 0)

/-- state after the whole scripted history -/
def loop (c : Cfg) (firstBatch : Nat) (ops : List Shot) : St :=
  PM.SM.exec (step c) (init firstBatch) ops

/-- `min(max_samples, max_shots)` with `None` = no limit; `none` = unbounded -/
def limit (maxSamples maxShots : Option Nat) : Option Nat :=
  match maxSamples, maxShots with
  | some a, some b => some (min a b)
  | some a, none => some a
  | none, some b => some b
  | none, none => none

/-! ## 6. `NoisySamplingSimulator.samples` (general path) -/

structure SamplesIn where
  maxSamples : Option Nat
  maxShots : Option Nat
  filter : Nat            -- the EFFECTIVE photon filter: `min_detected_photons_filter` + photons expected
                          -- by the heralds (section 7); before the repair the code used the bare value
  prePerf : Rat           -- pre_physical_perf
  zpp : Rat
  firstBatch : Nat → Nat  -- length of `first_batch` as a function of `prepare_samples`
  hasCallback : Bool

inductive SamplesOut where
  | error (e : String)
  | result (n : Nat) (phys logical : Rat) (s : Option St)
  deriving Repr, DecidableEq

def samplesPipeline (i : SamplesIn) (ops : List Shot) : SamplesOut :=
  match computeSamples i.maxSamples i.maxShots with
  | .error e => .error e
  | .ok none => .result 0 0 1 none
  | .ok (some 0) => .result 0 0 1 none
  | .ok (some (p + 1)) =>
    match computeSamplesWithPerf i.filter (p + 1) i.prePerf i.zpp i.maxShots with
    | .error e => .error e
    | .ok (0, _) => .result 0 0 1 none
    | .ok (p' + 1, sh') =>
      match i.maxSamples with
      | none => .error "unreachable"
      | some ms =>
        let s := loop ⟨ms, sh', i.hasCallback⟩ (i.firstBatch (p' + 1)) ops
        if s.halt = some .exhausted then .error "IndexError"
        else .result s.out ((perf s).1 * i.prePerf) (perf s).2 (some s)

/-! ## 7. classification of one sampled state: photon filter, heralds, post-selection

`_noisy_sampling`: `if sampled_state.n < filter: physically rejected; elif _state_selected(state):
remove the heralded modes and append; else logically rejected`.

DEFECT REPAIRED (fixes/C09-sampler-filter-heralds.diff): the documented meaning of
`min_detected_photons_filter` is "minimum number of photons, heralded modes NOT counted", and the
strong simulators implement it as `filter + Σ heralds` on the full state
(`ISimulator.min_detected_photons_filter`).  The sampler compared the full state with the bare value,
so with a herald expecting photons it let through states strong simulation discards.
`fixed = true` is the repaired code (main model), `fixed = false` the code as it was (kept for the
regression witness).  `ps` is the verdict of the native `PostSelect` on the state (external). -/

/-- photons the heralds expect (`sum(self._heralds.values())`) -/
def heraldPhotons (heralds : List (Nat × Nat)) : Nat := (heralds.map (·.2)).sum

/-- the heralds loop of `_state_selected` -/
def heraldsOk (heralds : List (Nat × Nat)) (st : List Nat) : Bool :=
  heralds.all fun h => st.getD h.1 0 == h.2

/-- threshold the full state's photon number is compared with -/
def effFilter (fixed : Bool) (filter : Nat) (heralds : List (Nat × Nat)) : Nat :=
  if fixed then filter + heraldPhotons heralds else filter

def shotOutcome (fixed : Bool) (filter : Nat) (heralds : List (Nat × Nat)) (ps : Bool)
    (st : List Nat) : Outcome :=
  if st.sum < effFilter fixed filter heralds then .phys
  else if heraldsOk heralds st && ps then .sel
  else .logic

/-- `BasicState.remove_modes(modes)` (positions counted from `i`) -/
def removeFrom (modes : List Nat) : Nat → List Nat → List Nat
  | _, [] => []
  | i, x :: xs =>
    if modes.contains i then removeFrom modes (i + 1) xs else x :: removeFrom modes (i + 1) xs

def removeModes (modes : List Nat) (st : List Nat) : List Nat := removeFrom modes 0 st

/-- photons sitting in the listed modes (positions counted from `i`) -/
def photonsIn (modes : List Nat) : Nat → List Nat → Nat
  | _, [] => 0
  | i, x :: xs => (if modes.contains i then x else 0) + photonsIn modes (i + 1) xs

/-- number of listed modes among positions `i, i+1, …` of the state -/
def modesIn (modes : List Nat) : Nat → List Nat → Nat
  | _, [] => 0
  | i, _ :: xs => (if modes.contains i then 1 else 0) + modesIn modes (i + 1) xs

/-- what `_noisy_sampling` appends for a selected state -/
def emitted (heralds : List (Nat × Nat)) (keepHeralds : Bool) (st : List Nat) : List Nat :=
  if !heralds.isEmpty && !keepHeralds then removeModes (heralds.map (·.1)) st else st

/-! ## 8. accounting of a batch of sampled states -/

/-- the counters after the states `sts` went through the post-processing of `_noisy_sampling`
(`psf` = verdict of the native `PostSelect` on a state) -/
def tally (fixed : Bool) (filter : Nat) (heralds : List (Nat × Nat)) (psf : List Nat → Bool)
    (s : St) (sts : List (List Nat)) : St :=
  sts.foldl (fun s st => classify s (shotOutcome fixed filter heralds (psf st) st)) s

/-! ## 9. seeding -/

/-- the three process-wide generators of the Python layer (`random`, `numpy.random`, exqalibur) -/
inductive Gen where
  | py | np | native
  deriving DecidableEq, Repr

/-- the generator algorithms, left abstract: state after seeding, next state, value drawn -/
structure RngSpec where
  init : Gen → Nat → Nat
  next : Gen → Nat → Nat
  out : Gen → Nat → Nat

structure Gens where
  py : Nat
  np : Nat
  native : Nat
  deriving DecidableEq, Repr

def Gens.get (w : Gens) : Gen → Nat
  | .py => w.py
  | .np => w.np
  | .native => w.native

def Gens.set (w : Gens) : Gen → Nat → Gens
  | .py, v => { w with py := v }
  | .np, v => { w with np := v }
  | .native, v => { w with native := v }

inductive ROp where
  | seed (s : Nat)     -- `perceval.random_seed(s)`
  | draw (g : Gen)     -- one random choice of some path, drawn from one of the three generators
  deriving Repr

/-- `random_seed` re-seeds the three generators together; a draw advances the generator it uses -/
def rstep (R : RngSpec) (w : Gens) : ROp → Gens × Option Nat
  | .seed s => (⟨R.init .py s, R.init .np s, R.init .native s⟩, none)
  | .draw g => (w.set g (R.next g (w.get g)), some (R.out g (w.get g)))

/-- the same with an object that owns a PRIVATE generator, created on first use from the Python
generator and never re-seeded (the shape of a defect: state that outlives `random_seed`) -/
def rstepPrivate (R : RngSpec) (w : Gens × Option Nat) : ROp → (Gens × Option Nat) × Option Nat
  | .seed s => ((⟨R.init .py s, R.init .np s, R.init .native s⟩, w.2), none)
  | .draw g =>
    match g, w.2 with
    | .np, none =>
      let st := R.init .np (R.out .py w.1.py)
      (({ w.1 with py := R.next .py w.1.py }, some (R.next .np st)), some (R.out .np st))
    | .np, some st => ((w.1, some (R.next .np st)), some (R.out .np st))
    | g, p => ((w.1.set g (R.next g (w.1.get g)), p), some (R.out g (w.1.get g)))

/-! ## 10. a memo table in front of the detector model

`Detector.detect` / `BSLayeredPPNR.detect` keep, per detector object, the distribution computed for a photon
number (`self._cache[theoretical_photons]`); the parameters of a detector never change after construction, so the
key (the photon number) identifies the question within one object. -/

def findKey {K V : Type} [DecidableEq K] (k : K) : List (K × V) → Option V
  | [] => none
  | (k', v) :: t => if k' = k then some v else findKey k t

/-- one question to a memoised function: answer from the table when the key is known, else compute and record -/
def memoStep {Q K V : Type} [DecidableEq K] (key : Q → K) (f : Q → V) (tbl : List (K × V)) (q : Q) :
    List (K × V) × V :=
  match findKey (key q) tbl with
  | some v => (tbl, v)
  | none => ((key q, f q) :: tbl, f q)

end PM.C09
