/-
  C13 — the component *kinds* behind the leaves of a polarised circuit, and
  `ACircuit.compute_unitary(use_polarization)` on a single component.

  * `linear_circuit.py: ACircuit._supports_polarization`, `ACircuit.compute_unitary`
    (the `use_polarization` argument on ONE component, for every component class)  → `Kind.supports`,
                                                                                      `leafUnitary`
  * `unitary_components.py`: `WP / HWP / QWP` (`_supports_polarization = True`, `m = 1`, own matrix 2×2),
    `PR` (same), `PBS` (`Unitary(U, use_polarization=True)`, `m = 2`, own matrix 4×4),
    `Unitary(U, use_polarization=True)` (`m = rows/2`), every other class
    (`_supports_polarization = False`: own matrix `m × m`)                           → `Kind`, `Kind.own`
  * a polarised photon given by its angles `(θ, φ)` (`Polarization.project_eh_ev`)   → `Trig`, `Trig.jones`

  `Model/C13.lean` knows a leaf only by a matrix (`PComp.plain` / `PComp.pol`); here a leaf is known by the
  class it was built from and that class's parameters (the *values* of the cosines and sines — the
  functions themselves are external), so that "every leaf matrix is unitary" and "every Jones vector is
  normalised" become consequences of `cos² + sin² = 1` instead of hypotheses.
-/
import PercevalModel.Model.C13

open Matrix

namespace PM.C13

variable {R : Type}

/-- a component, by class -/
inductive Kind (R : Type) where
  /-- any class with `_supports_polarization = False` (BS, PS, PERM, Unitary, Barrier, …), known by
  its own `k × k` matrix -/
  | ordinary (k : ℕ) (U : Matrix (Fin k) (Fin k) R)
  /-- `WP(δ, ξ)` / `HWP(ξ)` / `QWP(ξ)`: `c, s = cos δ, sin δ`, `c2, s2 = cos 2ξ, sin 2ξ` -/
  | wp (c s c2 s2 : R)
  /-- `PR(δ)`: `c, s = cos δ, sin δ` -/
  | pr (c s : R)
  | pbs
  /-- `Unitary(U, use_polarization=True)` with a `2k × 2k` matrix -/
  | polU (k : ℕ) (U : Matrix (Fin (k * 2)) (Fin (k * 2)) R)

/-- `_supports_polarization` (= `requires_polarization` of a component) -/
def Kind.supports : Kind R → Bool
  | .ordinary _ _ => false
  | _ => true

/-- `component.m`, the number of spatial modes -/
def Kind.m : Kind R → ℕ
  | .ordinary k _ => k
  | .wp _ _ _ _ => 1
  | .pr _ _ => 1
  | .pbs => 2
  | .polU k _ => k

/-- a square matrix with its side -/
abbrev SqM (R : Type) := (n : ℕ) × Matrix (Fin n) (Fin n) R

/-- `_compute_unitary()`: the component's own matrix (`i` is the imaginary unit) -/
def Kind.own [CommRing R] (i : R) : Kind R → SqM R
  | .ordinary k U => ⟨k, U⟩
  | .wp c s c2 s2 => ⟨2, PM.C13.wp i c s c2 s2⟩
  | .pr c s => ⟨2, PM.C13.pr c s⟩
  | .pbs => ⟨4, PM.C13.pbs⟩
  | .polU k U => ⟨k * 2, U⟩

/-- `ACircuit.compute_unitary(use_polarization=flag)` on one component, statement by statement:
```
if self._supports_polarization:
    assert use_polarization is not False
    use_polarization = True
elif use_polarization is None:
    use_polarization = False
u = self._compute_unitary(...)
if use_polarization and not self._supports_polarization:
    return matrix_double(u)
return u
``` -/
def leafUnitary [CommRing R] (i : R) (k : Kind R) (flag : Option Bool) : Except String (SqM R) :=
  if k.supports then
    if flag = some false then .error "AssertionError" else .ok (k.own i)
  else
    let use := flag.getD false
    if use && !k.supports then .ok ⟨(k.own i).1 * 2, double (k.own i).2⟩ else .ok (k.own i)

/-- the leaf of `Model/C13.lean` a component is -/
def Kind.toP [CommRing R] (i : R) : Kind R → PComp R
  | .ordinary k U => .plain k U
  | .wp c s c2 s2 => .pol 1 (PM.C13.wp i c s c2 s2)
  | .pr c s => .pol 1 (PM.C13.pr c s)
  | .pbs => .pol 2 PM.C13.pbs
  | .polU k U => .pol k U

/-- what the constructors guarantee about the parameters: the cosine / sine values are real and
satisfy `cos² + sin² = 1`; `Unitary.__init__` asserts `U.is_unitary()`; an ordinary component has a
unitary matrix (property C14) -/
def Kind.Valid [CommRing R] [StarRing R] : Kind R → Prop
  | .ordinary _ U => IsUnitary U
  | .wp c s c2 s2 => star c = c ∧ star s = s ∧ star c2 = c2 ∧ star s2 = s2 ∧
      c * c + s * s = 1 ∧ c2 * c2 + s2 * s2 = 1
  | .pr c s => star c = c ∧ star s = s ∧ c * c + s * s = 1
  | .pbs => True
  | .polU _ U => IsUnitary U

/-! ### circuits of components known by kind -/

mutual
  inductive KComp (R : Type) where
    | leaf (k : Kind R)
    | circ (m : ℕ) (items : KItems R)
  inductive KItems (R : Type) where
    | nil
    | cons (off : ℕ) (c : KComp R) (rest : KItems R)
end

mutual
  def KComp.toP [CommRing R] (i : R) : KComp R → PComp R
    | .leaf k => k.toP i
    | .circ m items => .circ m (items.toP i)
  def KItems.toP [CommRing R] (i : R) : KItems R → PItems R
    | .nil => .nil
    | .cons off c rest => .cons off (c.toP i) (rest.toP i)
end

mutual
  def KComp.Valid [CommRing R] [StarRing R] : KComp R → Prop
    | .leaf k => k.Valid
    | .circ _ items => items.Valid
  def KItems.Valid [CommRing R] [StarRing R] : KItems R → Prop
    | .nil => True
    | .cons _ c rest => c.Valid ∧ rest.Valid
end

mutual
  /-- `requires_polarization`: `any(c.requires_polarization for _, c in self._components)` -/
  def KComp.requires : KComp R → Bool
    | .leaf k => k.supports
    | .circ _ items => items.requires
  def KItems.requires : KItems R → Bool
    | .nil => false
    | .cons _ c rest => c.requires || rest.requires
end

/-! ### photons known by their angles -/

/-- the values `cos(θ/2), sin(θ/2), cos φ, sin φ` of one photon's polarisation -/
structure Trig (R : Type) where
  c : R
  s : R
  p : R
  q : R

/-- `Polarization.project_eh_ev` -/
def Trig.jones [CommRing R] (i : R) (t : Trig R) : R × R := PM.C13.jones i t.c t.s t.p t.q

def Trig.Valid [CommRing R] [StarRing R] (t : Trig R) : Prop :=
  star t.c = t.c ∧ star t.s = t.s ∧ star t.p = t.p ∧ star t.q = t.q ∧
    t.c * t.c + t.s * t.s = 1 ∧ t.p * t.p + t.q * t.q = 1

end PM.C13
