import PercevalModel.Model.C10

/-! # C10, wave 9 — the verdict of `Processor.add(mapping, component)` in closed form

`Experiment.add` for a bare component runs `ModeConnector.resolve` (mapping errors), then
`_validate_postselect_composition` (the `can_compose_with` assertion on the LEFT post-selection, evaluated on the
keys of the resolved mapping), then `generate_permutation`. `compVerdict` is what comes out of that chain for the
offset and list forms, written without running the chain: it reads the availability flags, the list itself and the
conditions of the left post-selection only. `Props/C10.lean` proves it equal to the verdict of `compose`
(`add_component_closed`), for every left processor — with or without a post-selection. -/

namespace PM.C10

/-- the verdict of `Processor.add(mapping, component)` for an offset or list mapping, in closed form, as the
error class (`none` = accepted). -/
def compVerdict (l r : Side) : RawMap → Option Err
  | .ofInt b =>
    if (List.range r.m).all (fun i => connectible l.cs l.conn (b + Int.ofNat i)) then
      match validatePS l ((List.range r.m).map fun (i : Nat) => (b + Int.ofNat i).toNat) with
      | .ok _ => none
      | .error e => some e
    else some .unavailable
  | .ofList ks =>
    if ks.length ≠ r.m ∨ ¬ ks.Nodup then some .invalid
    else if ks.all (fun k => connectible l.cs l.conn k) then
      match validatePS l (ks.map Int.toNat) with
      | .ok _ => none
      | .error e => some e
    else some .unavailable
  | .ofDict _ => none

/-- the error class a validation result stands for -/
def verdictOf : Except Err Unit → Option Err
  | .ok _ => none
  | .error e => some e

end PM.C10
