/-
  C16, wave 9 — the shot / sample estimators of a RemoteProcessor, AS THE CODE IS
  (`RemoteProcessor._compute_sample_of_interest_probability`, `estimate_required_shots`,
  `estimate_expected_samples`): the numbers a user derives `max_shots` / `max_samples` from.

      n = self.input_state.n                      # the STORED state: herald photons included
      photon_filter = n
      if self._min_detected_photons_filter is not None:
          photon_filter = self._min_detected_photons_filter + sum(self.heralds.values())
          if photon_filter > n: return 0
      if photon_filter < 2: return 1
      ... lossy SLOS simulation, sum of the probabilities of the states with `state.n >= photon_filter`

      estimate_required_shots(nsamples):  p == 0 -> None ; round(nsamples / p)
      estimate_expected_samples(nshots):  round(nshots * p)

  Modelled: the decision layer (which of the three exits is taken and, for the simulation, the photon count the
  estimate counts from) and what the two public functions return on the two closed exits.  NOT modelled: the
  simulation itself (a local SLOS run with a lossy source: C03 / C05's subject); on that exit the model returns the
  threshold only and the correspondence compares the real number with the closed form the threshold implies for
  photon-counting detectors.  A processor without input state raises AttributeError in the code: outside the model
  (`precondition`).  Core Lean only.
-/
import PercevalModel.Model.C16

namespace PM.C16

/-- the three exits of `_compute_sample_of_interest_probability` -/
inductive Interest where
  | zero                      -- `return 0`: the filter asks for more photons than the input holds
  | one                       -- `return 1`: fewer than two photons asked for
  | simulate (k : Int)        -- lossy simulation; the states with at least `k` photons are counted
deriving DecidableEq, Repr

/-- the decision itself: `n` photons in the stored input, the filter, `hs` herald photons -/
def interestOf (n : Int) (filter : Option Int) (hs : Int) : Interest :=
  match filter with
  | some f =>
    if f + hs > n then .zero
    else if f + hs < 2 then .one
    else .simulate (f + hs)
  | none => if n < 2 then .one else .simulate n

/-- `_compute_sample_of_interest_probability`, up to the simulation -/
def interest (e : Exp) : Res Interest :=
  match e.input with
  | none => throw .precondition              -- Python: AttributeError on `None.n`
  | some s => pure (interestOf (s.sum : Nat) e.filter (heraldSum e : Nat))

/-- what an estimator returns -/
inductive Est where
  | noneVal                   -- Python `None`
  | exact (k : Int)           -- an integer known without simulating
  | simulated (k : Int)       -- `round(· / p)` / `round(· * p)` with `p` = P(at least `k` photons detected)
deriving DecidableEq, Repr

/-- `estimate_required_shots(nsamples)` -/
def requiredShots (e : Exp) (nsamples : Int) : Res Est :=
  match interest e with
  | .error err => throw err
  | .ok .zero => pure .noneVal
  | .ok .one => pure (.exact nsamples)          -- `round(nsamples / 1)`
  | .ok (.simulate k) => pure (.simulated k)

/-- `estimate_expected_samples(nshots)` -/
def expectedSamples (e : Exp) (nshots : Int) : Res Est :=
  match interest e with
  | .error err => throw err
  | .ok .zero => pure (.exact 0)                -- `round(nshots * 0)`
  | .ok .one => pure (.exact nshots)            -- `round(nshots * 1)`
  | .ok (.simulate k) => pure (.simulated k)

end PM.C16
