/-
  C12 — the glue of `Circuit.decomposition` around `decompose_triangle` (linear_circuit.py), as it is:

      if isinstance(shape, str):
          try: shape = InterferometerShape[shape.upper()]
          except: raise ValueError(...)
      if not Matrix(U).is_unitary() or Matrix(U).is_symbolic(): raise ValueError(...)
      if inverse_h: U = U.inv()
      if inverse_v: U = np.flip(U)
      N = U.shape[0]; count = 0
      if constraints is not None:
          assert isinstance(constraints, list)
          for constraint in constraints:
              assert isinstance(constraint, (list, tuple)) and len(constraint) == len(component.get_parameters())
      while count < max_try:
          if shape == TRIANGLE:    lc = decompose_triangle(...)
          elif shape == RECTANGLE: lc = decompose_rectangle(...)      # raises NotImplementedError
          else: raise NotImplementedError(...)
          if lc is not None: ...; return C
          count += 1
      return None

  Quirks kept: the checks come in this order (an unknown shape string wins over a non-unitary matrix, which wins over
  malformed constraints); a shape that is neither a string nor a member of the enum is only looked at inside the loop;
  with `max_try <= 0` the loop body never runs, so a rectangle request answers `None` instead of raising.
  What one attempt of `decompose_triangle` answers is an oracle (`attempts k` = attempt number `k` returned a list).
  Core Lean only.
-/
namespace PM.C12.Glue

/-- `shape` after the string has been resolved: a member of `InterferometerShape` or something else -/
inductive Shape where
  | triangle
  | rectangle
  /-- not a string and not a member of the enum (e.g. `None`) -/
  | foreign
deriving DecidableEq, Repr

/-- the `shape` argument -/
inductive ShapeArg where
  /-- a string; `some s` if `InterferometerShape[shape.upper()]` exists -/
  | str (resolved : Option Shape)
  /-- anything else -/
  | obj (s : Shape)
deriving DecidableEq, Repr

/-- one entry of `constraints` -/
inductive Entry where
  /-- a list or a tuple of the given length -/
  | seq (len : Nat)
  /-- any other object -/
  | other
deriving DecidableEq, Repr

/-- the `constraints` argument -/
inductive Constraints where
  | none
  | list (entries : List Entry)
  /-- not a list (a tuple of entries, …) -/
  | notList
deriving DecidableEq, Repr

inductive Outcome where
  | valueError
  | assertionError
  | notImplementedError
  /-- `return None` -/
  | none
  /-- a circuit built from the list returned by attempt number `k` (counted from 0) -/
  | circuit (k : Nat)
deriving DecidableEq, Repr

structure Req where
  shape : ShapeArg
  unitary : Bool
  symbolic : Bool
  constraints : Constraints
  /-- `len(component.get_parameters())` -/
  nparams : Nat
  /-- `max_try` when positive, 0 otherwise (`while count < max_try`) -/
  maxTry : Nat

def constraintsOk (c : Constraints) (nparams : Nat) : Bool :=
  match c with
  | .none => true
  | .notList => false
  | .list es => es.all fun e => match e with
    | .seq len => len == nparams
    | .other => false

/-- `while count < max_try` with `fuel = max_try - count` iterations left -/
def loop (sh : Shape) (attempts : Nat → Bool) : Nat → Nat → Outcome
  | 0, _ => .none
  | fuel + 1, count =>
    match sh with
    | .triangle => if attempts count then .circuit count else loop sh attempts fuel (count + 1)
    | .rectangle => .notImplementedError
    | .foreign => .notImplementedError

/-- `InterferometerShape[shape.upper()]` for a string (`none`: `raise ValueError`), the object itself otherwise -/
def resolve : ShapeArg → Option Shape
  | .str r => r
  | .obj s => some s

def outcome (r : Req) (attempts : Nat → Bool) : Outcome :=
  match resolve r.shape with
  | none => .valueError
  | some sh =>
    if !r.unitary || r.symbolic then .valueError
    else if !constraintsOk r.constraints r.nparams then .assertionError
    else loop sh attempts r.maxTry 0

end PM.C12.Glue
