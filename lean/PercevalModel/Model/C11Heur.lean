/-
  C11 — the simplifier's heuristic, modelled exactly (core Lean only):
  `_search_empty_space`, `_update_perm`, `_generate_compatible_perm` of
  `perceval/utils/algorithms/simplification.py`, the exact (sorted) `adjacent_modes` lists of the
  repaired `_update_adjacent`, and the deterministic `_simplify_perm` / `simplify` loop obtained by
  feeding the heuristic's `left_right_perm` into the non-deterministic specification of
  `Model/C11Lists.lean`.

  The list `reverse` (`[-1] * m`, filled step by step) is a `List (Option Nat)`: `none` is `-1`.
  Python slices are modelled by `take` / `drop`, the two slice shifts of `_update_perm` by
  "remove the `-1` at `cur_index`, insert a `-1` at the edge of the window" — exactly what
  `perm[a+1:c+1] = perm[a:c]; perm[a] = -1` does when `perm[c] == -1`.
-/
import PercevalModel.Model.C11Lists

namespace PM.C11
variable {P : Type}

abbrev Slots := List (Option Nat)

/-! ### `_search_empty_space` -/

/-- `perm[s : s + n] == n * [-1]` (a slice running over the end is shorter, hence different) -/
def emptyWindow (perm : Slots) (s n : Nat) : Bool :=
  (perm.drop s).take n == List.replicate n none

/-- the `for i in range(len(perm))` loop for one window length `n`: the slot the window starts at
(`init + i` resp. `init - i`), `none` when the loop ends without a `return` -/
def searchAt (perm : Slots) (n init : Nat) : Option Nat :=
  (List.range perm.length).findSome? fun i =>
    if i + init + n ≤ perm.length && emptyWindow perm (init + i) n then some (init + i)
    else if i ≤ init && emptyWindow perm (init - i) n then some (init - i)
    else none

/-- `_search_empty_space(perm, n, init)` as `(init + i, n')`: the nearest window of `n` free slots,
else (recursively) of `n - 1` …  For `n = 0` and `init ≤ len(perm)`, `len(perm) > 0` the loop returns
at `i = 0`; the fall-through of the last line (Python would recurse with `n = -1`) is outside the
model. -/
def searchEmptySpace (perm : Slots) : Nat → Nat → Nat × Nat
  | 0, init =>
    match searchAt perm 0 init with
    | some s => (s, 0)
    | none => (init, 0)
  | n + 1, init =>
    match searchAt perm (n + 1) init with
    | some s => (s, n + 1)
    | none => searchEmptySpace perm n init

/-! ### `_update_perm` -/

/-- the state of the `while len(modes) - n` loop -/
structure LoopSt where
  perm : Slots
  smin : Nat      -- `slice_min`
  smax : Nat      -- `slice_max`
  n : Nat
  jr : Nat        -- `j_right`
  jl : Nat        -- `j_left`
deriving Repr

/-- remove the `-1` at `cur`, insert a `-1` at `p` (in the list without slot `cur`) -/
def moveNone (perm : Slots) (cur p : Nat) : Slots := (perm.eraseIdx cur).insertIdx p none

/-- first half of the loop body: look at `slice_max + j_right`;
`perm[slice_max+1 : cur+1] = perm[slice_max : cur]; perm[slice_max] = -1; slice_max += 1; n += 1` -/
def rightHalf (st : LoopSt) : LoopSt :=
  let cur := st.smax + st.jr
  if cur < st.perm.length ∧ st.perm[cur]? = some none then
    { st with perm := moveNone st.perm cur st.smax, smax := st.smax + 1, n := st.n + 1 }
  else { st with jr := st.jr + 1 }

/-- second half: look at `slice_min - j_left` (`cur_index >= 0`);
`perm[cur : slice_min-1] = perm[cur+1 : slice_min]; perm[slice_min-1] = -1; slice_min -= 1; n += 1` -/
def leftHalf (st : LoopSt) : LoopSt :=
  if st.jl ≤ st.smin ∧ st.perm[st.smin - st.jl]? = some none then
    { st with perm := moveNone st.perm (st.smin - st.jl) (st.smin - 1),
              smin := st.smin - 1, n := st.n + 1 }
  else { st with jl := st.jl + 1 }

/-- the `while len(modes) - n:` loop (`k = len(modes)`), with fuel; `none`: fuel exhausted
(`updLoop_terminates`: never, with fuel `len(perm) + 1`, when enough slots are free) -/
def updLoop (k : Nat) : Nat → LoopSt → Option LoopSt
  | 0, st => if st.n = k then some st else none
  | fuel + 1, st =>
    if st.n = k then some st
    else
      let s1 := rightHalf st
      if s1.n = k then some s1        -- `if not len(modes) - n: break`
      else updLoop k fuel (leftHalf s1)

/-- `_update_perm(perm, init, modes)`; the last statement is `perm[slice_min:slice_max] = modes` -/
def updatePerm (perm : Slots) (init : Nat) (modes : List Nat) : Option Slots :=
  let sn := searchEmptySpace perm modes.length init
  match updLoop modes.length (perm.length + 1)
      { perm := perm, smin := sn.1, smax := sn.1 + sn.2, n := sn.2, jr := 0, jl := 1 } with
  | some st => some (st.perm.take st.smin ++ modes.map some ++ st.perm.drop st.smax)
  | none => none

/-! ### `_generate_compatible_perm` -/

/-- `min(l)` / `max(l)` of a non-empty list (`0` for the empty one: Python raises) -/
def listMin : List Nat → Nat
  | [] => 0
  | x :: xs => xs.foldl min x

def listMax : List Nat → Nat
  | [] => 0
  | x :: xs => xs.foldl max x

/-- `out = [perm_list[mode] for mode in modes]` -/
def outOf (permList modes : List Nat) : List Nat := modes.map fun x => permList.getD x 0

/-- `min(perm_list[mode] for mode in modes)`: sort key and `init` of a group -/
def outMin (permList modes : List Nat) : Nat := listMin (outOf permList modes)

/-- `max_out - min_out == M_mode - m_mode`: the permutation keeps the modes of the group adjacent -/
def keptAdjacent (permList modes : List Nat) : Bool :=
  listMax (outOf permList modes) - outMin permList modes ==
    modes.getLastD 0 - modes.headD 0

/-- insert `x` before the first element whose key is not smaller -/
def insertByKey (key : List Nat → Nat) (x : List Nat) : List (List Nat) → List (List Nat)
  | [] => [x]
  | y :: ys => if key x ≤ key y then x :: y :: ys else y :: insertByKey key x ys

/-- `list.sort(key=...)`: a stable sort by the key (insertion sort, elements taken from the right:
an element goes before the equal keys that stood after it) -/
def sortByKey (key : List Nat → Nat) (l : List (List Nat)) : List (List Nat) :=
  l.foldr (insertByKey key) []

/-- `for modes in …: reverse = _update_perm(reverse, min(out), modes)` -/
def placeAll (permList : List Nat) (start : Slots) (groups : List (List Nat)) : Option Slots :=
  groups.foldlM (fun p modes => updatePerm p (outMin permList modes) modes) start

/-- the three work lists of `_generate_compatible_perm` after their sorts: the multi-mode groups in
the order they are placed (`first_step` then `second_step`) and `third_step` (as one-mode groups,
after `sort` and `reverse()`).  A group of length ≤ 1 contributes `modes[0]` (an empty group raises
`IndexError` in Python: `none`). -/
def workLists (permList : List Nat) (adj : List (List Nat)) :
    Option (List (List Nat) × List (List Nat)) :=
  if adj.any (·.isEmpty) then none
  else
    let multi := adj.filter fun g => g.length > 1
    let first := sortByKey (outMin permList) (multi.filter fun g => !keptAdjacent permList g)
    let second := sortByKey (outMin permList) (multi.filter fun g => keptAdjacent permList g)
    let third := (adj.filter fun g => !(g.length > 1)).map fun g => [g.headD 0]
    some (first ++ second, (sortByKey (outMin permList) third).reverse)

/-- `_generate_compatible_perm(perm_list, adjacent_modes)[0]` — the `left_right_perm` handed to
`_move_comp`; `none` when a slot is left at `-1` or the loop of `_update_perm` does not end -/
def genCompatiblePerm (permList : List Nat) (adj : List (List Nat)) : Option (List Nat) :=
  match workLists permList adj with
  | none => none
  | some (multi, third) =>
    let m := permList.length
    match placeAll permList (List.replicate m none) multi with
    | none => none
    | some rev =>
      match placeAll permList rev third with
      | none => none
      | some rev2 =>
        let fin : Option Slots :=
          if rev2 == (List.range m).map some then placeAll permList rev third.reverse
          else some rev2
        match fin with
        | none => none
        | some f => if f.all Option.isSome then some (f.map fun x => x.getD 0) else none

/-! ### the exact `adjacent_modes` -/

/-- `sorted(merged)` for a group held as a list with repetitions -/
def normGroup (g : List Nat) : List Nat :=
  (List.range (g.foldl max 0 + 1)).filter fun x => g.contains x

/-- `adjacent_modes` after the bookkeeping loop of `_simplify_perm` (repaired `_update_adjacent`):
the same groups, in the same order, as `updateAdjacent true` (which keeps them as unsorted lists
with repetitions — `touches` only asks for membership), each as a sorted list -/
def adjExact (m : Nat) (inComps : List (Item P)) : List (List Nat) :=
  (inComps.foldl (fun a it => updateAdjacent true a it.r0 it.w)
    ((List.range m).map fun j => [j])).map normGroup

/-- the `left_right_perm` `_simplify_perm` obtains in its non-successive branch:
`_generate_compatible_perm(invert_permutation(previous_c_list), adjacent_modes)[0]` -/
def heurChoice (m : Nat) (comps : List (Item P)) : Option (List Nat) :=
  match lastPermIdx comps with
  | none => none
  | some i =>
    match comps[i]? with
    | some ⟨pr0, _, .perm pσ⟩ =>
      genCompatiblePerm (invertPerm (extendPerm pr0 pσ m)) (adjExact m (comps.drop (i + 1)))
    | _ => none

/-- `_simplify_perm` with the real heuristic (repaired adjacency bookkeeping): deterministic -/
def simplifyPermDet (m : Nat) (display : Bool) (comps : List (Item P)) (r0 : Nat) (σ : List Nat) :
    Option (List (Item P)) :=
  match permBranch true m comps with
  | .nonSuccessive =>
    match heurChoice m comps with
    | some ρ => simplifyPerm true m display comps r0 σ (some ρ)
    | none => none
  | _ => simplifyPerm true m display comps r0 σ none

/-- one iteration of `simplify` with the real heuristic; the only input left open is the
floating-point outcome of the drop test of `_simplify_PS` -/
def simplifyStepDet [PhaseAlg P] (m : Nat) (display wantDrop : Bool) (comps : List (Item P))
    (it : Item P) : Option (List (Item P)) :=
  match it.k with
  | .perm σ => simplifyPermDet m display comps it.r0 σ
  | _ => simplifyStep true m display wantDrop none comps it

/-- the `for r, c in circuit` loop of `simplify`, each component with the rounding outcome of its
drop test -/
def simplifyDet [PhaseAlg P] (m : Nat) (display : Bool) :
    List (Item P × Bool) → List (Item P) → Option (List (Item P))
  | [], acc => some acc
  | s :: rest, acc =>
    match simplifyStepDet m display s.2 acc s.1 with
    | some acc' => simplifyDet m display rest acc'
    | none => none

end PM.C11
