/-
  C18 — the asynchronous run of a `LocalJob` at the granularity of single accesses to the memory the
  caller thread and the worker thread share (`Model/C18.lean` has whole API calls and whole task steps as
  atoms; this file removes that assumption for `execute_async`).

  Shared memory:  `JobStatus._status`, `._stop_message`, `._running_progress`, `LocalJob._results`,
  `._cancel_requested`, and the liveness of the worker thread (`Thread.is_alive()`, ended by the thread's exit).
  Each thread is a program counter; a micro-step performs exactly ONE access to that memory and then runs
  the thread's private code up to its next access.  A *schedule* is a word over

      exec c      the whole `execute_async(...)` call (single-threaded: the worker does not exist before
                  `Thread.start()`)
      begin a     the (idle) caller starts `job.status` + reading status/stop_message/progress (a = status),
                  `job.cancel()` or `job.get_results()`
      c           the caller performs its next access
      w           the worker performs its next access (`_call_fn_safe`, `JobStatus.start_run/stop_run`,
                  `update_progress`, `_progress_cb`)
      task e      the task function, which the worker is inside of, reports progress / returns / raises

  so every interleaving of the two threads at this granularity is a word, and the scheduler is the word.

  The code is described AS IT IS, statement by statement:

    LocalJob.status          if self._status.running and self._worker is not None and not self._worker.is_alive():
                                 self._status.stop_run()                       (R _status, R alive, then 3 writes)
    JobStatus.stop_run       self._status = cause; [self._running_progress = 1]; self._stop_message = mesg
    LocalJob._call_fn_safe   start_run(); r = fn(); self._results = r; if self._cancel_requested: stop_run(CANCELED, ..)
                             else stop_run() / except: stop_run(ERROR, type: text)
    Job.get_results          job_status = self.status; maybe_completed; canceled; unknown; _get_results();
                             on KeyError/TypeError: failed, stop_message

  `fixed = false` is that code.  `fixed = true` is the code with `fixes/C18-status-race.diff`: the liveness test
  of `LocalJob.status` comes FIRST (`self._worker is not None and not self._worker.is_alive() and
  self._status.running`), so that the status is read only once the worker can no longer write it.
  No user callback in this model (in asynchronous mode it runs on the worker thread; `Model/C18.lean`).
  Core Lean only.
-/
import PercevalModel.Model.C18

namespace PM.C18

/-- how the task function was left, with the value of the cancel flag `_call_fn_safe` read after a return -/
inductive Outcome
  | returned (r : Ret) (canceled : Bool)
  | raised (cls text : Nat)
  deriving DecidableEq, Repr

/-- the truthful final status / stop message of an outcome -/
def Outcome.st : Outcome → St
  | .returned _ false => .success
  | .returned _ true => .canceled
  | .raised _ _ => .error

def Outcome.msg : Outcome → Msg
  | .returned _ false => .none
  | .returned _ true => .canceled
  | .raised c t => .task c t

/-- program counter of the worker thread: the access it performs NEXT -/
inductive WPc
  | entry                          -- `_call_fn_safe`: start_run(): W _status := RUNNING, then enters fn
  | inTask                         -- inside `self._fn(...)`, waiting for the task's next step
  | prog1 (p : Nat)                -- update_progress: R _status (`== WAITING`)
  | prog1b (p : Nat)               --   start_run(): W _status := RUNNING (only if WAITING was read)
  | prog2 (p : Nat)                -- W _running_progress := p
  | prog3 (p : Nat)                -- `_progress_cb`: R _cancel_requested, reply to the task
  | ret1 (r : Ret)                 -- W _results := r
  | ret2 (r : Ret)                 -- R _cancel_requested
  | stop1 (r : Ret) (c : Bool)     -- stop_run: W _status := CANCELED / SUCCESS
  | stop2 (r : Ret)                --   cause == SUCCESS: W _running_progress := 1
  | stop3 (r : Ret) (c : Bool)     --   W _stop_message
  | exc1 (cls text : Nat)          -- except: stop_run(ERROR, ..): W _status := ERROR
  | exc2 (cls text : Nat)          --   W _stop_message
  | exiting (o : Outcome)          -- the thread's exit (is_alive() becomes False)
  | dead (o : Outcome)
  deriving DecidableEq, Repr

/-- what the caller does after the `status` property has returned -/
inductive Cont | obs | get
  deriving DecidableEq, Repr

/-- program counter of the caller thread: the access it performs next -/
inductive CPc
  | idle
  | prop0 (k : Cont)               -- `LocalJob.status`: first test
  | prop1 (k : Cont)               --   second test
  | rep1 (k : Cont)                --   self._status.stop_run(): W _status := SUCCESS
  | rep2 (k : Cont)                --     W _running_progress := 1
  | rep3 (k : Cont)                --     W _stop_message := None
  | obs1                           -- `.status`: R _status
  | obs2 (a : St)                  -- `.stop_message`: R _stop_message
  | obs3 (a : St) (m : Msg)        -- `.progress`: R _running_progress
  | get1                           -- get_results: maybe_completed: R _status
  | get2                           --   canceled: R _status
  | get3                           --   unknown: R _status, then `_get_results()` (caller-private)
  | get5                           --   failed: R _status
  | get6                           --   stop_message: R _stop_message
  | cancel1                        -- cancel(): W _cancel_requested := True
  deriving DecidableEq, Repr

inductive Act | status | cancel | get
  deriving DecidableEq, Repr

inductive TEv
  | prog (p : Nat)
  | ret (r : Ret)
  | raise (cls text : Nat)
  deriving DecidableEq, Repr

inductive REv
  | exec (c : Call)
  | begin (a : Act)
  | c
  | w
  | task (e : TEv)
  deriving DecidableEq, Repr

/-- the access a micro-step performs -/
inductive Acc
  | none | rSt | wSt | rMsg | wMsg | rProg | wProg | rCancel | wCancel | wResults | rAlive | exit
  deriving DecidableEq, Repr

inductive ROut
  | disabled
  | step (a : Acc) (o : Option Out)    -- the access, and the answer when an action / a task step ends here
  deriving DecidableEq, Repr

structure RState where
  st : St
  msg : Msg
  prog : Nat
  cancelReq : Bool
  results : Ret
  mapPending : Bool
  command : Dict
  mapping : Dict
  started : Bool            -- `_worker is not None`
  alive : Bool              -- `_worker.is_alive()`
  wpc : WPc
  cpc : CPc
  fnCalls : Nat
  deriving DecidableEq, Repr

def rinit (cfg : Cfg) : RState :=
  { st := .waiting, msg := .none, prog := 0, cancelReq := false, results := .none, mapPending := cfg.hasMap,
    command := cfg.command0, mapping := cfg.mapping0, started := false, alive := false, wpc := .entry,
    cpc := .idle, fnCalls := 0 }

def propDone : Cont → CPc
  | .obs => .obs1
  | .get => .get1

/-- where the caller stands after entering the `status` property: the fixed code tests `_worker is not None`
first, which is private to the caller, so it is through without any access while there is no worker -/
def propStart (fixed : Bool) (s : RState) (k : Cont) : CPc :=
  if fixed && !s.started then propDone k else .prop0 k

/-- the whole `execute_async` call -/
def rexec (cfg : Cfg) (s : RState) (c : Call) : RState × ROut :=
  if s.st ≠ .waiting then (s, .step .none (some (.exc .assertion)))
  else
    match handleParams cfg.paramNames s.command s.mapping c with
    | (cmd, map, some e) => ({ s with command := cmd, mapping := map }, .step .none (some (.exc e)))
    | (cmd, map, none) =>
      ({ s with command := cmd, mapping := map, st := .running, started := true, alive := true, wpc := .entry },
        .step .none (some .accepted))

def callerStep (fixed : Bool) (s : RState) : RState × ROut :=
  match s.cpc with
  | .idle => (s, .disabled)
  | .prop0 k =>
    if fixed then
      (if s.alive then ({ s with cpc := propDone k }, .step .rAlive none)
       else ({ s with cpc := .prop1 k }, .step .rAlive none))
    else
      (if s.st = .running ∧ s.started = true then ({ s with cpc := .prop1 k }, .step .rSt none)
       else ({ s with cpc := propDone k }, .step .rSt none))
  | .prop1 k =>
    if fixed then
      (if s.st = .running then ({ s with cpc := .rep1 k }, .step .rSt none)
       else ({ s with cpc := propDone k }, .step .rSt none))
    else
      (if s.alive then ({ s with cpc := propDone k }, .step .rAlive none)
       else ({ s with cpc := .rep1 k }, .step .rAlive none))
  | .rep1 k => ({ s with st := .success, cpc := .rep2 k }, .step .wSt none)
  | .rep2 k => ({ s with prog := 8, cpc := .rep3 k }, .step .wProg none)
  | .rep3 k => ({ s with msg := .none, cpc := propDone k }, .step .wMsg none)
  | .obs1 => ({ s with cpc := .obs2 s.st }, .step .rSt none)
  | .obs2 a => ({ s with cpc := .obs3 a s.msg }, .step .rMsg none)
  | .obs3 a m => ({ s with cpc := .idle }, .step .rProg (some (.status a m s.prog)))
  | .get1 =>
    if s.st.isFinal then ({ s with cpc := .get2 }, .step .rSt none)
    else ({ s with cpc := .idle }, .step .rSt (some (.exc .stillRunning)))
  | .get2 => ({ s with cpc := .get3 }, .step .rSt none)
  | .get3 =>
    if s.mapPending then
      match convertRet s.mapping s.results with
      | some r => ({ s with results := r, mapPending := false, cpc := .idle }, .step .rSt (some (.results r)))
      | none => ({ s with cpc := .get5 }, .step .rSt none)
    else ({ s with cpc := .idle }, .step .rSt (some (.results s.results)))
  | .get5 =>
    if s.st.failed then ({ s with cpc := .get6 }, .step .rSt none)
    else ({ s with cpc := .idle }, .step .rSt (some (.exc .notAvailable)))
  | .get6 => ({ s with cpc := .idle }, .step .rMsg (some (.exc .failed)))
  | .cancel1 => ({ s with cancelReq := true, cpc := .idle }, .step .wCancel (some .done))

def workerStep (s : RState) : RState × ROut :=
  if s.started && s.alive then
    match s.wpc with
    | .entry =>
      ({ s with st := .running, wpc := .inTask, fnCalls := s.fnCalls + 1 }, .step .wSt (some (.started s.command)))
    | .inTask => (s, .disabled)
    | .prog1 p =>
      if s.st = .waiting then ({ s with wpc := .prog1b p }, .step .rSt none)
      else ({ s with wpc := .prog2 p }, .step .rSt none)
    | .prog1b p => ({ s with st := .running, wpc := .prog2 p }, .step .wSt none)
    | .prog2 p => ({ s with prog := p, wpc := .prog3 p }, .step .wProg none)
    | .prog3 p => ({ s with wpc := .inTask }, .step .rCancel (some (.progressed none p s.cancelReq)))
    | .ret1 r => ({ s with results := r, wpc := .ret2 r }, .step .wResults none)
    | .ret2 r => ({ s with wpc := .stop1 r s.cancelReq }, .step .rCancel none)
    | .stop1 r c =>
      ({ s with st := if c then .canceled else .success, wpc := if c then .stop3 r true else .stop2 r },
        .step .wSt none)
    | .stop2 r => ({ s with prog := 8, wpc := .stop3 r false }, .step .wProg none)
    | .stop3 r c =>
      ({ s with msg := if c then .canceled else .none, wpc := .exiting (.returned r c) }, .step .wMsg none)
    | .exc1 c t => ({ s with st := .error, wpc := .exc2 c t }, .step .wSt none)
    | .exc2 c t => ({ s with msg := .task c t, wpc := .exiting (.raised c t) }, .step .wMsg none)
    | .exiting o => ({ s with alive := false, wpc := .dead o }, .step .exit (some (.finished none)))
    | .dead _ => (s, .disabled)
  else (s, .disabled)

def taskStep (s : RState) (e : TEv) : RState × ROut :=
  if s.started && s.alive && decide (s.wpc = .inTask) then
    match e with
    | .prog p => ({ s with wpc := .prog1 p }, .step .none none)
    | .ret r => ({ s with wpc := .ret1 r }, .step .none none)
    | .raise c t => ({ s with wpc := .exc1 c t }, .step .none none)
  else (s, .disabled)

def rstep (fixed : Bool) (cfg : Cfg) (s : RState) : REv → RState × ROut
  | .exec c => if s.cpc = .idle then rexec cfg s c else (s, .disabled)
  | .begin a =>
    if s.cpc = .idle then
      match a with
      | .status => ({ s with cpc := propStart fixed s .obs }, .step .none none)
      | .get => ({ s with cpc := propStart fixed s .get }, .step .none none)
      | .cancel => ({ s with cpc := .cancel1 }, .step .none none)
    else (s, .disabled)
  | .c => callerStep fixed s
  | .w => workerStep s
  | .task e => taskStep s e

/-- the job after a schedule, from a freshly constructed job -/
def rafter (fixed : Bool) (cfg : Cfg) (w : List REv) : RState := SM.exec (rstep fixed cfg) (rinit cfg) w

/-- what each micro-step of a schedule answered -/
def routs (fixed : Bool) (cfg : Cfg) (w : List REv) : List ROut := (SM.run (rstep fixed cfg) (rinit cfg) w).2

/-- the outcome the worker's program counter carries once the task function has been left -/
def WPc.outcome : WPc → Option Outcome
  | .exiting o | .dead o => some o
  | _ => none

/-- the worker has not yet written a final status -/
def WPc.preFinal : WPc → Bool
  | .entry | .inTask | .prog1 _ | .prog1b _ | .prog2 _ | .prog3 _ | .ret1 _ | .ret2 _ | .stop1 _ _ | .exc1 _ _ => true
  | _ => false

end PM.C18
