/-
  C07 — model of loss channels.

  * `perceval/simulators/loss_simulator.py`
      `LossSimulator._simulate_losses_with_beam_splitters`  → `rewrite`  (list rewriting with the
        code's index arithmetic: `next_free_mode`, `r_ip`, `in_perm`, BS on `(r0, r0+1)`, inverse PERM)
      `_prepare_circuit` / `_retrieve_mode_count`             → `origM`, `expandedM`
      `_prepare_input`                                        → `prepareInput`
      `_postprocess_bsd_impl`                                 → `postprocess` (+ `marginal`)
  * `perceval/simulators/simulator_factory.py` `SimulatorFactory.build` (layer choice) → `layers`
  * `perceval/utils/density_matrix.py` `_construct_loss_operators` / `apply_loss` (diagonal) →
      `krausW2`, `annihilate`, `dmLossDiag`
  * `perceval/simulators/simulator_interface.py` `ASimulatorDecorator.set_circuit` together with
    `perceval/components/processor.py` `Processor.probs` / `_circuit_change_observer` (a long-lived
    processor or simulator queried several times while parameters change, components are added, the
    list is edited in place)                                → `Sess`, `SOp`, `sessStep`, `specStep`
  * the *specification* the property names: every loss channel is a two-mode block
    (`BS.H` of transmission `1 - loss`) coupling its mode to a fresh mode `M + (number of channels
    before it)` → `spec`, `twoMode`.

  A loss channel is known to the model by the two amplitudes `c = √(1 - loss)` (stay) and
  `s = √loss` (leave) — the numbers `cos(θ/2)`, `sin(θ/2)` of `BS.H(BS.r_to_theta(1 - loss))`.
  The amplitude-level paths (`LossSimulator.evolve`, `LC.apply`, the off-diagonal entries of
  `DensityMatrix.apply_loss`, a noisy source) are in `Model/C07SV.lean`.
  External (assumed, exercised by the correspondence): the strong-simulation backend returns the
  Fock-space probabilities `Fock.prob` of the matrix it is given (that is property C02).
-/
import PercevalModel.Found.LinAlg
import PercevalModel.Found.Perm
import PercevalModel.Found.Fock
import PercevalModel.Found.Dist
import PercevalModel.Found.Memo
import PercevalModel.Found.SM

open Matrix

namespace PM.C07

variable {R : Type}

/-- a component of the list handed to `LossSimulator.set_circuit` -/
inductive Comp (R : Type) where
  /-- `isinstance(c, ACircuit)`: a unitary component known by its own `k × k` matrix -/
  | uni (k : ℕ) (U : Matrix (Fin k) (Fin k) R)
  /-- `LC(loss)` with `c = √(1 - loss)`, `s = √loss` -/
  | lc (c s : R)

/-- `(r[0], component)` -/
abbrev Items (R : Type) := List (ℕ × Comp R)

def Comp.width : Comp R → ℕ
  | .uni k _ => k
  | .lc _ _ => 1

/-- an elementary factor of a matrix product on `N` modes -/
inductive Blk (R : Type) where
  /-- `B` on the contiguous modes `o … o+k-1` (what `Circuit.add(r, c)` produces) -/
  | emb (o k : ℕ) (B : Matrix (Fin k) (Fin k) R)
  /-- the `2 × 2` block `B` acting on the (possibly distant) modes `a` (index 0) and `b` (index 1) -/
  | two (a b : ℕ) (B : Matrix (Fin 2) (Fin 2) R)

/-- selector of the two modes `a ↦ 0`, `b ↦ 1` -/
def twoG (N a b : ℕ) (i : Fin N) : Option (Fin 2) :=
  if i.val = a then some 0 else if i.val = b then some 1 else none

/-- `B` on modes `(a, b)`, identity elsewhere -/
def twoMode [Zero R] [One R] (N a b : ℕ) (B : Matrix (Fin 2) (Fin 2) R) :
    Matrix (Fin N) (Fin N) R := place (twoG N a b) B

def Blk.mat [Zero R] [One R] (N : ℕ) : Blk R → Matrix (Fin N) (Fin N) R
  | .emb o _ B => embed N o B
  | .two a b B => twoMode N a b B

/-- `_unitary_components_to_circuit(...).compute_unitary()`: first element applied first.
Materialised between the recursive calls (executable). -/
def prodV [CommRing R] (N : ℕ) : List (Blk R) → MatV R N N
  | [] => MatV.ofMatrix 1
  | b :: rest => MatV.ofMatrix ((prodV N rest).toMatrix * b.mat N)

def prod [CommRing R] (N : ℕ) (l : List (Blk R)) : Matrix (Fin N) (Fin N) R := (prodV N l).toMatrix

/-- `BS.H(theta)` with `c = cos(θ/2)`, `s = sin(θ/2)`, no phases -/
def bsH [Neg R] (c s : R) : Matrix (Fin 2) (Fin 2) R :=
  fun i j => if i = 0 then (if j = 0 then c else s) else (if j = 0 then s else -c)

/-- `in_perm = [nfm-r0-1] + [m for m in range(1, nfm-r0-1)] + [0]` -/
def inPerm (nfm r0 : ℕ) : List ℕ :=
  (nfm - r0 - 1) :: (List.range' 1 (nfm - r0 - 2) ++ [0])

/-- the three `output.append` of the loss-channel branch, `nfm = next_free_mode`:
`if r[0] != next_free_mode - 1: output.append((r_ip, PERM(in_perm)))`, the beam splitter on
`(r0, r0+1)`, and under the same test the inverse permutation.
`r[0] != next_free_mode - 1` is written `r0 + 1 ≠ nfm` (the same test on integers).
`out_perm.inverse(h=True)` replaces the matrix of `PERM(in_perm)` by its numeric inverse; the model
uses the transpose (`Props/C07.lean: inPerm_transpose_is_inverse` shows it *is* the inverse). -/
def lcBlocks [Zero R] [One R] (nfm r0 : ℕ) (B : Matrix (Fin 2) (Fin 2) R) : List (Blk R) :=
  (if r0 + 1 ≠ nfm then [Blk.emb (r0 + 1) (nfm - r0) (permMatL (nfm - r0) (inPerm nfm r0))]
    else []) ++
  [Blk.emb r0 2 B] ++
  (if r0 + 1 ≠ nfm then [Blk.emb (r0 + 1) (nfm - r0) (permMatL (nfm - r0) (inPerm nfm r0))ᵀ]
    else [])

/-- `LossSimulator._simulate_losses_with_beam_splitters`: unitary components are copied, every
loss channel is expanded and consumes one fresh mode (`next_free_mode += 1`).
`bs = BS.H(BS.r_to_theta(1 - loss))`. -/
def rewrite [Zero R] [One R] [Neg R] : ℕ → Items R → List (Blk R)
  | _, [] => []
  | nfm, (r0, .uni k U) :: rest => .emb r0 k U :: rewrite nfm rest
  | nfm, (r0, .lc c s) :: rest => lcBlocks nfm r0 (bsH c s) ++ rewrite (nfm + 1) rest

/-- number of loss channels -/
def countLC : Items R → ℕ
  | [] => 0
  | (_, .uni _ _) :: rest => countLC rest
  | (_, .lc _ _) :: rest => countLC rest + 1

/-- `self._expanded_m = next_free_mode` after the loop -/
def expandedM (nfm : ℕ) (items : Items R) : ℕ := nfm + countLC items

/-- `_retrieve_mode_count`: `max(m for r in ranges for m in r) + 1` -/
def retrieveModeCount (items : Items R) : ℕ :=
  items.foldl (fun acc p => max acc (p.1 + p.2.width)) 0

/-- `_prepare_circuit(circuit, m)`: `m` given by a Processor, otherwise the highest mode used -/
def origM (m : Option ℕ) (items : Items R) : ℕ :=
  match m with
  | some m => m
  | none => retrieveModeCount items

/-- the specification: every channel is the two-mode block on `(r0, fresh)` where `fresh` is the
next never-used mode; unitary components are embedded where they were placed -/
def spec [Neg R] : ℕ → Items R → List (Blk R)
  | _, [] => []
  | nfm, (r0, .uni k U) :: rest => .emb r0 k U :: spec nfm rest
  | nfm, (r0, .lc c s) :: rest => .two r0 nfm (bsH c s) :: spec (nfm + 1) rest

/-- the ranges the code has accepted: unitary components inside the enlarged circuit, channels on
an already existing mode, one fresh mode available per channel -/
def WF (N : ℕ) : ℕ → Items R → Prop
  | _, [] => True
  | nfm, (r0, .uni k _) :: rest => r0 + k ≤ N ∧ WF N nfm rest
  | nfm, (r0, .lc _ _) :: rest => r0 < nfm ∧ nfm < N ∧ WF N (nfm + 1) rest

/-- the caller's view: every component lies inside the `M` original modes -/
def Fits (M : ℕ) (items : Items R) : Prop := ∀ p ∈ items, p.1 + p.2.width ≤ M

def AllUnitary [CommRing R] [StarRing R] : Items R → Prop
  | [] => True
  | (_, .uni _ U) :: rest => IsUnitary U ∧ AllUnitary rest
  | (_, .lc c s) :: rest => IsUnitary (bsH c s) ∧ AllUnitary rest

/-! ### Fock-space glue -/

/-- `_prepare_input`: `input_state * BasicState([0] * (expanded_m - original_m))` -/
def prepareInput (M N : ℕ) (s : List ℕ) : List ℕ := s ++ List.replicate (N - M) 0

/-- `_postprocess_bsd_impl`: `output[out_state[0:original_m]] += prob` — the key is truncated; the
dictionary accumulation is the meaning `Dist.get` of the association list -/
def postprocess (M : ℕ) (d : Dist.D) : Dist.D := Dist.mapKeys (List.take M) d

/-- the full distribution the inner simulator returns on the enlarged circuit (perfect source,
no filter, no heralds): all output states of the input's photon number, native order -/
def fullDist {N : ℕ} (U : Matrix (Fin N) (Fin N) GQ) (s : List ℕ) : Dist.D :=
  (Fock.allStates N s.sum).map fun t => (t, Fock.prob U s t)

/-- `LossSimulator.probs(input)` -/
def lossProbs {N : ℕ} (U : Matrix (Fin N) (Fin N) GQ) (M : ℕ) (s : List ℕ) : Dist.D :=
  postprocess M (fullDist U (prepareInput M N s))

/-- readable form: one entry per distinct reduced state, probabilities accumulated -/
def marginal (d : Dist.D) : Dist.D :=
  (d.map (·.1)).eraseDups.map fun t => (t, Dist.get d t)


/-! ### a long-lived processor / simulator queried several times

`Processor.probs()` keeps its simulator between calls (`self._simulator`) and on every later call
hands it the component list again: `self._simulator.set_circuit(self.components, self.circuit_size)`;
`ASimulatorDecorator.set_circuit` is `self._simulator.set_circuit(self._prepare_circuit(circuit, m))`
— the loss expansion (`float(c.param("loss"))`, the leaves' matrices) is redone from the *current*
values each time.  `Processor.add` notifies `_circuit_change_observer`, which drops the simulator.
Changing the value of a `Parameter` or editing a list in place notifies nobody.

`C` is what the caller holds (components with their current parameter values, the mode count), `P`
what the inner simulator was given (the prepared, enlarged circuit). -/

structure Sess (C P : Type) where
  /-- the caller's components, current values -/
  comps : C
  /-- `Processor._simulator`: `none`, or the circuit the inner simulator currently holds -/
  sim : Option P

inductive SOp (C : Type) where
  /-- `Parameter.set_value`, `lst[i] = …`, `lst.append(…)`: nobody is notified -/
  | edit (f : C → C)
  /-- `Processor.add`: `_circuit_change_observer` sets `_simulator = None` -/
  | add (f : C → C)
  /-- `Processor.probs()` / `sim.set_circuit(lst); sim.probs(…)` -/
  | query

/-- the code as it is: every query prepares the circuit again (`SimulatorFactory.build` when there
is no simulator, `set_circuit` otherwise — both end in `_prepare_circuit` of the current list);
the answer is computed from what the inner simulator holds after that -/
def sessStep {C P : Type} (prepare : C → P) (s : Sess C P) : SOp C → Sess C P × Option P
  | .edit f => ({ s with comps := f s.comps }, none)
  | .add f => ({ comps := f s.comps, sim := none }, none)
  | .query =>
    let p := match s.sim with
      | none => prepare s.comps          -- SimulatorFactory.build(self) → set_circuit
      | some _ => prepare s.comps        -- self._simulator.set_circuit(self.components, m)
    ({ s with sim := some p }, some p)

/-- a variant that keeps what it prepared "when the circuit is the same object" (the cache key sees
neither parameter values nor in-place edits); NOT the code — the negative witness in `Props` -/
def sessStepCached {C P : Type} (prepare : C → P) (s : Sess C P) : SOp C → Sess C P × Option P
  | .edit f => ({ s with comps := f s.comps }, none)
  | .add f => ({ comps := f s.comps, sim := none }, none)
  | .query =>
    let p := match s.sim with
      | none => prepare s.comps
      | some p => p
    ({ s with sim := some p }, some p)

/-- the property's reading: no memory at all, every query is answered from the current values -/
def specStep {C P : Type} (prepare : C → P) (c : C) : SOp C → C × Option P
  | .edit f => (f c, none)
  | .add f => (f c, none)
  | .query => (c, some (prepare c))

/-! ### `SimulatorFactory.build`: which layers wrap the backend (outermost last) -/

structure Kinds where
  hasLC : Bool
  hasTD : Bool
  polar : Bool
  hasFF : Bool

def layers (k : Kinds) : List String :=
  if k.hasFF then ["FFSimulator"]
  else ["Simulator"] ++ (if k.polar then ["PolarizationSimulator"] else []) ++
    (if k.hasTD then ["DelaySimulator"] else []) ++ (if k.hasLC then ["LossSimulator"] else [])

/-! ### `DensityMatrix.apply_loss` on the diagonal -/

/-- squared entry of `operators[l][·, idx]` for a state with `n` photons in the lossy mode:
`comb(n, l) * (1-p)**(n-l) * p**l` (the operator holds its square root) -/
def krausW2 (p : ℚ) (n l : ℕ) : ℚ := (n.choose l : ℚ) * (1 - p) ^ (n - l) * p ^ l

/-- `_get_annihilated_fockstate(state, mode, l)` -/
def annihilate (s : List ℕ) (mode l : ℕ) : List ℕ :=
  s.set mode (if s.getD mode 0 ≤ l then 0 else s.getD mode 0 - l)

/-- diagonal of `Σ_l K_l ρ K_lᵀ`: each basis state with `n` photons in the mode is sent to the
states with `n - l` photons there, `l = 0 … n` (`if n_photon >= n_photon_loss`), with the Kraus
weights.  (`K_l[t, s] ≠ 0` only for `s = t + l·e_mode`, so the diagonal of the result depends only on
the diagonal of `ρ`.) -/
def dmLossDiag (mode : ℕ) (p : ℚ) (d : Dist.D) : Dist.D :=
  d.flatMap fun q =>
    (List.range (q.1.getD mode 0 + 1)).map fun l =>
      (annihilate q.1 mode l, q.2 * krausW2 p (q.1.getD mode 0) l)

/-- a state with `n` photons in mode `a` and vacuum in the `a` modes before and `r` modes after -/
def single (a r n : ℕ) : List ℕ := List.replicate a 0 ++ n :: List.replicate r 0

end PM.C07
