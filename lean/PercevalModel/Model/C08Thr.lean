/-
  C08 — `simulate_detectors(dist, detectors, min_photons, prob_threshold)` with a NON-ZERO
  `prob_threshold` (`perceval/simulators/_simulate_detectors.py`,
  `BSDistribution.list_tensor_product(distributions, prob_threshold=…)` in `perceval/utils/statevector.py`).

      state_dist = BSDistribution.list_tensor_product(distributions,
              prob_threshold=max(prob_threshold, prob_threshold / (10 * p) if p > 0 else prob_threshold))

  * `list_tensor_product`: no factor ⇒ empty; ONE factor ⇒ that factor itself (the threshold is NOT applied);
    an empty factor ⇒ empty; otherwise every factor is trimmed to the entries `prob > prob_threshold`
    (strict) and `_inner_tensor_product` multiplies them out, abandoning a branch as soon as the running
    product is `< prob_threshold` (so a product EQUAL to the threshold is kept).
  * `simulate_detectors`: the all-PNR branch and the all-threshold branch never look at `prob_threshold`;
    the general branch uses, for the input state `(s, p)`, the effective threshold `teff T p`.

  `simulateRawThr minP 0 = simulateRaw minP` (`Lemmas/C08Thr.lean`): the existing model is the `T = 0` instance.
-/
import PercevalModel.Model.C08

namespace PM.C08

variable {K : Type} [Field K] [LinearOrder K]

/-- `_inner_tensor_product` with `if prob < prob_threshold: continue` -/
def innerTensorThr (T : K) : List (Dist ℕ K) → List ℕ → K → Dist (List ℕ) K → Dist (List ℕ) K
  | [], cur, p, res => bump res cur p
  | d :: rest, cur, p, res =>
    d.foldl (fun acc e =>
      if p * e.2 < T then acc else innerTensorThr T rest (cur ++ [e.1]) (p * e.2) acc) res

/-- the "easy trim": `{state: prob for state, prob in dist.items() if prob > prob_threshold}` -/
def trimThr (T : K) (d : Dist ℕ K) : Dist ℕ K := d.filter fun e => T < e.2

/-- `BSDistribution.list_tensor_product(distributions, prob_threshold=T)` on one-mode factors -/
def listTensorThr (T : K) (ds : List (Dist ℕ K)) : Dist (List ℕ) K :=
  match ds with
  | [] => []
  | [d] => d.map fun e => ([e.1], e.2)
  | _ =>
    if ds.any (·.isEmpty) then []
    else innerTensorThr T (ds.map (trimThr T)) [] 1 []

/-- `max(prob_threshold, prob_threshold / (10 * p) if p > 0 else prob_threshold)` -/
def teff (T p : K) : K := max T (if 0 < p then T / (10 * p) else T)

/-- per-mode kernels of one input state multiplied out with the threshold `T'` -/
def stateDistThr (minP T' : K) (ds : List (AnyDet K)) (s : List ℕ) : Dist (List ℕ) K :=
  listTensorThr T' (List.zipWith (fun n d => d.kernel minP n) s ds)

/-- general branch with `prob_threshold = T` -/
def simGeneralThr (minP T : K) (minPhotons : Option ℕ) (ds : List (AnyDet K))
    (dist : Dist (List ℕ) K) : Acc K :=
  dist.foldl (fun a e =>
    simState minP minPhotons e.2 (stateDistThr minP (teff T e.2) ds e.1) a) ([], 1)

/-- `(result before normalize(), phys_perf)` of `simulate_detectors(…, prob_threshold=T)` -/
def simulateRawThr (minP T : K) (dist : Dist (List ℕ) K) (ds : List (AnyDet K))
    (minPhotons : Option ℕ) : Acc K :=
  let ty := detectionType ds
  if dist.isEmpty ∨ ty = .PNR then (dist, 1)
  else if ty = .Threshold then simThreshold minPhotons dist
  else simGeneralThr minP T minPhotons ds dist

/-- `simulate_detectors(dist, detectors, min_photons, prob_threshold)` after the length assertion -/
def simulateThr (minP T : K) (dist : Dist (List ℕ) K) (ds : List (AnyDet K))
    (minPhotons : Option ℕ) : Acc K :=
  let a := simulateRawThr minP T dist ds minPhotons
  if dist.isEmpty ∨ detectionType ds = .PNR then a else (normalize a.1, a.2)

def simulateCheckedThr (minP T : K) (m : Option ℕ) (dist : Dist (List ℕ) K) (ds : List (AnyDet K))
    (minPhotons : Option ℕ) : Except String (Acc K) :=
  if m ≠ some ds.length then .error "AssertionError" else .ok (simulateThr minP T dist ds minPhotons)

end PM.C08
