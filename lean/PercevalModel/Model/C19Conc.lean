/-
  C19 (extension) — two `JobGroup` objects of one name alive at the same time (two variables in one process, or two
  processes): each object has its own `_jobs` list, loaded once by its constructor; the group file, the `job_group`
  directory and the server are shared.  No operation of `JobGroup` reads the file again after `__init__`
  (`_write_to_file` rewrites the whole file from the object's own list), so an object that acts after the other one
  wrote acts on a stale list and its next write replaces the other's work: the last writer wins.

  The model is a wrapper around the machine of `Model/C19.lean`: `cur` is the world as the object that acted last
  sees it (its memory + file + directory + server), `other` the memory of the object that is waiting (`none`: its
  constructor has not run yet; it runs — `JobGroup(name)` — when that object is first used).  An action is
  (object, operation).  `created_date` is one field of `State`: that is exact as long as every change of actor is a
  re-opening (the constructor loads the date from the file) and, without that discipline, as long as the history has
  no deletion (`wipe` / `deleteDate`): concurrent deletion is outside this model.
-/
import PercevalModel.Model.C19

namespace PM.C19.Conc

open PM.C19

abbrev Act := Bool × Op

structure Two where
  cur : State
  who : Bool
  other : Option (List Job)
  deriving Repr

/-- the other object becomes the actor: its own list replaces memory; file, directory, server stay -/
def switch (v : Variant) (t : Two) : Two :=
  match t.other with
  | some m => { cur := { t.cur with mem := m }, who := !t.who, other := some t.cur.mem }
  | none => { cur := (construct v t.cur).1, who := !t.who, other := some t.cur.mem }

def step2 (v : Variant) (t : Two) (a : Act) : Two × Out :=
  let t1 := if a.1 = t.who then t else switch v t
  let r := step v t1.cur a.2
  ({ t1 with cur := r.1 }, r.2)

/-- object `false` has just been constructed in a fresh data directory -/
def init2 (v : Variant) (dir : Bool) : Two := { cur := create v dir, who := false, other := none }

/-- the list of object `h` (`none`: not constructed yet) -/
def memOf (t : Two) (h : Bool) : Option (List Job) := if h = t.who then some t.cur.mem else t.other

def isReopen : Op → Bool
  | .reopen => true
  | _ => false

/-- the discipline "an object that takes over after the other one acted starts by re-opening the group":
`w` = the object that acted last -/
def disc : Bool → List Act → Bool
  | _, [] => true
  | w, a :: rest => (a.1 == w || isReopen a.2) && disc a.1 rest

end PM.C19.Conc
