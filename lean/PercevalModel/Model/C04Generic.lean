/-
  C04 — superposed (StateVector) inputs with heralds / post-selection / photon filter: `Simulator._probs_svd_generic`.

  After `_preprocess_svd` every member of the mixture is a superposition of annotated Fock states that all hold the
  same number of photons `n = next(iter(sv.n))`.  For every term, every annotation's group of photons is evolved by the
  backend under the herald mask instantiated with `_best_n(n, n_own)` (`_evolve_cache_with_n`; a vacuum term has
  budget 0 and is evolved without `use_mask`), the groups' state vectors are recombined by `_merge_sv` (products of
  amplitudes), multiplied by the term's coefficient and *added* into `result_sv` (equal annotated outputs interfere:
  `gatherAmps`), and `_to_bsd` squares the moduli.  At the amplitude level the mask is a filter on each group's outputs
  (`ampFilter`); numbers are kept as in `Found/SimSpec.lean` (un-normalised permanents, rescaled coefficients).

  The bookkeeping around the members — photon filter on the inputs, `physical_perf`, accumulation, `logical_perf`,
  `post_select_distribution` — is the same code as on the fast path; it is written once more over abstract members
  (`AM`: weight, photon number, the distribution the code computes, the unconditioned distribution) so that one theorem
  serves any per-member computation that is invariant under conditioning on the heralds.

  Not modelled here: the amplitude threshold of `_merge_sv` (the check drives this path at precision 0, where it is
  `1e-16 / (10 · |c|² · w)`), `_split_by_photon_count` (members with several photon numbers: C03's `splitByN`).
-/
import PercevalModel.Model.C04
import PercevalModel.Model.C04Trim

namespace PM.C04
open PM.Fock PM.Dist PM.SimSpec

/-- the outputs of a group `s` (inside a state of `nExt` photons) the backend returns under the mask in force:
a vacuum group is never masked -/
def ampFilter (c : Cfg) (nExt : ℕ) (s : Fock) (t : Fock) : Bool :=
  if s.sum = 0 then true
  else if canUseMask c && bestN (canUseMask c) (nHeralds c.heralds) nExt s.sum != 0 then
    maskOk (heraldMask c.m c.heralds) (slack c nExt s.sum) t
  else true

/-- `SimSpec.tuples` with every group's outputs restricted to what the mask keeps -/
def tuplesMasked {m : ℕ} (U : Matrix (Fin m) (Fin m) GQ) (c : Cfg) (nExt : ℕ) : List Fock → List (List Fock × GQ)
  | [] => [([], 1)]
  | s :: rest =>
    ((allStates m s.sum).filter (ampFilter c nExt s)).flatMap fun t =>
      (tuplesMasked U c nExt rest).map fun p => (t :: p.1, pamp U s t * p.2)

/-- photon number of a superposition whose terms all hold the same number of photons: `next(iter(sv.n))` -/
def svN (terms : List Term) : ℕ :=
  match terms with
  | t :: _ => (t.groups.map List.sum).sum
  | [] => 0

/-- `result_sv` of `_probs_svd_generic` for one member -/
def svAmpsMasked {m : ℕ} (U : Matrix (Fin m) (Fin m) GQ) (c : Cfg) (terms : List Term) : List (List Fock × GQ) :=
  gatherAmps (terms.flatMap fun t => (tuplesMasked U c (svN terms) t.groups).map fun p => (p.1, t.coef * p.2))

/-- `_to_bsd(result_sv)` -/
def memberGen {m : ℕ} (U : Matrix (Fin m) (Fin m) GQ) (c : Cfg) (terms : List Term) : D :=
  (svAmpsMasked U c terms).map fun p =>
    (flattenTuple m p.1, GQ.normSq p.2 / ((p.1.map prodFact).prod : ℚ) / svNorm2 terms)

/-! ### the bookkeeping of `probs_svd` over abstract members -/

/-- one member: weight, photon number, what the code computes for it, its unconditioned output distribution -/
structure AM where
  w : ℚ
  n : ℕ
  code : D
  full : D

def AM.kept (c : Cfg) (ms : List AM) : List AM := ms.filter fun a => decide (minFilter c ≤ a.n)

/-- `_preprocess_svd`: `phys_perf = 1 - Σ p` over the members below the filter -/
def AM.phys (c : Cfg) (ms : List AM) : ℚ := 1 - ((ms.filter fun a => !decide (minFilter c ≤ a.n)).map (·.w)).sum

/-- `res` before normalisation -/
def AM.res (c : Cfg) (ms : List AM) : D := mix ((AM.kept c ms).map fun a => (a.w, a.code))

/-- the unconditioned output distribution of the mixture -/
def AM.fullMix (ms : List AM) : D := mix (ms.map fun a => (a.w, a.full))

/-- `probs_svd` -/
def AM.out (c : Cfg) (ms : List AM) : Out := finishSvd c (AM.phys c ms) (AM.res c ms)

/-- a member of a mixture of superpositions -/
structure GMember where
  w : ℚ
  terms : List Term

def toAM {m : ℕ} (U : Matrix (Fin m) (Fin m) GQ) (c : Cfg) (g : GMember) : AM :=
  ⟨g.w, svN g.terms, memberGen U c g.terms, probsSV U g.terms⟩

/-- `Simulator.probs_svd` on a mixture of superpositions (generic path, no detectors / PNR detectors) -/
def probsSvdGen {m : ℕ} (U : Matrix (Fin m) (Fin m) GQ) (c : Cfg) (members : List GMember) : Out :=
  AM.out c (members.map (toAM U c))

end PM.C04
