/-
  C07 (extension) — the amplitude-level code paths around loss channels.

  * `perceval/simulators/loss_simulator.py`
      `LossSimulator.evolve` = `_postprocess_sv(self._simulator.evolve(_prepare_input(input)))`
      `_postprocess_sv_impl`: `output += probampli * out_state[0:original_m]`   → `postprocessSV`, `lossEvolve`
    (the state vector of the enlarged lossless circuit is truncated to the original modes and the
    amplitudes of *different loss patterns* that truncate to the same state are ADDED — the code as it is)
  * `perceval/components/non_unitary_components.py` `LC.apply(r, sv)` (what the `Stepper` calls for a
    component that has an `apply` method): every state with `n` photons in mode `r` becomes the `n + 1`
    states "keep `n - l`, `l` photons in one more, last, mode" with the amplitude multiplied by
    `√(C(n,l) (1-loss)^(n-l) loss^l)`                                           → `lcApply`
  * `perceval/utils/density_matrix.py` `DensityMatrix._apply_loss`: the whole matrix
    `Σ_l K_l ρ K_lᵀ` with `K_l[annihilate(t, l), t] = √(C(n_t,l) (1-p)^(n_t-l) p^l)` → `krausApply`
  * the specification the property names for it: couple the mode to a vacuum environment mode with the
    block `BS.H` (`c = √(1-p)`, `s = √p`), trace the environment out                → `dilateTrace`
  * a noisy source in front of the lossy circuit: `Processor.probs` hands the source's distribution of Fock
    inputs to `LossSimulator.probs_svd`; without annotations the result is the mixture → `lossProbsMix`

  Amplitudes are irrational (`1/√(∏ sᵢ! ∏ tⱼ!)` for Fock states, `√(binomial weight)` for the Kraus
  entries), so an amplitude is carried *formally* as a pair `(a, q)` meaning `a · √q` with `a ∈ ℚ[i]`,
  `q ∈ ℚ`, `q ≥ 0`; a vector / matrix is a list of such contributions, the value of an entry being the sum
  of its contributions.  Everything stays exact and executable; the theorems interpret `√` through any
  `RootEval` (a ring homomorphism from `ℚ[i]` and a multiplicative square-root function on `ℚ≥0`, e.g. ℂ
  with `Real.sqrt`).
-/
import PercevalModel.Model.C07
import Mathlib.Algebra.Ring.Hom.Defs

open Matrix

namespace PM.C07

/-- contributions `(state, a, q)` = amplitude `a · √q` on `state` -/
abbrev SVec := List (List ℕ × GQ × ℚ)

/-- contributions `((t, u), a, q)` = `a · √q` on the matrix entry `ρ[t, u]` -/
abbrev DMat := List ((List ℕ × List ℕ) × GQ × ℚ)

/-- the interpretation of `√`: `φ` embeds `ℚ[i]`, `σ q` is a square root of `q ≥ 0`, multiplicative on
non-negative rationals, `σ (x²) = x` for `x ≥ 0` (the non-negative root) -/
structure RootEval (K : Type) [CommRing K] where
  φ : GQ →+* K
  σ : ℚ → K
  σ_mul : ∀ x y : ℚ, 0 ≤ x → 0 ≤ y → σ (x * y) = σ x * σ y
  σ_sq : ∀ x : ℚ, 0 ≤ x → σ (x * x) = φ (GQ.ofRat x)

/-- value of a formal amplitude -/
def RootEval.eval {K : Type} [CommRing K] (E : RootEval K) (x : GQ × ℚ) : K := E.φ x.1 * E.σ x.2

/-- incoherent reading of a list of contributions: `|a|² q` per contribution -/
def sqDist (v : SVec) : Dist.D := v.map fun e => (e.1, GQ.normSq e.2.1 * e.2.2)

/-! ### `LossSimulator.evolve` -/

/-- `Simulator.evolve(BasicState)` on the enlarged matrix: amplitude `perm(U[t|s]) / √(∏ sᵢ! ∏ tⱼ!)` -/
def evolveFock {N : ℕ} (U : Matrix (Fin N) (Fin N) GQ) (s : List ℕ) : SVec :=
  (Fock.allStates N s.sum).map fun t =>
    (t, Fock.pamp U s t, 1 / ((Fock.prodFact s : ℚ) * (Fock.prodFact t : ℚ)))

/-- `Simulator.evolve(StateVector)`: linear in the input (`result_sv += evolved_in_s * probampli`) -/
def evolveSV {N : ℕ} (U : Matrix (Fin N) (Fin N) GQ) (inp : List (List ℕ × GQ)) : SVec :=
  inp.flatMap fun p => (evolveFock U p.1).map fun e => (e.1, p.2 * e.2.1, e.2.2)

/-- `_postprocess_sv_impl`: the key is truncated, the amplitudes that meet on one key are added (the
sum is the meaning of a list of contributions) -/
def postprocessSV (M : ℕ) (v : SVec) : SVec := v.map fun e => (e.1.take M, e.2)

/-- `LossSimulator.evolve(input)` before the final normalisation of the `StateVector` container -/
def lossEvolve {N : ℕ} (U : Matrix (Fin N) (Fin N) GQ) (M : ℕ) (inp : List (List ℕ × GQ)) : SVec :=
  postprocessSV M (evolveSV U (inp.map fun p => (prepareInput M N p.1, p.2)))

/-- coherent sum of the rational-radicand-one contributions on a key (used by the negative witness) -/
def coherent (v : SVec) (r : List ℕ) : GQ := ((v.filter (·.1 == r)).map (·.2.1)).sum

/-! ### `LC.apply` -/

/-- `LC.apply((r,), sv)`: one more mode at the end holding the lost photons.  Enumerated by the number `l`
of lost photons (the order of the contributions of a `StateVector` is not observable); the kept state is
`state.set_slice(r, n - l)` = `annihilate state r l`. -/
def lcApply (r : ℕ) (p : ℚ) (v : SVec) : SVec :=
  v.flatMap fun e => (List.range (e.1.getD r 0 + 1)).map fun l =>
    (annihilate e.1 r l ++ [l], e.2.1, e.2.2 * krausW2 p (e.1.getD r 0) l)

/-! ### `DensityMatrix._apply_loss`: the whole matrix -/

/-- `Σ_l K_l ρ K_lᵀ`: the entry `ρ[t, u]` feeds `ρ'[annihilate t l, annihilate u l]` for every `l` both
states can lose (`if n_photon >= n_photon_loss` on both sides), with the product of the two Kraus entries
`√w(n_t, l) · √w(n_u, l)` -/
def krausApply (mode : ℕ) (p : ℚ) (ρ : DMat) : DMat :=
  ρ.flatMap fun e =>
    (List.range (min (e.1.1.getD mode 0) (e.1.2.getD mode 0) + 1)).map fun l =>
      ((annihilate e.1.1 mode l, annihilate e.1.2 mode l), e.2.1,
        e.2.2 * (krausW2 p (e.1.1.getD mode 0) l * krausW2 p (e.1.2.getD mode 0) l))

/-- amplitude `⟨n-l, l| BS.H |n, 0⟩` of the channel's beam splitter (mode, vacuum environment):
`perm / √(n! (n-l)! l!)` with the permanent of the real block `[[c, s], [s, -c]]` -/
def dilAmp (c s : ℚ) (n l : ℕ) : GQ × ℚ :=
  (Fock.pamp (bsH (⟨c, 0⟩ : GQ) ⟨s, 0⟩) [n, 0] [n - l, l],
    1 / ((n.factorial : ℚ) * (((n - l).factorial : ℚ) * (l.factorial : ℚ))))

/-- the specification: `ρ ⊗ |0⟩⟨0|` on (modes, environment), the block `BS.H(c, s)` on (mode, environment),
environment traced out: `ρ'[t', u'] = Σ_l ⟨t', l|V|t, 0⟩ ρ[t, u] conj⟨u', l|V|u, 0⟩` -/
def dilateTrace (mode : ℕ) (c s : ℚ) (ρ : DMat) : DMat :=
  ρ.flatMap fun e =>
    (List.range (min (e.1.1.getD mode 0) (e.1.2.getD mode 0) + 1)).map fun l =>
      ((annihilate e.1.1 mode l, annihilate e.1.2 mode l),
        e.2.1 * (dilAmp c s (e.1.1.getD mode 0) l).1 * star (dilAmp c s (e.1.2.getD mode 0) l).1,
        e.2.2 * ((dilAmp c s (e.1.1.getD mode 0) l).2 * (dilAmp c s (e.1.2.getD mode 0) l).2))

/-- trace: the sum of the diagonal contributions -/
def dmTrace {K : Type} [CommRing K] (E : RootEval K) (ρ : DMat) : K :=
  ((ρ.filter fun e => e.1.1 == e.1.2).map fun e => E.eval e.2).sum

/-- every radicand is non-negative -/
def NonnegRad (ρ : DMat) : Prop := ∀ e ∈ ρ, 0 ≤ e.2.2

/-! ### a noisy source in front of the lossy circuit -/

/-- `LossSimulator.probs_svd(svd)` for a source distribution of un-annotated Fock states
(`Simulator.probs_svd`: `res[bs] += p_sv * prob`), virtual modes marginalised out -/
def lossProbsMix {N : ℕ} (U : Matrix (Fin N) (Fin N) GQ) (M : ℕ) (src : List (ℚ × List ℕ)) : Dist.D :=
  Dist.mix (src.map fun p => (p.1, lossProbs U M p.2))

/-- the source model for brightness × transmittance `e` (no multi-photon emission, no distinguishability):
every expected photon of the input is present independently with probability `e` —
`Source.probability_distribution(k)` is the `k`-fold product of `{|1⟩: e, |0⟩: 1 - e}` on one mode,
`generate_distribution` the tensor product over the modes.  Enumerated by the number `l` of missing photons
(the order of a distribution's entries is not observable): weight `C(k,l) e^(k-l) (1-e)^l`. -/
def sourceDist (e : ℚ) : List ℕ → List (ℚ × List ℕ)
  | [] => [(1, [])]
  | k :: rest =>
    (sourceDist e rest).flatMap fun q =>
      (List.range (k + 1)).map fun l => (q.1 * krausW2 (1 - e) k l, (k - l) :: q.2)

end PM.C07
