/-
  C08 — `copy()` of a detector as a model operation (`perceval/components/detector.py`: `IDetector.copy` is
  `copy.copy(self)`, a SHALLOW copy).

  The copy is a new object whose attributes are bound to the SAME values: `_cache` of the copy IS the dictionary of
  the original (a write through either object is seen by both), `_cache_min_p` is copied by value.  The two objects
  stop sharing as soon as one of them REBINDS its `_cache` attribute to a new dictionary:
    * `_sync_cache()`  — `if self._cache_min_p != min_p: self._cache = {}; self._cache_min_p = min_p`;
    * `BSLayeredPPNR.clear_cache()` — `self._cache = {}` (marker untouched).
  The memo table of `Detector._cond_probability` (`functools.cache` on the method) is keyed by `self` (components
  hash by identity): a copy starts with no entries of its own.

  Model: a small heap.  `cells` are the dictionary objects, an object is (private part, index of the dictionary its
  `_cache` is bound to, `_cache_min_p`).  The behaviour of ONE object on the dictionary it currently sees is the
  existing single-instance model (`detectInstH true` / `bsInstH true`, i.e. the repaired code that /repo contains).
-/
import PercevalModel.Model.C08Hist
import Mathlib.Logic.Function.Basic

namespace PM.C08

variable {K : Type} [Field K] [LinearOrder K]

/-- operations on the family of objects obtained from one detector by `copy()`; objects are numbered in creation
order (0 = the original).  `detect i minP n` = `obj_i.detect(n)` while `global_params['min_p'] = minP`. -/
inductive HeapOp (K : Type)
  | detect (i : ℕ) (minP : K) (n : ℕ)
  | copy (i : ℕ)
  | clear (i : ℕ)

/-- what one object sees: its private part, the dictionary `_cache` is bound to, `_cache_min_p` -/
abbrev View (M K : Type) := M × DCache K × Option K

structure Heap (M K : Type) where
  cells : ℕ → DCache K
  nCells : ℕ
  objs : ℕ → M × ℕ × Option K
  nObjs : ℕ

/-- one operation.  `det` = `detect` of one object on the view it has; `early n` = the method returns before
`_sync_cache()` (nothing is rebound or written); `m0` = private part of a new copy.
An index that names no object is answered `none` and changes nothing (the harness never sends one). -/
def heapStep {M Out : Type} (det : View M K → K × ℕ → View M K × Out) (early : ℕ → Bool) (m0 : M)
    (h : Heap M K) : HeapOp K → Heap M K × Option Out
  | .detect i p n =>
    if i < h.nObjs then
      let o := h.objs i
      let r := det (o.1, h.cells o.2.1, o.2.2) (p, n)
      if early n = true ∨ o.2.2 = some p then
        -- `_cache` stays bound to the same dictionary: a write lands in the dictionary every sharer sees
        (⟨Function.update h.cells o.2.1 r.1.2.1, h.nCells,
          Function.update h.objs i (r.1.1, o.2.1, r.1.2.2), h.nObjs⟩, some r.2)
      else
        -- `_sync_cache()` rebinds `_cache` to a NEW dictionary, which then receives the result
        (⟨Function.update h.cells h.nCells r.1.2.1, h.nCells + 1,
          Function.update h.objs i (r.1.1, h.nCells, r.1.2.2), h.nObjs⟩, some r.2)
    else (h, none)
  | .copy i =>
    if i < h.nObjs then
      (⟨h.cells, h.nCells, Function.update h.objs h.nObjs (m0, (h.objs i).2), h.nObjs + 1⟩, none)
    else (h, none)
  | .clear i =>
    if i < h.nObjs then
      (⟨Function.update h.cells h.nCells [], h.nCells + 1,
        Function.update h.objs i ((h.objs i).1, h.nCells, (h.objs i).2.2), h.nObjs⟩, none)
    else (h, none)

/-- a new detector: one object, bound to an empty dictionary, `_cache_min_p = None` -/
def Heap.init {M : Type} (m0 : M) : Heap M K := ⟨fun _ => [], 1, fun _ => (m0, 0, none), 1⟩

/-- the specification: every `detect` of an existing object answers what a FRESH detector answers at the current
`min_p`; state = number of objects -/
def heapSpec {Out : Type} (fresh : K × ℕ → Out) (k : ℕ) : HeapOp K → ℕ × Option Out
  | .detect i p n => (k, if i < k then some (fresh (p, n)) else none)
  | .copy i => (if i < k then k + 1 else k, none)
  | .clear _ => (k, none)

/-- `Detector.detect` of one object on its view (repaired code) -/
def detView (d : Det) (v : View (Memo K) K) (op : K × ℕ) : View (Memo K) K × (ℕ × DetOut K) :=
  let r := detectInstH true d ⟨⟨v.1, v.2.1⟩, v.2.2⟩ op
  ((r.1.inst.memo, r.1.inst.cache, r.1.mark), r.2)

/-- the returns of `Detector.detect` that precede `_sync_cache()` -/
def detEarly (d : Det) (n : ℕ) : Bool := decide (n < 2 ∨ d.type = .PNR ∨ d.type = .Threshold)

/-- `BSLayeredPPNR.detect` of one object on its view (repaired code) -/
def bsView (L : ℕ) (r : K) (v : View Unit K) (op : K × ℕ) : View Unit K × (ℕ × DetOut K) :=
  let o := bsInstH true L r ⟨v.2.1, v.2.2⟩ (some op)
  (((), o.1.cache, o.1.mark), o.2.getD (op.2, .state op.2))

def bsEarly (n : ℕ) : Bool := decide (n < 2)

/-- the family of copies of one `Detector` (`clear_cache` is not a method of `Detector`: the driver rejects it) -/
def detHeapStep (d : Det) : Heap (Memo K) K → HeapOp K → Heap (Memo K) K × Option (ℕ × DetOut K) :=
  heapStep (detView d) (detEarly d) []

/-- the family of copies of one `BSLayeredPPNR` -/
def bsHeapStep (L : ℕ) (r : K) : Heap Unit K → HeapOp K → Heap Unit K × Option (ℕ × DetOut K) :=
  heapStep (bsView L r) bsEarly ()

end PM.C08
