/-
  C14 (extension 2) — `Expression` objects (`perceval/utils/parameter.py: class Expression(Parameter)`) as the
  code is: the full expression language that `Expression(name, parameters)` accepts and that the repository uses
  (`+ - * /`, `**` with an integer exponent — a negative one is a division —, unary minus, the functions
  `sin cos exp sqrt acos`, the constant `pi`), an `Expression` object as a `Parameter` object (`Par`: it inherits
  `_min`, `_max`, `_periodic`, `_symbol`, `_value` and all the methods) plus the expression tree it holds in
  `_symbol`, and sessions in which raw parameters and Expression objects live side by side.

  Quirks that are modelled because the code has them:
  * `Expression.__float__` first looks at EVERY sub-parameter (`ValueError` when one has no value), then evaluates
    `self.spv`: the own `_value` when there is one (a `set_value` on the Expression object overrides the
    expression by a constant, wrapped/checked against the bounds the object got from the slots it sits in),
    `_symbol` otherwise, with the current `_value` of every sub-parameter substituted;
  * `float()` of something that is not a real number (division by zero, `sqrt`/`acos` outside their real domain)
    raises `TypeError`;
  * an Expression of Expressions (`e1 * e2`, `e1 + 2`, `-e1`, `e1 ** 2`) is built from the NAMES (the trees) of
    its operands, not from the objects: it does not see an override of an operand;
  * `is_periodic` of an Expression is `False` whatever `_periodic` holds, but `set_value` uses `_periodic`:
    `_set_parameter` (repaired rule) therefore keeps an Expression periodic on the first slot only;
  * the value of an Expression is never checked against the bounds (`__float__` does not call `_check_value`);
  * a rejected `fix_value` on an Expression drops `_symbol`: `float()` then raises `AttributeError` unless an
    older override is still there.

  The functions are NOT interpreted by the model: evaluation takes an interpretation `Interp K` (the value of
  `pi` and a partial function per function symbol) — theorems hold for every interpretation; the driver runs
  with the finite table of `math.*` values the harness supplies, `Lemmas/C14Sym.lean` instantiates it at `ℝ`.
-/
import PercevalModel.Model.C14Life
import Mathlib.Algebra.Field.Defs
import Mathlib.Algebra.Field.Rat
import Mathlib.Data.Rat.Cast.Defs

namespace PM.C14

/-- the function symbols that sympy's parser accepts and that the repository / its documentation use -/
inductive Fn1 | sin | cos | exp | sqrt | acos
deriving DecidableEq, Repr

/-- what `Expression(name, parameters)` accepts (after `sp.S(name)`) -/
inductive XExpr
  | var (x : String)
  | const (q : ℚ)
  | pi
  | add (a b : XExpr)
  | sub (a b : XExpr)
  | mul (a b : XExpr)
  | div (a b : XExpr)
  /-- `a ** n`, `n` an integer (negative: `1 / a ** |n|`) -/
  | powi (a : XExpr) (n : ℤ)
  | neg (a : XExpr)
  | app (f : Fn1) (a : XExpr)
deriving DecidableEq, Repr

/-- interpretation of the constant `pi` and of the function symbols; `none`: not a real number -/
structure Interp (K : Type*) where
  pi : K
  fn : Fn1 → K → Option K

section eval
variable {K : Type*} [Field K] [DecidableEq K]

/-- `float(expr.subs({name: value}))`: `none` when a sub-parameter has no value or the result is not a real
number (division by zero, a function outside its real domain) -/
def XExpr.eval (I : Interp K) (env : String → Option K) : XExpr → Option K
  | .var x => env x
  | .const q => some (q : K)
  | .pi => some I.pi
  | .add a b => do let x ← a.eval I env; let y ← b.eval I env; pure (x + y)
  | .sub a b => do let x ← a.eval I env; let y ← b.eval I env; pure (x - y)
  | .mul a b => do let x ← a.eval I env; let y ← b.eval I env; pure (x * y)
  | .div a b => do
      let x ← a.eval I env
      let y ← b.eval I env
      if y = 0 then none else pure (x / y)
  | .powi a n => do
      let x ← a.eval I env
      if n < 0 ∧ x = 0 then none else pure (x ^ n)
  | .neg a => do let x ← a.eval I env; pure (-x)
  | .app f a => do let x ← a.eval I env; I.fn f x

end eval

/-- the free symbols -/
def XExpr.vars : XExpr → List String
  | .var x => [x]
  | .const _ | .pi => []
  | .add a b | .sub a b | .mul a b | .div a b => a.vars ++ b.vars
  | .powi a _ | .neg a | .app _ a => a.vars

/-- `expr.subs({name: value})`: every symbol that has a value is replaced by that number -/
def XExpr.subst (σ : String → Option ℚ) : XExpr → XExpr
  | .var x => match σ x with
    | some v => .const v
    | none => .var x
  | .const q => .const q
  | .pi => .pi
  | .add a b => .add (a.subst σ) (b.subst σ)
  | .sub a b => .sub (a.subst σ) (b.subst σ)
  | .mul a b => .mul (a.subst σ) (b.subst σ)
  | .div a b => .div (a.subst σ) (b.subst σ)
  | .powi a n => .powi (a.subst σ) n
  | .neg a => .neg (a.subst σ)
  | .app f a => .app f (a.subst σ)

/-- the expression language of the first model (`Model/C14.lean`) inside the full one -/
def Expr.toX : Expr → XExpr
  | .var x => .var x
  | .const q => .const q
  | .add a b => .add a.toX b.toX
  | .sub a b => .sub a.toX b.toX
  | .mul a b => .mul a.toX b.toX
  | .div a b => .div a.toX b.toX
  | .pow a n => .powi a.toX n
  | .neg a => .neg a.toX

/-! ### Expression objects -/

/-- an `Expression` object: the inherited `Parameter` part and the tree held in `_symbol` -/
structure EObj where
  par : Par
  e : XExpr
deriving DecidableEq, Repr

/-- `Expression.__init__`: `super().__init__(name, periodic=False)` (no value, no bounds), `_symbol = sp.S(name)` -/
def EObj.init (e : XExpr) : EObj := ⟨⟨none, none, false, true, none⟩, e⟩

/-- current values of the raw parameters (`param._value`) -/
def LStore.env (st : LStore) : String → Option ℚ := fun x => (st x).bind (·.val)

/-- `Expression.defined`: every sub-parameter has a value (the own `_value` is not looked at) -/
def EObj.defined (st : LStore) (o : EObj) : Bool := o.e.vars.all fun x => (LStore.env st x).isSome

/-- `float(sympy number)`: something that is not a real number raises `TypeError` -/
def floatOfEval : Option ℚ → Exc ⊕ ℚ
  | some v => .inr v
  | none => .inl .TypeError

/-- `Expression.__float__` with the class of the exception -/
def EObj.float (I : Interp ℚ) (st : LStore) (o : EObj) : Exc ⊕ ℚ :=
  if !o.defined st then .inl .ValueError
  else match o.par.val with
    | some v => .inr v
    | none =>
      if o.par.sym then floatOfEval (o.e.eval I (LStore.env st))
      else .inl .AttributeError

/-- `spv` of an Expression object: the override as a number, else the tree with its symbols FREE (the values
of the sub-parameters are not substituted); `none`: Python's `None` -/
def EObj.spv (o : EObj) : Option XExpr :=
  match o.par.val with
  | some v => some (.const v)
  | none => if o.par.sym then some o.e else none      -- (`_symbol` is `None` after a rejected `fix_value`)

/-- `spv` of a raw parameter called `x` -/
def Par.spv (x : String) (p : Par) : XExpr :=
  match p.val with
  | some v => .const v
  | none => .var x

/-- the overloaded operators of `Parameter`, applied to Expression objects: `Expression(f"({a.name}op{b.name})",
a._params | b._params)` — a fresh object holding the tree built from the operands' trees -/
def EObj.binop (op : XExpr → XExpr → XExpr) (a b : EObj) : EObj := EObj.init (op a.e b.e)

/-- one operation on an Expression object.  `_set_parameter` consults `is_periodic`, which an Expression
answers with `False` whatever its `_periodic` flag is. -/
def estep (sound : Bool) (o : EObj) : POp → EObj × Option Exc
  | .bind lo hi per =>
    let lo' := narrowLo o.par.lo lo
    let hi' := narrowHi o.par.hi hi
    let flag := match per with
      | none => o.par.periodic
      | some b => bindPeriodic sound { o.par with periodic := false } lo hi lo' hi' (some b)
    ({ o with par := { o.par with lo := lo', hi := hi', periodic := flag } }, none)
  | op => ({ o with par := (pstep sound o.par op).1 }, (pstep sound o.par op).2)

/-! ### sessions with raw parameters and Expression objects -/

abbrev XStore := String → Option EObj

/-- raw parameters, Expression objects -/
abbrev XSt := LStore × XStore

inductive XOp
  /-- anything done to the raw parameters (`Model/C14Life.lean`) -/
  | base (op : SOp)
  /-- `Expression(...)` / an overloaded operator: a new Expression object `id` holding the tree `e` -/
  | xnew (id : String) (e : XExpr)
  /-- `set_value` / `fix_value` / `reset` / `set_periodic` / `_set_parameter` on the Expression object `id` -/
  | xpar (id : String) (op : POp)

def xstep (sound : Bool) (s : XSt) : XOp → XSt × Option Exc
  | .base op => (((sstep sound s.1 op).1, s.2), (sstep sound s.1 op).2)
  | .xnew id e => ((s.1, Function.update s.2 id (some (EObj.init e))), none)
  | .xpar id op =>
    match s.2 id with
    | none => (s, some .KeyError)
    | some o => ((s.1, Function.update s.2 id (some (estep sound o op).1)), (estep sound o op).2)

/-- the operations addressed to the raw parameters -/
def XOp.baseOps : List XOp → List SOp
  | [] => []
  | .base op :: rest => op :: XOp.baseOps rest
  | _ :: rest => XOp.baseOps rest

/-- the operations addressed to the Expression object `id` since it was (last) created -/
def XOp.objOps (id : String) : List XOp → List POp
  | [] => []
  | .xpar id' op :: rest => if id' = id then op :: XOp.objOps id rest else XOp.objOps id rest
  | _ :: rest => XOp.objOps id rest

def XOp.creates (id : String) : XOp → Bool
  | .xnew id' _ => id' = id
  | _ => false

/-- the operation overrides an Expression object by a constant (`set_value`, `fix_value`) -/
def POp.overrides : POp → Bool
  | .set _ _ => true
  | .fix _ => true
  | _ => false

/-- what a slot of a component holds -/
inductive SlotRef
  /-- a raw parameter (made from a number, or a user's object) -/
  | par (key : String)
  /-- an Expression object -/
  | ex (id : String)
  /-- a parameter made on the fly from an exact sympy NUMBER (`sp.pi/2`, the default `theta`; `HWP`, `QWP`):
  `Parameter.__init__` keeps a `sp.Expr` value as it is, unchecked; `e` is closed -/
  | lit (e : XExpr)
deriving Repr

/-- `float(component.param(slot))` -/
def slotFloat (I : Interp ℚ) (s : XSt) : SlotRef → Exc ⊕ ℚ
  | .par key => match s.1 key with
    | none => .inl .KeyError
    | some p => match p.val with
      | some v => .inr v
      | none => .inl .TypeError        -- `float(None)`
  | .ex id => match s.2 id with
    | none => .inl .KeyError
    | some o => o.float I s.1
  | .lit e => floatOfEval (e.eval I (LStore.env s.1))

/-- `component.param(slot).spv` -/
def slotSpv (s : XSt) : SlotRef → Option XExpr
  | .par key => (s.1 key).map (Par.spv key)
  | .ex id => (s.2 id).bind EObj.spv
  | .lit e => some e

end PM.C14
