/-
  C09 (extension, round 5) — from `Sampler(...).samples / sample_count / probs` to the primitive the processor
  offers and back (core Lean only).

  Modelled code:
    `Sampler._get_primitive_converter`   → `primitiveOf` (the method itself when the platform offers it, else the
                                            first offered entry of `_METHOD_MAPPING[method]` in dictionary order)
    `Sampler._create_job` (local part)   → `createDelta` (`command_param_names`, `delta_parameters`)
    `Job._handle_params`                 → `handleParams` (positional arguments, the surplus one popped into
                                            `mapping['max_samples']`, `None` entries filled from the keywords,
                                            "passed twice" / "Unused parameters" / `IndexError`)
    `Sampler._samples_wrapper`, `_probs_wrapper`  → `wrapperCall`
    `LocalJob._get_results`              → `convKwargs` (the keywords handed to the converter; for a job with
                                            iterations `res["iteration"].get(key, val)` per iteration)
  A `max_samples` / `max_shots` value is `Option Nat` (`none` = Python `None`); a dictionary entry is
  `Option (Option Nat)` (`none` = key absent).
-/
import PercevalModel.Model.C09Iter

namespace PM.C09

inductive Cmd where
  | probs | sampleCount | samples
  deriving DecidableEq, Repr

/-- `_METHOD_MAPPING[method].items()` in dictionary order -/
def fallbackOrder : Cmd → List Cmd
  | .probs => [.sampleCount, .samples]
  | .sampleCount => [.probs, .samples]
  | .samples => [.probs, .sampleCount]

/-- `_get_primitive_converter(method)[0]` for the commands `avail` of the processor -/
def primitiveOf (avail : List Cmd) (method : Cmd) : Option Cmd :=
  if avail.contains method then some method else (fallbackOrder method).find? fun k => avail.contains k

def Cmd.isProbs : Cmd → Bool
  | .probs => true
  | _ => false

/-- `Sampler.PROBS_SIMU_SAMPLE_COUNT` -/
def probsSimuCount : Nat := 10000

structure Delta where
  takesMs : Bool                     -- `command_param_names == ['max_samples']`
  cmdMs : Option (Option Nat)        -- `delta_parameters['command']['max_samples']`
  mapMs : Option (Option Nat)        -- `delta_parameters['mapping']['max_samples']`
  mapSh : Option (Option Nat)        -- `delta_parameters['mapping']['max_shots']`
  deriving DecidableEq, Repr

/-- the parameter split of `_create_job` for a sampler whose `max_shots_per_call` is `S` -/
def createDelta (method prim : Cmd) (S : Option Nat) : Delta :=
  match method.isProbs, prim.isProbs with
  | false, true => ⟨false, none, some none, some S⟩
  | true, false => ⟨true, some (some probsSimuCount), none, none⟩
  | false, false => ⟨true, some none, none, none⟩
  | true, true => ⟨false, none, none, none⟩

/-- the keywords of the user's call: `max_samples=…`, `max_shots=…`, any other keyword -/
structure Kw where
  ms : Option (Option Nat)
  sh : Option (Option Nat)
  other : Bool
  deriving DecidableEq, Repr

/-- `if len(args) > len(self._param_names): mapping['max_samples'] = args.pop()` -/
def popSurplus (d : Delta) (args : List (Option Nat)) : List (Option Nat) × Delta :=
  if (if d.takesMs then 1 else 0) < args.length then
    (args.dropLast, { d with mapMs := some (args.getLast?.getD none) })
  else (args, d)

/-- `for idx, unnamed_arg in enumerate(args): … command[param_name] = unnamed_arg` -/
def bindPositional (d : Delta) (args : List (Option Nat)) (kw : Kw) : Except String Delta :=
  match args with
  | [] => .ok d
  | a :: rest =>
    if !d.takesMs then .error "IndexError"
    else if kw.ms.isSome then .error "RuntimeError"          -- "passed twice"
    else if !rest.isEmpty then .error "IndexError"
    else .ok { d with cmdMs := some a }

def fillCmdMs (r : Delta × Kw) : Delta × Kw :=
  match r.1.cmdMs, r.2.ms with
  | some none, some v => ({ r.1 with cmdMs := some v }, { r.2 with ms := none })
  | _, _ => r

def fillMapMs (r : Delta × Kw) : Delta × Kw :=
  match r.1.mapMs, r.2.ms with
  | some none, some v => ({ r.1 with mapMs := some v }, { r.2 with ms := none })
  | _, _ => r

def fillMapSh (r : Delta × Kw) : Delta × Kw :=
  match r.1.mapSh, r.2.sh with
  | some none, some v => ({ r.1 with mapSh := some v }, { r.2 with sh := none })
  | _, _ => r

/-- `for k, v in command.items(): if v is None and k in kwargs: …; del kwargs[k]`, then the same for the mapping -/
def fillKw (d : Delta) (kw : Kw) : Delta × Kw := fillMapSh (fillMapMs (fillCmdMs (d, kw)))

/-- `Job._handle_params(args, kwargs)` -/
def handleParams (d : Delta) (args : List (Option Nat)) (kw : Kw) : Except String Delta :=
  match bindPositional (popSurplus d args).2 (popSurplus d args).1 kw with
  | .error e => .error e
  | .ok d1 =>
    let r := fillKw d1 kw
    if r.2.ms.isSome || r.2.sh.isSome || r.2.other then .error "RuntimeError"   -- "Unused parameters"
    else .ok r.1

/-- what the processor is finally asked -/
inductive Call where
  | samples (ms : Nat) (sh : Option Nat)     -- `processor.samples(ms, sh, cb)`
  | probs (sh : Option Nat)                  -- `processor.probs(None if sh is None else min(1e-6, 1/sh), cb)`
  deriving DecidableEq, Repr

/-- `_samples_wrapper(**command)` / `_probs_wrapper(**command)` -/
def wrapperCall (prim : Cmd) (d : Delta) (S : Option Nat) : Except String Call :=
  match prim with
  | .sampleCount => .error "AttributeError"       -- there is no `_sample_count_wrapper`
  | .probs => .ok (.probs S)
  | .samples =>
    match d.cmdMs.join, S with
    | none, none => .error "RuntimeError"
    | ms, _ => .ok (.samples (ms.getD samplesMax) S)

/-- does the converter from `prim` to `method` read `max_samples` / `max_shots` keywords
(`probs_to_samples`, `probs_to_sample_count` do; `samples_to_probs`, `samples_to_sample_count` take none) -/
def converterTakesKw (method prim : Cmd) : Bool := !method.isProbs && prim.isProbs

/-- the keywords the converter of one result is called with: the mapping, each entry replaced by the iteration's
own value when the iteration names it -/
def convKwargs (d : Delta) (itMs itSh : Option Nat) : Option (Option Nat) × Option (Option Nat) :=
  (d.mapMs.map fun v => match itMs with
      | some x => some x
      | none => v,
   d.mapSh.map fun v => match itSh with
      | some x => some x
      | none => v)

structure Plan where
  prim : Cmd
  converts : Bool                                       -- a converter runs (`prim ≠ method`)
  call : Option Call                                    -- the single request of a job without iteration
  iterCalls : List SCfg                                 -- the configurations of the requests of an iterated job
  final : Option SCfg
  conv : List (Option (Option Nat) × Option (Option Nat))   -- keywords of every converter call
  deriving Repr

/-- a local `Sampler` job from its creation to the converter calls.  `c` = the sampler / processor configuration
(`c.maxShots` = `max_shots_per_call`), `its` = the iterations held by the sampler when the job is created. -/
def jobPlan (avail : List Cmd) (method : Cmd) (c : SCfg) (its : List Iter) (args : List (Option Nat)) (kw : Kw) :
    Except String Plan :=
  match primitiveOf avail method with
  | none => .error "RuntimeError"
  | some prim =>
    if prim = .sampleCount then .error "AttributeError"
    else
      match handleParams (createDelta method prim c.maxShots) args kw with
      | .error e => .error e
      | .ok d =>
        let converts := decide (prim ≠ method)
        if its.isEmpty then
          match wrapperCall prim d c.maxShots with
          | .error e => .error e
          | .ok call => .ok ⟨prim, converts, some call, [], none, if converts then [convKwargs d none none] else []⟩
        else
          let conv := if converts then its.map fun it => convKwargs d it.maxSamples it.maxShots else []
          match prim with
          | .probs =>
            let (calls, cf) := probsIterate true c none its
            .ok ⟨prim, converts, none, calls, some cf, conv⟩
          | _ =>
            match samplesIterate true c none d.cmdMs.join its with
            | .error e => .error e
            | .ok (calls, cf) => .ok ⟨prim, converts, none, calls, some cf, conv⟩

/-- the number of samples the job of a sampling method finally hands back when the primitive is `probs`:
`_deduce_count(None, max_shots=…, max_samples=…)` on the converter's keywords -/
def convertedCount (kwargs : Option (Option Nat) × Option (Option Nat)) : Except String Nat :=
  deduceCount none kwargs.2.join kwargs.1.join

/-- does the converter call fail (every failure of a converter surfaces as `RuntimeError`: its own, or
"Results are not available" for the `TypeError` of an unexpected keyword) -/
def convFails (method prim : Cmd) (kwargs : Option (Option Nat) × Option (Option Nat)) : Bool :=
  if converterTakesKw method prim then
    match convertedCount kwargs with
    | .ok _ => false
    | .error _ => true
  else kwargs.1.isSome || kwargs.2.isSome

end PM.C09
