/-
  C13 — the *shape* of what the caller hands to `probs` / `probs_svd` / `evolve` of the polarisation
  layer (`polarization_simulator.py: PolarizationSimulator._prepare_input`, the statements before
  `convert_polarized_state`):

      is_svd = False
      if isinstance(input_state, SVDistribution) and len(input_state) == 1:
          is_svd = True
          temp_sv = list(input_state.keys())[0]
          if len(temp_sv) == 1:
              input_state = temp_sv[0]
      if not isinstance(input_state, BasicState):
          raise NotImplementedError(...)
      spatial_input, preprocess_matrix = convert_polarized_state(input_state)
      ...
      if is_svd:
          spatial_input = SVDistribution(spatial_input)

  Core Lean only.
-/
import PercevalModel.Model.C13

namespace PM.C13

/-- what a caller can hand over: a `BasicState`, a `StateVector` (its components; a `StateVector` is
never a `BasicState`, even with one component), an `SVDistribution` (its state vectors, each the list
of its components) -/
inductive Shape (I : Type) where
  | bs (i : I)
  | sv (comps : List I)
  | svd (svs : List (List I))

variable {C I M S O : Type}

/-- the first `if` of `_prepare_input`: `(is_svd, input_state)` after it -/
def unwrapSvd : Shape I → Bool × Shape I
  | .svd [sv] =>
    (true, match sv with
           | [i] => .bs i
           | _ => .svd [sv])
  | x => (false, x)

/-- `_prepare_input` up to the call of `convert_polarized_state`: the `BasicState` that is converted and
whether the prepared spatial input is wrapped in an `SVDistribution` again, or `NotImplementedError` -/
def dispatch (x : Shape I) : Except String (I × Bool) :=
  match (unwrapSvd x).2 with
  | .bs i => .ok (i, (unwrapSvd x).1)
  | _ => .error "NotImplementedError"

/-- the ingredients of the long-lived object with the dispatch in front of the conversion: the prepared
input carries the flag `is_svd`; the wrapped simulation sees the same spatial state either way -/
def shapeEnv (env : Env C I M S O) : Env C (Shape I) M (S × Bool) O where
  compile := env.compile
  prepare x :=
    match dispatch x with
    | .error e => .error e
    | .ok (i, w) =>
      match env.prepare i with
      | .error e => .error e
      | .ok (s, p) => .ok ((s, w), p)
  mkUnitary := env.mkUnitary
  simulate w s := env.simulate w s.1

/-- A *different* design, for contrast (not the code): the single state vector of a one-element
distribution is replaced by its first component without asking how many components it has.
`Props/C13.lean: loose_dispatch_drops_components`. -/
def dispatchLoose : Shape I → Except String (I × Bool)
  | .bs i => .ok (i, false)
  | .svd [i :: _] => .ok (i, true)
  | _ => .error "NotImplementedError"

/-- which wrapping each entry point of the wrapped simulator takes: `probs` / `evolve` a Fock state,
`probs_svd` an `SVDistribution` -/
inductive Entry where
  | probs | svd | evolve
deriving DecidableEq, Repr

def Entry.wantsWrapped : Entry → Bool
  | .svd => true
  | _ => false

end PM.C13
