/-
  C02 — the overrides of the configuration glue in `SLOSBackend` (`_slos.py`: `_reset`, `_init_mask`,
  `set_circuit`, `set_input_state`, `clear_mask`, `preprocess` / `_deploy` bookkeeping of `_state_mapping`
  and `_fsas`, and the bulk queries that zip the iterator with the coefficient vector indexed by
  `_fsas[n]`) and in `SLAPBackend` (`_slap.py`: `_fock_space`, the `mask.match` filter of `all_prob`,
  `prob_distribution`, `evolve`), AS WRITTEN, on top of the base machine `Model/C02Sess.lean`.

  A bulk answer is a list of pairs (label, value state): the state the value is filed under and the state
  whose probability / amplitude the value is (the position in the native array the number comes from).
  For `all_prob` (a bare list of numbers) the label is the value state itself.

  Not modelled: the native layers `_fsms` / `_mk_l` and the coefficient propagation (`_Path`), the SLAP kernel.
-/
import PercevalModel.Model.C02Sess

namespace PM.C02.Sess
open PM.Fock

abbrev Ans := List (List ℕ × List ℕ)

def diag (l : List (List ℕ)) : Ans := l.map fun t => (t, t)

/-- the kind of bulk query -/
inductive Q where
  | allProb (s : Option (List ℕ))
  | dist
  | evolve

inductive OpK where
  | setCircuit (m : ℕ)
  | setInput (s : List ℕ)
  | setMask (masks : List Mask) (n : Option ℕ)
  | clearMask
  | bulk (q : Q)

/-- the base class seen through the same interface: every query iterates `_get_iterator` and computes the
value of the very state it lists -/
def OpK.toBase : OpK → Op
  | .setCircuit m => .setCircuit m
  | .setInput s => .setInput s
  | .setMask ms n => .setMask ms n
  | .clearMask => .clearMask
  | .bulk (.allProb s) => .bulk s
  | .bulk _ => .bulk none

def stepB (st : St) (op : OpK) : Except String (St × Option Ans) := do
  let r ← step st op.toBase
  pure (r.1, r.2.map diag)

/-! ### SLOS -/

/-- a native `xq.FSArray(m, n[, mask])` -/
structure FSA where
  m : ℕ
  n : ℕ
  mask : Option MaskObj

def FSA.states (a : FSA) : List (List ℕ) := arrayStates a.m a.n a.mask

structure StS where
  b : St := {}
  /-- `_mask_instance_n` -/
  maskInstN : Option ℕ := none
  /-- keys of `_state_mapping` (`_path_roots` is non-empty exactly when this is) -/
  mapping : List (List ℕ) := []
  /-- `_fsas` -/
  fsas : List (ℕ × FSA) := []

/-- `_reset` -/
def resetS (x : StS) : StS :=
  { b := { x.b with mask := none, cache := [] }, maskInstN := none, mapping := [], fsas := [] }

/-- first half of `SLOSBackend._init_mask`: `if n != self._mask_instance_n: self._reset(); … = n` -/
def preInitS (x : StS) : StS :=
  match x.b.masksStr, x.b.input with
  | some _, some s =>
    if some (effN x.b.maskN s.sum) ≠ x.maskInstN then
      { resetS x with maskInstN := some (effN x.b.maskN s.sum) }
    else x
  | _, _ => x

/-- `SLOSBackend._init_mask`: then `super()._init_mask()` -/
def initMaskS (x : StS) : Except String StS :=
  match initMask (preInitS x).b with
  | .ok b' => .ok { preInitS x with b := b' }
  | .error e => .error e

def fsaGet (c : List (ℕ × FSA)) (n : ℕ) : Option FSA :=
  (c.find? fun p => p.1 == n).map Prod.snd

/-- `preprocess([s])` with `_deploy`: a new input gets a path, and `_fsas[n]` is built with the mask object
of the moment if it does not exist -/
def preprocess (x : StS) (s : List ℕ) : Except String StS :=
  if s ∈ x.mapping then .ok x
  else match x.b.circ with
    | none => .error "no-circuit"
    | some m =>
      .ok { x with
        mapping := s :: x.mapping
        fsas := match fsaGet x.fsas s.sum with
          | some _ => x.fsas
          | none => (s.sum, ⟨m, s.sum, x.b.mask⟩) :: x.fsas }

/-- `SLOSBackend.set_input_state` -/
def setInputS (x : StS) (s : List ℕ) : Except String StS :=
  match x.b.circ with
  | none => .error "no-circuit"
  | some m =>
    if m ≠ s.length then .error "size-mismatch"
    else match initMaskS { x with b := { x.b with input := some s } } with
      | .ok x1 => preprocess x1 s
      | .error e => .error e

/-- `SLOSBackend.clear_mask` -/
def clearMaskS (x : StS) : StS := resetS { x with b := clearMask x.b }

/-- `_input_path(s)` then `self._fsas[s.n]` -/
def inputFsa (x : StS) (s : List ℕ) : Except String (StS × FSA) :=
  match preprocess x s with
  | .error e => .error e
  | .ok x1 =>
    match fsaGet x1.fsas s.sum with
    | none => .error "KeyError"
    | some a => .ok (x1, a)

def stepS (x : StS) : OpK → Except String (StS × Option Ans)
  | .setCircuit m =>
    -- does NOT call the base class: the iterator cache survives when the paths are kept
    let x1 := { x with b := { x.b with input := none, circ := some m } }
    if x.mapping ≠ [] ∧ x.b.circ = some m then .ok (x1, none) else .ok (resetS x1, none)
  | .setInput s =>
    match setInputS x s with
    | .ok x' => .ok (x', none)
    | .error e => .error e
  | .setMask masks n =>
    let x1 := clearMaskS x
    match masks with
    | [] => .error "empty-masks"
    | k0 :: _ =>
      if masks.any (fun k => k.length != k0.length) then .error "inconsistent-masks"
      else match initMaskS { x1 with b := { x1.b with masksStr := some masks, maskN := n } } with
        | .ok x2 => .ok (x2, none)
        | .error e => .error e
  | .clearMask => .ok (clearMaskS x, none)
  | .bulk q =>
    let pre : Except String StS := match q with
      | .allProb (some s) => setInputS x s
      | _ => .ok x
    match pre with
    | .error e => .error e
    | .ok x1 =>
      match x1.b.input with
      | none => .error "no-input"
      | some s =>
        match inputFsa x1 s with
        | .error e => .error e
        | .ok (x2, a) =>
          match q with
          | .allProb _ => .ok (x2, some (diag a.states))
          | _ =>
            -- `zip(self._get_iterator(self._input_state), c)`: labels from the iterator, values by position
            -- in `_fsas[n]`
            let r := getIter x2.b s
            .ok ({ x2 with b := r.1 }, some (r.2.zip a.states))

/-! ### SLAP -/

structure StP where
  b : St := {}
  /-- `_fock_space` (its `m`, `n`) -/
  fock : Option (ℕ × ℕ) := none

/-- `[… for p, fs in zip(all_probs, self._fock_space) if self._mask.match(fs)]` (no filter without a mask);
`FSMask.match` = kept by the mask instantiated for `k.n` photons (nothing when the state has more) -/
def matchStates (f : ℕ × ℕ) (mask : Option MaskObj) : List (List ℕ) :=
  match mask with
  | none => allStates f.1 f.2
  | some k => (allStates f.1 f.2).filter fun t => decide (f.2 ≤ k.n) && masksOk k.masks (k.n - f.2) t

/-- `SLAPBackend.set_input_state` -/
def setInputP (x : StP) (s : List ℕ) : Except String StP :=
  match setInput x.b s with
  | .error e => .error e
  | .ok b' =>
    .ok { b := b', fock := if x.fock = some (s.length, s.sum) then x.fock else some (s.length, s.sum) }

def stepP (x : StP) : OpK → Except String (StP × Option Ans)
  | .setInput s =>
    match setInputP x s with
    | .ok x' => .ok (x', none)
    | .error e => .error e
  | .bulk q =>
    let pre : Except String StP := match q with
      | .allProb (some s) => setInputP x s
      | _ => .ok x
    match pre with
    | .error e => .error e
    | .ok x1 =>
      match x1.b.input, x1.fock with
      | some s, some f =>
        match q with
        | .dist =>
          let r := getIter x1.b s
          .ok ({ x1 with b := r.1 }, some (r.2.zip (matchStates f x1.b.mask)))
        | _ => .ok (x1, some (diag (matchStates f x1.b.mask)))
      | _, _ => .error "no-input"
  | op =>
    match step x.b op.toBase with
    | .ok r => .ok ({ x with b := r.1 }, none)
    | .error e => .error e

/-! ### sessions -/

inductive ReachableB : St → Prop where
  | init : ReachableB {}
  | step {st st' : St} {op : OpK} {out : Option Ans} :
      ReachableB st → stepB st op = .ok (st', out) → ReachableB st'

inductive ReachableS : StS → Prop where
  | init : ReachableS {}
  | step {x x' : StS} {op : OpK} {out : Option Ans} :
      ReachableS x → stepS x op = .ok (x', out) → ReachableS x'

inductive ReachableP : StP → Prop where
  | init : ReachableP {}
  | step {x x' : StP} {op : OpK} {out : Option Ans} :
      ReachableP x → stepP x op = .ok (x', out) → ReachableP x'

/-- run a session of one engine class; stops at the first exception -/
def runK {σ : Type} (stp : σ → OpK → Except String (σ × Option Ans)) :
    σ → List OpK → List (Except String (Option Ans))
  | _, [] => []
  | x, op :: ops =>
    match stp x op with
    | .ok (x', out) => .ok out :: runK stp x' ops
    | .error e => [.error e]

end PM.C02.Sess
