/-
  C12 — the parameter plumbing of `decompose_triangle` and `solve` (round 8).

  perceval/utils/algorithms/decomposition.py (decompose_triangle):

      params = component.get_parameters()
      bounds = [not x.is_periodic and x.bounds or None for x in params]
      ...
      instantiated_component = copy.deepcopy(component)
      for i, r in enumerate(res):
          substitution[params_symbols[i]] = r
          instantiated_component.get_parameters()[0].fix_value(res[i])

  `get_parameters()` lists the parameters that are NOT fixed, in the order of the component's parameter table;
  `fix_value` fixes the parameter (it is then no longer listed), so "`[0]`" is a moving index.

  perceval/utils/parameter.py:

      def _check_value(v, min_v, max_v, periodic):
          if periodic and min_v is not None and max_v is not None:
              if v > max_v:   p = int((v-max_v)/(max_v-min_v)); v = v - (p+1) * (max_v-min_v)
              elif v < min_v: p = int((min_v-v)/(max_v-min_v)); v = v + (p+1) * (max_v-min_v)
              v = min(max(v, min_v), max_v)
          if (min_v is not None and v < min_v) or (max_v is not None and v > max_v): raise ValueError(...)
          return v
      def fix_value(self, v): self._symbol = None; self._value = self._check_value(v, ...)

  perceval/utils/algorithms/solve.py: the recursion removes the first imposed parameter from `x0`, `constraint` AND
  `bounds` (`bounds[:i]+bounds[i+1:]`) before it reaches `so.minimize(f, x0, bounds=scipy_bounds)`.

  Values are rationals (the driver receives the floats exactly).  `int(·)` is applied to a positive quotient when
  `min_v < max_v`, where truncation is the floor; a periodic parameter with `max_v ≤ min_v` (division by zero / a
  negative quotient in the code) is OUTSIDE the model: `checkValue` answers `none` there and the driver rejects it.
-/
import Mathlib.Data.Rat.Floor
import PercevalModel.Model.C12Solve

namespace PM.C12.Inst

open PM.C12.Solve

/-- a `Parameter` object as `decompose_triangle` sees it -/
structure Par where
  /-- `_symbol is not None` (listed by `get_parameters()`) -/
  free : Bool
  /-- `_value` -/
  val : Option ℚ
  /-- `_min` -/
  lo : Option ℚ
  /-- `_max` -/
  hi : Option ℚ
  /-- `_periodic` -/
  periodic : Bool
  deriving DecidableEq, Repr

/-- the wrap-around of `_check_value` for a periodic parameter with both bounds -/
def wrap (v l h : ℚ) : ℚ :=
  let w := if h < v then v - ((⌊(v - h) / (h - l)⌋ : ℤ) + 1 : ℚ) * (h - l)
           else if v < l then v + ((⌊(l - v) / (h - l)⌋ : ℤ) + 1 : ℚ) * (h - l)
           else v
  min (max w l) h

/-- `Parameter._check_value`; `none` = `raise ValueError` (or the unmodelled degenerate period) -/
def checkValue (v : ℚ) (lo hi : Option ℚ) (periodic : Bool) : Option ℚ :=
  match periodic, lo, hi with
  | true, some l, some h => if l < h then some (wrap v l h) else none
  | _, _, _ =>
    if (match lo with | some l => decide (v < l) | none => false) ||
       (match hi with | some h => decide (h < v) | none => false) then none else some v

/-- `component.get_parameters()`: the parameters that are not fixed, in table order (distinct objects) -/
def getParameters (ps : List Par) : List Par := ps.filter (·.free)

/-- `p.fix_value(v)` -/
def fixValue (p : Par) (v : ℚ) : Option Par :=
  (checkValue v p.lo p.hi p.periodic).map fun w => { p with free := false, val := some w }

/-- `component.get_parameters()[0].fix_value(v)`; `none` = IndexError (nothing left to fix) or ValueError -/
def fixFirst : List Par → ℚ → Option (List Par)
  | [], _ => none
  | p :: ps, v => if p.free then (fixValue p v).map (· :: ps) else (fixFirst ps v).map (p :: ·)

/-- `for i, r in enumerate(res): instantiated_component.get_parameters()[0].fix_value(res[i])` -/
def instantiate (ps : List Par) (res : List ℚ) : Option (List Par) := res.foldlM fixFirst ps

/-- the POSITIONAL reading of that loop: the `i`-th listed parameter receives `res[i]` -/
def assign : List Par → List ℚ → Option (List Par)
  | [], [] => some []
  | [], _ :: _ => none
  | p :: ps, [] => some (p :: ps)
  | p :: ps, v :: vs =>
    if p.free then (fixValue p v).bind fun q => (assign ps vs).map (q :: ·)
    else (assign ps (v :: vs)).map (p :: ·)

/-- the cells of `ps'` at the positions where `ps` lists a free parameter -/
def atFree : List Par → List Par → List Par
  | p :: ps, q :: qs => if p.free then q :: atFree ps qs else atFree ps qs
  | _, _ => []

/-- `bounds = [not x.is_periodic and x.bounds or None for x in params]` (`x.bounds` is a 2-tuple: always truthy) -/
def boundsOf (ps : List Par) : List (Option (Option ℚ × Option ℚ)) :=
  (getParameters ps).map fun p => if p.periodic then none else some (p.lo, p.hi)

/-- the entries of `l` at the positions the constraint leaves free -/
def freeOf {γ : Type} : List γ → List (Option ℚ) → List γ
  | a :: l, none :: cs => a :: freeOf l cs
  | _ :: l, some _ :: cs => freeOf l cs
  | _, _ => []

set_option linter.unusedVariables false in
/-- what the recursion of `solve` has made of `x0` and `bounds` when it reaches the minimiser:
`solve(…, x0[:i]+x0[i+1:], constraint[:i]+constraint[i+1:], bounds[:i]+bounds[i+1:], …)` at the first imposed `i` -/
def optArgs {γ δ : Type} (x0 : List γ) (bs : List δ) (cs : List (Option ℚ)) : List γ × List δ :=
  match h : firstSome cs with
  | some (i, _) => optArgs (x0.eraseIdx i) (bs.eraseIdx i) (cs.eraseIdx i)
  | none => (x0, bs)
termination_by cs.length
decreasing_by
  have := firstSome_lt h
  rw [List.length_eraseIdx]
  simp only [this, if_true]
  omega

/-! ### which OBJECT the elimination runs on

    if not Matrix(U).is_unitary() or Matrix(U).is_symbolic(): raise ValueError(...)      # pinned code
    U = Matrix(U); if not U.is_unitary() or U.is_symbolic(): raise ValueError(...)        # repaired code

`Matrix(src)` (perceval/utils/matrix.py, `Matrix.__new__` with `use_symbolic=None`) turns a sympy matrix WITHOUT free
symbols into a numeric `MatrixN`; `MatrixS.is_symbolic()` is `True` whatever its entries.  `add_phases` reads
`iD.real` / `iD.imag`, which numpy scalars have and sympy numbers do not. -/

/-- the class of the matrix object handed to `Circuit.decomposition` -/
inductive MatClass
  /-- `MatrixN` (numpy) -/
  | numeric
  /-- `MatrixS` (sympy) whose entries are numbers -/
  | symbolicDefined
  /-- `MatrixS` with free symbols -/
  | symbolicFree
  deriving DecidableEq, Repr

/-- `Matrix(U)` -/
def MatClass.normalise : MatClass → MatClass
  | .symbolicDefined => .numeric
  | c => c

/-- `.is_symbolic()` -/
def MatClass.isSymbolic : MatClass → Bool
  | .numeric => false
  | _ => true

/-- the `is_symbolic` half of the validation test: it looks at `Matrix(U)` in both versions of the code -/
def passesSymbolicTest (c : MatClass) : Bool := !c.normalise.isSymbolic

/-- the class of the object `decompose_triangle` (and `add_phases`) work on -/
def workingClass (repaired : Bool) (c : MatClass) : MatClass := if repaired then c.normalise else c

/-- `iD.real`, `iD.imag` exist -/
def phaseLayerReadable (c : MatClass) : Bool := decide (c = .numeric)

end PM.C12.Inst
