/-
  C04 — model of the conditioning bookkeeping of `Simulator.probs_svd` (fast path: a mixture of
  annotated Fock states, PNR detection), `ISimulator.min_detected_photons_filter`,
  `Simulator._setup_heralds` / `_best_n` / `init_use_mask` / `use_mask`, `post_select_distribution`
  and `Experiment.with_input(BasicState)`.

  The engine is a parameter `eng : Fock → D` (the full output distribution of one group of
  indistinguishable photons); the native `FSMask` is `PM.Fock.maskOk`.  Dict-valued results
  (`BSDistribution`) are association lists whose meaning is `PM.Dist.get` (duplicates add up).

  Two defects of the pinned tree are repaired (fixes/C04-auto-filter-heralds.diff, fixes/C04-evolve-empty-group.diff);
  the main definitions (`autoFilter`, `mergeGroups`) are the repaired behaviour, `autoFilterUnrepaired` and
  `mergeGroupsUnrepaired` keep the old one for the regression witnesses in `Props/C04.lean`.
  A third one (fixes/C04-stale-mask-vacuum.diff: a reused simulator computed vacuum inputs under the mask of an
  earlier request) has no counterpart here: the model is a function of one request, i.e. the repaired,
  history-independent behaviour; the witnesses are corpus/C04/reuse-*.json.
  The heralds are a list in *declaration order*; every definition reads it through `List.lookup`/`sum`, and
  `Props/C04.lean` proves that the order is irrelevant.  Detectors: section "detector stage" below.

  This file is the model at `precision = 0` (no threshold bites but `min_p = 1e-16`).  The probability-trimming
  thresholds of `_preprocess_svd` and `list_tensor_product` are in `Model/C04Trim.lean`, a reused object whose selection
  changes in `Model/C04Session.lean`, superposed inputs (`_probs_svd_generic`) in `Model/C04Generic.lean`.
  "the dict is empty" is modelled as "the accumulated mass is 0".
-/
import PercevalModel.Found.SimSpec

namespace PM.C04
open PM.Fock PM.Dist PM.SimSpec

/-- one member of the input mixture: its weight and the tag groups of one annotated Fock state
(`BasicState.separate_state(keep_annotations=False)`) -/
structure Member where
  w : ℚ
  groups : List Fock

/-- `sv[0].n` — photon number of the whole (non-separated) input state -/
def Member.n (mb : Member) : ℕ := (mb.groups.map List.sum).sum

structure Cfg where
  m : ℕ
  heralds : List (ℕ × ℕ)       -- the `heralds` dict: (mode, expected count), distinct modes
  ps : PS
  userFilter : ℕ                -- value given to `set_min_detected_photons_filter`
  keepHeralds : Bool
  pnr : Bool                    -- `get_detection_type(detectors) == PNR`

/-- `Simulator.set_heralds`: `self._n_heralds = sum(heralds.values())` -/
def nHeralds (h : List (ℕ × ℕ)) : ℕ := (h.map (·.2)).sum

/-- `ISimulator.min_detected_photons_filter` (property): the user's value plus the herald photons -/
def minFilter (c : Cfg) : ℕ := c.userFilter + nHeralds c.heralds

/-- `init_use_mask`: `self._can_use_mask = self._heralds and is_pnr` (truthiness of the dict) -/
def canUseMask (c : Cfg) : Bool := !c.heralds.isEmpty && c.pnr

/-- `_setup_heralds`: one character per mode, the expected count on heralded modes, blank elsewhere -/
def heraldMask (m : ℕ) (h : List (ℕ × ℕ)) : List (Option ℕ) := (List.range m).map fun i => h.lookup i

/-- `_best_n` -/
def bestN (useMask : Bool) (H nExt nOwn : ℕ) : ℕ :=
  if useMask then min nExt (nOwn + H) else nOwn + H

/-- the slack the mask is instantiated with for a group of `nOwn` photons inside a state of `nExt` -/
def slack (c : Cfg) (nExt nOwn : ℕ) : ℕ := bestN (canUseMask c) (nHeralds c.heralds) nExt nOwn - nOwn

/-- `backend.prob_distribution()` for one group under the mask `use_mask(bestN)` installs.  (`use_mask` is
skipped when the budget is 0 — then the group is the vacuum of a vacuum input.) -/
def groupDist (eng : Fock → D) (c : Cfg) (nExt : ℕ) (s : Fock) : D :=
  if canUseMask c && bestN (canUseMask c) (nHeralds c.heralds) nExt s.sum != 0 then
    restrict (maskOk (heraldMask c.m c.heralds) (slack c nExt s.sum)) (eng s)
  else eng s

/-- `BSDistribution.list_tensor_product(…, merge_modes=True)` -/
def convAll (init : D) (ds : List D) : D := ds.foldl conv init

/-- `probs_in_s` of `_probs_svd_fast` -/
def memberDist (eng : Fock → D) (c : Cfg) (mb : Member) : D :=
  convAll [(zeros c.m, 1)] (mb.groups.map (groupDist eng c mb.n))

/-- the same without any mask: the unconditioned distribution of one member -/
def fullMember (eng : Fock → D) (m : ℕ) (mb : Member) : D :=
  convAll [(zeros m, 1)] (mb.groups.map eng)

/-- the unconditioned output distribution of the mixture (the specification's input) -/
def full (eng : Fock → D) (m : ℕ) (members : List Member) : D :=
  mix (members.map fun mb => (mb.w, fullMember eng m mb))

/-- `_preprocess_svd`: members with enough photons -/
def kept (c : Cfg) (members : List Member) : List Member :=
  members.filter fun mb => decide (minFilter c ≤ mb.n)

/-- `_preprocess_svd`: `phys_perf = 1 - Σ p` over the members below the filter -/
def physInputs (c : Cfg) (members : List Member) : ℚ :=
  1 - ((members.filter fun mb => !decide (minFilter c ≤ mb.n)).map (·.w)).sum

/-- `PostSelect.has_condition` -/
def hasCond : PS → Bool
  | .tt => false
  | _ => true

/-- the specification-side condition this configuration denotes -/
def cond (c : Cfg) : Cond :=
  { heralds := c.heralds, ps := c.ps, minPhotons := minFilter c, keepHeralds := c.keepHeralds }

/-- `post_select_distribution`: (normalised kept part with herald modes removed, `1 - Σ rejected`) -/
def postSelect (c : Cfg) (d : D) : D × ℚ :=
  if !(hasCond c.ps || !c.heralds.isEmpty) then (normalize d, 1)
  else
    (normalize (mapKeys (reported (cond c)) (restrict (logicOk (cond c)) d)),
     1 - mass (restrict (fun t => !logicOk (cond c) t) d))

structure Out where
  results : D
  phys : ℚ
  logical : ℚ

/-- `Simulator.probs_svd` (no detectors / PNR, no superposed input state) -/
def probsSvd (eng : Fock → D) (c : Cfg) (members : List Member) : Out :=
  let phys := physInputs c members
  let res := mix ((kept c members).map fun mb => (mb.w, memberDist eng c mb))
  let acc := mass res                                   -- `self._logical_perf` after the loop
  let l0 := if 0 < acc ∧ 0 < phys then acc / phys else acc
  if acc = 0 then ⟨[], phys, 0⟩                        -- `if not len(res)`
  else
    let ps := postSelect c (normalize res)
    ⟨ps.1, phys, l0 * ps.2⟩

/-! ### detector stage (`simulate_detectors`) — non-PNR detectors switch the herald mask off

A detector is described by its *kernel* `photons ↦ distribution of the reported count` (the kernels of the
interleaved pseudo-PNR detectors are C08's subject; here they are data).  `detectors[i] is None` is PNR. -/

/-- detection kernel of one mode -/
abbrev Kern := ℕ → List (ℕ × ℚ)

inductive Det where
  | none                                   -- no detector on the mode: perfect PNR
  | pnr                                    -- `Detector.pnr()`
  | thr                                    -- `Detector.threshold()`
  | table (rows : List (List (ℕ × ℚ)))     -- any other detector, kernel row per photon number
  deriving Repr

/-- `det is None or det.type == DetectionType.PNR` -/
def Det.isPnr : Det → Bool
  | .none => true
  | .pnr => true
  | _ => false

def Det.kern : Det → Kern
  | .none => fun k => [(k, 1)]
  | .pnr => fun k => [(k, 1)]
  | .thr => fun k => [(min k 1, 1)]
  | .table rows => fun k => rows.getD k []

/-- `get_detection_type(detectors) == DetectionType.PNR` (an empty / absent list is PNR) -/
def allPnr (ds : List Det) : Bool := ds.all Det.isPnr

/-- the reported counts of one state, mode by mode (`list_tensor_product` of the per-mode `detect`) -/
def detectState : List Kern → Fock → D
  | K :: Ks, a :: t => (K a).flatMap fun jq => (detectState Ks t).map fun sp => (jq.1 :: sp.1, jq.2 * sp.2)
  | _, _ => [([], 1)]

/-- the detector stage applied to a distribution of PNR outcomes -/
def detect (Ks : List Kern) (d : D) : D := d.flatMap fun tp => scale tp.2 (detectState Ks tp.1)

/-- the specification with detectors: what is conditioned is the distribution of the *detected* pattern -/
def detectedFull (eng : Fock → D) (m : ℕ) (ds : List Det) (members : List Member) : D :=
  if ds.isEmpty then full eng m members else detect (ds.map Det.kern) (full eng m members)

/-- `Simulator.probs_svd(svd, detectors)`: the mask is used iff every detector is PNR
(`init_use_mask(is_pnr)`); otherwise the engine's full distribution goes through `simulate_detectors`, which
applies the photon filter to the detected pattern, multiplies `physical_perf` by the passing fraction and
renormalises, and `post_select_distribution` works on the detected patterns. -/
def probsSvdDet (eng : Fock → D) (c : Cfg) (ds : List Det) (members : List Member) : Out :=
  let c := { c with pnr := allPnr ds }
  if allPnr ds then probsSvd eng c members
  else
    let phys := physInputs c members
    let res := mix ((kept c members).map fun mb => (mb.w, memberDist eng c mb))
    let acc := mass res
    let l0 := if 0 < acc ∧ 0 < phys then acc / phys else acc
    if acc = 0 then ⟨[], phys, 0⟩
    else
      let det := detect (ds.map Det.kern) (normalize res)
      let pass := restrict (fun t => decide (minFilter c ≤ t.sum)) det
      let phys2 := 1 - mass (restrict (fun t => !decide (minFilter c ≤ t.sum)) det)
      let ps := postSelect c (normalize pass)
      ⟨ps.1, phys * phys2, l0 * ps.2⟩

/-! ### `Experiment.with_input(BasicState)` -/

/-- the loop `for k in range(circuit_size): heralds[k] if k in heralds else input_state[idx++]`, driven by the
per-mode herald lookup -/
def interleaveM : List (Option ℕ) → Fock → Fock
  | [], _ => []
  | some d :: ms, u => d :: interleaveM ms u
  | none :: ms, a :: u => a :: interleaveM ms u
  | none :: ms, [] => 0 :: interleaveM ms []   -- unreachable: `check_input` asserts the length

def interleave (m : ℕ) (h : List (ℕ × ℕ)) (user : Fock) : Fock := interleaveM (heraldMask m h) user

/-- `AProcessor.check_min_detected_photons_filter` on a perfect source with no filter set: the default is the
photon number of the input *without* the heralded photons, `input_state.n - sum(heralds.values())`
(repaired behaviour, `fixes/C04-auto-filter-heralds.diff`) — `minFilter` adds the heralds back. -/
def autoFilter (m : ℕ) (h : List (ℕ × ℕ)) (user : Fock) : ℕ := (interleave m h user).sum - nHeralds h

/-- the unrepaired default, `input_state.n`: the heralded photons are then counted twice -/
def autoFilterUnrepaired (m : ℕ) (h : List (ℕ × ℕ)) (user : Fock) : ℕ := (interleave m h user).sum

/-! ### `Simulator._evolve_no_compute`: recombination of the groups' (masked) outputs

At the level of squared amplitudes, `_merge_sv(a, b)` is `conv a b` — except that it returns `b` when `a` is
empty.  Under the herald mask a group can have *no* compatible output, and an empty factor must empty the
product. -/

/-- repaired loop (`fixes/C04-evolve-empty-group.diff`): stop as soon as the accumulated product is empty -/
def mergeGroups : List D → D
  | [] => []
  | d :: ds => ds.foldl (fun acc x => if acc.isEmpty then acc else conv acc x) d

/-- the unrepaired loop: `_merge_sv` treats an empty accumulated product as the neutral element -/
def mergeGroupsUnrepaired : List D → D
  | [] => []
  | d :: ds => ds.foldl (fun acc x => if acc.isEmpty then x else conv acc x) d

/-- positional removal of the masked modes (`BasicState.remove_modes(list(heralds.keys()))`) -/
def removeM : List (Option ℕ) → Fock → Fock
  | some _ :: ms, _ :: t => removeM ms t
  | none :: ms, a :: t => a :: removeM ms t
  | [], t => t
  | _, [] => []

/-- number of free (non-heralded) modes -/
def freeModes (mask : List (Option ℕ)) : ℕ := (mask.filter Option.isNone).length

/-- total of the expected counts written in a mask -/
def maskTotal (mask : List (Option ℕ)) : ℕ := (mask.map fun o => o.getD 0).sum

end PM.C04
