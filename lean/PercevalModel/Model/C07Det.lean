/-
  C07 (extension 5) — detectors together with loss channels.

  * `perceval/simulators/loss_simulator.py` `LossSimulator._prepare_detectors_impl`:
        return detectors + [None] * (self._expanded_m - self._original_m)              → `padDetectors`
    (reached through `ASimulatorDecorator.probs_svd(svd, detectors=...)`; `_prepare_detectors` hands `None` on)
  * `perceval/components/detector.py` `get_detection_type` (first type wins, any other type → Mixed, an empty list
    or `None` entries are PNR) → `detType`; `Detector.detect` for PNR / threshold (`n < 2 → n`, else one click) and a
    partially resolving detector as the table of its rows → `DetK.kern`
  * `perceval/simulators/_simulate_detectors.py` `simulate_detectors(dist, detectors, min_photons, …)`, general
    branch: per state the tensor product over the modes of `detector.detect(photons_in_mode)` (`None`: the photon
    number itself), weighted by the state's probability; `s_out.n < min_photons` → `phys_perf -= p * p_out`;
    `result.normalize()`; PNR list (or empty distribution): returned unchanged, the filter is NOT applied
        → `detState`, `detectAll`, `simDetectors`
    The all-threshold branch cannot be reached below a loss layer (`padded_detection_type` in `Props/C07.lean`:
    the padded list contains a `None`, hence is PNR or Mixed), so it is not modelled.
  * `perceval/simulators/simulator.py` `Simulator.probs_svd` of the INNER simulator on the enlarged circuit (perfect
    source, one Fock input): input dropped by the forwarded filter, otherwise the enlarged distribution,
    `simulate_detectors(res, padded, self.min_detected_photons_filter, …)` — the inner filter (the caller's value
    without the heralds, which are not forwarded) counts the photons of the ENLARGED detected state, lost ones
    included — then `post_select_distribution` (nothing to select: normalises), then the outer
    `_postprocess_bsd` (`lossPost`).                                                       → `lossDetSvd`
-/
import PercevalModel.Model.C07Sel

namespace PM.C07
open PM.SimSpec

/-- a detector as a per-mode kernel: photons arriving ↦ list of (detected count, probability) -/
abbrev Kern := ℕ → List (ℕ × ℚ)

/-- the detector a mode carries: `None`, a PNR detector, a threshold detector, or a partially resolving one given
by its rows (`rows[n]` = what `detect(n)` returns for `n ≥ 2`; the table is finite: a photon number beyond it is
never read — the driver rejects such a request — and is given the perfect row so that the kernel stays total) -/
inductive DetK
  | none
  | pnr
  | thr
  | ppnr (rows : List (List (ℕ × ℚ)))

inductive DType
  | pnr | thr | ppnr | mixed
  deriving DecidableEq, Repr

/-- `DetectionType.PNR if det is None else det.type` -/
def DetK.type : DetK → DType
  | .none => .pnr
  | .pnr => .pnr
  | .thr => .thr
  | .ppnr _ => .ppnr

/-- `get_detection_type` -/
def detType : List DetK → DType
  | [] => .pnr
  | d :: ds => if ds.all (fun e => decide (e.type = d.type)) then d.type else .mixed

/-- `detector.detect(n)` (`None`: `BasicState([n])`) -/
def DetK.kern : DetK → Kern
  | .none, n => [(n, 1)]
  | .pnr, n => [(n, 1)]
  | .thr, n => [(if n < 2 then n else 1, 1)]
  | .ppnr rows, n => if n < 2 then [(n, 1)] else rows.getD n [(n, 1)]

/-- `_prepare_detectors_impl` -/
def padDetectors (M N : ℕ) (ds : List DetK) : List DetK := ds ++ List.replicate (N - M) DetK.none

/-- `BSDistribution.list_tensor_product` of the per-mode detections of one state (`zip` stops at the shorter) -/
def detState : List Kern → List ℕ → Dist.D
  | k :: ks, n :: s => (k n).flatMap fun cq => (detState ks s).map fun tr => (cq.1 :: tr.1, cq.2 * tr.2)
  | _, _ => [([], 1)]

/-- the loop of `simulate_detectors`: `result.add(s_out, p * p_out)` (the accumulation is `Dist.get`) -/
def detectAll (ks : List Kern) (d : Dist.D) : Dist.D :=
  d.flatMap fun sp => Dist.scale sp.2 (detState ks sp.1)

/-- `simulate_detectors(dist, detectors, min_photons = f)` → (distribution, phys_perf) -/
def simDetectors (ds : List DetK) (f : ℕ) (d : Dist.D) : Dist.D × ℚ :=
  if d.isEmpty || decide (detType ds = .pnr) then (d, 1)
  else
    let x := detectAll (ds.map DetK.kern) d
    (Dist.normalize (Dist.restrict (fun t => decide (f ≤ t.sum)) x),
      1 - Dist.mass (Dist.restrict (fun t => decide (t.sum < f)) x))

/-- `LossSimulator.probs_svd({input: 1}, detectors = ds)` with a selection → (results, logical_perf, physical_perf) -/
def lossDetSvd {N : ℕ} (σ : Sel) (ds : List DetK) (U : Matrix (Fin N) (Fin N) GQ) (M : ℕ) (s : List ℕ) :
    Dist.D × ℚ × ℚ :=
  if s.sum < σ.minDet then
    let r := lossPost σ M []
    (r.1, 0 * r.2.1, 0 * r.2.2)
  else
    let sd := simDetectors (padDetectors M N ds) σ.minDet (fullDist U (prepareInput M N s))
    let r := lossPost σ M (Dist.normalize sd.1)
    (r.1, r.2.1, sd.2 * r.2.2)

/-- the property's reading: the detectors look at the ORIGINAL modes of the marginal distribution -/
def detectMarginal {N : ℕ} (ds : List DetK) (U : Matrix (Fin N) (Fin N) GQ) (M : ℕ) (s : List ℕ) : Dist.D :=
  detectAll (ds.map DetK.kern) (lossProbs U M s)

end PM.C07
