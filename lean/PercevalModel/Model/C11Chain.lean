/-
  C11 — histories of transformations applied one after the other to ONE circuit object
  (`c.inverse(h=True); d = c.copy(); d.inverse(v=True); Processor.add(0, d).linear_circuit(flatten=True)` …).

  The single transformations are `Model/C11.lean` (`Its.inv`, `flattenExp`) and `Model/C11Deep.lean` (`copy`: one new
  object per occurrence; the tree the copy denotes is the tree of the original, `OCmp.copy_erase`).  Here: the
  component list after a whole history, and the matrix law of a whole history (the composition of the laws of the
  steps).  `simplify`, `decompose_perms` and `non_unitary_circuit()` rebuild the component list from matrices /
  permutation vectors (`Model/C11Lists.lean`, `Model/C11Regroup.lean`); in a history they are steps whose law is the
  identity, and the correspondence reads the rebuilt list back before it goes on (see `harness/c11.py`, family `chain`).
-/
import PercevalModel.Model.C11

open Matrix

namespace PM.C11
variable {R : Type}

/-- a `(first port, component)` list as the component list of a circuit -/
def Its.ofList : List (ℕ × Cmp R) → Its R
  | [] => .nil
  | (o, c) :: rest => .cons o c (Its.ofList rest)

/-- one transformation of a circuit object -/
inductive Step where
  /-- `inverse(v, h)`, in place -/
  | inv (v h : Bool)
  /-- `copy()` / `Processor.copy()`: work goes on with the copy -/
  | copy
  /-- `Processor.flatten(max_depth)` / `linear_circuit(flatten=True)`: work goes on with the flattened list -/
  | flat (depth : Option ℕ)
deriving Repr

/-- the component list of a circuit of size `m` after one step (repaired code) -/
def Step.apply [Neg R] [Star R] (m : ℕ) : Step → Its R → Its R
  | .inv v h, its => its.inv true v h m
  | .copy, its => its
  | .flat d, its => Its.ofList (flattenExp true d its)

/-- … after a history of steps (first element first) -/
def chain [Neg R] [Star R] (m : ℕ) (steps : List Step) (its : Its R) : Its R :=
  steps.foldl (fun t s => s.apply m t) its

/-- the advertised effect of one step on the matrix -/
def Step.law [Star R] {n : ℕ} : Step → Matrix (Fin n) (Fin n) R → Matrix (Fin n) (Fin n) R
  | .inv v h, M => xform v h M
  | .copy, M => M
  | .flat _, M => M

/-- the advertised effect of a history: the laws of its steps, composed in order -/
def law [Star R] {n : ℕ} (steps : List Step) (M : Matrix (Fin n) (Fin n) R) : Matrix (Fin n) (Fin n) R :=
  steps.foldl (fun M s => s.law M) M

/-- the same on a component of any kind (a lone leaf: `flat` does nothing) -/
def Step.applyCmp [Neg R] [Star R] : Step → Cmp R → Cmp R
  | s, .circ m its => .circ m (s.apply m its)
  | .inv v h, .leaf l => .leaf (l.inv true v h)
  | _, .leaf l => .leaf l

def chainCmp [Neg R] [Star R] (steps : List Step) (c : Cmp R) : Cmp R :=
  steps.foldl (fun t s => s.applyCmp t) c

end PM.C11
