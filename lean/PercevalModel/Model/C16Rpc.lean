/-
  C16 (extension, round 5) — one level down the network stack: the HTTP requests `RPCHandler` emits.

  `perceval/runtime/rpc_handler.py`:

  * `RPCHandler.__init__(name, url, token, proxies)`: `headers = {'Authorization': f'Bearer {token}'}` (the
    f-string prints `None` for a missing token), `request_timeout = 10`;
  * `build_endpoint(endpoint, *args)` = `f'{url}/{endpoint.strip("/")}{endpath}'` with `endpath` = `'/' + '/'.join(
    str(x).strip('/') for x in args)` when there are args (a base URL that ends with `/` gives `//` — as the code is);
  * `fetch_platform_details()`: ONE `requests.get(build_endpoint('/api/platform/', quote_plus(name)), headers,
    timeout, proxies)` — run by every `RemoteProcessor.__init__` (`fetch_data`);
  * `create_job(payload)`: ONE `requests.post(build_endpoint('/api/job'), headers, json=payload, timeout, proxies)`;
    `json_res = request.json()` (`{'error': str(e)}` when the body is not JSON); status ≠ 200 →
    `HTTPError(json_res.get('error', 'Unspecified error'))`; else `json_res['job_id']`.  No retry, no second request.
  * `RemoteJob.execute_async`: `self._id = rpc_handler.create_job(serialize(self._create_payload_data(...)))`; any
    exception marks the job as failed and is re-raised as it is.

  The transport under `requests` is a parameter of every request (`Wire`): answered with a status code and a body,
  answer never read (read time-out: the platform may have taken the request), not delivered (connection error /
  connection time-out).  The machine `rstep` is the session machine `Model/C16.step` plus the handler and the list
  of HTTP requests the client has emitted; what `step` calls `Net` is DERIVED from the wire (`Wire.net`).

  Texts (URLs, names, tokens) are lists of characters (core Lean only).
-/
import PercevalModel.Model.C16

namespace PM.C16

abbrev Text := List Char

/-! ### `build_endpoint`, `quote_plus` -/

/-- `s.strip('/')` -/
def stripSlash (s : Text) : Text :=
  ((s.dropWhile (· == '/')).reverse.dropWhile (· == '/')).reverse

/-- `'/'.join(parts)` -/
def joinSlash : List Text → Text
  | [] => []
  | [a] => a
  | a :: b :: t => a ++ '/' :: joinSlash (b :: t)

/-- `RPCHandler.build_endpoint(endpoint, *args)` -/
def buildEndpoint (url endpoint : Text) (args : List Text) : Text :=
  url ++ '/' :: stripSlash endpoint ++
    (if args.isEmpty then [] else '/' :: joinSlash (args.map stripSlash))

def hexChars : List Char := ['0', '1', '2', '3', '4', '5', '6', '7', '8', '9', 'A', 'B', 'C', 'D', 'E', 'F']

def hexDigit (n : Nat) : Char := hexChars.getD n '0'

/-- `'%{:02X}'.format(b)` -/
def pctByte (b : Nat) : Text := ['%', hexDigit (b / 16 % 16), hexDigit (b % 16)]

/-- urllib's `_ALWAYS_SAFE`: ASCII letters, digits, `_.-~` -/
def isUnreserved (c : Char) : Bool := c.isAlphanum || c == '_' || c == '.' || c == '-' || c == '~'

/-- one character under `urllib.parse.quote_plus(s)` (`safe=''`): kept, a space becomes `+`, every other character
is UTF-8 encoded and each byte percent-escaped -/
def quoteChar (c : Char) : Text :=
  if isUnreserved c then [c]
  else if c == ' ' then ['+']
  else (String.utf8EncodeChar c).flatMap fun b => pctByte b.toNat

def quotePlus (s : Text) : Text := s.flatMap quoteChar

def apiPlatform : Text := ['/', 'a', 'p', 'i', '/', 'p', 'l', 'a', 't', 'f', 'o', 'r', 'm', '/']
def apiJob : Text := ['/', 'a', 'p', 'i', '/', 'j', 'o', 'b']

/-! ### the handler and its requests -/

/-- what `RPCHandler.__init__` stores (`proxies`: the user's dictionary, a symbol) -/
structure Handler where
  name : Text
  url : Text
  token : Option Text
  proxies : Option Nat
  timeout : Nat                  -- `request_timeout` (10 unless the user assigns it)
deriving DecidableEq, Repr

/-- `f'Bearer {token}'` -/
def Handler.auth (h : Handler) : Text :=
  ['B', 'e', 'a', 'r', 'e', 'r', ' '] ++ (match h.token with | some t => t | none => ['N', 'o', 'n', 'e'])

inductive Verb where
  | get | post
deriving DecidableEq, Repr

/-- the JSON document of a job creation: `_request_data` after `_create_payload_data` -/
structure Body where
  platform : Text                -- `platform_name` (written by `prepare_job_payload` from the handler's name)
  sent : Sent                    -- `job_name`, `payload` (iterator included)
deriving DecidableEq, Repr

structure HttpReq where
  verb : Verb
  url : Text
  auth : Text                    -- the `Authorization` header
  timeout : Nat
  proxies : Option Nat
  body : Option Body
deriving DecidableEq, Repr

def fetchReq (h : Handler) : HttpReq :=
  ⟨.get, buildEndpoint h.url apiPlatform [quotePlus h.name], h.auth, h.timeout, h.proxies, none⟩

def postReq (h : Handler) (s : Sent) : HttpReq :=
  ⟨.post, buildEndpoint h.url apiJob [], h.auth, h.timeout, h.proxies, some ⟨h.name, s⟩⟩

/-! ### the transport, and what `create_job` makes of the answer -/

/-- the body of an answer, as far as `create_job` looks at it -/
inductive Reply where
  | obj (jobId : Option Text) (error : Option Text)   -- a JSON object (with / without `job_id`, `error`)
  | notJson                                           -- `request.json()` raises
  | list                                              -- valid JSON that is not an object
deriving DecidableEq, Repr

/-- what the transport does to ONE request -/
inductive Wire where
  | answer (code : Nat) (r : Reply)
  | readTimeout                  -- delivered, the answer never arrives (`requests.exceptions.ReadTimeout`)
  | connectionError              -- not delivered (`requests.exceptions.ConnectionError`)
  | connectTimeout               -- not delivered (`requests.exceptions.ConnectTimeout`)
deriving DecidableEq, Repr

def unspecified : Text := "Unspecified error".toList
def keyJobId : Text := "'job_id'".toList

/-- `RPCHandler.create_job` after its single `requests.post`: the job id, or the exception (class name, message when
the code determines it) -/
def createJobResult : Wire → Except (String × Option Text) Text
  | .readTimeout => .error ("ReadTimeout", none)
  | .connectionError => .error ("ConnectionError", none)
  | .connectTimeout => .error ("ConnectTimeout", none)
  | .answer code r =>
    if code ≠ 200 then
      match r with
      | .obj _ (some e) => .error ("HTTPError", some e)
      | .obj _ none => .error ("HTTPError", some unspecified)
      | .notJson => .error ("HTTPError", none)          -- the message is the JSON decoder's
      | .list => .error ("AttributeError", none)        -- `list.get`
    else
      match r with
      | .obj (some id) _ => .ok id
      | .obj none _ => .error ("KeyError", some keyJobId)
      | .notJson => .error ("KeyError", some keyJobId)   -- `{'error': …}['job_id']`
      | .list => .error ("TypeError", none)

/-- the platform took the request (a 2xx answer) or may have (the answer was never read) -/
def Wire.accepted : Wire → Bool
  | .answer code _ => decide (200 ≤ code) && decide (code < 300)
  | .readTimeout => true
  | .connectionError => false
  | .connectTimeout => false

/-- the session machine's view of the network -/
def Wire.net (w : Wire) : Net :=
  match createJobResult w with
  | .ok _ => .ok
  | .error _ => if w.accepted then .lost else .down

/-! ### the machine -/

/-- one emitted request and what the transport did to it (`none`: the platform-details request, answered with the
platform's specs — the `Platform` of the session) -/
structure Exchange where
  req : HttpReq
  wire : Option Wire
deriving DecidableEq, Repr

structure RWorld where
  w : World
  h : Handler
  http : List Exchange
deriving DecidableEq, Repr

/-- a call, and what the transport will do to the job-creation request if the call emits one (the `Net` inside an
`execute` is ignored: it is derived from the wire) -/
abbrev ROp := Op × Wire

def ROp.toOp (o : ROp) : Op :=
  match o.1 with
  | .execute idx args kw _ => .execute idx args kw o.2.net
  | op => op

inductive ROut where
  | plain (o : Out)                                   -- as the session machine: no job-creation request emitted
  | sent (id : Text) (s : Sent)                       -- POST emitted, `create_job` returned the id
  | raised (cls : String) (msg : Option Text) (s : Sent)   -- POST emitted, `create_job` raised
deriving DecidableEq, Repr

/-- the client-side part of `execute_async`, before anything is emitted -/
inductive Prep where
  | noJob
  | notFresh
  | refused (jobs : List (Job × List (Dict IV))) (err : Err)
  | ready (jobs : List (Job × List (Dict IV))) (s : Sent)
deriving DecidableEq, Repr

def execPrep (w : World) (idx : Nat) (args : List PV) (kw : Dict PV) : Prep :=
  match w.jobs[idx]? with
  | none => .noJob
  | some (j, its) =>
    if !j.fresh then .notFresh
    else
      let jobs' := w.jobs.set idx ({ j with fresh := false }, its)
      match createPayloadData j args kw with
      | .error err => .refused jobs' err
      | .ok pl => .ready jobs' ⟨j.jobName, pl, its⟩

/-- calls that construct a `RemoteProcessor` (`__init__` runs `fetch_data`), whatever happens afterwards -/
def Op.fetches : Op → Bool
  | .newRemote _ m _ _ _ => m != 0
  | .convert _ p => decide p.WF
  | _ => false

def rstep (rw : RWorld) (o : ROp) : RWorld × ROut :=
  match o.1 with
  | .execute idx args kw _ =>
    match execPrep rw.w idx args kw with
    | .noJob => (rw, .plain (.err .precondition))
    | .notFresh => (rw, .plain (.err .assertion))
    | .refused jobs' err => ({ rw with w := { rw.w with jobs := jobs' } }, .plain (.err err))
    | .ready jobs' s =>
      ({ rw with w := { rw.w with jobs := jobs', log := rw.w.log ++ received o.2.net s },
                 http := rw.http ++ [⟨postReq rw.h s, some o.2⟩] },
       match createJobResult o.2 with
       | .ok id => .sent id s
       | .error (cls, msg) => .raised cls msg s)
  | op =>
    let r := step rw.w op
    ({ rw with w := r.1, http := rw.http ++ (if op.fetches then [⟨fetchReq rw.h, none⟩] else []) }, .plain r.2)

def RWorld.init (pf : Platform) (h : Handler) : RWorld := ⟨World.init pf, h, []⟩

/-- what the session machine reports for the same call -/
def ROut.abs (wire : Wire) : ROut → Out
  | .plain o => o
  | .sent _ s => .sent s
  | .raised _ _ s => if wire.accepted then .lost s else .err .transport

/-- the job-creation requests among the emitted ones -/
def posts (l : List Exchange) : List Exchange := l.filter fun x => x.req.verb == .post

/-- the POST an output stands for -/
def ROut.post (h : Handler) (wire : Wire) : ROut → List Exchange
  | .plain _ => []
  | .sent _ s => [⟨postReq h s, some wire⟩]
  | .raised _ _ s => [⟨postReq h s, some wire⟩]

end PM.C16
