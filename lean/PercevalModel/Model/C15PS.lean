/-
  C15 (part "PS") — the text format of `perceval.utils.PostSelect` (= native `exqalibur.PostSelect`).
  Core Lean only.

  `serialize(ps)` writes `":PCVL:PostSelect:" ++ str(ps)`; `deserialize_postselect(text)` is
  `PostSelect(text)`.  Printer and parser are native black boxes; this file is a hand-written model of
  both, obtained by probing (the correspondence harness `harness/c15_ps.py` compares them on every
  run, character by character for the printer, and on user / mutated text for the parser).

  * `print false` is the printer as found: a negation is written `! x` *without* parentheses.
  * `print true` is the repaired writer of `fixes/C15-postselect-not-parens.diff`: every negation is
    written `(! x)`.
  * `parse` models the native parser on the symbol syntax
        top     := blanks-only (= empty PostSelect)  |  seq  END
        seq     := '!' seq                                     -- NO continuation after it
                 | operand ( bop operand )*                    -- all `bop` of one seq are the same;
                                                               -- a different one ends the seq
        operand := '(' seq ')'  |  '!' seq  |  '[' num (',' num)* ']' cmp num
    (`!` captures the whole rest of the current sequence).  A sequence of one operand is that
    operand.  Mode lists are sorted, duplicates rejected; every number must be `< 2^31`
    (`2^31 ≤ n < 2^32` wraps to a negative `int` in the native code and is refused, `≥ 2^32` does not
    parse).  Leading zeros are ignored.  White space (C `isspace`) separates tokens but may not
    occur inside `== != <= >=` or inside a number.  A text consisting of U+0020 only is the empty
    PostSelect; any other text without a token (e.g. a single TAB) is rejected by the native parser.
    NOT modelled (the model rejects, the native accepts): the keywords `and AND or OR xor XOR NOT`.
-/
namespace PM.C15.PS

abbrev Text := List Char

inductive Cmp | eq | ne | lt | le | gt | ge
  deriving DecidableEq, Repr, Inhabited

inductive BOp | and | or | xor
  deriving DecidableEq, Repr, Inhabited

mutual
  /-- abstract syntax of a PostSelect (the native tree: conditions, negation, n-ary nodes that are
      never flattened) -/
  inductive Expr
    | cond (modes : List Nat) (c : Cmp) (n : Nat)
    | not (x : Expr)
    | nary (op : BOp) (args : Args)
    deriving DecidableEq, Repr
  inductive Args
    | nil
    | cons (x : Expr) (rest : Args)
    deriving DecidableEq, Repr
end

def Args.toList : Args → List Expr
  | .nil => []
  | .cons x r => x :: r.toList

def Args.ofList : List Expr → Args
  | [] => .nil
  | x :: r => .cons x (Args.ofList r)

def Args.length : Args → Nat
  | .nil => 0
  | .cons _ r => r.length + 1

def Expr.isNot : Expr → Bool
  | .not _ => true
  | _ => false

/-- exclusive bound of every number of the text format (`int` of the native code) -/
def bound : Nat := 2147483648

/-! ## semantics -/

def Cmp.test : Cmp → Nat → Nat → Bool
  | .eq, a, b => a == b
  | .ne, a, b => a != b
  | .lt, a, b => decide (a < b)
  | .le, a, b => decide (a ≤ b)
  | .gt, a, b => decide (b < a)
  | .ge, a, b => decide (b ≤ a)

/-- photons counted in the listed modes.  A mode beyond the state counts 0 here; the native code reads past the
    state instead (observed: a truth value that changes from call to call), so the correspondence only uses states at
    least as wide as the largest mode index of the expression. -/
def sumModes (st : List Nat) : List Nat → Nat
  | [] => 0
  | m :: ms => st.getD m 0 + sumModes st ms

def parity : List Bool → Bool
  | [] => false
  | b :: r => b != parity r

/-- `&` = all, `|` = any, `^` = odd number of true operands -/
def BOp.fold : BOp → List Bool → Bool
  | .and, l => l.all id
  | .or, l => l.any id
  | .xor, l => parity l

mutual
  /-- `ps(state)`; the state is the list of photon counts per mode -/
  def eval : Expr → List Nat → Bool
    | .cond ms c n, st => c.test (sumModes st ms) n
    | .not x, st => !(eval x st)
    | .nary o as, st => o.fold (evalArgs as st)
  def evalArgs : Args → List Nat → List Bool
    | .nil, _ => []
    | .cons x r, st => eval x st :: evalArgs r st
end

/-- the empty PostSelect accepts every state -/
def evalTop : Option Expr → List Nat → Bool
  | none, _ => true
  | some x, st => eval x st

/-! ## well-formedness -/

def incFrom (a : Nat) : List Nat → Bool
  | [] => true
  | b :: r => decide (a < b) && incFrom b r

/-- non-empty, strictly increasing -/
def strictInc : List Nat → Bool
  | [] => false
  | a :: r => incFrom a r

mutual
  def Expr.wfb : Expr → Bool
    | .cond ms _ n => strictInc ms && ms.all (· < bound) && decide (n < bound)
    | .not x => x.wfb
    | .nary _ as => decide (2 ≤ as.length) && as.wfb
  def Args.wfb : Args → Bool
    | .nil => true
    | .cons x r => x.wfb && r.wfb
end

/-- what the native tree always satisfies: mode lists non-empty, strictly increasing, every number
    below `bound`, every n-ary node (at every depth) has at least two operands -/
def Expr.WF (x : Expr) : Prop := x.wfb = true

instance (x : Expr) : Decidable x.WF := inferInstanceAs (Decidable (x.wfb = true))

mutual
  def Expr.nlfb : Expr → Bool
    | .cond .. => true
    | .not x => x.nlfb
    | .nary _ as => as.nlfb
  /-- every operand but the last is not a negation -/
  def Args.nlfb : Args → Bool
    | .nil => true
    | .cons x .nil => x.nlfb
    | .cons x (.cons y r) => !x.isNot && x.nlfb && Args.nlfb (.cons y r)
end

/-- no negation occurs as a non-last operand of an n-ary node (at any depth) -/
def Expr.NotLastFree (x : Expr) : Prop := x.nlfb = true

instance (x : Expr) : Decidable x.NotLastFree := inferInstanceAs (Decidable (x.nlfb = true))

/-! ## the writer -/

def digitChar : Nat → Char
  | 0 => '0' | 1 => '1' | 2 => '2' | 3 => '3' | 4 => '4'
  | 5 => '5' | 6 => '6' | 7 => '7' | 8 => '8' | _ => '9'

def decF : Nat → Nat → Text
  | 0, _ => []
  | f + 1, n => if n < 10 then [digitChar n] else decF f (n / 10) ++ [digitChar (n % 10)]

/-- decimal numeral without leading zeros -/
def dec (n : Nat) : Text := decF (n + 1) n

def Cmp.sym : Cmp → Text
  | .eq => ['=', '='] | .ne => ['!', '='] | .lt => ['<'] | .le => ['<', '='] | .gt => ['>'] | .ge => ['>', '=']

def BOp.sym : BOp → Char
  | .and => '&' | .or => '|' | .xor => '^'

/-- `0, 2, 5` -/
def printModes : List Nat → Text
  | [] => []
  | [m] => dec m
  | m :: ms => dec m ++ ',' :: ' ' :: printModes ms

mutual
  /-- `str(ps)` (`parenNot = false`, the code as found) / the repaired payload (`parenNot = true`) -/
  def print (parenNot : Bool) : Expr → Text
    | .cond ms c n => '[' :: printModes ms ++ ']' :: ' ' :: c.sym ++ ' ' :: dec n
    | .not x =>
      if parenNot then '(' :: '!' :: ' ' :: print parenNot x ++ [')'] else '!' :: ' ' :: print parenNot x
    | .nary o as => '(' :: printArgs parenNot o as ++ [')']
  def printArgs (parenNot : Bool) (o : BOp) : Args → Text
    | .nil => []
    | .cons x r => print parenNot x ++ printTail parenNot o r
  def printTail (parenNot : Bool) (o : BOp) : Args → Text
    | .nil => []
    | .cons x r => ' ' :: o.sym :: ' ' :: print parenNot x ++ printTail parenNot o r
end

/-- `none` = the empty PostSelect = empty text -/
def printTop (parenNot : Bool) : Option Expr → Text
  | none => []
  | some x => print parenNot x

/-! ## the reader: lexer -/

inductive Tok
  | lpar | rpar | lbr | rbr | comma | bang
  | bop (o : BOp)
  | cmp (c : Cmp)
  | num (n : Nat)
  deriving DecidableEq, Repr

/-- lexer state: nothing pending, a number being read, or the first character of a possibly
    two-character symbol -/
inductive LS
  | idle | num (n : Nat) | eq1 | bang | lt | gt
  deriving DecidableEq, Repr

/-- C `isspace` -/
def isWs (c : Char) : Bool :=
  c = ' ' || c = '\t' || c = '\n' || c = '\r' || c.toNat = 11 || c.toNat = 12

/-- a character met with nothing pending -/
def startTok (c : Char) : Option (LS × List Tok) :=
  if c.isDigit then some (.num (c.toNat - 48), [])
  else if isWs c then some (.idle, [])
  else if c = '(' then some (.idle, [.lpar])
  else if c = ')' then some (.idle, [.rpar])
  else if c = '[' then some (.idle, [.lbr])
  else if c = ']' then some (.idle, [.rbr])
  else if c = ',' then some (.idle, [.comma])
  else if c = '&' then some (.idle, [.bop .and])
  else if c = '|' then some (.idle, [.bop .or])
  else if c = '^' then some (.idle, [.bop .xor])
  else if c = '=' then some (.eq1, [])
  else if c = '!' then some (.bang, [])
  else if c = '<' then some (.lt, [])
  else if c = '>' then some (.gt, [])
  else none

def emit (t : Tok) : Option (LS × List Tok) → Option (LS × List Tok)
  | none => none
  | some (s, out) => some (s, t :: out)

def step : LS → Char → Option (LS × List Tok)
  | .idle, c => startTok c
  | .num n, c => if c.isDigit then some (.num (n * 10 + (c.toNat - 48)), []) else emit (.num n) (startTok c)
  | .eq1, c => if c = '=' then some (.idle, [.cmp .eq]) else none
  | .bang, c => if c = '=' then some (.idle, [.cmp .ne]) else emit .bang (startTok c)
  | .lt, c => if c = '=' then some (.idle, [.cmp .le]) else emit (.cmp .lt) (startTok c)
  | .gt, c => if c = '=' then some (.idle, [.cmp .ge]) else emit (.cmp .gt) (startTok c)

def finish : LS → Option (List Tok)
  | .idle => some []
  | .num n => some [.num n]
  | .eq1 => none
  | .bang => some [.bang]
  | .lt => some [.cmp .lt]
  | .gt => some [.cmp .gt]

def lexFrom : LS → Text → Option (List Tok)
  | s, [] => finish s
  | s, c :: cs =>
    match step s c with
    | none => none
    | some (s', out) =>
      match lexFrom s' cs with
      | none => none
      | some ts => some (out ++ ts)

def lex (t : Text) : Option (List Tok) := lexFrom .idle t

/-! ## the reader: parser -/

def insertSorted (a : Nat) : List Nat → List Nat
  | [] => [a]
  | b :: r => if a ≤ b then a :: b :: r else b :: insertSorted a r

def isort : List Nat → List Nat
  | [] => []
  | a :: r => insertSorted a (isort r)

/-- `num (',' num)* ']'` -/
def pModes : List Tok → Option (List Nat × List Tok)
  | .num n :: .rbr :: ts => some ([n], ts)
  | .num n :: .comma :: ts =>
    match pModes ts with
    | none => none
    | some (ms, r) => some (n :: ms, r)
  | _ => none

/-- after `'['`: the rest of a condition; the mode list is sorted, must then be strictly increasing
    (no duplicate), all numbers `< bound` -/
def pCond (ts : List Tok) : Option (Expr × List Tok) :=
  match pModes ts with
  | some (ms, .cmp c :: .num n :: r) =>
    let sm := isort ms
    if strictInc sm && sm.all (· < bound) && decide (n < bound) then some (.cond sm c n, r) else none
  | _ => none

mutual
  def pSeq : Nat → List Tok → Option (Expr × List Tok)
    | 0, _ => none
    | f + 1, .bang :: ts =>
      match pSeq f ts with
      | none => none
      | some (x, r) => some (.not x, r)
    | f + 1, ts =>
      match pOperand f ts with
      | none => none
      | some (x, .bop o :: r) =>
        (match pLoop f o r with
         | none => none
         | some (as, r') => some (.nary o (.cons x as), r'))
      | some (x, r) => some (x, r)
  def pOperand : Nat → List Tok → Option (Expr × List Tok)
    | 0, _ => none
    | f + 1, .lpar :: ts =>
      (match pSeq f ts with
       | some (x, .rpar :: r) => some (x, r)
       | _ => none)
    | f + 1, .bang :: ts =>
      (match pSeq f ts with
       | none => none
       | some (x, r) => some (.not x, r))
    | _ + 1, .lbr :: ts => pCond ts
    | _ + 1, _ => none
  /-- `operand (o operand)*`; stops in front of a different operator -/
  def pLoop : Nat → BOp → List Tok → Option (Args × List Tok)
    | 0, _, _ => none
    | f + 1, o, ts =>
      match pOperand f ts with
      | none => none
      | some (y, .bop o' :: r) =>
        if o' = o then
          (match pLoop f o r with
           | none => none
           | some (ys, r') => some (.cons y ys, r'))
        else some (.cons y .nil, .bop o' :: r)
      | some (y, r) => some (.cons y .nil, r)
end

/-- fuel: every call either consumes a token or is followed by one that does; `3 * length` is ample -/
def fuelFor (ts : List Tok) : Nat := 3 * ts.length

def parseToks (ts : List Tok) : Option Expr :=
  match pSeq (fuelFor ts) ts with
  | some (x, []) => some x
  | _ => none

/-- `PostSelect(text)` for a non-empty expression; `none` = RuntimeError (or the empty PostSelect) -/
def parse (t : Text) : Option Expr :=
  match lex t with
  | none => none
  | some ts => parseToks ts

/-- `PostSelect(text)`: `some none` = the empty PostSelect, `none` = RuntimeError -/
def parseTop (t : Text) : Option (Option Expr) :=
  if t.all (· = ' ') then some none
  else match parse t with
    | none => none
    | some x => some (some x)

/-! ## token view of the writer (used by the proofs; `lex (print b x) = some (toks b x)`) -/

def modeToks : List Nat → List Tok
  | [] => []
  | [m] => [.num m]
  | m :: ms => .num m :: .comma :: modeToks ms

mutual
  def toks (parenNot : Bool) : Expr → List Tok
    | .cond ms c n => .lbr :: modeToks ms ++ [.rbr, .cmp c, .num n]
    | .not x => if parenNot then .lpar :: .bang :: toks parenNot x ++ [.rpar] else .bang :: toks parenNot x
    | .nary o as => .lpar :: toksArgs parenNot o as ++ [.rpar]
  def toksArgs (parenNot : Bool) (o : BOp) : Args → List Tok
    | .nil => []
    | .cons x r => toks parenNot x ++ toksTail parenNot o r
  def toksTail (parenNot : Bool) (o : BOp) : Args → List Tok
    | .nil => []
    | .cons x r => .bop o :: toks parenNot x ++ toksTail parenNot o r
end

end PM.C15.PS
