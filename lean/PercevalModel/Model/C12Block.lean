/-
  C12 — the two building blocks the elimination scheme is documented with, and the equation
  `decompose_triangle` hands to the solver (the code as it is):

      cU = component.U; cU_inv = cU.inv(); cU_inv.simplify()
      equation = cU_inv[0, 0] * u[n, j] + cU_inv[0, 1] * u[n + 1, j]
      g = |equation|                       # minimised over the block's free parameters

  * `BS(theta) // PS(phi)` — a `BS.Rx` (all four BS phases 0) followed by a phase shifter on mode 0
    (`//` without a port puts the component on port 0); free parameters `[theta, phi]`;
  * `catalog['mzi phase last']` (`core_catalog/mzi.py: MZIPhaseLast.build_circuit`):
    `Circuit(2) // BS(theta=pi/2) // (1, PS(phi_a)) // BS(theta=pi/2) // (1, PS(phi_b))`; free parameters
    `[phi_a, phi_b]`.

  The matrices are written over an arbitrary commutative ring in terms of the quantities the trigonometric
  functions take: `i` (the imaginary unit), `c = cos(θ/2)`, `s = sin(θ/2)`, `p = e^{iφ}`, `q = e^{-iφ}`,
  `r = cos(π/4) = sin(π/4)`, `h = 1/2`.  They are therefore executable at `GQ = ℚ[i]` on rational points of the
  unit circle (driver op `blockmat`, compared with the real block's `compute_unitary` and with the first row of the
  real `component.U.inv()`), and instantiated over ℂ with `Real.cos`, `Real.sin`, `Complex.exp` in
  `Lemmas/C12Exist.lean`, where the existence theorems are proved.

  Also here: `trace`, a ghost recording of the run of `decompose_triangle` (`Model/C12.lean: run`): for every cell
  the two entries `a = u[n, j]`, `b = u[n+1, j]` the equation is built from, whether the solver was called, and the
  value `u[n, j] = 0` overwrites.
-/
import PercevalModel.Model.C12
import Mathlib.LinearAlgebra.Matrix.Notation

open Matrix

namespace PM.C12

variable {R : Type}

/-! ### the blocks -/

/-- `BS.Rx(theta)` with the four BS phases at 0: `[[cos θ/2, i·sin θ/2], [i·sin θ/2, cos θ/2]]` -/
def bsRx [CommRing R] (i c s : R) : Matrix (Fin 2) (Fin 2) R := !![c, i * s; i * s, c]

/-- a phase shifter on mode 0 of two modes -/
def psTop [CommRing R] (p : R) : Matrix (Fin 2) (Fin 2) R := !![p, 0; 0, 1]

/-- a phase shifter on mode 1 of two modes -/
def psBot [CommRing R] (p : R) : Matrix (Fin 2) (Fin 2) R := !![1, 0; 0, p]

/-- `BS(theta) // PS(phi)` as built: the PS is applied after the BS -/
def bsPs [CommRing R] (i c s p : R) : Matrix (Fin 2) (Fin 2) R := psTop p * bsRx i c s

/-- closed form of `bsPs` -/
def bsPsMat [CommRing R] (i c s p : R) : Matrix (Fin 2) (Fin 2) R := !![p * c, p * (i * s); i * s, c]

/-- `cU_inv` of `BS(theta) // PS(phi)` (`q = e^{-iφ}`) -/
def bsPsInv [CommRing R] (i c s q : R) : Matrix (Fin 2) (Fin 2) R := !![c * q, -(i * s); -(i * s) * q, c]

/-- `catalog['mzi phase last']` as built (`r = cos π/4 = sin π/4`, `ea = e^{iφ_a}`, `eb = e^{iφ_b}`) -/
def mziLast [CommRing R] (i r ea eb : R) : Matrix (Fin 2) (Fin 2) R :=
  psBot eb * (bsRx i r r * (psBot ea * bsRx i r r))

/-- closed form of `mziLast` (`h = r² = 1/2`) -/
def mziMat [CommRing R] (i h ea eb : R) : Matrix (Fin 2) (Fin 2) R :=
  !![h * (1 - ea), i * h * (1 + ea); eb * (i * h * (1 + ea)), eb * (h * (ea - 1))]

/-- `cU_inv` of the MZI (`fa = e^{-iφ_a}`, `fb = e^{-iφ_b}`) -/
def mziInv [CommRing R] (i h fa fb : R) : Matrix (Fin 2) (Fin 2) R :=
  !![h * (1 - fa), -(i * h * (1 + fa)) * fb; -(i * h * (1 + fa)), h * (fa - 1) * fb]

/-- `equation = cU_inv[0, 0] * u[n, j] + cU_inv[0, 1] * u[n + 1, j]` -/
def nullEq [CommRing R] (Binv : Matrix (Fin 2) (Fin 2) R) (a b : R) : R := Binv 0 0 * a + Binv 0 1 * b

/-! ### ghost recording of a run -/

/-- what happened in one cell of the double loop -/
structure CellRec (R : Type) where
  j : ℕ
  n : ℕ
  /-- the solver was called (neither identity skip nor PERM substitution) -/
  solved : Bool
  /-- `u[n, j]` when the cell is entered -/
  a : R
  /-- `u[n+1, j]` when the cell is entered -/
  b : R
  /-- the value `u[n, j] = 0` overwrites -/
  z : R

/-- the matrix `u` just before `u[n, j] = 0` in cell `(j, n)` and whether the solver was called; the same
branching as `step` (`step_preZero`) -/
def preZero [CommRing R] (cfg : Cfg R) {m : ℕ} (st : St R m) (cell : ℕ × ℕ) :
    Option (Matrix (Fin m) (Fin m) R × Bool) :=
  let j := cell.1
  let n := cell.2
  let M := st.u.toMatrix
  if cfg.small (getN M n j) && cfg.ignoreId then some (M, false)
  else
    match (if cfg.usePerm then findK cfg M n j else none) with
    | some k => some (swapMat m n k * M, false)
    | none =>
      match st.rest with
      | [] => none
      | (_, Binv) :: _ => some (embed m n Binv * M, true)

/-- the run of `decompose_triangle`, cell by cell -/
def trace [CommRing R] (cfg : Cfg R) {m : ℕ} : St R m → List (ℕ × ℕ) → List (CellRec R)
  | _, [] => []
  | st, c :: cs =>
    match step cfg st c, preZero cfg st c with
    | some st', some (M', sv) =>
      { j := c.1, n := c.2, solved := sv, a := getN st.u.toMatrix c.2 c.1,
        b := getN st.u.toMatrix (c.2 + 1) c.1, z := getN M' c.2 c.1 } :: trace cfg st' cs
    | _, _ => []

end PM.C12
