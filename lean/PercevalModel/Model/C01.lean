/-
  C01 — model of `perceval/components/linear_circuit.py`:
  `Circuit.add` (nest / merge), `Circuit.__iter__`, `_compute_circuit_unitary`, `barrier`.

  A component is either a leaf (an elementary component, known by its own `k × k` matrix) or a
  circuit of declared size `m` holding an ordered list of `(first port, component)` items.
-/
import PercevalModel.Found.LinAlg
import PercevalModel.Found.Memo

open Matrix

namespace PM.C01

mutual
  inductive Comp (R : Type) where
    | leaf (k : ℕ) (U : Matrix (Fin k) (Fin k) R)
    | circ (m : ℕ) (items : Items R)
  inductive Items (R : Type) where
    | nil
    | cons (off : ℕ) (c : Comp R) (rest : Items R)
end

variable {R : Type}

/-- `component.m` -/
def Comp.size : Comp R → ℕ
  | .leaf k _ => k
  | .circ m _ => m

def Items.append : Items R → Items R → Items R
  | .nil, ys => ys
  | .cons o c r, ys => .cons o c (r.append ys)

/-- `nprange = tuple(r + port_range[0] for r in sprange)` for every item -/
def Items.shift (d : ℕ) : Items R → Items R
  | .nil => .nil
  | .cons o c r => .cons (o + d) c (r.shift d)

def Items.length : Items R → ℕ
  | .nil => 0
  | .cons _ _ r => r.length + 1

/-! ### `_compute_circuit_unitary`

`u = eye; for r, c in components: u = embed(c.compute_unitary()) @ u`. The executable version
passes materialised matrices (`MatV`) between recursive calls. -/
mutual
  def unitaryV [CommRing R] : (c : Comp R) → MatV R c.size c.size
    | .leaf _ U => MatV.ofMatrix U
    | .circ m items => prodItemsV m items
  def prodItemsV [CommRing R] (m : ℕ) : Items R → MatV R m m
    | .nil => MatV.ofMatrix 1
    | .cons off c rest =>
        MatV.ofMatrix ((prodItemsV m rest).toMatrix * embed m off (unitaryV c).toMatrix)
end

/-- the matrix `compute_unitary()` reports -/
def unitaryOf [CommRing R] (c : Comp R) : Matrix (Fin c.size) (Fin c.size) R :=
  (unitaryV c).toMatrix

def prodItems [CommRing R] (m : ℕ) (items : Items R) : Matrix (Fin m) (Fin m) R :=
  (prodItemsV m items).toMatrix

@[simp] theorem unitaryOf_leaf [CommRing R] (k : ℕ) (U : Matrix (Fin k) (Fin k) R) :
    unitaryOf (.leaf k U) = U := by
  unfold unitaryOf; rw [unitaryV]; exact MatV.toMatrix_ofMatrix U

@[simp] theorem unitaryOf_circ [CommRing R] (m : ℕ) (items : Items R) :
    unitaryOf (.circ m items) = prodItems m items := by
  unfold unitaryOf prodItems; rw [unitaryV]; rfl

@[simp] theorem prodItems_nil [CommRing R] (m : ℕ) : prodItems m (.nil : Items R) = 1 := by
  simp [prodItems, prodItemsV]

@[simp] theorem prodItems_cons [CommRing R] (m off : ℕ) (c : Comp R) (rest : Items R) :
    prodItems m (.cons off c rest) = prodItems m rest * embed m off (unitaryOf c) := by
  simp [prodItems, prodItemsV, unitaryOf]

/-- type-normalising variants (the index `size (leaf k U)` is definitionally `k`) -/
@[simp] theorem embed_unitaryOf_leaf [CommRing R] (N o k : ℕ) (U : Matrix (Fin k) (Fin k) R) :
    embed N o (unitaryOf (.leaf k U)) = embed N o U := by
  show embed N o (k := k) (unitaryOf (.leaf k U)) = _
  rw [unitaryOf_leaf]

@[simp] theorem embed_unitaryOf_circ [CommRing R] (N o m : ℕ) (items : Items R) :
    embed N o (unitaryOf (.circ m items)) = embed N o (prodItems m items) := by
  show embed N o (k := m) (unitaryOf (.circ m items)) = _
  rw [unitaryOf_circ]

/-! ### `Circuit.add` -/

/-- `Circuit.add(off, c, merge)` on a circuit of size `m` holding `items` (accepted case). -/
def addItem (items : Items R) (off : ℕ) (c : Comp R) (merge : Bool) : Items R :=
  match merge, c with
  | true, .circ _ (.cons o c' r) => items.append ((Items.cons o c' r).shift off)
  | _, _ => items.append (.cons off c .nil)

/-- the assertions of `Circuit.add`: range inside the circuit (size match is by construction) -/
def addOk (m off : ℕ) (c : Comp R) : Bool := off + c.size ≤ m && 0 < c.size

/-- `Circuit.barrier()`: an identity leaf on all modes -/
def barrierItem [Zero R] [One R] (m : ℕ) : Comp R := .leaf m 1

/-! ### `Circuit.__iter__` — the recursive iterator (first port and width of every leaf) -/
mutual
  def flatten : Comp R → List (ℕ × (Σ k, Matrix (Fin k) (Fin k) R))
    | .leaf k U => [(0, ⟨k, U⟩)]
    | .circ _ items => flattenItems items
  def flattenItems : Items R → List (ℕ × (Σ k, Matrix (Fin k) (Fin k) R))
    | .nil => []
    | .cons off c rest => (flatten c).map (fun p => (p.1 + off, p.2)) ++ flattenItems rest
end

/-- ordered product of embedded leaves (first element applied first) -/
def prodFlat [CommRing R] (N : ℕ) : List (ℕ × (Σ k, Matrix (Fin k) (Fin k) R)) →
    Matrix (Fin N) (Fin N) R
  | [] => 1
  | (o, ⟨_, B⟩) :: rest => prodFlat N rest * embed N o B

/-! ### well-formedness: every range the code would have accepted -/
mutual
  def Comp.WF : Comp R → Prop
    | .leaf _ _ => True
    | .circ m items => items.WF m
  def Items.WF : Items R → ℕ → Prop
    | .nil, _ => True
    | .cons off c rest, m => off + c.size ≤ m ∧ c.WF ∧ rest.WF m
end

mutual
  def Comp.AllUnitary [CommRing R] [StarRing R] : Comp R → Prop
    | .leaf _ U => IsUnitary U
    | .circ _ items => items.AllUnitary
  def Items.AllUnitary [CommRing R] [StarRing R] : Items R → Prop
    | .nil => True
    | .cons _ c rest => c.AllUnitary ∧ rest.AllUnitary
end

end PM.C01
