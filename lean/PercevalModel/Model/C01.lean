/-
  C01 — model of `perceval/components/linear_circuit.py`:
  `Circuit.add` (nest / merge), `Circuit.__iter__`, `_compute_circuit_unitary`, `barrier`.

  A component is either a leaf (an elementary component, known by its own `k × k` matrix) or a
  circuit of declared size `m` holding an ordered list of `(first port, component)` items.
-/
import PercevalModel.Found.LinAlg
import PercevalModel.Found.Memo

open Matrix

namespace PM.C01

mutual
  inductive Comp (R : Type) where
    | leaf (k : ℕ) (U : Matrix (Fin k) (Fin k) R)
    | circ (m : ℕ) (items : Items R)
  inductive Items (R : Type) where
    | nil
    | cons (off : ℕ) (c : Comp R) (rest : Items R)
end

variable {R : Type}

/-- `component.m` -/
def Comp.size : Comp R → ℕ
  | .leaf k _ => k
  | .circ m _ => m

def Items.append : Items R → Items R → Items R
  | .nil, ys => ys
  | .cons o c r, ys => .cons o c (r.append ys)

/-- `nprange = tuple(r + port_range[0] for r in sprange)` for every item -/
def Items.shift (d : ℕ) : Items R → Items R
  | .nil => .nil
  | .cons o c r => .cons (o + d) c (r.shift d)

def Items.length : Items R → ℕ
  | .nil => 0
  | .cons _ _ r => r.length + 1

/-! ### `_compute_circuit_unitary`

`u = eye; for r, c in components: u = embed(c.compute_unitary()) @ u`. The executable version
passes materialised matrices (`MatV`) between recursive calls. -/
mutual
  def unitaryV [CommRing R] : (c : Comp R) → MatV R c.size c.size
    | .leaf _ U => MatV.ofMatrix U
    | .circ m items => prodItemsV m items
  def prodItemsV [CommRing R] (m : ℕ) : Items R → MatV R m m
    | .nil => MatV.ofMatrix 1
    | .cons off c rest =>
        MatV.ofMatrix ((prodItemsV m rest).toMatrix * embed m off (unitaryV c).toMatrix)
end

/-- the matrix `compute_unitary()` reports -/
def unitaryOf [CommRing R] (c : Comp R) : Matrix (Fin c.size) (Fin c.size) R :=
  (unitaryV c).toMatrix

def prodItems [CommRing R] (m : ℕ) (items : Items R) : Matrix (Fin m) (Fin m) R :=
  (prodItemsV m items).toMatrix

@[simp] theorem unitaryOf_leaf [CommRing R] (k : ℕ) (U : Matrix (Fin k) (Fin k) R) :
    unitaryOf (.leaf k U) = U := by
  unfold unitaryOf; rw [unitaryV]; exact MatV.toMatrix_ofMatrix U

@[simp] theorem unitaryOf_circ [CommRing R] (m : ℕ) (items : Items R) :
    unitaryOf (.circ m items) = prodItems m items := by
  unfold unitaryOf prodItems; rw [unitaryV]; rfl

@[simp] theorem prodItems_nil [CommRing R] (m : ℕ) : prodItems m (.nil : Items R) = 1 := by
  simp [prodItems, prodItemsV]

@[simp] theorem prodItems_cons [CommRing R] (m off : ℕ) (c : Comp R) (rest : Items R) :
    prodItems m (.cons off c rest) = prodItems m rest * embed m off (unitaryOf c) := by
  simp [prodItems, prodItemsV, unitaryOf]

/-- type-normalising variants (the index `size (leaf k U)` is definitionally `k`) -/
@[simp] theorem embed_unitaryOf_leaf [CommRing R] (N o k : ℕ) (U : Matrix (Fin k) (Fin k) R) :
    embed N o (unitaryOf (.leaf k U)) = embed N o U := by
  show embed N o (k := k) (unitaryOf (.leaf k U)) = _
  rw [unitaryOf_leaf]

@[simp] theorem embed_unitaryOf_circ [CommRing R] (N o m : ℕ) (items : Items R) :
    embed N o (unitaryOf (.circ m items)) = embed N o (prodItems m items) := by
  show embed N o (k := m) (unitaryOf (.circ m items)) = _
  rw [unitaryOf_circ]

/-! ### `Circuit.add` -/

/-- `Circuit.add(off, c, merge)` on a circuit of size `m` holding `items` (accepted case). -/
def addItem (items : Items R) (off : ℕ) (c : Comp R) (merge : Bool) : Items R :=
  match merge, c with
  | true, .circ _ (.cons o c' r) => items.append ((Items.cons o c' r).shift off)
  | _, _ => items.append (.cons off c .nil)

/-- the assertions of `Circuit.add`: range inside the circuit (size match is by construction) -/
def addOk (m off : ℕ) (c : Comp R) : Bool := off + c.size ≤ m && 0 < c.size

/-- `Circuit.barrier()`: an identity leaf on all modes -/
def barrierItem [Zero R] [One R] (m : ℕ) : Comp R := .leaf m 1

/-! ### `Circuit.__iter__` — the recursive iterator (first port and width of every leaf) -/
mutual
  def flatten : Comp R → List (ℕ × (Σ k, Matrix (Fin k) (Fin k) R))
    | .leaf k U => [(0, ⟨k, U⟩)]
    | .circ _ items => flattenItems items
  def flattenItems : Items R → List (ℕ × (Σ k, Matrix (Fin k) (Fin k) R))
    | .nil => []
    | .cons off c rest => (flatten c).map (fun p => (p.1 + off, p.2)) ++ flattenItems rest
end

/-- ordered product of embedded leaves (first element applied first) -/
def prodFlat [CommRing R] (N : ℕ) : List (ℕ × (Σ k, Matrix (Fin k) (Fin k) R)) →
    Matrix (Fin N) (Fin N) R
  | [] => 1
  | (o, ⟨_, B⟩) :: rest => prodFlat N rest * embed N o B

/-! ### well-formedness: every range the code would have accepted -/
mutual
  def Comp.WF : Comp R → Prop
    | .leaf _ _ => True
    | .circ m items => items.WF m
  def Items.WF : Items R → ℕ → Prop
    | .nil, _ => True
    | .cons off c rest, m => off + c.size ≤ m ∧ c.WF ∧ rest.WF m
end

mutual
  def Comp.AllUnitary [CommRing R] [StarRing R] : Comp R → Prop
    | .leaf _ U => IsUnitary U
    | .circ _ items => items.AllUnitary
  def Items.AllUnitary [CommRing R] [StarRing R] : Items R → Prop
    | .nil => True
    | .cons _ c rest => c.AllUnitary ∧ rest.AllUnitary
end

/-! ## base change of the coefficients

`Comp.map φ c` applies `φ` to every entry of every leaf matrix.  With `φ` a ring homomorphism this
is: evaluating variable parameters at an environment (`R = E → S`, `φ = (· e)`), evaluating the
entries of a symbolic matrix (`use_symbolic=True`) numerically, or `freeze e` (what `copy()` does
to the parameters). -/
mutual
  def Comp.map {S : Type} (φ : R → S) : Comp R → Comp S
    | .leaf k U => .leaf k (U.map φ)
    | .circ m items => .circ m (Items.map φ items)
  def Items.map {S : Type} (φ : R → S) : Items R → Items S
    | .nil => .nil
    | .cons o c r => .cons o (Comp.map φ c) (Items.map φ r)
end

/-! ## reference semantics: a heap of circuits

`Circuit.add(r, c)` stores the *object* `c`.  When `c` is a `Circuit` that somebody else still
holds, `c` keeps growing after it was nested, and the parent's matrix follows.  The heap is a pool
of circuit objects (`Cell`); an item of a cell is either held by value (an elementary component,
or a sub-circuit nobody else can reach: the deep copy made by `Circuit.copy`) or is a reference to
another pool entry.

Acyclicity by construction: a cell carries a `rank` (ghost state, fixed at creation) and a
reference may only point to a cell of strictly smaller rank.  No generality is lost: references
are never removed, so an acyclic history of the real API is a ranked history for the topological
ranks of its final reference graph.  (The real code does not reject a cyclic `add`; evaluation of a
cyclic circuit does not terminate.  Cyclic programs are outside the property.) -/

inductive HItem (R : Type) where
  | val (c : Comp R)
  | ref (j : ℕ)

structure Cell (R : Type) where
  m : ℕ
  rank : ℕ
  items : List (ℕ × HItem R)

structure Heap (R : Type) where
  size : ℕ
  cell : ℕ → Cell R

def Heap.empty : Heap R := ⟨0, fun _ => ⟨0, 0, []⟩⟩
def Heap.msize (h : Heap R) (j : ℕ) : ℕ := (h.cell j).m
def Heap.rank (h : Heap R) (j : ℕ) : ℕ := (h.cell j).rank
def Heap.items (h : Heap R) (j : ℕ) : List (ℕ × HItem R) := (h.cell j).items

/-- a new pool entry -/
def Heap.alloc (h : Heap R) (c : Cell R) : Heap R :=
  ⟨h.size + 1, fun k => if k = h.size then c else h.cell k⟩

/-- `self._components.append(...)` on pool entry `i` -/
def Heap.push (h : Heap R) (i : ℕ) (new : List (ℕ × HItem R)) : Heap R :=
  ⟨h.size, fun k => if k = i then { h.cell i with items := (h.cell i).items ++ new } else h.cell k⟩

/-! ### evaluation: `_compute_circuit_unitary` following object references

`φ` is applied to the entries of the leaves' own matrices (their numeric value under the current
parameter values); recursion through references is bounded by `fuel`. -/

def prodH {S : Type} [CommRing S] (φ : R → S) (msz : ℕ → ℕ)
    (ev : (j : ℕ) → MatV S (msz j) (msz j)) (m : ℕ) : List (ℕ × HItem R) → MatV S m m
  | [] => MatV.ofMatrix 1
  | (off, .val c) :: rest =>
      MatV.ofMatrix ((prodH φ msz ev m rest).toMatrix * embed m off (unitaryV (c.map φ)).toMatrix)
  | (off, .ref j) :: rest =>
      MatV.ofMatrix ((prodH φ msz ev m rest).toMatrix * embed m off (ev j).toMatrix)

def evalV {S : Type} [CommRing S] (φ : R → S) (h : Heap R) :
    (fuel : ℕ) → (j : ℕ) → MatV S (h.msize j) (h.msize j)
  | 0, _ => MatV.ofMatrix 1
  | f + 1, j => prodH φ h.msize (evalV φ h f) (h.msize j) (h.items j)

/-- what `pool[i].compute_unitary()` reports when the leaf entries are read through `φ` -/
def eval {S : Type} [CommRing S] (φ : R → S) (h : Heap R) (i : ℕ) :
    Matrix (Fin (h.msize i)) (Fin (h.msize i)) S :=
  (evalV φ h (h.rank i + 1) i).toMatrix

/-! ### snapshots: the tree obtained by resolving the references -/

def resolveItems (rs : ℕ → Comp R) : List (ℕ × HItem R) → Items R
  | [] => .nil
  | (off, .val c) :: rest => .cons off c (resolveItems rs rest)
  | (off, .ref j) :: rest => .cons off (rs j) (resolveItems rs rest)

def resolveIt (h : Heap R) : ℕ → ℕ → Items R
  | 0, _ => .nil
  | f + 1, j => resolveItems (fun k => .circ (h.msize k) (resolveIt h f k)) (h.items j)

def resolve (h : Heap R) (f j : ℕ) : Comp R := .circ (h.msize j) (resolveIt h f j)

def snapshotItems (h : Heap R) (i : ℕ) : Items R := resolveIt h (h.rank i + 1) i
def snapshot (h : Heap R) (i : ℕ) : Comp R := .circ (h.msize i) (snapshotItems h i)

/-! ### operations on the pool -/

inductive Op (R : Type) where
  /-- `pool.append(Circuit(m))` -/
  | new (m rank : ℕ)
  /-- `pool[i].add(off, <elementary component with matrix U>)` -/
  | leaf (i off k : ℕ) (U : Matrix (Fin k) (Fin k) R)
  /-- `pool[i].add(off, pool[j], merge=False)` -/
  | nest (i j off : ℕ)
  /-- `pool[i].add(off, pool[j], merge=True)`, `pool[i] //= (off, pool[j])`, `pool[i] // (off, pool[j])`
  (`//` on a `Circuit` is `copy.copy` — a second handle on the same `_components` list — followed by `//=`) -/
  | merge (i j off : ℕ)
  /-- `pool[i].barrier()` -/
  | barrier (i : ℕ)
  /-- `pool.append(pool[i].copy())`; `φ` is what `AParametrizedComponent.copy` does to the entries -/
  | copy (i : ℕ) (φ : R → R)

/-- the assertions of `Circuit.__init__` / `Circuit.add`, plus the rank discipline -/
def Op.ok (h : Heap R) : Op R → Bool
  | .new m _ => 0 < m
  | .leaf i off k _ => i < h.size && 0 < k && off + k ≤ h.msize i
  | .nest i j off => i < h.size && j < h.size && h.rank j < h.rank i && off + h.msize j ≤ h.msize i
  | .merge i j off => i < h.size && j < h.size && h.rank j < h.rank i && off + h.msize j ≤ h.msize i
  | .barrier i => i < h.size
  | .copy i _ => i < h.size

/-- `c.copy()` of one stored component: a sub-circuit is copied recursively (nested structure kept) -/
def freezeItem (h : Heap R) (φ : R → R) : HItem R → Comp R
  | .val c => c.map φ
  | .ref j => (snapshot h j).map φ

def applyOp [Zero R] [One R] (h : Heap R) : Op R → Heap R
  | .new m r => h.alloc ⟨m, r, []⟩
  | .leaf i off k U => h.push i [(off, .val (.leaf k U))]
  | .nest i j off => h.push i [(off, .ref j)]
  | .merge i j off =>
      match h.items j with
      | [] => h.push i [(off, .ref j)]
      | x :: xs => h.push i ((x :: xs).map fun p => (p.1 + off, p.2))
  | .barrier i => h.push i [(0, .val (barrierItem (h.msize i)))]
  | .copy i φ => h.alloc ⟨h.msize i, h.rank i, (h.items i).map fun p => (p.1, .val (freezeItem h φ p.2))⟩

/-- a rejected operation (`AssertionError`) leaves the pool unchanged -/
def step [Zero R] [One R] (h : Heap R) (op : Op R) : Heap R :=
  if op.ok h then applyOp h op else h

def exec [Zero R] [One R] (h : Heap R) (ops : List (Op R)) : Heap R := ops.foldl step h

/-- the pool entry an operation appends to (`none`: it only creates a new entry) -/
def Op.target : Op R → Option ℕ
  | .new _ _ => none
  | .leaf i _ _ _ => some i
  | .nest i _ _ => some i
  | .merge i _ _ => some i
  | .barrier i => some i
  | .copy _ _ => none

/-! ### invariant: what `add` asserted when each item was stored -/

def HItem.Ok (h : Heap R) (m rank : ℕ) (p : ℕ × HItem R) : Prop :=
  match p.2 with
  | .val v => v.WF ∧ p.1 + v.size ≤ m
  | .ref j => j < h.size ∧ h.rank j < rank ∧ p.1 + h.msize j ≤ m

def Heap.Ok (h : Heap R) : Prop := ∀ i, ∀ p ∈ h.items i, HItem.Ok h (h.msize i) (h.rank i) p

def Heap.AllUnitary [CommRing R] [StarRing R] (h : Heap R) : Prop :=
  ∀ i, ∀ p ∈ h.items i, match p.2 with
    | .val v => v.AllUnitary
    | .ref _ => True

/-! ## variable parameters

A leaf bound to variable parameters has a matrix that is a function of the environment `E` of
parameter values: its entries live in the ring `E → S`.  `Parameter.set_value` changes the
environment, not the circuits; `Circuit.copy()` replaces every defined parameter by a *fixed*
parameter at its current value (`Parameter(p.name, float(p), …)`): `freeze e`. `//` and `@`
(`copy.copy`) keep the `Parameter` objects: they are plain `merge`/`barrier` operations. -/

def atEnv {E S : Type} (e : E) : (E → S) → S := fun x => x e
def freeze {E S : Type} (e : E) : (E → S) → (E → S) := fun x _ => x e

structure World (E S : Type) where
  heap : Heap (E → S)
  env : E

inductive WOp (E S : Type) where
  /-- any structural operation (a `copy` here carries its own coefficient map) -/
  | struct (op : Op (E → S))
  /-- `pool.append(pool[i].copy())` under the current parameter values -/
  | copy (i : ℕ)
  /-- `Parameter.set_value` (any number of them): the environment becomes `g env` -/
  | set (g : E → E)

def wstep {E S : Type} [Zero S] [One S] (w : World E S) : WOp E S → World E S
  | .struct op => { w with heap := step w.heap op }
  | .copy i => { w with heap := step w.heap (.copy i (freeze w.env)) }
  | .set g => { w with env := g w.env }

def wexec {E S : Type} [Zero S] [One S] (w : World E S) (ops : List (WOp E S)) : World E S :=
  ops.foldl wstep w

def WOp.target {E S : Type} : WOp E S → Option ℕ
  | .struct op => op.target
  | .copy _ => none
  | .set _ => none

/-- what `pool[i].compute_unitary()` reports in world `w` -/
def observe {E S : Type} [CommRing S] (w : World E S) (i : ℕ) :
    Matrix (Fin (w.heap.msize i)) (Fin (w.heap.msize i)) S :=
  eval (atEnv w.env) w.heap i

/-- executable form of `observe` -/
def observeV {E S : Type} [CommRing S] (w : World E S) (i : ℕ) :
    MatV S (w.heap.msize i) (w.heap.msize i) :=
  evalV (atEnv w.env) w.heap (w.heap.rank i + 1) i

end PM.C01
