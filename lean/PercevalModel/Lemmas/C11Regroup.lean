/-
  C11 — `Experiment.non_unitary_circuit()` / `unitary_circuit()`: the regrouping of a flattened
  component list into unitary blocks between the non-unitary components (loss channels, time
  delays, …), as a whole: structure of the output (nothing lost, no two adjacent blocks: the block
  boundaries are exactly at the non-unitary components) and its denotation.
-/
import PercevalModel.Lemmas.C11
import PercevalModel.Model.C11Regroup

set_option linter.unusedSimpArgs false
set_option linter.unusedSectionVars false
set_option linter.unusedVariables false

open Matrix PM
namespace PM.C11
variable {R : Type}

/-! ### structure -/

/-- a unitary entry -/
def uniE (p : ℕ × Cmp R) : ℕ × Entry R := (p.1, .uni p.2)

/-- the entries a group stands for -/
def Group.entries : Group R → List (ℕ × Entry R)
  | .blockOf _ _ comps => comps.map uniE
  | .non r0 id w => [(r0, .non id w)]

/-- un-grouping: every block replaced by the components it was computed from -/
def ungroup (gs : List (Group R)) : List (ℕ × Entry R) := gs.flatMap Group.entries

def Group.isBlock : Group R → Bool
  | .blockOf _ _ _ => true
  | .non _ _ _ => false

/-- no two consecutive blocks -/
def NoAdjBlocks : List (Group R) → Prop
  | [] => True
  | [_] => True
  | a :: b :: rest => ¬ (a.isBlock = true ∧ b.isBlock = true) ∧ NoAdjBlocks (b :: rest)

/-- every block holds at least one component and sits on the range its own `min_r` / `max_r`
bookkeeping gives -/
def Group.BlockOK [CommRing R] (I : R) (N : ℕ) : Group R → Prop
  | .blockOf r0 w comps =>
      comps ≠ [] ∧ r0 = (pendingRange I N comps).1 ∧
        w = (pendingRange I N comps).2 - (pendingRange I N comps).1
  | .non _ _ _ => True

/-- the block emitted for the pending components -/
def flush [CommRing R] (I : R) (N : ℕ) (pending : List (ℕ × Cmp R)) : List (Group R) :=
  if pending.isEmpty then []
  else [.blockOf (pendingRange I N pending).1
    ((pendingRange I N pending).2 - (pendingRange I N pending).1) pending]

theorem regroup_nil [CommRing R] (I : R) (N : ℕ) (pending : List (ℕ × Cmp R)) :
    regroup I N [] pending = flush I N pending := by
  unfold regroup flush
  split <;> rfl

theorem regroup_uni [CommRing R] (I : R) (N : ℕ) (r0 : ℕ) (c : Cmp R) (rest : List (ℕ × Entry R))
    (pending : List (ℕ × Cmp R)) :
    regroup I N ((r0, .uni c) :: rest) pending = regroup I N rest (pending ++ [(r0, c)]) := by
  rw [regroup]

theorem regroup_non [CommRing R] (I : R) (N : ℕ) (r0 id w : ℕ) (rest : List (ℕ × Entry R))
    (pending : List (ℕ × Cmp R)) :
    regroup I N ((r0, .non id w) :: rest) pending =
      flush I N pending ++ .non r0 id w :: regroup I N rest [] := by
  rw [regroup]
  unfold flush
  split <;> rfl

theorem ungroup_flush [CommRing R] (I : R) (N : ℕ) (pending : List (ℕ × Cmp R)) :
    ungroup (flush I N pending) = pending.map uniE := by
  unfold flush
  cases pending with
  | nil => rfl
  | cons a b => simp [ungroup, Group.entries]

/-- **nothing is lost, duplicated or reordered**: un-grouping the output of the regrouping loop gives
back the pending components followed by the entries fed in -/
theorem regroup_ungroup' [CommRing R] (I : R) (N : ℕ) : ∀ (es : List (ℕ × Entry R))
    (pending : List (ℕ × Cmp R)),
    ungroup (regroup I N es pending) = pending.map uniE ++ es
  | [], pending => by rw [regroup_nil, ungroup_flush]; simp
  | (r0, .uni c) :: rest, pending => by
    rw [regroup_uni, regroup_ungroup' I N rest]
    simp [uniE]
  | (r0, .non id w) :: rest, pending => by
    rw [regroup_non]
    have := regroup_ungroup' I N rest []
    simp only [ungroup, List.flatMap_append, List.flatMap_cons] at this ⊢
    rw [this]
    have h2 := ungroup_flush I N pending
    simp only [ungroup] at h2
    rw [h2]
    simp [Group.entries]

theorem flush_blockOK [CommRing R] (I : R) (N : ℕ) (pending : List (ℕ × Cmp R)) :
    ∀ g ∈ flush I N pending, g.BlockOK I N := by
  unfold flush
  cases pending with
  | nil => simp
  | cons a b =>
    intro g hg
    simp only [List.isEmpty_cons, Bool.false_eq_true, if_false, List.mem_singleton] at hg
    subst hg
    exact ⟨by simp, rfl, rfl⟩

/-- every block is non-empty and sits on the range of its own bookkeeping -/
theorem regroup_blockOK' [CommRing R] (I : R) (N : ℕ) : ∀ (es : List (ℕ × Entry R))
    (pending : List (ℕ × Cmp R)), ∀ g ∈ regroup I N es pending, g.BlockOK I N
  | [], pending => by rw [regroup_nil]; exact flush_blockOK I N pending
  | (r0, .uni c) :: rest, pending => by rw [regroup_uni]; exact regroup_blockOK' I N rest _
  | (r0, .non id w) :: rest, pending => by
    rw [regroup_non]
    intro g hg
    rcases List.mem_append.1 hg with h | h
    · exact flush_blockOK I N pending g h
    · rcases List.mem_cons.1 h with h | h
      · subst h; trivial
      · exact regroup_blockOK' I N rest [] g h

theorem noAdj_non (r0 id w : ℕ) (l : List (Group R)) :
    NoAdjBlocks (.non r0 id w :: l) ↔ NoAdjBlocks l := by
  cases l with
  | nil => simp [NoAdjBlocks]
  | cons b rest => simp [NoAdjBlocks, Group.isBlock]

theorem noAdj_flush_non [CommRing R] (I : R) (N : ℕ) (pending : List (ℕ × Cmp R)) (r0 id w : ℕ)
    (l : List (Group R)) (h : NoAdjBlocks l) :
    NoAdjBlocks (flush I N pending ++ .non r0 id w :: l) := by
  unfold flush
  split
  · simpa [noAdj_non] using h
  · simp only [List.cons_append, List.nil_append, NoAdjBlocks, Group.isBlock, Bool.false_eq_true,
      and_false, not_false_eq_true, true_and]
    exact (noAdj_non r0 id w l).2 h

/-- **block boundaries are exactly at the non-unitary components**: the output never holds two
consecutive blocks (every block is a MAXIMAL run of unitary components) -/
theorem regroup_noAdj' [CommRing R] (I : R) (N : ℕ) : ∀ (es : List (ℕ × Entry R))
    (pending : List (ℕ × Cmp R)), NoAdjBlocks (regroup I N es pending)
  | [], pending => by
    rw [regroup_nil]
    unfold flush
    split <;> simp [NoAdjBlocks]
  | (r0, .uni c) :: rest, pending => by rw [regroup_uni]; exact regroup_noAdj' I N rest _
  | (r0, .non id w) :: rest, pending => by
    rw [regroup_non]
    exact noAdj_flush_non I N pending r0 id w _ (regroup_noAdj' I N rest [])

/-- the shape of a group: its components, without the range of the block -/
def Group.shape : Group R → List (ℕ × Cmp R) ⊕ (ℕ × ℕ × ℕ)
  | .blockOf _ _ comps => .inl comps
  | .non r0 id w => .inr (r0, id, w)

/-! ### denotation -/

/-- what a regrouped list (or a flattened component list) denotes: matrices on the `N` modes and
non-unitary components, in order -/
inductive Seg (R : Type) (N : ℕ) where
  | mat (M : Matrix (Fin N) (Fin N) R)
  | non (r0 id w : ℕ)

/-- the matrix accumulated for the current run of unitary components, emitted when it ends -/
def emit {N : ℕ} (acc : Option (Matrix (Fin N) (Fin N) R)) : List (Seg R N) :=
  match acc with
  | none => []
  | some M => [.mat M]

/-- denotation of a flattened component list: every maximal run of unitary components denotes the
ordered product of their embedded matrices, a non-unitary component denotes itself
(`acc`: the product of the run in progress, `none` when no unitary component was met since the last
non-unitary one) -/
def denE [CommRing R] (I : R) (N : ℕ) :
    List (ℕ × Entry R) → Option (Matrix (Fin N) (Fin N) R) → List (Seg R N)
  | [], acc => emit acc
  | (r0, .uni c) :: rest, acc =>
      denE I N rest (some (embed N r0 (C01.unitaryOf (c.toC01 I)) * acc.getD 1))
  | (r0, .non id w) :: rest, acc => emit acc ++ .non r0 id w :: denE I N rest none

/-- denotation of the output of `non_unitary_circuit()`: a block `(r, Unitary(u[min_r:max_r, …]))`
denotes its matrix embedded at `min_r` -/
def Group.den [CommRing R] (I : R) (N : ℕ) : Group R → Seg R N
  | .blockOf r0 w comps => .mat (embed N r0 (Group.blockMat I N r0 w comps))
  | .non r0 id w => .non r0 id w

/-- the accumulator that stands for the pending components -/
def accOf [CommRing R] (I : R) (N : ℕ) (pending : List (ℕ × Cmp R)) :
    Option (Matrix (Fin N) (Fin N) R) :=
  if pending.isEmpty then none else some (prodList I N pending)

theorem block_embed_pending [CommRing R] (I : R) (N : ℕ) (pending : List (ℕ × Cmp R))
    (hfit : ∀ p ∈ pending, p.1 + (p.2.toC01 I).size ≤ N) :
    embed N (pendingRange I N pending).1
        (Group.blockMat I N (pendingRange I N pending).1
          ((pendingRange I N pending).2 - (pendingRange I N pending).1) pending) =
      prodList I N pending := by
  have h2 : (pendingRange I N pending).2 ≤ N := pendingRange_le I N pending N 0 (Nat.zero_le _) hfit
  have h1 : (pendingRange I N pending).1 ≤ N := (pendingRange_foldl I pending N 0).1
  have hk : (pendingRange I N pending).1 +
      ((pendingRange I N pending).2 - (pendingRange I N pending).1) ≤ N := by omega
  unfold Group.blockMat
  rw [prodList_embed I hk pending (pendingRange_within I N pending), block_embed hk]

theorem den_flush [CommRing R] (I : R) (N : ℕ) (pending : List (ℕ × Cmp R))
    (hfit : ∀ p ∈ pending, p.1 + (p.2.toC01 I).size ≤ N) :
    (flush I N pending).map (Group.den I N) = emit (accOf I N pending) := by
  unfold flush accOf
  cases pending with
  | nil => rfl
  | cons a b =>
    simp only [List.isEmpty_cons, Bool.false_eq_true, if_false, List.map_cons, List.map_nil, emit,
      Group.den]
    rw [block_embed_pending I N _ hfit]

/-- the unitary entries of a list fit the `N` modes -/
def EntriesFit [CommRing R] (I : R) (N : ℕ) (es : List (ℕ × Entry R)) : Prop :=
  ∀ e ∈ es, match e.2 with
    | .uni c => e.1 + (c.toC01 I).size ≤ N
    | .non _ _ => True

/-- **the regrouped list denotes what the flattened list denotes**: block after block, the matrix
`Unitary(u[min_r:max_r, min_r:max_r])` placed on `range(min_r, max_r)` is the ordered product of the
unitary components of the run, and the non-unitary components stand between the blocks where they
stood between the runs -/
theorem regroup_den' [CommRing R] (I : R) (N : ℕ) : ∀ (es : List (ℕ × Entry R))
    (pending : List (ℕ × Cmp R)), EntriesFit I N es →
    (∀ p ∈ pending, p.1 + (p.2.toC01 I).size ≤ N) →
    (regroup I N es pending).map (Group.den I N) = denE I N es (accOf I N pending)
  | [], pending, _, hp => by rw [regroup_nil, den_flush I N pending hp]; rfl
  | (r0, .uni c) :: rest, pending, he, hp => by
    have hc : r0 + (c.toC01 I).size ≤ N := he (r0, .uni c) (by simp)
    have hp' : ∀ p ∈ pending ++ [(r0, c)], p.1 + (p.2.toC01 I).size ≤ N := by
      intro p h
      rcases List.mem_append.1 h with h | h
      · exact hp p h
      · simp only [List.mem_singleton] at h; subst h; exact hc
    rw [regroup_uni, regroup_den' I N rest _ (fun e h => he e (by simp [h])) hp']
    simp only [denE]
    congr 1
    unfold accOf
    have hne : (pending ++ [(r0, c)]).isEmpty = false := by simp
    rw [hne]
    simp only [Bool.false_eq_true, if_false]
    congr 1
    rw [prodList_append]
    cases pending with
    | nil => simp [prodList]
    | cons a b => simp [prodList]
  | (r0, .non id w) :: rest, pending, he, hp => by
    rw [regroup_non, List.map_append, List.map_cons, den_flush I N pending hp,
      regroup_den' I N rest [] (fun e h => he e (by simp [h])) (by simp)]
    rfl

/-! ### `unitary_circuit()` and the time-delay early return -/

theorem unitaryCircuit_eq_some {es : List (ℕ × Entry R)} {comps : List (ℕ × Cmp R)}
    (h : unitaryCircuit es = some comps) : es = comps.map uniE := by
  induction es generalizing comps with
  | nil => simp [unitaryCircuit] at h; subst h; rfl
  | cons e rest ih =>
    obtain ⟨r0, x⟩ := e
    cases x with
    | uni c =>
      simp only [unitaryCircuit] at h
      obtain ⟨l, hl, rfl⟩ := Option.map_eq_some_iff.1 h
      rw [ih hl]
      rfl
    | non id w => simp [unitaryCircuit] at h

theorem regroup_all_uni [CommRing R] (I : R) (N : ℕ) : ∀ (comps pending : List (ℕ × Cmp R)),
    regroup I N (comps.map uniE) pending = flush I N (pending ++ comps)
  | [], pending => by simp [regroup_nil]
  | (r0, c) :: rest, pending => by
    have e : ((r0, c) :: rest).map uniE = (r0, Entry.uni c) :: rest.map uniE := rfl
    rw [e, regroup_uni, regroup_all_uni I N rest (pending ++ [(r0, c)])]
    simp

end PM.C11
