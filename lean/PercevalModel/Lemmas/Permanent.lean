/-
  Permanent: Laplace expansion along the first column, invariance under re-indexing, and a
  list-indexed recursive evaluation `permRec` proved equal to Mathlib's `Matrix.permanent`.
-/
import Mathlib.LinearAlgebra.Matrix.Permanent
import Mathlib.GroupTheory.Perm.Fin
import Mathlib.Algebra.BigOperators.Fin

open Matrix Equiv Finset

namespace PM

variable {R : Type*} [CommRing R]

/-- Laplace expansion of the permanent along column 0 -/
theorem permanent_succ_column_zero {n : ℕ} (A : Matrix (Fin n.succ) (Fin n.succ) R) :
    permanent A = ∑ i : Fin n.succ, A i 0 * permanent (A.submatrix i.succAbove Fin.succ) := by
  rw [permanent, Finset.univ_perm_fin_succ, ← Finset.univ_product_univ]
  simp only [Finset.sum_map, Equiv.toEmbedding_apply, Finset.sum_product, Matrix.submatrix]
  refine Finset.sum_congr rfl fun i _ => Fin.cases ?_ (fun i => ?_) i
  · simp only [Fin.prod_univ_succ, permanent, Finset.mul_sum,
      Equiv.Perm.decomposeFin_symm_apply_zero, Equiv.swap_self,
      Equiv.Perm.decomposeFin_symm_apply_succ, Fin.succAbove_zero, Equiv.coe_refl, id, of_apply]
  · rw [← permanent_permute_cols (i.cycleRange)
      (Matrix.of fun i' j => A ((Fin.succ i).succAbove i') j.succ)]
    simp only [permanent, Finset.mul_sum]
    refine Finset.sum_congr rfl fun σ _ => ?_
    simp only [Fin.prod_univ_succ, Fin.succAbove_cycleRange,
        Equiv.Perm.decomposeFin_symm_apply_zero, Equiv.Perm.decomposeFin_symm_apply_succ,
        submatrix_apply, of_apply]
    rfl

/-- re-indexing rows and columns by the same equivalence does not change the permanent -/
theorem permanent_submatrix_equiv_self {n m : Type*} [Fintype n] [DecidableEq n] [Fintype m]
    [DecidableEq m] (e : n ≃ m) (A : Matrix m m R) :
    permanent (A.submatrix e e) = permanent A := by
  unfold permanent
  apply Fintype.sum_equiv (Equiv.permCongr e)
  intro σ
  apply Fintype.prod_equiv e
  intro i
  rw [Equiv.permCongr_apply, Equiv.symm_apply_apply, submatrix_apply]

/-- Recursive evaluation of the permanent of the matrix `(i, j) ↦ f rows[i] cols[j]`:
expansion along the first column, erasing the chosen row. -/
def permRec (f : ℕ → ℕ → R) : List ℕ → List ℕ → R
  | _, [] => 1
  | rows, c :: cs =>
    ((List.range rows.length).map fun i => f (rows.getD i 0) c * permRec f (rows.eraseIdx i) cs).sum

/-- the list-indexed matrix -/
def lmat (f : ℕ → ℕ → R) (rows cols : List ℕ) : Matrix (Fin cols.length) (Fin cols.length) R :=
  fun i j => f (rows.getD i.val 0) (cols.getD j.val 0)

theorem list_range_sum (g : ℕ → R) (n : ℕ) :
    ((List.range n).map g).sum = ∑ i : Fin n, g i.val := by
  induction n with
  | zero => simp
  | succ k ih => rw [List.range_succ, List.map_append, List.sum_append, ih, Fin.sum_univ_castSucc]; simp

theorem getD_eraseIdx (l : List ℕ) (i k : ℕ) :
    (l.eraseIdx i).getD k 0 = l.getD (if k < i then k else k + 1) 0 := by
  simp only [List.getD_eq_getElem?_getD, List.getElem?_eraseIdx]
  split_ifs <;> rfl

theorem permRec_eq_permanent (f : ℕ → ℕ → R) : ∀ (cols rows : List ℕ),
    rows.length = cols.length → permRec f rows cols = permanent (lmat f rows cols)
  | [], rows, _ => by
    rw [permRec]
    exact (permanent_isEmpty (n := Fin 0)).symm
  | c :: cs, rows, h => by
    have hlen : rows.length = cs.length + 1 := by simpa using h
    rw [permRec, permanent_succ_column_zero, list_range_sum]
    apply Fintype.sum_equiv (finCongr hlen)
    intro i
    have hi : i.val < cs.length + 1 := by omega
    have hlen' : (rows.eraseIdx i.val).length = cs.length := by
      rw [List.length_eraseIdx]; simp [i.isLt]; omega
    rw [permRec_eq_permanent f cs (rows.eraseIdx i.val) hlen']
    congr 1
    congr 1
    ext k j
    simp only [lmat, submatrix_apply, finCongr_apply, Fin.val_succ, Fin.val_cast, List.getD_cons_succ]
    rw [getD_eraseIdx]
    congr 2
    simp only [Fin.succAbove, Fin.lt_def, Fin.val_castSucc, Fin.val_cast]
    split_ifs <;> simp

end PM
