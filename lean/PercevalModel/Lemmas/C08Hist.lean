/-
  C08 — histories with a changing `min_p` on one detector instance (`Model/C08Hist.lean`): step lemmas.
  * repaired code: the invariant "every cached dictionary was computed at the recorded `_cache_min_p`" is kept by
    every step and makes every answer the fresh answer at the CURRENT `min_p`;
  * pinned code: the cache holds, for every photon count already asked (≥ 2, multi-wire detector), the fresh answer at
    the `min_p` of the FIRST such call.
-/
import PercevalModel.Model.C08Hist
import PercevalModel.Lemmas.C08

set_option linter.unusedSectionVars false

namespace PM.C08

section hist
variable {K : Type} [Field K] [LinearOrder K]

/-- the memo table of `_cond_probability` holds values of the recurrence (it never depends on `min_p`) -/
def MemoOk (d : Det) (t : Memo K) : Prop :=
  match d with
  | .pnr => True
  | .wired w _ => Memo.Valid w t

theorem Inst.Valid.memoOk {d : Det} {p : K} {s : Inst K} (h : Inst.Valid d p s) : MemoOk d s.memo := by
  cases d with
  | pnr => trivial
  | wired w mx => exact h.1

theorem MemoOk.valid_empty {d : Det} {t : Memo K} (h : MemoOk d t) (p : K) : Inst.Valid d p ⟨t, []⟩ := by
  cases d with
  | pnr => trivial
  | wired w mx => exact ⟨h, by intro n r hr; simp [DCache.get] at hr⟩

/-- the early returns of `Detector.detect` neither read nor write the instance, and ignore `min_p` -/
theorem detectInst_early (d : Det) (p : K) (s : Inst K) (n : ℕ)
    (h : n < 2 ∨ d.type = .PNR ∨ d.type = .Threshold) :
    detectInst d p s n = (s, (n, d.detect p n)) := by
  unfold detectInst Det.detect
  split
  · rfl
  · next h1 =>
    split
    · rfl
    · next h2 =>
      exfalso
      rcases h with h | h | h
      · exact h1 (Or.inl h)
      · exact h1 (Or.inr h)
      · exact h2 h

theorem detect_early_minp (d : Det) (p q : K) (n : ℕ)
    (h : n < 2 ∨ d.type = .PNR ∨ d.type = .Threshold) : d.detect p n = d.detect q n := by
  unfold Det.detect
  split
  · rfl
  · next h1 =>
    split
    · rfl
    · next h2 =>
      exfalso
      rcases h with h | h | h
      · exact h1 (Or.inl h)
      · exact h1 (Or.inr h)
      · exact h2 h

/-- invariant of the REPAIRED long-lived `Detector` -/
def InstH.Valid (d : Det) (s : InstH K) : Prop :=
  MemoOk d s.inst.memo ∧ (∀ p, s.mark = some p → Inst.Valid d p s.inst) ∧ (s.mark = none → s.inst.cache = [])

theorem InstH.valid_init (d : Det) : InstH.Valid d (⟨⟨[], []⟩, none⟩ : InstH K) := by
  refine ⟨?_, ?_, ?_⟩
  · cases d with
    | pnr => trivial
    | wired w mx => exact Memo.valid_nil w
  · intro p h; cases h
  · intro _; rfl

theorem detectInstH_fixed_step (d : Det) (s : InstH K) (op : K × ℕ) (h : InstH.Valid d s) :
    InstH.Valid d (detectInstH true d s op).1 ∧ (detectInstH true d s op).2 = (op.2, d.detect op.1 op.2) := by
  unfold detectInstH
  split
  · next he => rw [detectInst_early d op.1 s.inst op.2 he]; exact ⟨h, rfl⟩
  · obtain ⟨hm, hv, _⟩ := h
    have hs : (s.sync true op.1).mark = some op.1 ∧ Inst.Valid d op.1 (s.sync true op.1).inst := by
      unfold InstH.sync
      by_cases hk : s.mark = some op.1
      · rw [if_neg (by simp [hk])]
        exact ⟨hk, hv _ hk⟩
      · rw [if_pos ⟨rfl, hk⟩]
        exact ⟨rfl, hm.valid_empty op.1⟩
    obtain ⟨hmark, hval⟩ := hs
    obtain ⟨h1, h2⟩ := detectInst_step d op.1 (s.sync true op.1).inst op.2 hval
    refine ⟨⟨h1.memoOk, ?_, ?_⟩, h2⟩
    · intro p hp
      simp only [hmark] at hp
      cases hp
      exact h1
    · intro hn
      simp only [hmark] at hn
      cases hn

/-- invariant of the REPAIRED long-lived `BSLayeredPPNR` -/
def BsH.Valid (L : ℕ) (r : K) (s : BsH K) : Prop :=
  (∀ p, s.mark = some p → BsValid p L r s.cache) ∧ (s.mark = none → s.cache = [])

theorem bsValid_nil (p : K) (L : ℕ) (r : K) : BsValid p L r [] := by
  intro n d h; simp [DCache.get] at h

/-- expected output of an operation on a `BSLayeredPPNR`: the fresh answer at the current `min_p` -/
def bsFresh (L : ℕ) (r : K) : Option (K × ℕ) → Option (ℕ × DetOut K)
  | none => none
  | some op => some (op.2, bsDetectP op.1 L r op.2)

theorem bsInstH_fixed_step (L : ℕ) (r : K) (s : BsH K) (op : Option (K × ℕ)) (h : BsH.Valid L r s) :
    BsH.Valid L r (bsInstH true L r s op).1 ∧ (bsInstH true L r s op).2 = bsFresh L r op := by
  cases op with
  | none =>
    refine ⟨⟨?_, fun _ => rfl⟩, rfl⟩
    intro p _
    exact bsValid_nil p L r
  | some op =>
    unfold bsInstH
    simp only []
    split
    · next hlt =>
      refine ⟨h, ?_⟩
      simp [bsFresh, bsDetectP, hlt]
    · obtain ⟨hv, _⟩ := h
      have hs : (s.sync true op.1).mark = some op.1 ∧ BsValid op.1 L r (s.sync true op.1).cache := by
        unfold BsH.sync
        by_cases hk : s.mark = some op.1
        · rw [if_neg (by simp [hk])]
          exact ⟨hk, hv _ hk⟩
        · rw [if_pos ⟨rfl, hk⟩]
          exact ⟨rfl, bsValid_nil _ L r⟩
      obtain ⟨hmark, hval⟩ := hs
      obtain ⟨h1, h2⟩ := bsInst_step op.1 L r (s.sync true op.1).cache op.2 hval
      refine ⟨⟨?_, ?_⟩, by simp [bsFresh, h2]⟩
      · intro p hp
        simp only [hmark] at hp
        cases hp
        exact h1
      · intro hn
        simp only [hmark] at hn
        cases hn

/-! ### the pinned code: which dictionary the cache holds -/

theorem firstP_append (pre : List (K × ℕ)) (op : K × ℕ) (m : ℕ) :
    firstP (pre ++ [op]) m = (firstP pre m).orElse fun _ => if op.2 = m then some op.1 else none := by
  unfold firstP
  rw [List.find?_append]
  cases hf : pre.find? fun e => e.2 = m with
  | some e => simp
  | none =>
    simp only [Option.none_or, Option.map_none, Option.orElse_none]
    by_cases hm : op.2 = m
    · simp [List.find?, hm]
    · simp [List.find?, hm]

/-- invariant of the PINNED long-lived `Detector` after the calls `pre` -/
def InstH.Stale (d : Det) (pre : List (K × ℕ)) (s : InstH K) : Prop :=
  match d with
  | .pnr => True
  | .wired w mx =>
    Memo.Valid w s.inst.memo ∧
    (∀ n r, s.inst.cache.get n = some r → ∃ p, firstP pre n = some p ∧ r = detectWired w mx p n) ∧
    (∀ n p, 2 ≤ n → w ≠ 1 → firstP pre n = some p → s.inst.cache.get n ≠ none)

theorem InstH.stale_init (d : Det) : InstH.Stale d [] (⟨⟨[], []⟩, none⟩ : InstH K) := by
  cases d with
  | pnr => trivial
  | wired w mx =>
    refine ⟨Memo.valid_nil w, ?_, ?_⟩
    · intro n r h; simp [DCache.get] at h
    · intro n p _ _ h; simp [firstP] at h

theorem detectInstH_stale_step (d : Det) (pre : List (K × ℕ)) (s : InstH K) (op : K × ℕ)
    (h : InstH.Stale d pre s) :
    InstH.Stale d (pre ++ [op]) (detectInstH false d s op).1 ∧
      (detectInstH false d s op).2 = (op.2, d.detect ((firstP pre op.2).getD op.1) op.2) := by
  obtain ⟨p, n⟩ := op
  unfold detectInstH
  simp only []
  split
  · next he =>
    rw [detectInst_early d p s.inst n he]
    refine ⟨?_, by rw [detect_early_minp d p _ n he]⟩
    cases d with
    | pnr => trivial
    | wired w mx =>
      obtain ⟨hm, ha, hb⟩ := h
      refine ⟨hm, ?_, ?_⟩
      · intro m r hr
        obtain ⟨q, hq, e⟩ := ha m r hr
        exact ⟨q, by rw [firstP_append, hq]; rfl, e⟩
      · intro m q h2 hw hq
        rw [firstP_append] at hq
        cases hf : firstP pre m with
        | some q' => exact hb m q' h2 hw hf
        | none =>
          rw [hf] at hq
          simp only [Option.orElse_none] at hq
          exfalso
          split at hq
          · next hnm =>
            subst hnm
            rcases he with he | he | he
            · omega
            · simp [Det.type] at he
              split at he <;> cases he
            · simp [Det.type] at he
              exact hw he
          · cases hq
  · next he =>
    have hsync : s.sync false p = s := by simp [InstH.sync]
    rw [hsync]
    cases d with
    | pnr => exact absurd (Or.inr (Or.inl rfl)) he
    | wired w mx =>
      obtain ⟨hm, ha, hb⟩ := h
      have h2 : 2 ≤ n := by
        by_contra hc
        exact he (Or.inl (by omega))
      have hw : w ≠ 1 := by
        intro hw1
        exact he (Or.inr (Or.inr (by simp [Det.type, hw1])))
      have hdet : ∀ q : K, (Det.wired w mx).detect q n = .dist (detectWired w mx q n) := by
        intro q
        unfold Det.detect
        have hn2 : ¬ n < 2 := by omega
        simp [Det.type, hw, hn2]
      unfold detectInst
      have hne : ¬ (n < 2 ∨ (Det.wired w mx).type = .PNR) := fun hc => he (hc.elim Or.inl (fun x => Or.inr (Or.inl x)))
      have hnt : ¬ (Det.wired w mx).type = .Threshold := fun hc => he (Or.inr (Or.inr hc))
      simp only [hne, hnt, if_false]
      cases hc : s.inst.cache.get n with
      | some r =>
        obtain ⟨q, hq, e⟩ := ha n r hc
        simp only []
        refine ⟨⟨hm, ?_, ?_⟩, by rw [hq, hdet, e]; rfl⟩
        · intro m r' hr'
          obtain ⟨q', hq', e'⟩ := ha m r' hr'
          exact ⟨q', by rw [firstP_append, hq']; rfl, e'⟩
        · intro m q' hm2 _ hq'
          rw [firstP_append] at hq'
          cases hf : firstP pre m with
          | some q'' => exact hb m q'' hm2 hw hf
          | none =>
            rw [hf] at hq'
            simp only [Option.orElse_none] at hq'
            split at hq'
            · next hnm => subst hnm; rw [hc]; simp
            · cases hq'
      | none =>
        have hfn : firstP pre n = none := by
          cases hf : firstP pre n with
          | none => rfl
          | some q => exact absurd hc (hb n q h2 hw hf)
        obtain ⟨e1, e2⟩ := detectWiredM_spec w mx p n s.inst.memo hm
        simp only []
        refine ⟨⟨e2, ?_, ?_⟩, by rw [hfn, hdet, e1]; rfl⟩
        · intro m r' hr'
          simp only [DCache.get] at hr'
          split at hr'
          · next heq =>
            cases hr'
            subst heq
            exact ⟨p, by rw [firstP_append, hfn]; simp, e1⟩
          · obtain ⟨q', hq', e'⟩ := ha m r' hr'
            exact ⟨q', by rw [firstP_append, hq']; rfl, e'⟩
        · intro m q' hm2 _ hq'
          simp only [DCache.get]
          split
          · simp
          · next hnm =>
            rw [firstP_append] at hq'
            cases hf : firstP pre m with
            | some q'' => exact hb m q'' hm2 hw hf
            | none =>
              rw [hf] at hq'
              simp only [Option.orElse_none] at hq'
              split at hq'
              · next hnm' => exact absurd hnm' hnm
              · cases hq'

end hist

end PM.C08
