/-
  C15 (text formats, wave 7) — the hypothesis `Nodup` of the ROUNDED keys in `decodeSVD_encodeSVD`
  (`Txt.roundtrip_svdistribution`) is necessary: two state vectors that differ below the 1e-6 grid
  are two keys of the SVDistribution, print identically, and the reader's dict assignment keeps ONE
  key with the LAST probability.  Every other hypothesis of the theorem holds for the witness.
-/
import PercevalModel.Lemmas.C15Text

namespace PM.C15.Txt

/-- `|1,0>` and `|0,1>` -/
def wit10 : FState := [⟨[], 1⟩, ⟨[], 0⟩]
def wit01 : FState := [⟨[], 0⟩, ⟨[], 1⟩]

/-- `0.6|1,0> + 0.8|0,1>` with probability 1/2 and `(0.6+1e-8)|1,0> + 0.8|0,1>` with probability 1/4 -/
def witSVD : List (List Term × Dbl) :=
  [([((3 : Rat) / 5, (0 : Rat), wit10), ((4 : Rat) / 5, (0 : Rat), wit01)], 1 / 2),
   ([((3 : Rat) / 5 + 1 / 100000000, (0 : Rat), wit10), ((4 : Rat) / 5, (0 : Rat), wit01)], 1 / 4)]

/-- the single entry the reader rebuilds -/
def witSVDRead : List (List Term × Dbl) :=
  [([((3 : Rat) / 5, (0 : Rat), wit10), ((4 : Rat) / 5, (0 : Rat), wit01)], 1 / 4)]

theorem witSVD_hyps :
    (∀ e ∈ witSVD, e.1 ≠ []) ∧ (∀ e ∈ witSVD, ∀ t ∈ e.1, FState.WF t.2.2 = true) ∧
    (∀ e ∈ witSVD, uniform (e.1.map (·.2.2.length)) = true) ∧
    uniform (witSVD.map (svModes ·.1)) = true ∧ (witSVD.map Prod.fst).Nodup ∧
    ¬ (witSVD.map fun e => e.1.map roundTerm).Nodup := by
  decide +kernel

theorem witSVD_read_aux :
    (decodeSVD (encodeSVD witSVD)).isSome = true ∧ (decodeSVD (encodeSVD witSVD)).getD [] = witSVDRead := by
  decide +kernel

theorem witSVD_read : decodeSVD (encodeSVD witSVD) = some witSVDRead := by
  have h := witSVD_read_aux
  cases hd : decodeSVD (encodeSVD witSVD) with
  | none => rw [hd] at h; simp at h
  | some l => rw [hd] at h; simpa using h.2

/-- the conclusion of `decodeSVD_encodeSVD` fails for the witness: one entry instead of two -/
theorem witSVD_collapses :
    decodeSVD (encodeSVD witSVD) ≠ some (witSVD.map fun e => (e.1.map roundTerm, gridVal e.2)) := by
  rw [witSVD_read]
  intro h
  have := congrArg (fun o => (o.getD []).length) h
  simp [witSVDRead, witSVD] at this

end PM.C15.Txt
