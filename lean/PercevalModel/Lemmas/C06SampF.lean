/-
  C06 — the event-table route of the sampler (`_events_to_samples`) as a function of its draws: the tags
  attached to an event, averaged over ideal booleans, have the class generating function of the physical
  description; shuffling and distributing over the modes do not change the photons of a sample; the law of
  (common-tag photons, fresh-tag photons) of a sample is that of `generate_distribution` conditioned on the
  photon filter.
-/
import PercevalModel.Lemmas.C06Samp
import PercevalModel.Lemmas.C06More
import PercevalModel.Lemmas.C06Fresh
import Mathlib.Data.List.Permutation
set_option linter.unusedSimpArgs false
namespace PM.C06

section gen
variable {α β : Type}

theorem E_const_mul (c : ℚ) (g : α → ℚ) (d : Dist α) : E (fun x => c * g x) d = c * E g d := by
  induction d with
  | nil => simp
  | cons e d ih => simp only [E_cons, ih]; ring

theorem E_filter (g : α → ℚ) (p : α → Bool) (d : Dist α) :
    E g (d.filter fun e => p e.1) = E (fun x => if p x then g x else 0) d := by
  induction d with
  | nil => simp
  | cons e d ih => by_cases h : p e.1 <;> simp [List.filter_cons, h, ih]

theorem E_lt_sum_w (w : α → ℚ) (c : α → ℕ) (d : Dist α) (f : ℕ) :
    E (fun x => if c x < f then w x else 0) d =
      ∑ k ∈ Finset.range f, E (fun x => if c x = k then w x else 0) d := by
  induction f with
  | zero => simp [E]
  | succ f ih =>
    rw [Finset.sum_range_succ, ← ih, ← E_add]
    apply E_congr
    intro x
    by_cases h1 : c x < f
    · have : c x ≠ f := by omega
      have h2 : c x < f + 1 := by omega
      simp [h1, h2, this]
    · by_cases h2 : c x = f
      · simp [h2]
      · have h3 : ¬ c x < f + 1 := by omega
        simp [h1, h2, h3]

/-- equal weighted count laws and equal totals ⇒ equal weighted tails -/
theorem E_ge_of_points (w : α → ℚ) (c : α → ℕ) (d : Dist α) (w' : β → ℚ) (c' : β → ℕ) (d' : Dist β)
    (hm : E w d = E w' d')
    (h : ∀ k, E (fun x => if c x = k then w x else 0) d = E (fun x => if c' x = k then w' x else 0) d')
    (f : ℕ) :
    E (fun x => if f ≤ c x then w x else 0) d = E (fun x => if f ≤ c' x then w' x else 0) d' := by
  have split : ∀ {γ : Type} (w : γ → ℚ) (c : γ → ℕ) (d : Dist γ),
      E (fun x => if f ≤ c x then w x else 0) d = E w d - E (fun x => if c x < f then w x else 0) d := by
    intro γ w c d
    rw [eq_sub_iff_add_eq, ← E_add]
    apply E_congr
    intro x
    by_cases h1 : c x < f
    · have : ¬ f ≤ c x := by omega
      simp [h1, this]
    · have : f ≤ c x := by omega
      simp [h1, this]
  rw [split w c d, split w' c' d', hm, E_lt_sum_w, E_lt_sum_w]
  congr 1
  exact Finset.sum_congr rfl fun k _ => h k

theorem E_map_const (F : β → ℚ) (f : α → β) (w c : ℚ) (σ : Dist α) (h : ∀ p ∈ σ, F (f p.1) = c) :
    E F (σ.map fun p => (f p.1, w * p.2)) = w * c * mass σ := by
  induction σ with
  | nil => simp [mass]
  | cons p σ ih =>
    have hp := h p (by simp)
    have := ih (fun q hq => h q (by simp [hq]))
    simp only [List.map_cons, E_cons, this, hp, mass, List.sum_cons]
    ring

end gen

/-! ### the class generating function of one event -/

/-- class weight of the extra photon: fresh in the "distinguishable" model, common otherwise -/
def xW (P : Params) (a b : ℚ) : ℚ := if P.dm then b else a

/-- generating function of the tag classes of the event `(i, j, k)`, booleans averaged -/
def evGF (P : Params) (a b : ℚ) (e : ℕ × ℕ × ℕ) : ℚ :=
  sigS P a b ^ e.1 * xW P a b ^ e.2.1 * (sigS P a b * xW P a b) ^ e.2.2

/-- generating function of the tag classes of a list of photon groups -/
def itemsGF (a b : ℚ) (items : List Mode) : ℚ := (items.map (tagProd (tagW a b))).prod

/-- generating function of the tag classes of a state -/
def stateGF (a b : ℚ) (s : State) : ℚ := a ^ nCommon s * b ^ nFresh s

theorem evGF_scale (P : Params) (a b y : ℚ) (e : ℕ × ℕ × ℕ) :
    evGF P (a * y) (b * y) e = evGF P a b e * y ^ evPhotons e := by
  have h1 : sigS P (a * y) (b * y) = sigS P a b * y := by unfold sigS; ring
  have h2 : xW P (a * y) (b * y) = xW P a b * y := by unfold xW; split <;> rfl
  simp only [evGF, h1, h2, evPhotons, mul_pow, pow_add, pow_mul]
  ring

theorem evGF_one (P : Params) (e : ℕ × ℕ × ℕ) : evGF P 1 1 e = 1 := by
  have h1 : sigS P 1 1 = 1 := by unfold sigS; ring
  have h2 : xW P 1 1 = 1 := by unfold xW; split <;> rfl
  simp [evGF, h1, h2]

theorem E_table_evGF (P : Params) (a b : ℚ) (n : ℕ) :
    E (evGF P a b) (table P n 0) = tagGF P a b ^ n := by
  have h := E_tableRawOf_weight (pSignal P) (pG2 P) (pDuo P) (pNone P) (sigS P a b) (xW P a b)
    (sigS P a b * xW P a b) n
  simp only [table, if_true, tableRaw]
  unfold evGF
  rw [h]
  congr 1
  simp only [tagGF, xW, pSignal, pG2, pDuo, pNone, p11, p21, p22, p1]
  split <;> ring

theorem photons_eq (s : State) : photons s = nCommon s + nFresh s := by
  unfold photons nCommon nFresh freshTags
  rw [← List.length_flatten]
  generalize s.flatten = l
  induction l with
  | nil => rfl
  | cons x l ih =>
    by_cases h : commonTag x = true <;> simp [List.filter_cons, h, ih] <;> omega

theorem stateGF_scale (a b y : ℚ) (s : State) :
    stateGF (a * y) (b * y) s = stateGF a b s * y ^ photons s := by
  simp only [stateGF, photons_eq, mul_pow, pow_add]; ring

theorem E_generateAt_stateGF {P : Params} (hP : P.WF) {ns : List ℕ} (hne : ns ≠ []) (t : ℕ) (a b : ℚ) :
    E (stateGF a b) (generateAt P 0 ns t) = tagGF P a b ^ ns.sum := by
  rw [← prodFrom_tag hP a b 0 ns t, ← E_generateRaw_zero P _ hne, ← E_generateAt_zero hP _ hne]
  apply E_congr
  intro s
  rw [W_tag_counts]; rfl

/-- event table and distribution builder agree on the class generating function restricted to "at least
`f` photons" -/
theorem tail_gf_eq {P : Params} (hP : P.WF) {ns : List ℕ} (hne : ns ≠ []) (t : ℕ) (a b : ℚ) (f : ℕ) :
    E (fun e => if f ≤ evPhotons e then evGF P a b e else 0) (table P ns.sum 0) =
      E (fun s => if f ≤ photons s then stateGF a b s else 0) (generateAt P 0 ns t) := by
  apply E_ge_of_points
  · rw [E_table_evGF, E_generateAt_stateGF hP hne]
  · apply law_of_gf
    intro y
    rw [E_congr (g' := evGF P (a * y) (b * y)) (fun e => (evGF_scale P a b y e).symm),
      E_congr (g' := stateGF (a * y) (b * y)) (fun s => (stateGF_scale a b y s).symm),
      E_table_evGF, E_generateAt_stateGF hP hne]

/-! ### the photons of one event, booleans averaged -/

theorem itemsGF_nil (a b : ℚ) : itemsGF a b [] = 1 := rfl
theorem itemsGF_cons (a b : ℚ) (m : Mode) (l : List Mode) :
    itemsGF a b (m :: l) = tagProd (tagW a b) m * itemsGF a b l := by simp [itemsGF]
theorem itemsGF_append (a b : ℚ) (l l' : List Mode) :
    itemsGF a b (l ++ l') = itemsGF a b l * itemsGF a b l' := by simp [itemsGF]
theorem itemsGF_replicate_nil (a b : ℚ) (n : ℕ) : itemsGF a b (List.replicate n []) = 1 := by
  simp [itemsGF, tagProd]

theorem boolLaw_E (P : Params) (h : Bool → ℚ) : E h (boolLaw P) = P.r * h true + (1 - P.r) * h false := by
  simp [boolLaw, E]

theorem sigPart_gf (P : Params) (a b : ℚ) (n m : ℕ) (K : List Bool → ℕ → ℚ) (κ : ℚ)
    (hK : ∀ c, E (fun bs => K bs c) (prodLaw (List.replicate m (boolLaw P))) = κ) (c : ℕ) :
    E (fun bs => itemsGF a b (sigPart n bs c).1 * K (sigPart n bs c).2.1 (sigPart n bs c).2.2)
      (prodLaw (List.replicate (n + m) (boolLaw P))) = sigS P a b ^ n * κ := by
  induction n generalizing c with
  | zero => simpa [sigPart, itemsGF_nil] using hK c
  | succ n ih =>
    rw [show n + 1 + m = (n + m) + 1 by omega, List.replicate_succ, E_prodLaw_cons, boolLaw_E]
    have ht : ∀ l : List Bool,
        itemsGF a b (sigPart (n + 1) (true :: l) c).1 *
          K (sigPart (n + 1) (true :: l) c).2.1 (sigPart (n + 1) (true :: l) c).2.2 =
        a * (itemsGF a b (sigPart n l c).1 * K (sigPart n l c).2.1 (sigPart n l c).2.2) := by
      intro l
      simp [sigPart, itemsGF_cons, tagProd, tagW]
      ring
    have hf : ∀ l : List Bool,
        itemsGF a b (sigPart (n + 1) (false :: l) c).1 *
          K (sigPart (n + 1) (false :: l) c).2.1 (sigPart (n + 1) (false :: l) c).2.2 =
        b * (itemsGF a b (sigPart n l (c + 1)).1 * K (sigPart n l (c + 1)).2.1 (sigPart n l (c + 1)).2.2) := by
      intro l
      simp [sigPart, itemsGF_cons, tagProd, tagW]
      ring
    rw [E_congr ht, E_congr hf, E_const_mul, E_const_mul, ih, ih]
    unfold sigS
    ring

theorem g2Part_gf (P : Params) (a b : ℚ) (j c : ℕ) : itemsGF a b (g2Part P.dm j c).1 = xW P a b ^ j := by
  induction j generalizing c with
  | zero => simp [g2Part, itemsGF_nil]
  | succ j ih =>
    simp only [g2Part, itemsGF_cons, ih, pow_succ]
    unfold xW
    cases P.dm <;> simp [tagProd, tagW] <;> ring

theorem duoPart_gf (P : Params) (a b : ℚ) (k c : ℕ) :
    E (fun bs => itemsGF a b (duoPart P.dm k bs c).1) (prodLaw (List.replicate k (boolLaw P))) =
      (sigS P a b * xW P a b) ^ k := by
  induction k generalizing c with
  | zero => simp [duoPart, itemsGF_nil, prodLaw, E]
  | succ k ih =>
    rw [List.replicate_succ, E_prodLaw_cons, boolLaw_E]
    have ht : ∀ l : List Bool, itemsGF a b (duoPart P.dm (k + 1) (true :: l) c).1 =
        (a * xW P a b) * itemsGF a b (duoPart P.dm k l (if P.dm then c + 1 else c)).1 := by
      intro l
      unfold xW
      cases P.dm <;> simp [duoPart, itemsGF_cons, tagProd, tagW]
    have hf : ∀ l : List Bool, itemsGF a b (duoPart P.dm (k + 1) (false :: l) c).1 =
        (b * xW P a b) * itemsGF a b (duoPart P.dm k l (if P.dm then c + 1 + 1 else c + 1)).1 := by
      intro l
      unfold xW
      cases P.dm <;> simp [duoPart, itemsGF_cons, tagProd, tagW]
    rw [E_congr ht, E_congr hf, E_const_mul, E_const_mul, ih, ih]
    unfold sigS
    ring

/-- the tags `_events_to_samples` attaches to an event, averaged over ideal booleans, whatever the tag
counter and the padding -/
theorem evItems_gf (P : Params) (a b : ℚ) (n : ℕ) (e : ℕ × ℕ × ℕ) (t : ℕ) :
    E (fun bs => itemsGF a b (evItems P.dm n e bs t).1)
      (prodLaw (List.replicate (e.1 + e.2.2) (boolLaw P))) = evGF P a b e := by
  have h := sigPart_gf P a b e.1 e.2.2
    (fun bs c => itemsGF a b (g2Part P.dm e.2.1 c).1 *
      itemsGF a b (duoPart P.dm e.2.2 bs (g2Part P.dm e.2.1 c).2).1)
    (xW P a b ^ e.2.1 * (sigS P a b * xW P a b) ^ e.2.2)
    (fun c => by
      simp only [g2Part_gf]
      rw [E_const_mul, duoPart_gf]) t
  unfold evGF
  rw [mul_assoc, ← h]
  apply E_congr
  intro bs
  simp only [evItems, itemsGF_append, itemsGF_replicate_nil, mul_one, mul_assoc]


/-! ### shuffling and distributing keep the photons -/

theorem tagProd_flatten (h : Tag → ℚ) (l : List Mode) :
    tagProd h l.flatten = (l.map (tagProd h)).prod := by
  induction l with
  | nil => rfl
  | cons m l ih => simp only [List.flatten_cons, List.map_cons, List.prod_cons, ← ih]; simp [tagProd]

theorem tagProd_perm (h : Tag → ℚ) {m m' : Mode} (hp : m.Perm m') : tagProd h m = tagProd h m' :=
  (hp.map h).prod_eq

theorem stateGF_eq (a b : ℚ) (s : State) : stateGF a b s = tagProd (tagW a b) s.flatten := by
  rw [tagProd_counts]; rfl

theorem mergeAll_perm (ms : List Mode) : (mergeAll ms).Perm ms.flatten := by
  unfold mergeAll
  suffices H : ∀ acc : Mode, (ms.foldl (fun s e => mergeTags s e) acc).Perm (acc ++ ms.flatten) by
    simpa using H []
  induction ms with
  | nil => intro acc; simp
  | cons m ms ih =>
    intro acc
    simp only [List.foldl_cons, List.flatten_cons]
    refine (ih _).trans ?_
    rw [← List.append_assoc]
    exact List.Perm.append_right _ (List.mergeSort_perm _ _)

theorem distribute_perm (ns : List ℕ) (l : List Mode) (h : l.length = ns.sum) :
    (distribute ns l).flatten.Perm l.flatten := by
  induction ns generalizing l with
  | nil =>
    have : l = [] := List.eq_nil_of_length_eq_zero (by simpa using h)
    subst this; simp [distribute]
  | cons n ns ih =>
    simp only [distribute, List.flatten_cons]
    have hd : (l.drop n).length = ns.sum := by simp [List.length_drop, h]
    have := (mergeAll_perm (l.take n)).append (ih (l.drop n) hd)
    rw [← List.flatten_append, List.take_append_drop] at this
    exact this

theorem applyPerm_perm (items : List Mode) (perm : List ℕ) (h : perm.Perm (List.range items.length)) :
    (applyPerm items perm).Perm items := by
  have h1 := h.map (fun p => items.getD p [])
  have h2 := range_map_getD items [] id
  simp only [id, List.map_id'] at h2
  unfold applyPerm
  rw [h2] at h1
  simpa using h1

theorem sigPart_length (n : ℕ) (bs : List Bool) (c : ℕ) : (sigPart n bs c).1.length = n := by
  induction n generalizing bs c with
  | zero => rfl
  | succ n ih => simp [sigPart, ih]

theorem g2Part_length (dm : Bool) (n c : ℕ) : (g2Part dm n c).1.length = n := by
  induction n generalizing c with
  | zero => rfl
  | succ n ih => simp [g2Part, ih]

theorem duoPart_length (dm : Bool) (n : ℕ) (bs : List Bool) (c : ℕ) : (duoPart dm n bs c).1.length = n := by
  induction n generalizing bs c with
  | zero => rfl
  | succ n ih => simp [duoPart, ih]

theorem evItems_length (dm : Bool) (n : ℕ) (e : ℕ × ℕ × ℕ) (bs : List Bool) (t : ℕ)
    (h : e.1 + e.2.1 + e.2.2 ≤ n) : (evItems dm n e bs t).1.length = n := by
  simp only [evItems, List.length_append, List.length_replicate, sigPart_length, g2Part_length,
    duoPart_length]
  omega

/-- whatever permutation the shuffle effects, the sample carries exactly the photons of its event -/
theorem fSample_stateGF (dm : Bool) (ns : List ℕ) (t : ℕ) (e : ℕ × ℕ × ℕ) (bs : List Bool) (perm : List ℕ)
    (he : e.1 + e.2.1 + e.2.2 ≤ ns.sum) (hp : perm.Perm (List.range ns.sum)) (a b : ℚ) :
    stateGF a b (fSample dm ns t e bs perm) = itemsGF a b (evItems dm ns.sum e bs t).1 := by
  have hl := evItems_length dm ns.sum e bs t he
  have h1 : (applyPerm (evItems dm ns.sum e bs t).1 perm).Perm (evItems dm ns.sum e bs t).1 :=
    applyPerm_perm _ _ (by rw [hl]; exact hp)
  have h2 := distribute_perm ns (applyPerm (evItems dm ns.sum e bs t).1 perm) (by rw [h1.length_eq, hl])
  rw [stateGF_eq, fSample, tagProd_perm _ (h2.trans h1.flatten), tagProd_flatten]
  rfl

theorem mem_tableRawOf_le (a b c z : ℚ) (n f : ℕ) (e : (ℕ × ℕ × ℕ) × ℚ) (h : e ∈ tableRawOf a b c z n f) :
    e.1.1 + e.1.2.1 + e.1.2.2 ≤ n := by
  simp only [tableRawOf, List.mem_flatMap, List.mem_range] at h
  obtain ⟨i, hi, j, hj, k, hk, he⟩ := h
  split at he
  · simp only [List.mem_singleton] at he
    subst he
    simp only
    split at hj <;> split at hk <;> omega
  · simp at he

theorem eventOf_le (P : Params) (n f i : ℕ) :
    (eventOf P n f i).1 + (eventOf P n f i).2.1 + (eventOf P n f i).2.2 ≤ n := by
  unfold eventOf
  rw [List.getD_eq_getElem?_getD]
  cases h : ((table P n f).map Prod.fst)[i]? with
  | none => simp
  | some e =>
    have hm : e ∈ (table P n f).map Prod.fst := List.mem_of_getElem? h
    simp only [Option.getD_some]
    obtain ⟨x, hx, rfl⟩ := List.mem_map.mp hm
    unfold table at hx
    split at hx
    · exact mem_tableRawOf_le _ _ _ _ n f x hx
    · obtain ⟨y, hy, rfl⟩ := List.mem_map.mp hx
      exact mem_tableRawOf_le _ _ _ _ n f y hy

/-! ### the law of the tag classes of one sample of the event-table route -/

/-- class generating function of the sample law = that of the event table the events are drawn from -/
theorem E_fLaw_stateGF (P : Params) (ns : List ℕ) (f t : ℕ) (σ : Dist (List ℕ))
    (hσ : ∀ p ∈ σ, p.1.Perm (List.range ns.sum)) (hm : mass σ = 1) (a b : ℚ) :
    E (stateGF a b) (fLaw P ns f t σ) = E (evGF P a b) (normalize (table P ns.sum f)) := by
  have hpick := pick_idxLaw (table P ns.sum f) (evGF P a b)
  rw [E_pushF] at hpick
  rw [← hpick]
  unfold fLaw eventIdxLaw
  rw [E_flatMap]
  unfold E
  congr 1
  apply List.map_congr_left
  intro ei _
  have he := eventOf_le P ns.sum f ei.1
  show E (stateGF a b) _ = ei.2 * evGF P a b (pickKey (table P ns.sum f) ei.1)
  rw [E_flatMap]
  have hinner : ∀ bl ∈ prodLaw (List.replicate ((eventOf P ns.sum f ei.1).1 + (eventOf P ns.sum f ei.1).2.2)
      (boolLaw P)),
      E (stateGF a b) (σ.map fun p => (fSample P.dm ns t (eventOf P ns.sum f ei.1) bl.1 p.1, ei.2 * bl.2 * p.2)) =
        ei.2 * (bl.2 * itemsGF a b (evItems P.dm ns.sum (eventOf P ns.sum f ei.1) bl.1 t).1) := by
    intro bl _
    rw [E_map_const (stateGF a b) (fun p => fSample P.dm ns t (eventOf P ns.sum f ei.1) bl.1 p) (ei.2 * bl.2)
      (itemsGF a b (evItems P.dm ns.sum (eventOf P ns.sum f ei.1) bl.1 t).1) σ
      (fun p hp => fSample_stateGF P.dm ns t _ bl.1 p.1 he (hσ p hp) a b), hm]
    ring
  rw [List.map_congr_left hinner, List.sum_map_mul_left]
  congr 1
  exact evItems_gf P a b ns.sum (eventOf P ns.sum f ei.1) t

theorem table_filter_eq (P : Params) (n f : ℕ) :
    tableRaw P n f = (table P n 0).filter (fun e => decide (f ≤ evPhotons e.1)) := by
  simp only [table, if_true, tableRaw]
  exact tableRawOf_filter _ _ _ _ n f

/-- **the event-table route under ideal draws**: for every weight of the two tag classes, the class
generating function of one sample is that of `generate_distribution` conditioned on the photon filter -/
theorem fLaw_gf {P : Params} (hP : P.WF) {ns : List ℕ} (hne : ns ≠ []) (f t : ℕ) (hf : f ≠ 0)
    (hperf : physPerf P ns.sum f ≠ 0) (σ : Dist (List ℕ))
    (hσ : ∀ p ∈ σ, p.1.Perm (List.range ns.sum)) (hm : mass σ = 1) (a b : ℚ) :
    E (stateGF a b) (fLaw P ns f t σ) = E (stateGF a b) (condMin f (generateAt P 0 ns t)) := by
  have htab : table P ns.sum f = normalize (tableRaw P ns.sum f) := by
    simp [table, hf, normalize, physPerf]
  have hmass : mass (table P ns.sum f) = 1 := by
    rw [htab]; exact mass_normalize _ hperf
  have hone : ∀ g : State → ℚ, (fun s : State => if f ≤ photons s then stateGF 1 1 s else 0) =
      fun s => if f ≤ photons s then (1 : ℚ) else 0 := by
    intro _; funext s; simp [stateGF]
  rw [E_fLaw_stateGF P ns f t σ hσ hm, E_normalize, hmass, div_one, htab, E_normalize, table_filter_eq,
    condMin, E_normalize, mass_eq_E, mass_eq_E,
    E_filter (fun _ => (1 : ℚ)) (fun e => decide (f ≤ evPhotons e)),
    E_filter (fun _ => (1 : ℚ)) (fun s => decide (f ≤ photons s)),
    E_filter (evGF P a b) (fun e => decide (f ≤ evPhotons e)),
    E_filter (stateGF a b) (fun s => decide (f ≤ photons s))]
  have h1 := tail_gf_eq hP hne t a b f
  have h2 := tail_gf_eq hP hne t 1 1 f
  simp only [evGF_one] at h2
  simp only [decide_eq_true_eq]
  rw [h1, h2]
  congr 2
  funext s
  simp [stateGF]

/-- … hence, probability by probability, the joint law of (photons with the common tag, photons with a
fresh tag) of one sample is that of `generate_distribution` conditioned on the photon filter -/
theorem fLaw_class_pmf {P : Params} (hP : P.WF) {ns : List ℕ} (hne : ns ≠ []) (f t : ℕ) (hf : f ≠ 0)
    (hperf : physPerf P ns.sum f ≠ 0) (σ : Dist (List ℕ))
    (hσ : ∀ p ∈ σ, p.1.Perm (List.range ns.sum)) (hm : mass σ = 1) (u v : ℕ) :
    massP (fun s => decide (nCommon s = u ∧ nFresh s = v)) (fLaw P ns f t σ) =
      massP (fun s => decide (nCommon s = u ∧ nFresh s = v)) (condMin f (generateAt P 0 ns t)) := by
  have := law_of_gf2 (fun _ => 1) nCommon nFresh (fLaw P ns f t σ) (fun _ => 1) nCommon nFresh
    (condMin f (generateAt P 0 ns t))
    (fun a b => by
      simp only [one_mul]
      exact fLaw_gf hP hne f t hf hperf σ hσ hm a b) u v
  simpa [massP] using this


/-! ### every sample carries the photons of its event; the uniform shuffle -/

theorem sigPart_photons (n : ℕ) (bs : List Bool) (c : ℕ) : (sigPart n bs c).1.flatten.length = n := by
  induction n generalizing bs c with
  | zero => rfl
  | succ n ih =>
    simp only [sigPart, List.flatten_cons, List.length_append, ih]
    split <;> simp <;> omega

theorem g2Part_photons (dm : Bool) (n c : ℕ) : (g2Part dm n c).1.flatten.length = n := by
  induction n generalizing c with
  | zero => rfl
  | succ n ih =>
    simp only [g2Part, List.flatten_cons, List.length_append, ih]
    split <;> simp <;> omega

theorem duoPart_photons (dm : Bool) (n : ℕ) (bs : List Bool) (c : ℕ) :
    (duoPart dm n bs c).1.flatten.length = 2 * n := by
  induction n generalizing bs c with
  | zero => rfl
  | succ n ih =>
    simp only [duoPart, List.flatten_cons, List.length_append, ih]
    simp; omega

theorem photons_flatten (s : State) : photons s = s.flatten.length := by
  simp [photons, List.length_flatten]

/-- whatever the booleans and the permutation, a sample of the event `(i, j, k)` has `i + j + 2k` photons -/
theorem fSample_photons (dm : Bool) (ns : List ℕ) (t : ℕ) (e : ℕ × ℕ × ℕ) (bs : List Bool) (perm : List ℕ)
    (he : e.1 + e.2.1 + e.2.2 ≤ ns.sum) (hp : perm.Perm (List.range ns.sum)) :
    photons (fSample dm ns t e bs perm) = evPhotons e := by
  have hl := evItems_length dm ns.sum e bs t he
  have h1 : (applyPerm (evItems dm ns.sum e bs t).1 perm).Perm (evItems dm ns.sum e bs t).1 :=
    applyPerm_perm _ _ (by rw [hl]; exact hp)
  have h2 := distribute_perm ns (applyPerm (evItems dm ns.sum e bs t).1 perm) (by rw [h1.length_eq, hl])
  rw [photons_flatten, fSample, (h2.trans h1.flatten).length_eq]
  have hz : ∀ m : ℕ, (List.replicate m ([] : Mode)).flatten.length = 0 := by intro m; simp
  simp only [evItems, List.flatten_append, List.length_append, sigPart_photons, g2Part_photons,
    duoPart_photons, evPhotons, hz]
  omega

/-- the ideal law of `random.shuffle` on `n` slots: every permutation with probability `1 / n!` -/
def shuffleLaw (n : ℕ) : Dist (List ℕ) :=
  (List.range n).permutations.map fun p => (p, 1 / (n.factorial : ℚ))

theorem shuffleLaw_perm (n : ℕ) : ∀ p ∈ shuffleLaw n, p.1.Perm (List.range n) := by
  intro p hp
  simp only [shuffleLaw, List.mem_map] at hp
  obtain ⟨q, hq, rfl⟩ := hp
  exact List.mem_permutations.mp hq

theorem shuffleLaw_mass (n : ℕ) : mass (shuffleLaw n) = 1 := by
  have hn : (n.factorial : ℚ) ≠ 0 := by exact_mod_cast n.factorial_ne_zero
  simp only [mass, shuffleLaw, List.map_map, Function.comp_def, List.map_const', List.sum_replicate,
    List.length_permutations, List.length_range, nsmul_eq_mul]
  field_simp


/-! ### the tags of one sample of the event-table route are fresh -/

theorem Inv_common (lo : ℕ) : Inv lo lo [some 0] :=
  ⟨by simp [freshTags, commonTag], fun tg h => by simp [freshTags, commonTag] at h⟩

theorem Inv_new (c : ℕ) : Inv c (c + 1) [some (c + 1)] := by
  refine ⟨by simp [freshTags, commonTag], fun tg h => ?_⟩
  simp only [freshTags, commonTag, List.filter_cons, Bool.not_false, if_true, List.filter_nil,
    List.mem_singleton] at h
  exact ⟨c + 1, h, by omega, by omega⟩

theorem sigPart_Inv (n : ℕ) (bs : List Bool) (c : ℕ) :
    c ≤ (sigPart n bs c).2.2 ∧ Inv c (sigPart n bs c).2.2 (sigPart n bs c).1.flatten := by
  induction n generalizing bs c with
  | zero => exact ⟨Nat.le_refl c, Inv_nil c c⟩
  | succ n ih =>
    simp only [sigPart, List.flatten_cons]
    cases hb : bs.headD true
    · obtain ⟨h1, h2⟩ := ih bs.tail (c + 1)
      simp only [Bool.false_eq_true, if_false]
      exact ⟨by omega, Inv.append (by omega) h1 (Inv_new c) h2⟩
    · obtain ⟨h1, h2⟩ := ih bs.tail c
      simp only [if_true]
      exact ⟨h1, Inv.append (Nat.le_refl c) h1 (Inv_common c) h2⟩

theorem g2Part_Inv (dm : Bool) (n c : ℕ) :
    c ≤ (g2Part dm n c).2 ∧ Inv c (g2Part dm n c).2 (g2Part dm n c).1.flatten := by
  induction n generalizing c with
  | zero => exact ⟨Nat.le_refl c, Inv_nil c c⟩
  | succ n ih =>
    simp only [g2Part, List.flatten_cons]
    cases dm
    · obtain ⟨h1, h2⟩ := ih c
      simp only [Bool.false_eq_true, if_false]
      exact ⟨h1, Inv.append (Nat.le_refl c) h1 (Inv_common c) h2⟩
    · obtain ⟨h1, h2⟩ := ih (c + 1)
      simp only [if_true]
      exact ⟨by omega, Inv.append (by omega) h1 (Inv_new c) h2⟩

theorem duoPart_Inv (dm : Bool) (n : ℕ) (bs : List Bool) (c : ℕ) :
    c ≤ (duoPart dm n bs c).2.2 ∧ Inv c (duoPart dm n bs c).2.2 (duoPart dm n bs c).1.flatten := by
  induction n generalizing bs c with
  | zero => exact ⟨Nat.le_refl c, Inv_nil c c⟩
  | succ n ih =>
    simp only [duoPart, List.flatten_cons]
    cases hb : bs.headD true <;> cases dm
    · -- first photon new, second common
      obtain ⟨h1, h2⟩ := ih bs.tail (c + 1)
      simp only [Bool.false_eq_true, if_false]
      have : Inv c (c + 1) [some (c + 1), some 0] :=
        Inv.append (s := [some (c + 1)]) (e := [some 0]) (by omega) (Nat.le_refl _) (Inv_new c) (Inv_common _)
      exact ⟨by omega, Inv.append (by omega) h1 this h2⟩
    · -- both new
      obtain ⟨h1, h2⟩ := ih bs.tail (c + 1 + 1)
      simp only [Bool.false_eq_true, if_false, if_true]
      have : Inv c (c + 1 + 1) [some (c + 1), some (c + 1 + 1)] :=
        Inv.append (s := [some (c + 1)]) (e := [some (c + 1 + 1)]) (by omega) (by omega) (Inv_new c)
          (Inv_new (c + 1))
      exact ⟨by omega, Inv.append (by omega) h1 this h2⟩
    · -- both common
      obtain ⟨h1, h2⟩ := ih bs.tail c
      simp only [Bool.false_eq_true, if_false, if_true]
      have : Inv c c [some 0, some 0] :=
        Inv.append (s := [some 0]) (e := [some 0]) (Nat.le_refl _) (Nat.le_refl _) (Inv_common c) (Inv_common c)
      exact ⟨h1, Inv.append (Nat.le_refl c) h1 this h2⟩
    · -- first common, second new
      obtain ⟨h1, h2⟩ := ih bs.tail (c + 1)
      simp only [if_true]
      have : Inv c (c + 1) [some 0, some (c + 1)] :=
        Inv.append (s := [some 0]) (e := [some (c + 1)]) (Nat.le_refl _) (by omega) (Inv_common c) (Inv_new c)
      exact ⟨by omega, Inv.append (by omega) h1 this h2⟩

/-- in every sample of the event-table route — whatever the event, the booleans, the permutation, the tag
counter — no two photons carry the same non-common tag, and these tags are numbered above the tag counter -/
theorem fSample_fresh (dm : Bool) (ns : List ℕ) (t : ℕ) (e : ℕ × ℕ × ℕ) (bs : List Bool) (perm : List ℕ)
    (he : e.1 + e.2.1 + e.2.2 ≤ ns.sum) (hp : perm.Perm (List.range ns.sum)) :
    ∃ hi, Inv t hi (fSample dm ns t e bs perm).flatten := by
  have hl := evItems_length dm ns.sum e bs t he
  have h1 : (applyPerm (evItems dm ns.sum e bs t).1 perm).Perm (evItems dm ns.sum e bs t).1 :=
    applyPerm_perm _ _ (by rw [hl]; exact hp)
  have h2 := distribute_perm ns (applyPerm (evItems dm ns.sum e bs t).1 perm) (by rw [h1.length_eq, hl])
  obtain ⟨s1, s2⟩ := sigPart_Inv e.1 bs t
  obtain ⟨g1, g2⟩ := g2Part_Inv dm e.2.1 (sigPart e.1 bs t).2.2
  obtain ⟨d1, d2⟩ := duoPart_Inv dm e.2.2 (sigPart e.1 bs t).2.1 (g2Part dm e.2.1 (sigPart e.1 bs t).2.2).2
  refine ⟨(duoPart dm e.2.2 (sigPart e.1 bs t).2.1 (g2Part dm e.2.1 (sigPart e.1 bs t).2.2).2).2.2,
    Inv.perm (h2.trans h1.flatten).symm ?_⟩
  have hz : ∀ m : ℕ, (List.replicate m ([] : Mode)).flatten = [] := by intro m; simp
  simp only [evItems, List.flatten_append, hz, List.append_nil]
  exact Inv.append (Nat.le_trans s1 g1) d1 (Inv.append s1 g1 s2 g2) d2

end PM.C06
