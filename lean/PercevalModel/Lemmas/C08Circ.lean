/-
  C08 — the first column of the unitary of `BSLayeredPPNR.create_circuit()` (`Model/C08Circ.lean`):
  light entering mode 0 reaches leaf `k` with amplitude `∏ (c for a 0 bit, s for a 1 bit)` over the
  `L` bits of `k` (`treeU_col0`), i.e. with probability `r^zeros (1-r)^ones`.
  Technique: push the basis vector `e₀` through the components one by one; vectors are kept as
  functions `ℕ → R` (`vecOf`) so that index arithmetic is plain `omega`.
-/
import PercevalModel.Model.C08Circ
import Mathlib.Data.List.GetD
import Mathlib.Tactic.Ring

open Matrix Finset

namespace PM.C08

variable {R : Type} [CommRing R]

/-- a vector of `R^N` given by a function on mode numbers -/
def vecOf (N : ℕ) (f : ℕ → R) : Fin N → R := fun i => f i.val

theorem embed_apply {N o k : ℕ} (B : Matrix (Fin k) (Fin k) R) (i j : Fin N) :
    embed N o B i j =
      if hi : o ≤ i.val ∧ i.val < o + k then
        (if hj : o ≤ j.val ∧ j.val < o + k then B ⟨i.val - o, by omega⟩ ⟨j.val - o, by omega⟩ else 0)
      else (if o ≤ j.val ∧ j.val < o + k then 0 else if i = j then 1 else 0) := by
  unfold embed place unshift
  by_cases hi : o ≤ i.val ∧ i.val < o + k <;> by_cases hj : o ≤ j.val ∧ j.val < o + k <;>
    simp [hi, hj]

theorem sum_fin_one {N : ℕ} {a : ℕ} (ha : a < N) (x : R) :
    ∑ j : Fin N, (if j.val = a then x else 0) = x := by
  have : ∀ j : Fin N, (if j.val = a then x else 0) = if j = ⟨a, ha⟩ then x else 0 := by
    intro j
    by_cases h : j.val = a
    · have e : j = ⟨a, ha⟩ := Fin.ext h
      simp [e]
    · have e : j ≠ ⟨a, ha⟩ := fun e => h (by rw [e])
      simp [h, e]
  rw [Finset.sum_congr rfl (fun j _ => this j)]
  simp

theorem sum_fin_two {N : ℕ} {a b : ℕ} (hab : a ≠ b) (ha : a < N) (hb : b < N) (x y : R) (f : ℕ → R) :
    ∑ j : Fin N, (if j.val = a then x else if j.val = b then y else 0) * f j.val
      = x * f a + y * f b := by
  have : ∀ j : Fin N, (if j.val = a then x else if j.val = b then y else 0) * f j.val
      = (if j.val = a then x * f a else 0) + (if j.val = b then y * f b else 0) := by
    intro j
    by_cases h1 : j.val = a
    · have h2 : j.val ≠ b := fun h => hab (h1.symm.trans h)
      simp [h1, h2, hab]
    · by_cases h2 : j.val = b
      · simp [h2, Ne.symm hab]
      · simp [h1, h2]
  rw [Finset.sum_congr rfl (fun j _ => this j), Finset.sum_add_distrib, sum_fin_one ha, sum_fin_one hb]

/-! ### one beam splitter -/

theorem bs_apply {N m : ℕ} (hm : m + 2 ≤ N) (c s : R) (i j : Fin N) :
    compMat N c s (.bs m) i j =
      if i.val = m then (if j.val = m then c else if j.val = m + 1 then s else 0)
      else if i.val = m + 1 then (if j.val = m then s else if j.val = m + 1 then c else 0)
      else if i = j then 1 else 0 := by
  show embed N m (bsBlock c s) i j = _
  rw [embed_apply]
  by_cases h1 : i.val = m
  · have hi : m ≤ i.val ∧ i.val < m + 2 := by omega
    rw [dif_pos hi, if_pos h1]
    by_cases h3 : j.val = m
    · have hj : m ≤ j.val ∧ j.val < m + 2 := by omega
      rw [dif_pos hj, if_pos h3]
      simp [bsBlock, h1, h3]
    · by_cases h4 : j.val = m + 1
      · have hj : m ≤ j.val ∧ j.val < m + 2 := by omega
        rw [dif_pos hj, if_neg h3, if_pos h4]
        simp [bsBlock, h1, h4]
      · have hj : ¬ (m ≤ j.val ∧ j.val < m + 2) := by omega
        rw [dif_neg hj, if_neg h3, if_neg h4]
  · by_cases h2 : i.val = m + 1
    · have hi : m ≤ i.val ∧ i.val < m + 2 := by omega
      rw [dif_pos hi, if_neg h1, if_pos h2]
      by_cases h3 : j.val = m
      · have hj : m ≤ j.val ∧ j.val < m + 2 := by omega
        rw [dif_pos hj, if_pos h3]
        simp [bsBlock, h2, h3]
      · by_cases h4 : j.val = m + 1
        · have hj : m ≤ j.val ∧ j.val < m + 2 := by omega
          rw [dif_pos hj, if_neg h3, if_pos h4]
          simp [bsBlock, h2, h4]
        · have hj : ¬ (m ≤ j.val ∧ j.val < m + 2) := by omega
          rw [dif_neg hj, if_neg h3, if_neg h4]
    · have hi : ¬ (m ≤ i.val ∧ i.val < m + 2) := by omega
      rw [dif_neg hi, if_neg h1, if_neg h2]
      by_cases hj : m ≤ j.val ∧ j.val < m + 2
      · have : i ≠ j := fun e => hi (by rw [e]; exact hj)
        rw [if_pos hj, if_neg this]
      · rw [if_neg hj]

/-- what `BS` on modes `m, m+1` does to a vector -/
def bsStep (c s : R) (m : ℕ) (f : ℕ → R) : ℕ → R := fun i =>
  if i = m then c * f m + s * f (m + 1)
  else if i = m + 1 then s * f m + c * f (m + 1)
  else f i

theorem bs_mulVec {N m : ℕ} (hm : m + 2 ≤ N) (c s : R) (f : ℕ → R) :
    compMat N c s (.bs m) *ᵥ vecOf N f = vecOf N (bsStep c s m f) := by
  funext i
  simp only [Matrix.mulVec, dotProduct, vecOf, bsStep]
  simp only [bs_apply hm]
  by_cases h1 : i.val = m
  · simp only [if_pos h1]
    exact sum_fin_two (by omega) (by omega) (by omega) c s f
  · by_cases h2 : i.val = m + 1
    · simp only [if_neg h1, if_pos h2]
      exact sum_fin_two (by omega) (by omega) (by omega) s c f
    · simp only [if_neg h1, if_neg h2]
      simp [Finset.sum_ite_eq]

/-! ### the permutation in front of layer `l` -/

theorem permVector_length (l : ℕ) : (permVector l).length = 2 ^ l + (2 ^ l - 1) := by
  simp [permVector]

theorem permVector_getD {l j : ℕ} (hj : j < 2 ^ l) (d : ℕ) : (permVector l).getD j d = 2 * j := by
  unfold permVector
  rw [List.getD_eq_getElem?_getD, List.getElem?_append_left (by simpa using hj)]
  simp [hj]

/-- what `PERM(perm_vector)` does to a vector supported on the first `2^l` modes: mode `j` goes to `2j` -/
def permStep (l : ℕ) (f : ℕ → R) : ℕ → R := fun i =>
  if i % 2 = 0 ∧ i / 2 < 2 ^ l then f (i / 2) else 0

theorem perm_mulVec {N l : ℕ} (hl : 1 ≤ l) (hN : 2 ^ (l + 1) ≤ N) (c s : R) (f : ℕ → R)
    (hf : ∀ j, 2 ^ l ≤ j → f j = 0) :
    compMat N c s (.perm (permVector l)) *ᵥ vecOf N f = vecOf N (permStep l f) := by
  have h2 : 2 ^ (l + 1) = 2 * 2 ^ l := by ring
  have hpos : 2 ≤ 2 ^ l := by
    calc 2 = 2 ^ 1 := rfl
      _ ≤ 2 ^ l := Nat.pow_le_pow_right (by omega) hl
  funext i
  simp only [Matrix.mulVec, dotProduct, vecOf, permStep]
  have key : ∀ j : Fin N, compMat N c s (.perm (permVector l)) i j * f j.val
      = if j.val = i.val / 2 then (if i.val % 2 = 0 ∧ i.val / 2 < 2 ^ l then f (i.val / 2) else 0) else 0 := by
    intro j
    by_cases hj : j.val < 2 ^ l
    · have hjK : 0 ≤ j.val ∧ j.val < 0 + (permVector l).length := by
        rw [permVector_length]; omega
      show embed N 0 (permMatL (permVector l).length (permVector l)) i j * f j.val = _
      rw [embed_apply]
      by_cases hi : 0 ≤ i.val ∧ i.val < 0 + (permVector l).length
      · rw [dif_pos hi, dif_pos hjK]
        simp only [permMatL, Nat.sub_zero, permVector_getD hj]
        by_cases e : 2 * j.val = i.val
        · have e1 : j.val = i.val / 2 := by omega
          have e2 : i.val % 2 = 0 ∧ i.val / 2 < 2 ^ l := by omega
          rw [if_pos e, if_pos e1, if_pos e2, one_mul, e1]
        · rw [if_neg e, zero_mul]
          by_cases e1 : j.val = i.val / 2
          · have e2 : ¬ (i.val % 2 = 0 ∧ i.val / 2 < 2 ^ l) := by omega
            rw [if_pos e1, if_neg e2]
          · rw [if_neg e1]
      · rw [dif_neg hi, if_pos hjK, zero_mul]
        rw [permVector_length] at hi
        by_cases e1 : j.val = i.val / 2
        · have e2 : ¬ (i.val % 2 = 0 ∧ i.val / 2 < 2 ^ l) := by omega
          rw [if_pos e1, if_neg e2]
        · rw [if_neg e1]
    · rw [hf j.val (by omega), mul_zero]
      by_cases e1 : j.val = i.val / 2
      · have e2 : ¬ (i.val % 2 = 0 ∧ i.val / 2 < 2 ^ l) := by omega
        rw [if_pos e1, if_neg e2]
      · rw [if_neg e1]
  rw [Finset.sum_congr rfl (fun j _ => key j)]
  exact sum_fin_one (by have := i.isLt; omega) _

/-! ### one layer -/

/-- the vector after the beam splitters on `0, 2, …, 2(k-1)` of layer `l` -/
def afterBS (c s : R) (l k : ℕ) (f : ℕ → R) : ℕ → R := fun i =>
  if i / 2 < k then (if i % 2 = 0 then c * f (i / 2) else s * f (i / 2)) else permStep l f i

theorem bsChain (c s : R) (l : ℕ) (f : ℕ → R) (k : ℕ) (hk : k ≤ 2 ^ l) :
    (List.range k).foldl (fun g i => bsStep c s (2 * i) g) (permStep l f) = afterBS c s l k f := by
  induction k with
  | zero => funext i; simp [afterBS]
  | succ k ih =>
    rw [List.range_succ, List.foldl_append, ih (by omega)]
    simp only [List.foldl_cons, List.foldl_nil]
    funext i
    have a1 : afterBS c s l k f (2 * k) = f k := by
      have e1 : 2 * k / 2 = k := by omega
      have e2 : 2 * k % 2 = 0 := by omega
      simp only [afterBS, permStep, e1, e2, lt_irrefl, if_false]
      rw [if_pos ⟨trivial, by omega⟩]
    have a2 : afterBS c s l k f (2 * k + 1) = 0 := by
      have e1 : (2 * k + 1) / 2 = k := by omega
      simp only [afterBS, permStep, e1, lt_irrefl, if_false]
      rw [if_neg (by omega)]
    unfold bsStep
    rw [a1, a2]
    by_cases h1 : i = 2 * k
    · have e1 : i / 2 < k + 1 := by omega
      have e2 : i % 2 = 0 := by omega
      have e3 : i / 2 = k := by omega
      rw [if_pos h1]
      simp only [afterBS]
      rw [if_pos e1, if_pos e2, e3]
      ring
    · by_cases h2 : i = 2 * k + 1
      · have e1 : i / 2 < k + 1 := by omega
        have e2 : ¬ i % 2 = 0 := by omega
        have e3 : i / 2 = k := by omega
        rw [if_neg h1, if_pos h2]
        simp only [afterBS]
        rw [if_pos e1, if_neg e2, e3]
        ring
      · rw [if_neg h1, if_neg h2]
        by_cases e1 : i / 2 < k
        · have e1' : i / 2 < k + 1 := by omega
          simp only [afterBS, if_pos e1, if_pos e1']
        · have e1' : ¬ i / 2 < k + 1 := by omega
          simp only [afterBS, if_neg e1, if_neg e1']

theorem foldl_map' {α β γ : Type} (g : γ → α → γ) (h : β → α) (l : List β) (x : γ) :
    (l.map h).foldl g x = l.foldl (fun a b => g a (h b)) x := by
  induction l generalizing x with
  | nil => rfl
  | cons b l ih => simp [ih]

/-- the amplitudes on the modes after `l` layers, light entering mode 0 -/
def colFn (c s : R) (l : ℕ) : ℕ → R := fun i => if i < 2 ^ l then leafP c s l i else 0

theorem bsFold_mulVec {N : ℕ} (c s : R) (ms : List ℕ) (hms : ∀ m ∈ ms, m + 2 ≤ N) (f : ℕ → R) :
    (ms.map TComp.bs).foldl (fun w C => compMat N c s C *ᵥ w) (vecOf N f)
      = vecOf N (ms.foldl (fun g m => bsStep c s m g) f) := by
  induction ms generalizing f with
  | nil => rfl
  | cons m ms ih =>
    simp only [List.map_cons, List.foldl_cons]
    rw [bs_mulVec (hms m (by simp))]
    exact ih (fun m' h' => hms m' (by simp [h'])) _

theorem layer_mulVec {N l : ℕ} (hN : 2 ^ (l + 1) ≤ N) (c s : R) :
    (layerComps l).foldl (fun w C => compMat N c s C *ᵥ w) (vecOf N (colFn c s l))
      = vecOf N (colFn c s (l + 1)) := by
  have h2 : 2 ^ (l + 1) = 2 * 2 ^ l := by ring
  have hp : 1 ≤ 2 ^ l := Nat.one_le_two_pow
  have hsupp : ∀ j, 2 ^ l ≤ j → colFn c s l j = 0 := by
    intro j hj; simp only [colFn]; rw [if_neg (by omega)]
  -- the vector entering the beam splitters
  have hperm : (if 1 < (permVector l).length then [TComp.perm (permVector l)] else []).foldl
      (fun w C => compMat N c s C *ᵥ w) (vecOf N (colFn c s l)) = vecOf N (permStep l (colFn c s l)) := by
    by_cases hl : 1 ≤ l
    · have hlen : 1 < (permVector l).length := by
        rw [permVector_length]
        have : 2 ≤ 2 ^ l := by
          calc 2 = 2 ^ 1 := rfl
            _ ≤ 2 ^ l := Nat.pow_le_pow_right (by omega) hl
        omega
      rw [if_pos hlen]
      simp only [List.foldl_cons, List.foldl_nil]
      exact perm_mulVec hl hN c s _ hsupp
    · have hl0 : l = 0 := by omega
      subst hl0
      have hlen : ¬ 1 < (permVector 0).length := by simp [permVector]
      rw [if_neg hlen]
      simp only [List.foldl_nil]
      congr 1
      funext i
      simp only [permStep, colFn, pow_zero]
      by_cases hi : i = 0
      · subst hi; simp
      · have e1 : ¬ (i % 2 = 0 ∧ i / 2 < 1) := by omega
        rw [if_neg e1, if_neg (by omega)]
  unfold layerComps
  rw [List.foldl_append, hperm]
  have hmap : (List.range (2 ^ l)).map (fun i => TComp.bs (2 * i))
      = ((List.range (2 ^ l)).map (2 * ·)).map TComp.bs := by simp
  rw [hmap, bsFold_mulVec c s _ (by
    intro m hm
    simp only [List.mem_map, List.mem_range] at hm
    obtain ⟨i, hi, rfl⟩ := hm
    omega)]
  congr 1
  rw [foldl_map', bsChain c s l _ _ (le_refl _)]
  funext i
  simp only [afterBS, colFn, permStep]
  by_cases hi : i < 2 ^ (l + 1)
  · have e1 : i / 2 < 2 ^ l := by omega
    rw [if_pos e1, if_pos e1, if_pos hi]
    simp only [leafP]
    by_cases e2 : i % 2 = 0
    · rw [if_pos e2, if_pos e2]; ring
    · rw [if_neg e2, if_neg e2]; ring
  · have e1 : ¬ i / 2 < 2 ^ l := by omega
    rw [if_neg e1, if_neg hi, if_neg (by omega)]

theorem tree_mulVec {N : ℕ} (c s : R) (L : ℕ) (hN : 2 ^ L ≤ N) :
    (treeComps L).foldl (fun w C => compMat N c s C *ᵥ w) (vecOf N (colFn c s 0))
      = vecOf N (colFn c s L) := by
  induction L with
  | zero => rfl
  | succ L ih =>
    have h2 : 2 ^ (L + 1) = 2 * 2 ^ L := by ring
    unfold treeComps
    rw [List.range_succ, List.flatMap_append, List.foldl_append]
    have := ih (by omega)
    unfold treeComps at this
    rw [this]
    simp only [List.flatMap_cons, List.flatMap_nil, List.append_nil]
    exact layer_mulVec hN c s

theorem circuitU_mulVec (N : ℕ) (c s : R) (cs : List TComp) (v : Fin N → R) :
    circuitU N c s cs *ᵥ v = cs.foldl (fun w C => compMat N c s C *ᵥ w) v := by
  unfold circuitU
  have : ∀ U : Matrix (Fin N) (Fin N) R,
      cs.foldl (fun U C => compMat N c s C * U) U *ᵥ v
        = cs.foldl (fun w C => compMat N c s C *ᵥ w) (U *ᵥ v) := by
    induction cs with
    | nil => intro U; rfl
    | cons C cs ih => intro U; simp only [List.foldl_cons]; rw [ih, Matrix.mulVec_mulVec]
  rw [this, Matrix.one_mulVec]

/-- **first column of the tree circuit.** For every depth `L`, every pair of beam-splitter amplitudes
and every leaf `k`: `create_circuit().compute_unitary()[k, 0] = ∏ over the L bits of k (c if 0, s if 1)`. -/
theorem treeU_col0 (c s : R) (L : ℕ) (k : Fin (2 ^ L)) :
    treeU c s L k ⟨0, Nat.two_pow_pos L⟩ = leafP c s L k.val := by
  have h := circuitU_mulVec (2 ^ L) c s (treeComps L) (vecOf (2 ^ L) (colFn c s 0))
  rw [tree_mulVec c s L (le_refl _)] at h
  have hv : vecOf (2 ^ L) (colFn c s 0) = Pi.single (⟨0, Nat.two_pow_pos L⟩ : Fin (2 ^ L)) (1 : R) := by
    funext i
    simp only [vecOf, colFn, pow_zero, leafP, Pi.single_apply]
    by_cases hi : i.val = 0
    · have : i = ⟨0, Nat.two_pow_pos L⟩ := Fin.ext hi
      simp [hi, this]
    · have : i ≠ ⟨0, Nat.two_pow_pos L⟩ := fun e => hi (by rw [e])
      rw [if_neg (by omega), if_neg this]
  rw [hv, Matrix.mulVec_single_one] at h
  have := congrFun h k
  simp only [vecOf, colFn, if_pos k.isLt] at this
  exact this

/-! ### path weights -/

/-- `r^zeros (1-r)^ones` -/
theorem leafP_eq_pow (a b : R) (L k : ℕ) :
    leafP a b L k = a ^ (L - onesL L k) * b ^ onesL L k := by
  induction L generalizing k with
  | zero => simp [leafP, onesL]
  | succ L ih =>
    have hle : ∀ L k, onesL L k ≤ L := by
      intro L
      induction L with
      | zero => intro k; simp [onesL]
      | succ L ih => intro k; simp only [onesL]; have := ih (k / 2); omega
    simp only [leafP, onesL, ih]
    have := hle L (k / 2)
    generalize onesL L (k / 2) = o at *
    by_cases h : k % 2 = 0
    · rw [if_pos h, h]
      have e : L + 1 - (o + 0) = (L - o) + 1 := by omega
      rw [e, pow_succ]
      simp only [Nat.add_zero]
      ring
    · have h1 : k % 2 = 1 := by omega
      rw [if_neg h, h1]
      have e : L + 1 - (o + 1) = L - o := by omega
      rw [e, pow_succ]
      ring

/-- the same weights seen from the root (most significant bit = first layer): a leaf of the first half
hangs under the first output of the root beam splitter, a leaf of the second half under the second -/
theorem leafP_msb (a b : R) (L k : ℕ) (hk : k < 2 ^ L) :
    leafP a b (L + 1) k = a * leafP a b L k ∧ leafP a b (L + 1) (2 ^ L + k) = b * leafP a b L k := by
  induction L generalizing k with
  | zero =>
    have : k = 0 := by simpa using hk
    subst this
    simp [leafP]
  | succ L ih =>
    have h2 : 2 ^ (L + 1) = 2 * 2 ^ L := by ring
    have hk2 : k / 2 < 2 ^ L := by omega
    obtain ⟨i1, i2⟩ := ih (k / 2) hk2
    constructor
    · show leafP a b (L + 1) (k / 2) * _ = a * (leafP a b L (k / 2) * _)
      rw [i1]; ring
    · have e1 : (2 ^ (L + 1) + k) / 2 = 2 ^ L + k / 2 := by omega
      have e2 : (2 ^ (L + 1) + k) % 2 = k % 2 := by omega
      show leafP a b (L + 1) ((2 ^ (L + 1) + k) / 2) * _ = b * (leafP a b L (k / 2) * _)
      rw [e1, e2, i2]; ring

end PM.C08
