/-
  C17 — helper lemmas, wave 7: "sent at most once" from the constructor on, on the whole object under
  the real throttle (any delay, any clock), and "keeps polling while unfinished" for every operation of
  the whole object when the read is overdue.
-/
import PercevalModel.Lemmas.C17Y

set_option linter.unusedSimpArgs false
set_option linter.unusedVariables false

namespace PM.C17
open PM.SM

/-- number of `create_job` calls along a list of outputs of the results machine / the whole object -/
def totalCreatesR : List ROut → Nat
  | [] => 0
  | o :: os => countCreate o.calls + totalCreatesR os

/-- never sent and still WAITING: the only state in which `execute_async` is accepted (repaired code) -/
def fresh (j : Job) : Bool := j.id.isNone && j.status.isWaiting

/-- how many `create_job` calls the object may still make -/
def budget (j : Job) : Nat := if fresh j then 1 else 0

theorem budget_sent {j : Job} (h : j.id.isSome = true) : budget j = 0 := by
  cases hid : j.id with
  | none => simp [hid] at h
  | some n => simp [budget, fresh, hid]

theorem budget_congr {j j' : Job} (hid : j'.id = j.id) (hst : j'.status = j.status) :
    budget j' = budget j := by
  simp [budget, fresh, hid, hst]

/-- the clocked base operations on an UNSENT object (repaired code): every `create_job` call uses up
the budget -/
theorem kstep_unsent (delay : Int) (t : TJob) (k : KOp) (hid : t.job.id = none) :
    countCreate (kstep true delay t k).2.calls + budget (kstep true delay t k).1.job ≤ budget t.job := by
  obtain ⟨n1, n2, op⟩ := k
  have hnd : ∀ now r, readStatusAt true delay t now r = (t, none, []) :=
    fun now r => readStatusAt_completed true delay t now r (statusDue_of_unsent hid)
  obtain ⟨⟨id, st, streak, msg, cache, sc, lr⟩, prev⟩ := t
  simp only at hid
  subst hid
  cases op with
  | execute h =>
    cases st <;> cases h <;>
      simp [kstep, execute, canExecute, budget, fresh, countCreate, St.isWaiting]
  | poll v r =>
    simp [kstep, pollAt, hnd, countCreate]
  | cancel r h =>
    simp only [kstep, cancelAt, hnd]
    cases st <;> cases h <;>
      simp [budget, fresh, countCreate, St.isWaiting, St.cancellable, countCreate_append]
  | rerun r1 r2 h sw =>
    simp only [kstep, rerunAt, hnd]
    cases st <;> cases h <;> cases sw <;>
      simp [budget, fresh, countCreate, St.isWaiting, St.failed, countCreate_append, born]
  | getResults r1 r2 h =>
    simp only [kstep, getResultsAt, hnd, ite_self]
    cases st <;> cases h <;> cases cache <;>
      simp [budget, fresh, countCreate, St.isWaiting, St.maybeCompleted, St.completed, countCreate_append]

/-- the clocked base operations, any state (repaired code) -/
theorem kstep_budget (delay : Int) (t : TJob) (k : KOp) :
    countCreate (kstep true delay t k).2.calls + budget (kstep true delay t k).1.job ≤ budget t.job := by
  cases hid : t.job.id with
  | none => exact kstep_unsent delay t k hid
  | some n =>
    obtain ⟨h1, h2⟩ := kstep_sent delay t k (by simp [hid])
    rw [h2, budget_sent h1]
    exact Nat.zero_le _

theorem getResultsY_unsent (delay : Int) (s : YJob) (n1 n2 : Int) (r1 r2 : Resp) (b : RBody)
    (hid : s.job.id = none) :
    countCreate (getResultsY true delay s n1 n2 r1 r2 b).2.calls +
      budget (getResultsY true delay s n1 n2 r1 r2 b).1.job ≤ budget s.job := by
  have hnd : ∀ now r, readStatusAt true delay s.t now r = (s.t, none, []) :=
    fun now r => readStatusAt_completed true delay s.t now r
      (statusDue_of_unsent (by simpa [YJob.t] using hid))
  simp only [getResultsY, hnd]
  split
  · simp [YJob.t, countCreate]
  · split
    · split
      · simp [YJob.t, countCreate]
      · simp only [fetch_noCreate]
        rw [budget_congr (fetch_job s.t.job s.val ([] ++ []) b).2 (fetch_job s.t.job s.val ([] ++ []) b).1]
        simp [YJob.t, countCreate]
    · simp only [fetch_noCreate]
      rw [budget_congr (fetch_job s.t.job s.val [] b).2 (fetch_job s.t.job s.val [] b).1]
      simp [YJob.t, countCreate]

/-- one step of the whole object, other than a re-creation from the dictionary (repaired code) -/
theorem ystep_budget (delay : Int) (s : YJob) (y : YOp) (hy : y ≠ .reopen) :
    countCreate (ystep true delay s y).2.calls + budget (ystep true delay s y).1.job ≤ budget s.job := by
  cases hid : s.job.id with
  | some n =>
    obtain ⟨h1, h2⟩ := ystep_sent delay s y (by simp [hid])
    rw [h2, budget_sent h1]
    exact Nat.zero_le _
  | none =>
    cases y with
    | reopen => exact absurd rfl hy
    | getResults a1 a2 r1 r2 b => exact getResultsY_unsent delay s a1 a2 r1 r2 b hid
    | base a1 a2 op =>
      have := kstep_unsent delay s.t ⟨a1, a2, op⟩ (by simpa [YJob.t] using hid)
      simpa [ystep, Out.toR, YJob.t] using this

theorem yrun_budget (delay : Int) (ys : List YOp) (s : YJob) (hno : ∀ y ∈ ys, y ≠ .reopen) :
    totalCreatesR (run (ystep true delay) s ys).2 + budget (exec (ystep true delay) s ys).job ≤
      budget s.job := by
  induction ys generalizing s with
  | nil => simp [run, exec, totalCreatesR]
  | cons y ys ih =>
    have h1 := ystep_budget delay s y (hno y (by simp))
    have h2 := ih (ystep true delay s y).1 (fun z hz => hno z (by simp [hz]))
    rw [exec_cons, run_cons]
    simp only [totalCreatesR]
    omega

theorem krun_budget (delay : Int) (ks : List KOp) (t : TJob) :
    totalCreates (run (kstep true delay) t ks).2 + budget (exec (kstep true delay) t ks).job ≤
      budget t.job := by
  induction ks generalizing t with
  | nil => simp [run, exec, totalCreates]
  | cons k ks ih =>
    have h1 := kstep_budget delay t k
    have h2 := ih (kstep true delay t k).1
    rw [exec_cons, run_cons]
    simp only [totalCreates]
    omega

/-! ## keeps polling while unfinished: every operation of the whole object, overdue read -/

theorem readStatusAt_overdue_calls (fixed : Bool) (delay : Int) (t : TJob) (now : Int) (r : Resp)
    (hd : statusDue t.job = true) (h : now - t.prev > delay) :
    (readStatusAt fixed delay t now r).2.2 = [.status t.job.id] := by
  rw [readStatusAt_overdue fixed delay t now r hd h]
  exact readStatus_calls_due fixed t.job r hd

/-- the clocked base operations: on a sent, unfinished job every status-dependent operation whose first
read is overdue starts with the status request for this job -/
theorem kstep_head_status (fixed : Bool) (delay : Int) (t : TJob) (k : KOp)
    (hd : statusDue t.job = true) (hop : k.op.readsStatus = true) (h : k.now1 - t.prev > delay) :
    (kstep fixed delay t k).2.calls.head? = some (.status t.job.id) := by
  obtain ⟨n1, n2, op⟩ := k
  simp only at hop h
  cases op with
  | execute hr => simp [Op.readsStatus] at hop
  | poll v r =>
    have h1 := readStatusAt_overdue_calls fixed delay t n1 r hd h
    simp only [kstep, pollAt]
    generalize readStatusAt fixed delay t n1 r = q at h1
    obtain ⟨t1, e, c⟩ := q
    simp only at h1
    subst h1
    cases e <;> simp
  | cancel r hr =>
    have h1 := readStatusAt_overdue_calls fixed delay t n1 r hd h
    simp only [kstep, cancelAt]
    generalize readStatusAt fixed delay t n1 r = q at h1
    obtain ⟨t1, e, c⟩ := q
    simp only at h1
    subst h1
    cases e with
    | some e => simp
    | none =>
      simp only
      split
      · cases hr <;> simp
      · simp
  | rerun r1 r2 hr sw =>
    have h1 := readStatusAt_overdue_calls fixed delay t n1 r1 hd h
    simp only [kstep, rerunAt]
    generalize readStatusAt fixed delay t n1 r1 = q at h1
    obtain ⟨t1, e, c⟩ := q
    simp only at h1
    subst h1
    cases e with
    | some e => simp
    | none =>
      simp only
      split
      · cases hr <;> simp
      · generalize readStatusAt fixed delay t1 n2 r2 = q2
        obtain ⟨t2, e2, c2⟩ := q2
        cases e2 <;> simp
  | getResults r1 r2 hr =>
    have h1 := readStatusAt_overdue_calls fixed delay t n1 r1 hd h
    simp only [kstep, getResultsAt]
    generalize readStatusAt fixed delay t n1 r1 = q at h1
    obtain ⟨t1, e, c⟩ := q
    simp only at h1
    subst h1
    cases e with
    | some e => simp
    | none =>
      simp only
      split
      · simp
      · generalize (if t1.job.cache.isSome then readStatusAt fixed delay t1 n2 r2 else (t1, none, [])) = q2
        obtain ⟨t2, e2, c2⟩ := q2
        cases e2 with
        | some e2 => simp
        | none =>
          simp only
          split
          · simp
          · cases hr <;> simp

theorem getResultsY_head_status (fixed : Bool) (delay : Int) (s : YJob) (n1 n2 : Int) (r1 r2 : Resp)
    (b : RBody) (hd : statusDue s.job = true) (h : n1 - s.prev > delay) :
    (getResultsY fixed delay s n1 n2 r1 r2 b).2.calls.head? = some (.status s.job.id) := by
  have h1 := readStatusAt_overdue_calls fixed delay s.t n1 r1 (by simpa [YJob.t] using hd)
    (by simpa [YJob.t] using h)
  simp only [getResultsY]
  generalize readStatusAt fixed delay s.t n1 r1 = q at h1
  obtain ⟨t1, e, c⟩ := q
  simp only [YJob.t] at h1
  subst h1
  cases e with
  | some e => simp
  | none =>
    simp only
    split
    · simp
    · split
      · generalize readStatusAt fixed delay t1 n2 r2 = q2
        obtain ⟨t2, e2, c2⟩ := q2
        cases e2 with
        | some e2 => simp
        | none =>
          simp only
          split
          · simp
          · simp [fetch_calls]
      · simp [fetch_calls]

/-- the operations of the whole object that depend on the status -/
def YOp.readsStatus : YOp → Bool
  | .base _ _ op => op.readsStatus
  | .getResults _ _ _ _ _ => true
  | .reopen => false

/-- the time of the first status read of an operation lies more than `delay` after `prev` -/
def YOp.overdue (delay prev : Int) : YOp → Bool
  | .base n1 _ _ => decide (n1 - prev > delay)
  | .getResults n1 _ _ _ _ => decide (n1 - prev > delay)
  | .reopen => false

theorem ystep_head_status (fixed : Bool) (delay : Int) (s : YJob) (y : YOp)
    (hd : statusDue s.job = true) (hop : y.readsStatus = true) (h : y.overdue delay s.prev = true) :
    (ystep fixed delay s y).2.calls.head? = some (.status s.job.id) := by
  cases y with
  | reopen => simp [YOp.readsStatus] at hop
  | getResults a1 a2 r1 r2 b =>
    exact getResultsY_head_status fixed delay s a1 a2 r1 r2 b hd (by simpa [YOp.overdue] using h)
  | base a1 a2 op =>
    have := kstep_head_status fixed delay s.t ⟨a1, a2, op⟩ (by simpa [YJob.t] using hd)
      (by simpa [YOp.readsStatus] using hop) (by simpa [YOp.overdue, YJob.t] using h)
    simpa [ystep, Out.toR, YJob.t] using this

/-! ## the streak law under the real throttle -/

/-- what the property demands of a run of timed status reads whose requests all fail in the transient
way, under the throttle: a read held back (`now - prev ≤ delay`) returns the last known status without
a request and does NOT count; the reads that reach the server are numbered `k + 1, k + 2, …` and
number `n` is absorbed while `n < _MAX_ERROR` and raised from `_MAX_ERROR` on; each restarts the delay -/
def streakSpecAt (delay : Int) (j : Job) : Int → Nat → List (Int × Resp) → List Out
  | _, _, [] => []
  | prev, k, (n, r) :: xs =>
    if n - prev > delay then
      (if k + 1 < maxError then (⟨.st j.status, [.status j.id]⟩ : Out)
       else ⟨.raised (respExc r), [.status j.id]⟩) :: streakSpecAt delay j n (k + 1) xs
    else (⟨.st j.status, []⟩ : Out) :: streakSpecAt delay j prev k xs

theorem streakSpecAt_congr (delay : Int) (j j' : Job) (hs : j'.status = j.status) (hi : j'.id = j.id)
    (prev : Int) (k : Nat) (xs : List (Int × Resp)) :
    streakSpecAt delay j' prev k xs = streakSpecAt delay j prev k xs := by
  induction xs generalizing prev k with
  | nil => rfl
  | cons x xs ih => obtain ⟨n, r⟩ := x; simp [streakSpecAt, hs, hi, ih]

/-- an overdue read of a due job, as a `poll` -/
theorem pollAt_overdue (fixed : Bool) (delay : Int) (t : TJob) (now : Int) (v : View) (r : Resp)
    (hd : statusDue t.job = true) (h : now - t.prev > delay) :
    pollAt fixed delay t now v r = (⟨(step fixed t.job (.poll v r)).1, now⟩, (step fixed t.job (.poll v r)).2) := by
  simp only [pollAt, readStatusAt_overdue fixed delay t now r hd h, step, poll]
  generalize readStatus fixed t.job r = q
  obtain ⟨j1, e, c⟩ := q
  cases e <;> rfl

theorem pollAt_throttled (fixed : Bool) (delay : Int) (t : TJob) (now : Int) (v : View) (r : Resp)
    (h : ¬ now - t.prev > delay) :
    pollAt fixed delay t now v r = (t, ⟨view v t.job.status, []⟩) := by
  simp only [pollAt, readStatusAt_throttled fixed delay t now r (by omega)]

theorem streak_run_at (delay : Int) (t : TJob) (xs : List (Int × Resp)) (hd : statusDue t.job = true)
    (ht : ∀ x ∈ xs, x.2.isTransient = true) :
    (run (kstep true delay) t (xs.map fun x => ⟨x.1, x.1, .poll .status x.2⟩)).2 =
      streakSpecAt delay t.job t.prev t.job.streak xs := by
  induction xs generalizing t with
  | nil => simp [run, streakSpecAt]
  | cons x xs ih =>
    obtain ⟨n, r⟩ := x
    have htr : r.isTransient = true := ht (n, r) (by simp)
    have ht' : ∀ x ∈ xs, x.2.isTransient = true := fun x hx => ht x (by simp [hx])
    by_cases h : n - t.prev > delay
    · have h1 : kstep true delay t ⟨n, n, .poll .status r⟩ =
          (⟨{ t.job with streak := t.job.streak + 1 }, n⟩,
           if t.job.streak + 1 < maxError then (⟨.st t.job.status, [.status t.job.id]⟩ : Out)
           else ⟨.raised (respExc r), [.status t.job.id]⟩) := by
        simp only [kstep, pollAt_overdue true delay t n .status r hd h, poll_transient_step t.job r hd htr]
      have hd' : statusDue { t.job with streak := t.job.streak + 1 } = true := by
        simpa [statusDue] using hd
      have := ih ⟨{ t.job with streak := t.job.streak + 1 }, n⟩ hd' ht'
      simp only [List.map_cons, run_cons, h1, this, streakSpecAt, h, if_true]
      rw [streakSpecAt_congr delay t.job { t.job with streak := t.job.streak + 1 } rfl rfl]
    · have h1 : kstep true delay t ⟨n, n, .poll .status r⟩ = (t, ⟨.st t.job.status, []⟩) := by
        simp only [kstep, pollAt_throttled true delay t n .status r h, view]
      have := ih t hd ht'
      simp only [List.map_cons, run_cons, h1, this, streakSpecAt, h, if_false]

/-- base operations that are not a followed rerun, on the whole object: the outputs are those of the
clocked machine of part K -/
theorem yrun_base_noswitch (fixed : Bool) (delay : Int) (ks : List KOp)
    (hns : ∀ k ∈ ks, k.op.switches = false) (s : YJob) :
    (run (ystep fixed delay) s (ks.map fun k => YOp.base k.now1 k.now2 k.op)).2 =
      (run (kstep fixed delay) s.t ks).2.map Out.toR := by
  induction ks generalizing s with
  | nil => simp [run]
  | cons k ks ih =>
    have hk := hns k (by simp)
    have e : ystep fixed delay s (.base k.now1 k.now2 k.op) =
        (⟨(kstep fixed delay s.t k).1.job, s.val, (kstep fixed delay s.t k).1.prev⟩,
         (kstep fixed delay s.t k).2.toR) := by
      simp [ystep, hk]
    simp only [List.map_cons, run_cons, e]
    rw [ih (fun k' hk' => hns k' (by simp [hk']))]
    rfl

end PM.C17
