/-
  C14 (extension) — lemmas about the parameter lifecycle (`Model/C14Life.lean`).
-/
import PercevalModel.Model.C14Life
import PercevalModel.Lemmas.C14
import Mathlib.Data.List.Perm.Basic

open PM PM.SM

namespace PM.C14

/-! ### `_check_value` -/

section generic
variable {K : Type*} [Field K] [LinearOrder K] [FloorRing K]

theorem checkValue_some_bounds (rnd : K → K) (clamp periodic : Bool) (lo hi : Option K) (v w : K)
    (h : checkValue rnd clamp periodic lo hi v = some w) :
    (∀ l, lo = some l → l ≤ w) ∧ (∀ u, hi = some u → w ≤ u) := by
  unfold checkValue at h
  simp only at h
  split_ifs at h with hc
  simp only [Option.some.injEq] at h
  subst h
  simp only [Bool.or_eq_true, not_or, Bool.not_eq_true] at hc
  constructor
  · intro l hl; subst hl
    have := hc.1
    simp only [Option.any_some, decide_eq_false_iff_not, not_lt] at this
    exact this
  · intro u hu; subst hu
    have := hc.2
    simp only [Option.any_some, decide_eq_false_iff_not, not_lt] at this
    exact this

theorem wrapCore_of_inRange (rnd : K → K) (clamp : Bool) {l u w : K} (a : l ≤ w) (b : w ≤ u) :
    wrapCore rnd clamp l u w = w := by
  unfold wrapCore
  simp only [not_lt.2 b, not_lt.2 a, if_false]
  cases clamp
  · simp
  · simp [max_eq_left a, min_eq_left b]

/-- a value inside the bounds is stored as given, whatever the rounding and the flags -/
theorem checkValue_of_inRange (rnd : K → K) (clamp periodic : Bool) (lo hi : Option K) (w : K)
    (h1 : ∀ l, lo = some l → l ≤ w) (h2 : ∀ u, hi = some u → w ≤ u) :
    checkValue rnd clamp periodic lo hi w = some w := by
  cases periodic <;> cases lo <;> cases hi <;> simp only [checkValue]
  case true.some.some l u =>
    have e := wrapCore_of_inRange rnd clamp (h1 l rfl) (h2 u rfl)
    simp [e, not_lt.2 (h1 l rfl), not_lt.2 (h2 u rfl)]
  all_goals simp
  all_goals first | exact h2 _ rfl | exact h1 _ rfl | exact ⟨h1 _ rfl, h2 _ rfl⟩

end generic

theorem checkE_inr_inRange {periodic : Bool} {lo hi : Option ℚ} {v w : ℚ}
    (h : checkE periodic lo hi v = .inr w) : Par.InRange lo hi w := by
  unfold checkE at h
  by_cases hz : (periodic && zeroSpanOutside lo hi v) = true
  · simp [hz] at h
  · rw [if_neg hz] at h
    cases hw : wrap periodic lo hi v with
    | none => simp [hw] at h
    | some w' =>
      simp only [hw, Sum.inr.injEq] at h
      subst h
      exact checkValue_some_bounds id true periodic lo hi v w' hw

theorem zeroSpanOutside_of_inRange {lo hi : Option ℚ} {w : ℚ} (h : Par.InRange lo hi w) :
    zeroSpanOutside lo hi w = false := by
  unfold zeroSpanOutside
  cases lo <;> cases hi <;> try rfl
  rename_i l u
  have a := h.1 l rfl
  have b := h.2 u rfl
  simp [not_lt.2 a, not_lt.2 b]

theorem checkE_of_inRange (periodic : Bool) {lo hi : Option ℚ} {w : ℚ} (h : Par.InRange lo hi w) :
    checkE periodic lo hi w = .inr w := by
  unfold checkE
  rw [zeroSpanOutside_of_inRange h]
  simp only [Bool.and_false, Bool.false_eq_true, if_false]
  have : wrap periodic lo hi w = some w := checkValue_of_inRange id true periodic lo hi w h.1 h.2
  rw [this]

theorem checkE_nonperiodic {lo hi : Option ℚ} {v w : ℚ} (h : checkE false lo hi v = .inr w) : w = v := by
  unfold checkE at h
  simp only [Bool.false_and, Bool.false_eq_true, if_false] at h
  have hw := wrap_nonperiodic' lo hi v
  rw [hw] at h
  split_ifs at h <;> simp_all
where
  wrap_nonperiodic' (lo hi : Option ℚ) (v : ℚ) :
      wrap false lo hi v =
        if (lo.any fun l => decide (v < l)) || (hi.any fun h => decide (v > h)) then none else some v := by
    simp [checkValue]

theorem checkE_periodic {lo hi : ℚ} (hlt : lo < hi) (v : ℚ) :
    ∃ w, checkE true (some lo) (some hi) v = .inr w ∧ lo ≤ w ∧ w ≤ hi ∧ ∃ k : ℤ, w = v + k * (hi - lo) := by
  obtain ⟨h1, h2, k, hk⟩ := wrapCore_exact hlt v
  rw [← wrapCore_clamp_id hlt v] at h1 h2 hk
  refine ⟨_, ?_, h1, h2, k, hk⟩
  unfold checkE
  have hz : zeroSpanOutside (some lo) (some hi) v = false := by
    simp [zeroSpanOutside, ne_of_gt hlt]
  rw [hz]
  simp only [Bool.and_false, Bool.false_eq_true, if_false]
  have : wrap true (some lo) (some hi) v = some (wrapCore id true lo hi v) :=
    checkValue_some_of_bounds id true v h1 h2
  rw [this]

/-! ### one parameter -/

theorem pstep_set_inl (sound : Bool) {p : Par} {v : ℚ} (force : Bool) {e : Exc} (hc : p.check v = .inl e) :
    pstep sound p (.set v force) = (p, some e) := by simp only [pstep, hc]

theorem pstep_set_inr (sound : Bool) {p : Par} {v : ℚ} (force : Bool) {w : ℚ} (hc : p.check v = .inr w) :
    pstep sound p (.set v force) =
      if !p.sym && !force then (p, some .RuntimeError) else ({ p with val := some w }, none) := by
  simp only [pstep, hc]

theorem pstep_fix_inl (sound : Bool) {p : Par} {v : ℚ} {e : Exc} (hc : p.check v = .inl e) :
    pstep sound p (.fix v) = ({ p with sym := false }, some e) := by simp only [pstep, hc]

theorem pstep_fix_inr (sound : Bool) {p : Par} {v : ℚ} {w : ℚ} (hc : p.check v = .inr w) :
    pstep sound p (.fix v) = ({ p with sym := false, val := some w }, none) := by simp only [pstep, hc]

theorem pstep_set_ok_inv (sound : Bool) (p : Par) (v : ℚ) (force : Bool)
    (h : (pstep sound p (.set v force)).2 = none) : (pstep sound p (.set v force)).1.Inv := by
  cases hc : p.check v with
  | inl e => rw [pstep_set_inl sound force hc] at h; simp at h
  | inr w =>
    rw [pstep_set_inr sound force hc] at h ⊢
    split_ifs at h ⊢ with hf
    intro w' hw'
    simp only [Option.some.injEq] at hw'
    subst hw'
    exact checkE_inr_inRange hc

theorem pstep_fix_ok_inv (sound : Bool) (p : Par) (v : ℚ)
    (h : (pstep sound p (.fix v)).2 = none) : (pstep sound p (.fix v)).1.Inv := by
  cases hc : p.check v with
  | inl e => rw [pstep_fix_inl sound hc] at h; simp at h
  | inr w =>
    rw [pstep_fix_inr sound hc]
    intro w' hw'
    simp only [Option.some.injEq] at hw'
    subst hw'
    exact checkE_inr_inRange hc

theorem pstep_inv (sound : Bool) (p : Par) (op : POp) (hp : p.Inv) (hop : op.isBind = false) :
    (pstep sound p op).1.Inv := by
  cases op with
  | set v force =>
    cases hc : p.check v with
    | inl e => rw [pstep_set_inl sound force hc]; exact hp
    | inr w =>
      by_cases hf : (!p.sym && !force) = true
      · rw [pstep_set_inr sound force hc, if_pos hf]; exact hp
      · apply pstep_set_ok_inv
        rw [pstep_set_inr sound force hc, if_neg hf]
  | fix v =>
    cases hc : p.check v with
    | inl e => rw [pstep_fix_inl sound hc]; exact hp
    | inr w => apply pstep_fix_ok_inv; rw [pstep_fix_inr sound hc]
  | reset =>
    simp only [pstep]
    split_ifs
    · intro w hw; simp at hw
    · exact hp
  | setPeriodic b => exact hp
  | bind lo hi per => simp [POp.isBind] at hop

theorem exec_inv (sound : Bool) (p : Par) (ops : List POp) (hp : p.Inv)
    (hops : ∀ op ∈ ops, op.isBind = false) : (exec (pstep sound) p ops).Inv := by
  induction ops generalizing p with
  | nil => exact hp
  | cons op rest ih =>
    rw [exec_cons]
    exact ih _ (pstep_inv sound p op hp (hops op (by simp))) fun o ho => hops o (by simp [ho])

theorem pstep_fixed (sound : Bool) (p : Par) (op : POp) (hs : p.sym = false) (hop : op.forces = false) :
    (pstep sound p op).1.val = p.val ∧ (pstep sound p op).1.sym = false := by
  cases op with
  | set v force =>
    simp only [POp.forces] at hop
    subst hop
    cases hc : p.check v with
    | inl e => rw [pstep_set_inl sound false hc]; exact ⟨rfl, hs⟩
    | inr w => rw [pstep_set_inr sound false hc]; simp [hs]
  | fix v => simp [POp.forces] at hop
  | reset => simp [pstep, hs]
  | setPeriodic b => simp [pstep, hs]
  | bind lo hi per => simp [pstep, hs]

theorem exec_fixed (sound : Bool) (p : Par) (ops : List POp) (hs : p.sym = false)
    (hops : ∀ op ∈ ops, op.forces = false) :
    (exec (pstep sound) p ops).val = p.val ∧ (exec (pstep sound) p ops).sym = false := by
  induction ops generalizing p with
  | nil => exact ⟨rfl, hs⟩
  | cons op rest ih =>
    rw [exec_cons]
    obtain ⟨h1, h2⟩ := pstep_fixed sound p op hs (hops op (by simp))
    obtain ⟨h3, h4⟩ := ih _ h2 fun o ho => hops o (by simp [ho])
    exact ⟨h3.trans h1, h4⟩

def POp.isFix : POp → Bool
  | .fix _ => true
  | _ => false

theorem pstep_sym (sound : Bool) (p : Par) (op : POp) (hop : op.isFix = false) :
    (pstep sound p op).1.sym = p.sym := by
  cases op with
  | set v force =>
    cases hc : p.check v with
    | inl e => rw [pstep_set_inl sound force hc]
    | inr w => rw [pstep_set_inr sound force hc]; split_ifs <;> rfl
  | fix v => simp [POp.isFix] at hop
  | reset => simp only [pstep]; split_ifs <;> rfl
  | setPeriodic b => rfl
  | bind lo hi per => rfl

theorem exec_sym (sound : Bool) (p : Par) (ops : List POp) (hops : ∀ op ∈ ops, op.isFix = false) :
    (exec (pstep sound) p ops).sym = p.sym := by
  induction ops generalizing p with
  | nil => rfl
  | cons op rest ih =>
    rw [exec_cons, ih _ fun o ho => hops o (by simp [ho]), pstep_sym sound p op (hops op (by simp))]

/-! ### sessions -/

theorem sstep_par_other (sound : Bool) (st : LStore) (x : String) (op : POp) (y : String) (h : y ≠ x) :
    (sstep sound st (.par x op)).1 y = st y := by
  simp only [sstep]
  cases hx : st x with
  | none => rfl
  | some p => simp [Function.update_of_ne h]

theorem sstep_par_self (sound : Bool) (st : LStore) (x : String) (op : POp) :
    (sstep sound st (.par x op)).1 x = (st x).map fun p => (pstep sound p op).1 := by
  simp only [sstep]
  cases h : st x with
  | none => simp [h]
  | some p => simp

theorem exec_par_local (sound : Bool) (st : LStore) (ops : List (String × POp)) (y : String) :
    (exec (sstep sound) st (ops.map fun o => SOp.par o.1 o.2)) y =
      (st y).map fun p => exec (pstep sound) p ((ops.filter fun o => o.1 = y).map (·.2)) := by
  induction ops generalizing st with
  | nil => cases h : st y <;> simp [exec_nil, h]
  | cons o rest ih =>
    obtain ⟨x, op⟩ := o
    simp only [List.map_cons, exec_cons]
    rw [ih]
    by_cases e : x = y
    · subst e
      rw [sstep_par_self]
      cases st x with
      | none => rfl
      | some p => simp [exec_cons]
    · rw [sstep_par_other sound st x op y (Ne.symm e)]
      simp [e]

/-- `assign` is a prefix of the `set_value` calls it stands for: all of them when it returns normally -/
theorem assignRun_prefix (sound : Bool) (vs : List String) (st : LStore) (kv : List (String × ℚ)) :
    ∃ pre, pre <+: kv ∧
      (assignRun sound vs st kv).1 =
        exec (sstep sound) st (pre.map fun o => SOp.par o.1 (.set o.2 false)) ∧
      ((assignRun sound vs st kv).2 = none → pre = kv) ∧ ∀ o ∈ pre, o.1 ∈ vs := by
  induction kv generalizing st with
  | nil => exact ⟨[], List.prefix_refl _, rfl, fun _ => rfl, by simp⟩
  | cons o rest ih =>
    obtain ⟨k, v⟩ := o
    unfold assignRun
    by_cases hk : k ∈ vs
    · simp only [hk, if_true]
      cases hst : st k with
      | none => exact ⟨[], List.nil_prefix, rfl, by simp, by simp⟩
      | some p =>
        simp only
        cases hps : pstep sound p (.set v false) with
        | mk p' out =>
          cases out with
          | some e => exact ⟨[], List.nil_prefix, rfl, by simp, by simp⟩
          | none =>
            simp only
            obtain ⟨pre, h1, h2, h3, h4⟩ := ih (Function.update st k (some p'))
            refine ⟨(k, v) :: pre, List.prefix_cons_inj _ |>.2 h1, ?_, ?_, ?_⟩
            · rw [h2]
              simp only [List.map_cons, exec_cons]
              congr 1
              unfold sstep
              simp [hst, hps]
            · intro hn; rw [h3 hn]
            · intro o ho
              simp only [List.mem_cons] at ho
              rcases ho with rfl | ho
              · exact hk
              · exact h4 o ho
    · simp only [hk, if_false]
      exact ⟨[], List.nil_prefix, rfl, by simp, by simp⟩

/-! ### `copy` -/

theorem Par.copy_of_inv (p : Par) (hp : p.Inv) :
    p.copy = .inr { p with sym := p.val.isNone } := by
  unfold Par.copy Par.init
  cases hv : p.val with
  | none =>
    obtain ⟨lo, hi, per, sym, val⟩ := p
    simp only at hv
    subst hv
    rfl
  | some v =>
    simp only
    rw [checkE_of_inRange p.periodic (hp v hv)]
    obtain ⟨lo, hi, per, sym, val⟩ := p
    simp only at hv
    subst hv
    rfl

/-! ### ranges of a shared parameter -/

theorem narrowLo_none (a : Option ℚ) : narrowLo a none = a := by cases a <;> rfl
theorem narrowHi_none (a : Option ℚ) : narrowHi a none = a := by cases a <;> rfl

theorem narrowLo_some (a : Option ℚ) (l : ℚ) :
    narrowLo a (some l) = some (match a with | none => l | some c => max c l) := by
  cases a with
  | none => rfl
  | some c =>
    simp only [narrowLo]
    split_ifs with h
    · rw [max_eq_right (le_of_lt h)]
    · rw [max_eq_left (not_lt.1 h)]

theorem narrowHi_some (a : Option ℚ) (l : ℚ) :
    narrowHi a (some l) = some (match a with | none => l | some c => min c l) := by
  cases a with
  | none => rfl
  | some c =>
    simp only [narrowHi]
    split_ifs with h
    · rw [min_eq_right (le_of_lt h)]
    · rw [min_eq_left (not_lt.1 h)]

theorem narrowLo_comm (a x y : Option ℚ) : narrowLo (narrowLo a x) y = narrowLo (narrowLo a y) x := by
  cases x <;> cases y <;> simp only [narrowLo_none, narrowLo_some]
  cases a <;> simp [max_comm, max_left_comm]

theorem narrowHi_comm (a x y : Option ℚ) : narrowHi (narrowHi a x) y = narrowHi (narrowHi a y) x := by
  cases x <;> cases y <;> simp only [narrowHi_none, narrowHi_some]
  cases a <;> simp [min_comm, min_left_comm]

theorem bindAll_lo (sound : Bool) (p : Par) (slots : List (ℚ × ℚ)) :
    (bindAll sound p slots).lo = slots.foldl (fun a s => narrowLo a (some s.1)) p.lo := by
  unfold bindAll
  induction slots generalizing p with
  | nil => rfl
  | cons s rest ih => simp only [List.foldl_cons]; rw [ih]; rfl

theorem bindAll_hi (sound : Bool) (p : Par) (slots : List (ℚ × ℚ)) :
    (bindAll sound p slots).hi = slots.foldl (fun a s => narrowHi a (some s.2)) p.hi := by
  unfold bindAll
  induction slots generalizing p with
  | nil => rfl
  | cons s rest ih => simp only [List.foldl_cons]; rw [ih]; rfl

/-- the slots a history binds the parameter to -/
def slotsOf : List POp → List (ℚ × ℚ)
  | [] => []
  | .bind (some l) (some h) _ :: rest => (l, h) :: slotsOf rest
  | _ :: rest => slotsOf rest

/-- the operations of a history in which a parameter is only driven by components: two-sided periodic
slots, and no explicit `set_periodic` by the user -/
def POp.plain : POp → Bool
  | .bind lo hi per => lo.isSome && hi.isSome && per == some true
  | .setPeriodic _ => false
  | _ => true

/-- if still periodic, the parameter covers exactly the range of every slot in `seen` -/
def Covers (p : Par) (seen : List (ℚ × ℚ)) : Prop :=
  p.periodic = true → ∀ s ∈ seen, p.lo = some s.1 ∧ p.hi = some s.2

def Ranged (p : Par) (seen : List (ℚ × ℚ)) : Prop := seen ≠ [] → p.lo.isSome = true ∧ p.hi.isSome = true

theorem narrowLo_isSome (a : Option ℚ) (l : ℚ) : (narrowLo a (some l)).isSome = true := by
  cases a <;> simp only [narrowLo] <;> [rfl; (split_ifs <;> rfl)]

theorem narrowHi_isSome (a : Option ℚ) (l : ℚ) : (narrowHi a (some l)).isSome = true := by
  cases a <;> simp only [narrowHi] <;> [rfl; (split_ifs <;> rfl)]

theorem pstep_bind_covers (p : Par) (seen : List (ℚ × ℚ)) (l h : ℚ) (hc : Covers p seen) (hr : Ranged p seen) :
    Covers (pstep true p (.bind (some l) (some h) (some true))).1 ((l, h) :: seen) ∧
      Ranged (pstep true p (.bind (some l) (some h) (some true))).1 ((l, h) :: seen) := by
  refine ⟨?_, fun _ => ⟨narrowLo_isSome _ _, narrowHi_isSome _ _⟩⟩
  intro hper s hs
  simp only [pstep, bindPeriodic, Bool.not_true, Bool.false_eq_true, if_false, Option.isSome_some,
    Bool.true_and, Bool.not_eq_true', Bool.or_eq_false_iff, Bool.not_eq_false',
    Bool.and_eq_true, decide_eq_true_eq, Bool.and_eq_false_iff] at hper ⊢
  obtain ⟨⟨hA1, hA2⟩, hB⟩ := hper
  simp only [List.mem_cons] at hs
  rcases hs with rfl | hs
  · exact ⟨hA1, hA2⟩
  · have hne : seen ≠ [] := by rintro rfl; simp at hs
    obtain ⟨r1, r2⟩ := hr hne
    rcases hB with hB | hB
    · rcases hB with hB | hB
      · rw [r1] at hB; simp at hB
      · rw [r2] at hB; simp at hB
    · obtain ⟨hB1, hB2, hB3⟩ := hB
      obtain ⟨c1, c2⟩ := hc hB1 s hs
      exact ⟨hB2 ▸ c1, hB3 ▸ c2⟩

theorem pstep_plain_covers (p : Par) (seen : List (ℚ × ℚ)) (op : POp) (hop : op.plain = true)
    (hc : Covers p seen) (hr : Ranged p seen) :
    Covers (pstep true p op).1 (slotsOf [op] ++ seen) ∧ Ranged (pstep true p op).1 (slotsOf [op] ++ seen) := by
  cases op with
  | set v force =>
    have e : (pstep true p (.set v force)).1.lo = p.lo ∧ (pstep true p (.set v force)).1.hi = p.hi ∧
        (pstep true p (.set v force)).1.periodic = p.periodic := by
      cases hc : p.check v with
      | inl e => rw [pstep_set_inl true force hc]; exact ⟨rfl, rfl, rfl⟩
      | inr w => rw [pstep_set_inr true force hc]; split_ifs <;> exact ⟨rfl, rfl, rfl⟩
    simp only [slotsOf, List.nil_append, Covers, Ranged, e.1, e.2.1, e.2.2]
    exact ⟨hc, hr⟩
  | fix v =>
    have e : (pstep true p (.fix v)).1.lo = p.lo ∧ (pstep true p (.fix v)).1.hi = p.hi ∧
        (pstep true p (.fix v)).1.periodic = p.periodic := by
      cases hc : p.check v with
      | inl e => rw [pstep_fix_inl true hc]; exact ⟨rfl, rfl, rfl⟩
      | inr w => rw [pstep_fix_inr true hc]; exact ⟨rfl, rfl, rfl⟩
    simp only [slotsOf, List.nil_append, Covers, Ranged, e.1, e.2.1, e.2.2]
    exact ⟨hc, hr⟩
  | reset =>
    have e : (pstep true p .reset).1.lo = p.lo ∧ (pstep true p .reset).1.hi = p.hi ∧
        (pstep true p .reset).1.periodic = p.periodic := by
      simp only [pstep]; split_ifs <;> exact ⟨rfl, rfl, rfl⟩
    simp only [slotsOf, List.nil_append, Covers, Ranged, e.1, e.2.1, e.2.2]
    exact ⟨hc, hr⟩
  | setPeriodic b => simp [POp.plain] at hop
  | bind lo hi per =>
    simp only [POp.plain, Bool.and_eq_true, beq_iff_eq] at hop
    obtain ⟨⟨h1, h2⟩, h3⟩ := hop
    subst h3
    obtain ⟨l, rfl⟩ := Option.isSome_iff_exists.1 h1
    obtain ⟨h, rfl⟩ := Option.isSome_iff_exists.1 h2
    exact pstep_bind_covers p seen l h hc hr

theorem slotsOf_cons (op : POp) (rest : List POp) : slotsOf (op :: rest) = slotsOf [op] ++ slotsOf rest := by
  cases op with
  | bind lo hi per => cases lo <;> cases hi <;> simp [slotsOf]
  | _ => simp [slotsOf]

theorem exec_plain_covers (p : Par) (seen : List (ℚ × ℚ)) (ops : List POp) (hops : ∀ op ∈ ops, op.plain = true)
    (hc : Covers p seen) (hr : Ranged p seen) :
    ∀ s, (s ∈ seen ∨ s ∈ slotsOf ops) → (exec (pstep true) p ops).periodic = true →
      (exec (pstep true) p ops).lo = some s.1 ∧ (exec (pstep true) p ops).hi = some s.2 := by
  induction ops generalizing p seen with
  | nil =>
    intro s hs hper
    simp only [slotsOf, List.not_mem_nil, or_false] at hs
    exact hc hper s hs
  | cons op rest ih =>
    intro s hs
    rw [exec_cons]
    obtain ⟨c1, r1⟩ := pstep_plain_covers p seen op (hops op (by simp)) hc hr
    refine ih _ (slotsOf [op] ++ seen) (fun o ho => hops o (by simp [ho])) c1 r1 s ?_
    rw [slotsOf_cons] at hs
    simp only [List.mem_append] at hs ⊢
    tauto

end PM.C14
