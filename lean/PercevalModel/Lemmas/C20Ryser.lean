/-
  C20 — Ryser's formula (`permRyser` of `Model/C20.lean`) is the permanent.

  1. `ryser_fintype`: the abstract identity over a finite index type, subsets as indicator functions;
  2. `ryserGo_closed`: closed form of the list recursion `ryserGo`;
  3. `permRyser_eq_permanent` and the amplitude-level corollaries.
-/
import PercevalModel.Lemmas.C20
import Mathlib.Algebra.BigOperators.Ring.Finset
import Mathlib.Algebra.BigOperators.GroupWithZero.Finset
import Mathlib.Data.Fintype.BigOperators
import Mathlib.Data.Fintype.EquivFin
import Mathlib.Data.List.OfFn

open Matrix Finset

namespace PM.C20
open PM.Fock PM.SimSpec

variable {R : Type*} [CommRing R]

/-! ### 1. the abstract identity -/

/-- sign of a subset given by its indicator function -/
def sgn {ι : Type*} [Fintype ι] (χ : ι → Bool) : R := ∏ j, if χ j then (-1 : R) else 1

/-- for a fixed choice function `g`, the signed number of subsets containing the range of `g` -/
theorem sum_sgn_range {ι : Type*} [Fintype ι] [DecidableEq ι] (g : ι → ι) :
    (∑ χ : ι → Bool, (sgn χ : R) * ∏ i, (if χ (g i) then (1 : R) else 0)) =
      if Function.Surjective g then (-1 : R) ^ Fintype.card ι else 0 := by
  classical
  have key : ∀ χ : ι → Bool, (sgn χ : R) * ∏ i, (if χ (g i) then (1 : R) else 0) =
      ∏ j, (fun (j : ι) (b : Bool) =>
        (if b then (-1 : R) else 1) * (if (j ∈ Set.range g → b = true) then 1 else 0)) j (χ j) := by
    intro χ
    simp only [sgn]
    rw [Finset.prod_mul_distrib, Fintype.prod_boole, Fintype.prod_boole]
    congr 2
    apply propext
    constructor
    · rintro h j ⟨i, rfl⟩; exact h i
    · intro h i; exact h (g i) ⟨i, rfl⟩
  refine (Finset.sum_congr rfl fun χ _ => key χ).trans
    ((Fintype.prod_sum (κ := fun _ : ι => Bool) (fun (j : ι) (b : Bool) =>
        (if b then (-1 : R) else 1) * (if (j ∈ Set.range g → b = true) then 1 else 0))).symm.trans ?_)
  have h2 : ∀ j : ι, (∑ b : Bool, (if b then (-1 : R) else 1) *
      (if (j ∈ Set.range g → b = true) then 1 else 0)) = if j ∈ Set.range g then (-1 : R) else 0 := by
    intro j
    rw [Fintype.sum_bool]
    by_cases hj : j ∈ Set.range g <;> simp [hj]
  simp only [h2]
  rw [Fintype.prod_ite_zero]
  simp only [Finset.prod_const, Finset.card_univ]
  rfl

/-- a sum over bijective maps is a sum over permutations -/
theorem sum_perm_eq_sum_bijective {ι : Type*} [Fintype ι] [DecidableEq ι] (F : (ι → ι) → R) :
    (∑ σ : Equiv.Perm ι, F σ) = ∑ g : ι → ι, if Function.Surjective g then F g else 0 := by
  classical
  rw [← Finset.sum_filter]
  symm
  refine Finset.sum_bij
    (fun g hg => Equiv.ofBijective g
      ⟨Finite.injective_iff_surjective.mpr (Finset.mem_filter.1 hg).2, (Finset.mem_filter.1 hg).2⟩)
    (fun _ _ => Finset.mem_univ _) ?_ ?_ (fun _ _ => rfl)
  · intro a _ b _ h
    funext x
    have := congrArg (fun e : Equiv.Perm ι => e x) h
    exact this
  · intro σ _
    exact ⟨σ, Finset.mem_filter.2 ⟨Finset.mem_univ _, σ.surjective⟩, Equiv.ext fun _ => rfl⟩

/-- **Ryser's formula**, indexed by a finite type; subsets of columns are indicator functions -/
theorem ryser_fintype {ι : Type*} [Fintype ι] [DecidableEq ι] (A : Matrix ι ι R) :
    (∑ χ : ι → Bool, (sgn χ : R) * ∏ i, ∑ j, (if χ j then A i j else 0)) =
      (-1 : R) ^ Fintype.card ι * permanent A := by
  classical
  have e1 : ∀ χ : ι → Bool, (sgn χ : R) * ∏ i, ∑ j, (if χ j then A i j else 0) =
      ∑ g : ι → ι, (∏ i, A i (g i)) * ((sgn χ : R) * ∏ i, (if χ (g i) then (1 : R) else 0)) := by
    intro χ
    rw [Fintype.prod_sum, Finset.mul_sum]
    refine Finset.sum_congr rfl fun g _ => ?_
    have : (∏ i, (if χ (g i) then A i (g i) else 0)) =
        (∏ i, A i (g i)) * ∏ i, (if χ (g i) then (1 : R) else 0) := by
      rw [← Finset.prod_mul_distrib]
      refine Finset.prod_congr rfl fun i _ => ?_
      split_ifs <;> simp
    rw [this]; ring
  simp only [e1]
  rw [Finset.sum_comm]
  simp only [← Finset.mul_sum, sum_sgn_range]
  have hp : permanent A = ∑ g : ι → ι, if Function.Surjective g then ∏ i, A i (g i) else 0 := by
    rw [← permanent_transpose, ← sum_perm_eq_sum_bijective (fun g => ∏ i, A i (g i))]
    rfl
  rw [hp, Finset.mul_sum]
  refine Finset.sum_congr rfl fun g _ => ?_
  split_ifs
  · ring
  · simp

/-! ### 2. closed form of the list recursion -/

theorem zipWith_add_ofFn {n : ℕ} (s c : Fin n → R) :
    List.zipWith (· + ·) (List.ofFn s) (List.ofFn c) = List.ofFn fun i => s i + c i := by
  apply List.ext_getElem
  · simp
  · intro i h1 h2
    simp

/-- splitting the subsets of `k + 1` columns according to whether column `0` is taken -/
theorem sum_bool_fun_succ {k : ℕ} (F : (Fin (k + 1) → Bool) → R) :
    (∑ χ : Fin (k + 1) → Bool, F χ) =
      (∑ χ : Fin k → Bool, F (Fin.cons false χ)) + ∑ χ : Fin k → Bool, F (Fin.cons true χ) := by
  rw [← (Fin.consEquiv fun _ : Fin (k + 1) => Bool).sum_comp, Fintype.sum_prod_type, Fintype.sum_bool,
    add_comm]
  rfl

theorem ryserGo_closed {n : ℕ} : ∀ (k : ℕ) (A : Fin n → Fin k → R) (s : Fin n → R) (sign : R),
    ryserGo (List.ofFn fun j => List.ofFn fun i => A i j) (List.ofFn s) sign =
      sign * ∑ χ : Fin k → Bool, (sgn χ : R) * ∏ i, (s i + ∑ j, if χ j then A i j else 0)
  | 0, A, s, sign => by
    simp [ryserGo, sgn, List.prod_ofFn]
  | k + 1, A, s, sign => by
    rw [List.ofFn_succ, ryserGo, zipWith_add_ofFn,
      ryserGo_closed k (fun i j => A i j.succ) s sign,
      ryserGo_closed k (fun i j => A i j.succ) (fun i => s i + A i 0) (-sign),
      sum_bool_fun_succ]
    simp only [sgn, Fin.prod_univ_succ, Fin.sum_univ_succ, Fin.cons_zero, Fin.cons_succ, if_true,
      Bool.false_eq_true, if_false, one_mul, zero_add, neg_mul, Finset.sum_neg_distrib, add_assoc]
    ring

/-! ### 3. `permRyser` is the permanent -/

theorem map_eq_ofFn_getD {β : Type*} (l : List ℕ) (n : ℕ) (h : l.length = n) (g : ℕ → β) :
    l.map g = List.ofFn fun i : Fin n => g (l.getD i.val 0) := by
  subst h
  apply List.ext_getElem
  · simp
  · intro i h1 h2
    simp [List.getD_eq_getElem?_getD]

theorem permRyser_eq_permanent (f : ℕ → ℕ → R) (rows cols : List ℕ) (h : rows.length = cols.length) :
    permRyser f rows cols = Matrix.permanent (PM.lmat f rows cols) := by
  unfold permRyser
  have e1 : (cols.map fun c => rows.map fun r => f r c) =
      List.ofFn fun j : Fin cols.length => List.ofFn fun i : Fin cols.length =>
        f (rows.getD i.val 0) (cols.getD j.val 0) := by
    rw [map_eq_ofFn_getD cols cols.length rfl]
    congr 1
    funext j
    exact map_eq_ofFn_getD rows cols.length h fun r => f r (cols.getD j.val 0)
  have e2 : List.replicate rows.length (0 : R) = List.ofFn fun _ : Fin cols.length => (0 : R) := by
    rw [h, List.ofFn_const]
  rw [e1, e2, ryserGo_closed cols.length (fun i j => f (rows.getD i.val 0) (cols.getD j.val 0))]
  simp only [zero_add, one_mul]
  have := ryser_fintype (PM.lmat f rows cols)
  simp only [PM.lmat, Fintype.card_fin] at this
  rw [this, ← mul_assoc, ← mul_pow]
  simp

theorem permRyser_eq_permRec (f : ℕ → ℕ → R) (rows cols : List ℕ) (h : rows.length = cols.length) :
    permRyser f rows cols = PM.permRec f rows cols := by
  rw [permRyser_eq_permanent f rows cols h, PM.permRec_eq_permanent f cols rows h]

theorem ryserAmp_eq_pamp {m : ℕ} (U : Matrix (Fin m) (Fin m) R) (s t : List ℕ) :
    ryserAmp U s t = PM.Fock.pamp U s t := by
  unfold ryserAmp
  by_cases h : s.sum = t.sum
  · rw [if_pos h, permRyser_eq_permRec _ _ _ (by rw [expand_length, expand_length, h]),
      PM.C02.pamp_eq_permRec U s t h]
  · rw [if_neg h, PM.C02.pamp_zero_of_sum_ne U s t h]

theorem ryserGateAmp_eq_gateAmp {m : ℕ} (U : Matrix (Fin m) (Fin m) R) (L : Layout)
    (ps : PM.SimSpec.PS) (bo bi : List Bool) :
    ryserGateAmp U L ps bo bi = gateAmp U L ps bo bi := by
  unfold ryserGateAmp gateAmp
  rw [ryserAmp_eq_pamp]

theorem evalAmp_eq_pamp {m : ℕ} (U : Matrix (Fin m) (Fin m) GQ) (s t : List ℕ) :
    evalAmp U s t = PM.Fock.pamp U s t := by
  unfold evalAmp
  split_ifs
  · exact fastAmp_eq_pamp U s t
  · exact ryserAmp_eq_pamp U s t

/-! ### non-vacuity: concrete evaluations -/

/-- `perm [[1,2],[3,4]] = 1*4 + 2*3 = 10` -/
example : permRyser (fun r c => ((2 * r + c + 1 : ℕ) : ℤ)) [0, 1] [0, 1] = 10 := by decide

/-- `perm [[1,2,3],[4,5,6],[7,8,9]] = 450`, and the Laplace evaluation agrees -/
example : permRyser (fun r c => ((3 * r + c + 1 : ℕ) : ℤ)) [0, 1, 2] [0, 1, 2] = 450 := by decide

example : PM.permRec (fun r c => ((3 * r + c + 1 : ℕ) : ℤ)) [0, 1, 2] [0, 1, 2] = 450 := by decide

/-- without the length hypothesis the formula is *not* the Laplace recursion (so `h` is needed):
two rows, one column -/
example : permRyser (fun _ _ => (1 : ℤ)) [0, 1] [0] = 1 ∧
    PM.permRec (fun _ _ => (1 : ℤ)) [0, 1] [0] = 2 := by decide

end PM.C20
