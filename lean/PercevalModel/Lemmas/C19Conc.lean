/-
  C19 (extension) — helper lemmas for the two-object model (`Model/C19Conc.lean`).
-/
import PercevalModel.Model.C19Conc
import PercevalModel.Lemmas.C19

namespace PM.C19.Conc

open PM.C19 PM.SM

/-- a re-opening by the object that takes over does not depend on that object's stale list: it is the re-opening
the previous actor would have performed -/
theorem reopen_after_switch {t : Two} (h : Inv t.cur) :
    step fixed (switch fixed t).cur .reopen = step fixed t.cur .reopen := by
  have hd := h.disk
  cases ho : t.other with
  | some m => simp [switch, ho, step, construct, hd]
  | none => simp [switch, ho, step, construct, hd]

/-- under the discipline the pair (state of the actor, outputs) is that of ONE object performing the same
operations -/
theorem run_disc (hist : List Act) : ∀ (t : Two), Inv t.cur → (∀ a ∈ hist, WFOp a.2) → disc t.who hist = true →
    ((run (step2 fixed) t hist).1.cur, (run (step2 fixed) t hist).2) = run (step fixed) t.cur (hist.map (·.2)) := by
  induction hist with
  | nil => intro t _ _ _; rfl
  | cons a rest ih =>
    intro t hI hw hd
    simp only [disc, Bool.and_eq_true, Bool.or_eq_true, beq_iff_eq] at hd
    obtain ⟨hhead, hrest⟩ := hd
    have hwa : WFOp a.2 := hw a (List.mem_cons_self ..)
    have hwr : ∀ b ∈ rest, WFOp b.2 := fun b hb => hw b (List.mem_cons_of_mem _ hb)
    by_cases hsame : a.1 = t.who
    · have e : step2 fixed t a = ({ t with cur := (step fixed t.cur a.2).1 }, (step fixed t.cur a.2).2) := by
        simp [step2, hsame]
      have := ih { t with cur := (step fixed t.cur a.2).1 } (step_inv hI hwa) hwr (by simpa [hsame] using hrest)
      have h1 := congrArg Prod.fst this
      have h2 := congrArg Prod.snd this
      simp only at h1 h2
      simp only [run, List.map_cons, e, Prod.mk.injEq]
      exact ⟨h1, by rw [h2]⟩
    · have hre : a.2 = .reopen := by
        rcases hhead with h1 | h1
        · exact absurd h1 hsame
        · cases hop : a.2 <;> simp_all [isReopen]
      have e : step2 fixed t a =
          ({ switch fixed t with cur := (step fixed t.cur a.2).1 }, (step fixed t.cur a.2).2) := by
        simp [step2, hsame, hre, reopen_after_switch hI]
      have hwho : (switch fixed t).who = a.1 := by
        cases hb : a.1 <;> cases hc : t.who <;> simp_all [switch] <;> (cases t.other <;> simp)
      have := ih { switch fixed t with cur := (step fixed t.cur a.2).1 } (step_inv hI hwa) hwr
        (by simpa [hwho] using hrest)
      have h1 := congrArg Prod.fst this
      have h2 := congrArg Prod.snd this
      simp only at h1 h2
      simp only [run, List.map_cons, e, Prod.mk.injEq]
      exact ⟨h1, by rw [h2]⟩

end PM.C19.Conc
