/-
  C19 (extension) — helper lemmas for the two-object model (`Model/C19Conc.lean`).
-/
import PercevalModel.Model.C19Conc
import PercevalModel.Lemmas.C19

namespace PM.C19.Conc

open PM.C19 PM.SM

/-- a re-opening by the object that takes over does not depend on that object's stale list: it is the re-opening
the previous actor would have performed -/
theorem reopen_after_switch {t : Two} (h : Inv t.cur) :
    step fixed (switch fixed t).cur .reopen = step fixed t.cur .reopen := by
  have hd := h.disk
  cases ho : t.other with
  | some m => simp [switch, ho, step, construct, hd]
  | none => simp [switch, ho, step, construct, hd]

/-- under the discipline the pair (state of the actor, outputs) is that of ONE object performing the same
operations -/
theorem run_disc (hist : List Act) : ∀ (t : Two), Inv t.cur → (∀ a ∈ hist, WFOp a.2) → disc t.who hist = true →
    ((run (step2 fixed) t hist).1.cur, (run (step2 fixed) t hist).2) = run (step fixed) t.cur (hist.map (·.2)) := by
  induction hist with
  | nil => intro t _ _ _; rfl
  | cons a rest ih =>
    intro t hI hw hd
    simp only [disc, Bool.and_eq_true, Bool.or_eq_true, beq_iff_eq] at hd
    obtain ⟨hhead, hrest⟩ := hd
    have hwa : WFOp a.2 := hw a (List.mem_cons_self ..)
    have hwr : ∀ b ∈ rest, WFOp b.2 := fun b hb => hw b (List.mem_cons_of_mem _ hb)
    by_cases hsame : a.1 = t.who
    · have e : step2 fixed t a = ({ t with cur := (step fixed t.cur a.2).1 }, (step fixed t.cur a.2).2) := by
        simp [step2, hsame]
      have := ih { t with cur := (step fixed t.cur a.2).1 } (step_inv hI hwa) hwr (by simpa [hsame] using hrest)
      have h1 := congrArg Prod.fst this
      have h2 := congrArg Prod.snd this
      simp only at h1 h2
      simp only [run, List.map_cons, e, Prod.mk.injEq]
      exact ⟨h1, by rw [h2]⟩
    · have hre : a.2 = .reopen := by
        rcases hhead with h1 | h1
        · exact absurd h1 hsame
        · cases hop : a.2 <;> simp_all [isReopen]
      have e : step2 fixed t a =
          ({ switch fixed t with cur := (step fixed t.cur a.2).1 }, (step fixed t.cur a.2).2) := by
        simp [step2, hsame, hre, reopen_after_switch hI]
      have hwho : (switch fixed t).who = a.1 := by
        cases hb : a.1 <;> cases hc : t.who <;> simp_all [switch] <;> (cases t.other <;> simp)
      have := ih { switch fixed t with cur := (step fixed t.cur a.2).1 } (step_inv hI hwa) hwr
        (by simpa [hwho] using hrest)
      have h1 := congrArg Prod.fst this
      have h2 := congrArg Prod.snd this
      simp only at h1 h2
      simp only [run, List.map_cons, e, Prod.mk.injEq]
      exact ⟨h1, by rw [h2]⟩

/-! ### `add` by an object whose list is stale: what a returning `add` leaves in the file (no invariant needed) -/

theorem write_disk {s s' : State} (hd : s.dir = true) (h : write s = .ok s') :
    s'.disk = some (s'.mem.map toDict) := by
  unfold write at h
  split at h
  · cases h
  · cases h
    simp [hd]

theorem writeOr_ok_disk (s0 s : State) (hd : s.dir = true) (hok : (writeOr s0 s).2 = .ok) :
    (writeOr s0 s).1.disk = some ((writeOr s0 s).1.mem.map toDict) := by
  unfold writeOr at hok ⊢
  cases hw : write s with
  | ok s' => exact write_disk hd hw
  | error e => simp [hw] at hok

def OkWritten (r : State × Res) : Prop := r.2 = .ok → r.1.disk = some (r.1.mem.map toDict)

theorem addOp_okWritten (s : State) (j : Job) (kw : Option Nat) (hd : s.dir = true) :
    OkWritten (addOp fixed s j kw) := by
  unfold addOp
  repeat' split
  all_goals first
    | (intro h; exact writeOr_ok_disk _ _ (by simpa using hd) h)
    | (intro h; simp at h; done)
    | (rename_i hf; simp [fixed] at hf; done)

theorem write_dir {s s' : State} (h : write s = .ok s') : s'.dir = s.dir := by
  unfold write at h
  split at h
  · cases h
  · cases h; rfl

theorem writeR_dir (s : State) : (writeR s).1.dir = s.dir := by
  unfold writeR
  cases hw : write s with
  | ok s' => exact write_dir hw
  | error e => rfl

theorem construct_dir (s : State) : (construct fixed s).1.dir = true := by
  unfold construct
  cases hdisk : s.disk with
  | some d => simp [fixed]
  | none => rw [writeR_dir]; simp [fixed]

theorem switch_dir (t : Two) (hd : t.cur.dir = true) : (switch fixed t).cur.dir = true := by
  unfold switch
  split
  · exact hd
  · exact construct_dir _

end PM.C19.Conc
