/-
  C08 — `check_heralds_detectors`: exact characterisation of the three possible results.
-/
import PercevalModel.Model.C08
import PercevalModel.Model.C08Glue

namespace PM.C08

section heralds
variable {K : Type}

/-- the herald `(mode, value)` asks for more photons than the detector on its mode can ever
report: the mode carries a detector (`ds[mode]` exists), that detector has a finite
`max_detections`, and `max_detections < value` -/
def HeraldExceeds (ds : List (AnyDet K)) (h : ℕ × ℕ) : Prop :=
  ∃ d mx, ds[h.1]? = some d ∧ d.maxDetections = some mx ∧ mx < h.2

/-- the herald's mode is an index of the detector list -/
def HeraldInRange (ds : List (AnyDet K)) (h : ℕ × ℕ) : Prop := h.1 < ds.length

theorem go_nil (ds : List (AnyDet K)) : checkHeralds.go ds [] = .ok true := by
  rw [checkHeralds.go]

theorem go_cons_outOfRange (ds : List (AnyDet K)) (h : ℕ × ℕ) (rest : List (ℕ × ℕ))
    (hr : ¬ HeraldInRange ds h) : checkHeralds.go ds (h :: rest) = .error "IndexError" := by
  obtain ⟨k, v⟩ := h
  have : ds[k]? = none := List.getElem?_eq_none (Nat.le_of_not_lt hr)
  rw [checkHeralds.go]
  simp only [this]

theorem go_cons_exceeds (ds : List (AnyDet K)) (h : ℕ × ℕ) (rest : List (ℕ × ℕ))
    (he : HeraldExceeds ds h) : checkHeralds.go ds (h :: rest) = .ok false := by
  obtain ⟨k, v⟩ := h
  obtain ⟨d, mx, h1, h2, h3⟩ := he
  rw [checkHeralds.go]
  simp only at h1 h3
  simp only [h1, h2, if_pos h3]

theorem go_cons_pass (ds : List (AnyDet K)) (h : ℕ × ℕ) (rest : List (ℕ × ℕ))
    (hr : HeraldInRange ds h) (he : ¬ HeraldExceeds ds h) :
    checkHeralds.go ds (h :: rest) = checkHeralds.go ds rest := by
  obtain ⟨k, v⟩ := h
  have hk : ds[k]? = some ds[k] := List.getElem?_eq_getElem hr
  rw [checkHeralds.go]
  simp only [hk]
  cases hm : (ds[k]).maxDetections with
  | none => rfl
  | some mx =>
    have : ¬ mx < v := fun hlt => he ⟨ds[k], mx, hk, hm, hlt⟩
    simp only [if_neg this]

/-- every herald passes -/
theorem go_all_pass (ds : List (AnyDet K)) (hs : List (ℕ × ℕ))
    (h : ∀ x ∈ hs, HeraldInRange ds x ∧ ¬ HeraldExceeds ds x) : checkHeralds.go ds hs = .ok true := by
  induction hs with
  | nil => exact go_nil ds
  | cons x hs ih =>
    rw [go_cons_pass ds x hs (h x (by simp)).1 (h x (by simp)).2]
    exact ih fun y hy => h y (by simp [hy])

/-- an exceeding herald preceded by in-range heralds only ⇒ `False` -/
theorem go_false_of (ds : List (AnyDet K)) (pre : List (ℕ × ℕ)) (x : ℕ × ℕ) (post : List (ℕ × ℕ))
    (hpre : ∀ y ∈ pre, HeraldInRange ds y) (hx : HeraldExceeds ds x) :
    checkHeralds.go ds (pre ++ x :: post) = .ok false := by
  induction pre with
  | nil => exact go_cons_exceeds ds x post hx
  | cons y pre ih =>
    rw [List.cons_append]
    by_cases hy : HeraldExceeds ds y
    · exact go_cons_exceeds ds y _ hy
    · rw [go_cons_pass ds y _ (hpre y (by simp)) hy]
      exact ih fun z hz => hpre z (by simp [hz])

/-- an out-of-range herald preceded by passing heralds only ⇒ `IndexError` -/
theorem go_error_of (ds : List (AnyDet K)) (pre : List (ℕ × ℕ)) (x : ℕ × ℕ) (post : List (ℕ × ℕ))
    (hpre : ∀ y ∈ pre, HeraldInRange ds y ∧ ¬ HeraldExceeds ds y) (hx : ¬ HeraldInRange ds x) :
    checkHeralds.go ds (pre ++ x :: post) = .error "IndexError" := by
  induction pre with
  | nil => exact go_cons_outOfRange ds x post hx
  | cons y pre ih =>
    rw [List.cons_append, go_cons_pass ds y _ (hpre y (by simp)).1 (hpre y (by simp)).2]
    exact ih fun z hz => hpre z (by simp [hz])

/-- the three scenarios are exhaustive: look at the first herald that does not pass -/
theorem herald_cases (ds : List (AnyDet K)) (hs : List (ℕ × ℕ)) :
    (∀ x ∈ hs, HeraldInRange ds x ∧ ¬ HeraldExceeds ds x) ∨
    ∃ pre x post, hs = pre ++ x :: post ∧
      (∀ y ∈ pre, HeraldInRange ds y ∧ ¬ HeraldExceeds ds y) ∧
      (¬ HeraldInRange ds x ∨ (HeraldInRange ds x ∧ HeraldExceeds ds x)) := by
  induction hs with
  | nil => left; intro x hx; simp at hx
  | cons x hs ih =>
    by_cases hr : HeraldInRange ds x
    · by_cases he : HeraldExceeds ds x
      · exact Or.inr ⟨[], x, hs, rfl, by simp, Or.inr ⟨hr, he⟩⟩
      · rcases ih with h | ⟨pre, y, post, e, hpre, hy⟩
        · left
          intro z hz
          simp only [List.mem_cons] at hz
          rcases hz with rfl | hz
          · exact ⟨hr, he⟩
          · exact h z hz
        · refine Or.inr ⟨x :: pre, y, post, by rw [e]; rfl, ?_, hy⟩
          intro z hz
          simp only [List.mem_cons] at hz
          rcases hz with rfl | hz
          · exact ⟨hr, he⟩
          · exact hpre z hz
    · exact Or.inr ⟨[], x, hs, rfl, by simp, Or.inl hr⟩

theorem go_false_iff (ds : List (AnyDet K)) (hs : List (ℕ × ℕ)) :
    checkHeralds.go ds hs = .ok false ↔
      ∃ pre x post, hs = pre ++ x :: post ∧ (∀ y ∈ pre, HeraldInRange ds y) ∧ HeraldExceeds ds x := by
  constructor
  · intro h
    rcases herald_cases ds hs with hall | ⟨pre, x, post, e, hpre, hx⟩
    · rw [go_all_pass ds hs hall] at h; cases h
    · rcases hx with hx | ⟨_, hx⟩
      · rw [e, go_error_of ds pre x post hpre hx] at h; cases h
      · exact ⟨pre, x, post, e, fun y hy => (hpre y hy).1, hx⟩
  · rintro ⟨pre, x, post, rfl, hpre, hx⟩
    exact go_false_of ds pre x post hpre hx

theorem go_true_iff (ds : List (AnyDet K)) (hs : List (ℕ × ℕ)) :
    checkHeralds.go ds hs = .ok true ↔ ∀ x ∈ hs, HeraldInRange ds x ∧ ¬ HeraldExceeds ds x := by
  constructor
  · intro h
    rcases herald_cases ds hs with hall | ⟨pre, x, post, e, hpre, hx⟩
    · exact hall
    · rcases hx with hx | ⟨_, hx⟩
      · rw [e, go_error_of ds pre x post hpre hx] at h; cases h
      · rw [e, go_false_of ds pre x post (fun y hy => (hpre y hy).1) hx] at h; cases h
  · exact go_all_pass ds hs

theorem go_error_iff (ds : List (AnyDet K)) (hs : List (ℕ × ℕ)) (msg : String) :
    checkHeralds.go ds hs = .error msg ↔
      msg = "IndexError" ∧ ∃ pre x post, hs = pre ++ x :: post ∧
        (∀ y ∈ pre, HeraldInRange ds y ∧ ¬ HeraldExceeds ds y) ∧ ¬ HeraldInRange ds x := by
  constructor
  · intro h
    rcases herald_cases ds hs with hall | ⟨pre, x, post, e, hpre, hx⟩
    · rw [go_all_pass ds hs hall] at h; cases h
    · rcases hx with hx | ⟨_, hx⟩
      · rw [e, go_error_of ds pre x post hpre hx] at h
        cases h
        exact ⟨rfl, pre, x, post, e, hpre, hx⟩
      · rw [e, go_false_of ds pre x post (fun y hy => (hpre y hy).1) hx] at h; cases h
  · rintro ⟨rfl, pre, x, post, rfl, hpre, hx⟩
    exact go_error_of ds pre x post hpre hx

theorem checkHeralds_eq_go (heralds : List (ℕ × ℕ)) (ds : List (AnyDet K))
    (h1 : heralds ≠ []) (h2 : ds ≠ []) : checkHeralds heralds ds = checkHeralds.go ds heralds := by
  unfold checkHeralds
  have : ¬ (heralds.isEmpty = true ∨ ds.isEmpty = true) := by
    simp [List.isEmpty_iff, h1, h2]
  rw [if_neg this]

theorem checkHeralds_trivial (heralds : List (ℕ × ℕ)) (ds : List (AnyDet K))
    (h : heralds = [] ∨ ds = []) : checkHeralds heralds ds = .ok true := by
  unfold checkHeralds
  have : heralds.isEmpty = true ∨ ds.isEmpty = true := by
    simpa [List.isEmpty_iff] using h
  rw [if_pos this]

/-- what `max_detections` is for each kind of entry, so what "exceeds" means concretely -/
theorem heraldExceeds_iff (ds : List (AnyDet K)) (h : ℕ × ℕ) :
    HeraldExceeds ds h ↔
      (∃ w mx, ds[h.1]? = some (.det (.wired w mx)) ∧ mx < h.2) ∨
      (∃ L r, ds[h.1]? = some (.bs L r) ∧ 2 ^ L < h.2) := by
  constructor
  · rintro ⟨d, mx, h1, h2, h3⟩
    cases d with
    | none => simp [AnyDet.maxDetections] at h2
    | det d =>
      cases d with
      | pnr => simp [AnyDet.maxDetections, Det.maxDetections] at h2
      | wired w m =>
        simp only [AnyDet.maxDetections, Det.maxDetections, Option.some.injEq] at h2
        subst h2
        exact Or.inl ⟨w, m, h1, h3⟩
    | bs L r =>
      simp only [AnyDet.maxDetections, Option.some.injEq] at h2
      subst h2
      exact Or.inr ⟨L, r, h1, h3⟩
  · rintro (⟨w, mx, h1, h3⟩ | ⟨L, r, h1, h3⟩)
    · exact ⟨_, mx, h1, rfl, h3⟩
    · exact ⟨_, 2 ^ L, h1, rfl, h3⟩

end heralds

/-! ### herald selection (`Model/C08Glue.lean`) -/
section select
variable {K : Type} [Field K] [LinearOrder K]

/-- selecting on the heralds keeps the entry of every state that satisfies them and nothing else -/
theorem prob_selectHeralds (h : List (ℕ × ℕ)) (d : Dist (List ℕ) K) (t : List ℕ) :
    prob (selectHeralds h d) t = if heraldsOk h t then prob d t else 0 := by
  induction d with
  | nil => simp [selectHeralds, prob]
  | cons e rest ih =>
    obtain ⟨k, v⟩ := e
    unfold selectHeralds at ih ⊢
    by_cases hk : heraldsOk h k
    · rw [List.filter_cons_of_pos (by simpa using hk)]
      simp only [prob]
      by_cases hkt : k = t
      · subst hkt; simp [hk]
      · simp only [hkt, if_false]; exact ih
    · rw [List.filter_cons_of_neg (by simpa using hk)]
      simp only [prob]
      by_cases hkt : k = t
      · subst hkt; simp only [if_true]; rw [ih]; simp [hk]
      · simp only [hkt, if_false]; exact ih

theorem selectHeralds_idem (h : List (ℕ × ℕ)) (d : Dist (List ℕ) K) :
    selectHeralds h (selectHeralds h d) = selectHeralds h d := by
  unfold selectHeralds
  rw [List.filter_filter]
  congr 1
  funext e
  simp

end select

end PM.C08
